#!/usr/bin/env python3
"""py2v -- fail-closed translator from a small subset of Python to Gallina.

Tie "T" of DESIGN.md: re-reads /repo's *current* sources with `ast` and
regenerates

  coq/Gen_frames.v   utils.fit_frames and Array.iterindices as Z-level functions
  coq/Gen_tables.v   every constant table the properties depend on, plus the
                     documented compatibility tables of docs/readcode.rst

Anything outside the supported subset aborts the translation (exit status 2)
with the offending node, so that a check reports that the tie no longer holds
instead of silently proving theorems about something else.

Semantics assigned to the subset (this file is part of the trusted base):
  * Python int                -> Z (unbounded, as in Python)
  * //  %                     -> Z.div, Z.modulo (both floor; identical to
                                 Python for every sign combination, and x//0 is
                                 guarded in the code translated here)
  * int(x)                    -> x     (arguments are ints)
  * raise ValueError(...)     -> Err ValueError     (message dropped)
  * parameter with default None -> option Z; `if x is None: x = e` rebinding
  * `for _ in range(e)` with `yield` -> structural recursion (`loop`) on
    Z.to_nat e carrying the tuple of variables assigned in the body and the
    list of values yielded so far; a generator returns Ok of that list
  * `if c: A else: B; REST`   -> if c then [A; REST] else [B; REST]
"""
import ast
import json
import re
import sys
from pathlib import Path


class Unsupported(Exception):
    pass


def fail(node, why):
    where = f"line {getattr(node, 'lineno', '?')}"
    try:
        src = ast.unparse(node)
    except Exception:
        src = repr(node)
    raise Unsupported(f"{why} at {where}: {src[:200]}")


# ---------------------------------------------------------------------------
# function translation
# ---------------------------------------------------------------------------

class FunTr:
    def __init__(self, fn, name, known_funs, self_len_name=None):
        self.fn = fn
        self.name = name
        self.known = known_funs          # name -> (param names in order)
        self.self_len = self_len_name
        self.params = []                 # (name, kind) kind in Z, optZ, bool
        self.isgen = any(isinstance(n, (ast.Yield, ast.YieldFrom))
                         for n in ast.walk(fn))
        args = fn.args
        if args.vararg or args.kwarg or args.kwonlyargs or args.posonlyargs:
            fail(fn, "unsupported parameter kind")
        names = [a.arg for a in args.args]
        defaults = [None] * (len(names) - len(args.defaults)) + list(args.defaults)
        for n, d in zip(names, defaults):
            if n == 'self':
                continue
            if d is None:
                self.params.append((n, 'Z'))
            elif isinstance(d, ast.Constant) and d.value is None:
                self.params.append((n, 'optZ'))
            elif isinstance(d, ast.Constant) and isinstance(d.value, bool):
                self.params.append((n, 'bool'))
            else:
                fail(d, "unsupported default value")

    # -- expressions --------------------------------------------------------
    def zexpr(self, e, env):
        if isinstance(e, ast.Constant) and isinstance(e.value, int) \
                and not isinstance(e.value, bool):
            return f"({e.value})" if e.value < 0 else str(e.value)
        if isinstance(e, ast.Name):
            if env.get(e.id) != 'Z':
                fail(e, f"name is not an integer variable here ({env.get(e.id)})")
            return e.id
        if isinstance(e, ast.BinOp):
            ops = {ast.Add: '+', ast.Sub: '-', ast.Mult: '*',
                   ast.FloorDiv: '/', ast.Mod: 'mod'}
            if type(e.op) not in ops:
                fail(e, "unsupported arithmetic operator")
            return f"({self.zexpr(e.left, env)} {ops[type(e.op)]} " \
                   f"{self.zexpr(e.right, env)})"
        if isinstance(e, ast.UnaryOp) and isinstance(e.op, ast.USub):
            return f"(- {self.zexpr(e.operand, env)})"
        if isinstance(e, ast.Call) and isinstance(e.func, ast.Name) \
                and e.func.id == 'int' and len(e.args) == 1 and not e.keywords:
            return self.zexpr(e.args[0], env)
        if isinstance(e, ast.Call) and isinstance(e.func, ast.Name) \
                and e.func.id in ('min', 'max') and len(e.args) == 2 and not e.keywords:
            return f"(Z.{e.func.id} {self.zexpr(e.args[0], env)} {self.zexpr(e.args[1], env)})"
        if isinstance(e, ast.IfExp):
            return f"(if {self.bexpr(e.test, env)} then {self.zexpr(e.body, env)} else {self.zexpr(e.orelse, env)})"
        # self.shape[0]
        if (isinstance(e, ast.Subscript) and isinstance(e.value, ast.Attribute)
                and isinstance(e.value.value, ast.Name)
                and e.value.value.id == 'self' and e.value.attr == 'shape'
                and isinstance(e.slice, ast.Constant) and e.slice.value == 0
                and self.self_len):
            return self.self_len
        fail(e, "unsupported integer expression")

    def bexpr(self, e, env):
        if isinstance(e, ast.BoolOp):
            op = '&&' if isinstance(e.op, ast.And) else '||'
            return '(' + f' {op} '.join(self.bexpr(v, env) for v in e.values) + ')'
        if isinstance(e, ast.UnaryOp) and isinstance(e.op, ast.Not):
            return f"(negb {self.bexpr(e.operand, env)})"
        if isinstance(e, ast.Compare) and len(e.ops) > 1:
            # a < b <= c  ==  (a < b) and (b <= c)
            parts, left = [], e.left
            for op, right in zip(e.ops, e.comparators):
                parts.append(self.bexpr(ast.Compare(left=left, ops=[op], comparators=[right]), env))
                left = right
            return '(' + ' && '.join(parts) + ')'
        if isinstance(e, ast.Compare):
            a, b = self.zexpr(e.left, env), self.zexpr(e.comparators[0], env)
            op = e.ops[0]
            tbl = {ast.Lt: '<?', ast.LtE: '<=?', ast.Gt: '>?', ast.GtE: '>=?',
                   ast.Eq: '=?'}
            if type(op) in tbl:
                return f"({a} {tbl[type(op)]} {b})"
            if isinstance(op, ast.NotEq):
                return f"(negb ({a} =? {b}))"
            fail(e, "unsupported comparison")
        if isinstance(e, ast.Name) and env.get(e.id) == 'bool':
            return e.id
        fail(e, "unsupported boolean expression")

    # -- statements ---------------------------------------------------------
    def final(self, env):
        if self.isgen:
            return "Ok ys"
        fail(self.fn, "function falls off its end without return")

    def is_none_test(self, t, env):
        return (isinstance(t, ast.Compare) and len(t.ops) == 1
                and isinstance(t.ops[0], ast.Is)
                and isinstance(t.left, ast.Name)
                and env.get(t.left.id) == 'optZ'
                and isinstance(t.comparators[0], ast.Constant)
                and t.comparators[0].value is None)

    def assigned(self, stmts):
        out = []
        for s in stmts:
            if isinstance(s, ast.Assign) and len(s.targets) == 1 \
                    and isinstance(s.targets[0], ast.Name):
                n = s.targets[0].id
            elif isinstance(s, ast.AugAssign) and isinstance(s.target, ast.Name):
                n = s.target.id
            elif isinstance(s, ast.Expr) and isinstance(s.value, ast.Yield):
                continue
            else:
                fail(s, "unsupported statement in loop body")
            if n not in out:
                out.append(n)
        return out

    def stmts(self, ss, env, ind):
        pad = '  ' * ind
        if not ss:
            return pad + self.final(env)
        s, rest = ss[0], ss[1:]
        if isinstance(s, ast.Expr) and isinstance(s.value, ast.Constant) \
                and isinstance(s.value.value, str):      # docstring
            return self.stmts(rest, env, ind)
        if isinstance(s, ast.Raise):
            exc = s.exc
            if isinstance(exc, ast.Call):
                exc = exc.func
            if not (isinstance(exc, ast.Name) and exc.id == 'ValueError'):
                fail(s, "only ValueError can be raised")
            return pad + "Err ValueError"
        if isinstance(s, ast.Return):
            if self.isgen:
                fail(s, "return in generator")
            v = s.value
            if isinstance(v, ast.Tuple):
                return pad + "Ok (" + ", ".join(self.zexpr(x, env) for x in v.elts) + ")"
            return pad + f"Ok ({self.zexpr(v, env)})"
        if isinstance(s, ast.Assign):
            if len(s.targets) != 1:
                fail(s, "multiple assignment targets")
            t = s.targets[0]
            if isinstance(t, ast.Name):
                if env.get(t.id) == 'optZ':
                    # x = e if x is None else x   /   x = x if x is not None else e
                    v = s.value
                    dflt = None
                    if isinstance(v, ast.IfExp) and isinstance(v.test, ast.Compare) and len(v.test.ops) == 1 \
                            and isinstance(v.test.left, ast.Name) and v.test.left.id == t.id \
                            and isinstance(v.test.comparators[0], ast.Constant) and v.test.comparators[0].value is None:
                        if isinstance(v.test.ops[0], ast.Is) and isinstance(v.orelse, ast.Name) and v.orelse.id == t.id:
                            dflt = v.body
                        elif isinstance(v.test.ops[0], ast.IsNot) and isinstance(v.body, ast.Name) and v.body.id == t.id:
                            dflt = v.orelse
                    if dflt is None:
                        fail(s, "assignment to an optional parameter outside "
                                "`if x is None`")
                    envn = dict(env); envn[t.id] = 'absent'
                    val = self.zexpr(dflt, envn)
                    envz = dict(env); envz[t.id] = 'Z'
                    return pad + f"let {t.id} := match {t.id} with None => {val} " \
                        f"| Some {t.id} => {t.id} end in\n" + self.stmts(rest, envz, ind)
                e2 = dict(env); e2[t.id] = 'Z'
                return pad + f"let {t.id} := {self.zexpr(s.value, env)} in\n" \
                    + self.stmts(rest, e2, ind)
            if isinstance(t, ast.Tuple) and isinstance(s.value, ast.Call) \
                    and isinstance(s.value.func, ast.Name) \
                    and s.value.func.id in self.known:
                call = self.call(s.value, env)
                names = []
                e2 = dict(env)
                for x in t.elts:
                    if not isinstance(x, ast.Name):
                        fail(s, "unsupported tuple target")
                    names.append(x.id)
                    if x.id != '_':
                        e2[x.id] = 'Z'
                pat = "(" + ", ".join(names) + ")"
                return pad + f"match {call} with\n{pad}| Err e => Err e\n" \
                    f"{pad}| Ok {pat} =>\n" + self.stmts(rest, e2, ind + 1) \
                    + f"\n{pad}end"
            fail(s, "unsupported assignment")
        if isinstance(s, ast.AugAssign):
            if not isinstance(s.target, ast.Name) or env.get(s.target.id) != 'Z':
                fail(s, "unsupported augmented assignment")
            ops = {ast.Add: '+', ast.Sub: '-', ast.Mult: '*'}
            if type(s.op) not in ops:
                fail(s, "unsupported augmented operator")
            n = s.target.id
            return pad + f"let {n} := ({n} {ops[type(s.op)]} " \
                f"{self.zexpr(s.value, env)}) in\n" + self.stmts(rest, env, ind)
        if isinstance(s, ast.Expr) and isinstance(s.value, ast.Yield):
            v = s.value.value
            if not isinstance(v, ast.Tuple):
                fail(s, "only tuples can be yielded")
            tup = "(" + ", ".join(self.zexpr(x, env) for x in v.elts) + ")"
            return pad + f"let ys := ys ++ [{tup}] in\n" + self.stmts(rest, env, ind)
        if isinstance(s, ast.If) and self.is_int_normalisation(s, env):
            # `if isinstance(x, np.integer): x = int(x)`: a change of representation (NumPy
            # integer -> Python int of the same value); the identity on the model's integers
            return self.stmts(rest, env, ind)
        if isinstance(s, ast.If):
            if self.is_none_test(s.test, env):
                x = s.test.left.id
                body = s.body
                if not (body and isinstance(body[0], ast.Assign)
                        and len(body[0].targets) == 1
                        and isinstance(body[0].targets[0], ast.Name)
                        and body[0].targets[0].id == x):
                    fail(s, "`if x is None` must start by assigning x")
                envn = dict(env); envn[x] = 'absent'
                val = self.zexpr(body[0].value, envn)
                envz = dict(env); envz[x] = 'Z'
                if len(body) == 1 and not s.orelse:   # plain default: no duplication
                    return pad + f"let {x} := match {x} with None => {val} " \
                        f"| Some {x} => {x} end in\n" + self.stmts(rest, envz, ind)
                a = pad + f"  let {x} := {val} in\n" + \
                    self.stmts(body[1:] + rest, envz, ind + 1)
                b = self.stmts(list(s.orelse) + rest, envz, ind + 1)
                return pad + f"match {x} with\n{pad}| None =>\n{a}\n" \
                    f"{pad}| Some {x} =>\n{b}\n{pad}end"
            c = self.bexpr(s.test, env)
            a = self.stmts(list(s.body) + rest, env, ind + 1)
            b = self.stmts(list(s.orelse) + rest, env, ind + 1)
            return pad + f"if {c} then\n{a}\n{pad}else\n{b}"
        if isinstance(s, ast.For):
            if not self.isgen:
                fail(s, "loops are supported in generators only")
            it = s.iter
            if not (isinstance(it, ast.Call) and isinstance(it.func, ast.Name)
                    and it.func.id == 'range' and len(it.args) == 1
                    and isinstance(s.target, ast.Name) and s.target.id == '_'
                    and not s.orelse):
                fail(s, "only `for _ in range(e)` is supported")
            n = self.zexpr(it.args[0], env)
            vs = self.assigned(s.body)
            for v in vs:
                if env.get(v) != 'Z':
                    fail(s, f"loop variable {v} is not defined before the loop")
            tup = "(" + ", ".join(vs + ['ys']) + ")"
            saved_final = self.final
            self.final = lambda env_, t=tup: t
            body = self.stmts(list(s.body), env, ind + 2)
            self.final = saved_final
            return pad + f"let '{tup} :=\n{pad}  loop (Z.to_nat {n})\n" \
                f"{pad}    (fun '{tup} =>\n{body})\n{pad}    {tup} in\n" \
                + self.stmts(rest, env, ind)
        fail(s, "unsupported statement")

    def is_int_normalisation(self, s, env):
        t = s.test
        if s.orelse or len(s.body) != 1:
            return False
        if not (isinstance(t, ast.Call) and isinstance(t.func, ast.Name) and t.func.id == 'isinstance'
                and len(t.args) == 2 and not t.keywords and isinstance(t.args[0], ast.Name)
                and isinstance(t.args[1], ast.Attribute) and isinstance(t.args[1].value, ast.Name)
                and t.args[1].value.id == 'np' and t.args[1].attr == 'integer'):
            return False
        x = t.args[0].id
        b = s.body[0]
        if env.get(x) != 'Z':
            return False
        return (isinstance(b, ast.Assign) and len(b.targets) == 1 and isinstance(b.targets[0], ast.Name)
                and b.targets[0].id == x and isinstance(b.value, ast.Call) and isinstance(b.value.func, ast.Name)
                and b.value.func.id == 'int' and len(b.value.args) == 1 and not b.value.keywords
                and isinstance(b.value.args[0], ast.Name) and b.value.args[0].id == x)

    def call(self, c, env):
        pnames = self.known[c.func.id]
        given = {}
        for p, a in zip(pnames, c.args):
            given[p[0]] = a
        for kw in c.keywords:
            if kw.arg is None or kw.arg not in [p[0] for p in pnames]:
                fail(c, "unknown keyword argument")
            given[kw.arg] = kw.value
        parts = []
        for (p, kind) in pnames:
            if p not in given:
                if kind == 'optZ':
                    parts.append('None')
                    continue
                fail(c, f"missing argument {p}")
            if kind == 'optZ':
                parts.append(f"(Some {self.zexpr(given[p], env)})")
            elif kind == 'bool':
                parts.append(self.bexpr(given[p], env))
            else:
                parts.append(self.zexpr(given[p], env))
        return f"{c.func.id} " + " ".join(parts)

    def render(self):
        env = {n: k for n, k in self.params}
        ty = {'Z': 'Z', 'optZ': 'option Z', 'bool': 'bool'}
        ps = []
        if self.self_len:
            ps.append(f"({self.self_len} : Z)")
            env[self.self_len] = 'Z'
        ps += [f"({n} : {ty[k]})" for n, k in self.params]
        body = list(self.fn.body)
        head = "  let ys := @nil (Z * Z) in\n" if self.isgen else ""
        return f"Definition {self.name} " + " ".join(ps) + " :=\n" + head + \
            self.stmts(body, env, 1) + ".\n"


def find_function(tree, name, cls=None):
    scope = tree.body
    if cls is not None:
        for n in tree.body:
            if isinstance(n, ast.ClassDef) and n.name == cls:
                scope = n.body
                break
        else:
            raise Unsupported(f"class {cls} not found")
    for n in scope:
        if isinstance(n, ast.FunctionDef) and n.name == name:
            return n
    raise Unsupported(f"function {name} not found")


HEADER = """(* GENERATED by /verif/gen/py2v.py from %s -- do not edit.
   Regenerated from /repo's working tree on every check run. *)
From Coq Require Import ZArith List Bool String.
From Darr Require Import Base.
Import ListNotations.
Open Scope Z_scope.

"""


def gen_frames(repo):
    utils = ast.parse((repo / 'darr/utils.py').read_text(encoding='utf-8'))
    array = ast.parse((repo / 'darr/array.py').read_text(encoding='utf-8'))
    ff = FunTr(find_function(utils, 'fit_frames'), 'fit_frames', {})
    known = {'fit_frames': ff.params}
    ii = FunTr(find_function(array, 'iterindices', 'Array'), 'iterindices',
               known, self_len_name='len0')
    return HEADER % "darr/utils.py (fit_frames), darr/array.py (Array.iterindices)" \
        + ff.render() + "\n" + ii.render()


# ---------------------------------------------------------------------------
# tables
# ---------------------------------------------------------------------------

def coq_str(s):
    if not isinstance(s, str):
        raise Unsupported(f"not a string: {s!r}")
    if any(ord(c) > 126 or ord(c) < 32 for c in s):
        raise Unsupported(f"non-printable/ non-ASCII character in table string {s!r}")
    return '"' + s.replace('"', '""') + '"'


def module_literals(path):
    """All module-level and class-level `NAME = <literal>` assignments."""
    tree = ast.parse(path.read_text(encoding='utf-8'))
    out = {}

    def scan(body, prefix, classenv):
        for n in body:
            if isinstance(n, ast.ClassDef):
                scan(n.body, prefix + n.name + '.', {})
            elif isinstance(n, ast.Assign) and len(n.targets) == 1 \
                    and isinstance(n.targets[0], ast.Name):
                try:
                    v = ast.literal_eval(n.value)
                except Exception:
                    # sets of previously defined string constants
                    if isinstance(n.value, ast.Set) and all(
                            isinstance(e, ast.Name) and e.id in classenv
                            for e in n.value.elts):
                        v = {classenv[e.id] for e in n.value.elts}
                    else:
                        continue
                classenv[n.targets[0].id] = v
                out[prefix + n.targets[0].id] = v
    scan(tree.body, '', {})
    return out


def func_local_tuple(path, funcname, varname):
    tree = ast.parse(path.read_text(encoding='utf-8'))
    for n in ast.walk(tree):
        if isinstance(n, ast.FunctionDef) and n.name == funcname:
            for m in ast.walk(n):
                if isinstance(m, ast.Assign) and len(m.targets) == 1 \
                        and isinstance(m.targets[0], ast.Name) \
                        and m.targets[0].id == varname:
                    return ast.literal_eval(m.value)
    raise Unsupported(f"{varname} not found in {funcname}")


def func_local_set(path, cls, funcname, varname):
    return func_local_tuple(path, funcname, varname)


def dict_keys(path, name):
    """Keys (string constants) of a module-level dict whose values are names."""
    tree = ast.parse(path.read_text(encoding='utf-8'))
    for n in tree.body:
        if isinstance(n, ast.Assign) and len(n.targets) == 1 \
                and isinstance(n.targets[0], ast.Name) and n.targets[0].id == name \
                and isinstance(n.value, ast.Dict):
            ks = []
            for k, v in zip(n.value.keys, n.value.values):
                if not (isinstance(k, ast.Constant) and isinstance(k.value, str)
                        and isinstance(v, ast.Name)):
                    raise Unsupported(f"{name}: entry is not 'str: function'")
                ks.append((k.value, v.id))
            return ks
    raise Unsupported(f"dict {name} not found")


def languages_tuple(path, funcname):
    """The `languages = ((heading, key), ...)` tuple inside readcodetxt."""
    return func_local_tuple(path, funcname, 'languages')


NUMTYPES = ['int8', 'int16', 'int32', 'int64', 'uint8', 'uint16', 'uint32',
            'uint64', 'float16', 'float32', 'float64', 'complex64', 'complex128']


def emit_opt_str_table(name, d):
    """dict numtype -> (str | None | int | tuple)  as list (string * option string)."""
    if sorted(d.keys()) != sorted(NUMTYPES):
        raise Unsupported(f"{name}: keys are not the 13 numeric types")
    rows = []
    for k in NUMTYPES:
        v = d[k]
        if v is None:
            rows.append(f"  ({coq_str(k)}, None)")
        else:
            if isinstance(v, tuple):
                v = "|".join(str(x) for x in v)
            rows.append(f"  ({coq_str(k)}, Some {coq_str(str(v))})")
    return f"Definition {name} : list (string * option string) :=\n [" + \
        ";\n ".join(r.strip() for r in rows) + "].\n"


def emit_str_table(name, d, keys):
    if sorted(d.keys()) != sorted(keys):
        raise Unsupported(f"{name}: unexpected keys {sorted(d.keys())}")
    rows = [f"({coq_str(k)}, {coq_str(d[k])})" for k in keys]
    return f"Definition {name} : list (string * string) :=\n [" + \
        ";\n  ".join(rows) + "].\n"


def emit_str_list(name, xs):
    return f"Definition {name} : list string :=\n [" + \
        "; ".join(coq_str(x) for x in xs) + "].\n"


def parse_doc_tables(rst):
    """The two grid tables of docs/readcode.rst -> (array table, ragged table).
    Each: dict rowlabel -> dict column -> 'X' / '' ."""
    lines = rst.splitlines()
    tables = []
    i = 0
    while i < len(lines):
        if lines[i].startswith('+--') or lines[i].startswith('+=='):
            j = i
            block = []
            while j < len(lines) and (lines[j].startswith('+') or lines[j].startswith('|')):
                block.append(lines[j])
                j += 1
            tables.append(block)
            i = j
        else:
            i += 1
    out = []
    for block in tables:
        rows = [l for l in block if l.startswith('|')]
        cells = [[c.strip() for c in r.strip('|').split('|')] for r in rows]
        header = cells[0]
        t = {}
        for r in cells[1:]:
            if len(r) != len(header):
                raise Unsupported("doc table: ragged row " + repr(r))
            t[r[0]] = {h: v for h, v in zip(header[1:], r[1:])}
        out.append((header[1:], t))
    return out


def ragged_examples(path, funcs):
    """In every ragged composer: the if / elif / else chain that picks the example `(k, position)`
    from `len(dra)`.  Returns {language key: [(op, bound, k, word) ..., (None, None, k, word)]}."""
    tree = ast.parse(path.read_text(encoding='utf-8'))
    defs = {n.name: n for n in tree.body if isinstance(n, ast.FunctionDef)}
    out = {}
    for key, fname in funcs:
        if fname not in defs:
            raise Unsupported(f"readcoderaggedarray.{fname} not found")
        chain = None
        for node in ast.walk(defs[fname]):
            if isinstance(node, ast.If) and _is_example_assign(node.body):
                chain = node
                break
        if chain is None:
            raise Unsupported(f"{fname}: no `k, position = ...` selection on len(dra)")
        rows = []
        node = chain
        while True:
            t = node.test
            if not (isinstance(t, ast.Compare) and len(t.ops) == 1 and isinstance(t.left, ast.Call)
                    and isinstance(t.left.func, ast.Name) and t.left.func.id == 'len'
                    and len(t.left.args) == 1 and isinstance(t.left.args[0], ast.Name) and t.left.args[0].id == 'dra'
                    and isinstance(t.comparators[0], ast.Constant) and isinstance(t.comparators[0].value, int)):
                raise Unsupported(f"{fname}: example selection tests something else than len(dra) <op> int")
            op = {ast.Gt: '>', ast.Eq: '==', ast.GtE: '>=', ast.Lt: '<', ast.LtE: '<='}.get(type(t.ops[0]))
            if op is None:
                raise Unsupported(f"{fname}: comparison operator")
            k, w = _example_values(node.body, fname)
            rows.append((op, t.comparators[0].value, k, w))
            if len(node.orelse) == 1 and isinstance(node.orelse[0], ast.If):
                node = node.orelse[0]
                continue
            if not _is_example_assign(node.orelse):
                raise Unsupported(f"{fname}: example selection has no final else")
            k, w = _example_values(node.orelse, fname)
            rows.append((None, None, k, w))
            break
        out[key] = rows
    return out


def _is_example_assign(body):
    return (len(body) == 1 and isinstance(body[0], ast.Assign) and len(body[0].targets) == 1
            and isinstance(body[0].targets[0], ast.Tuple)
            and [getattr(e, 'id', None) for e in body[0].targets[0].elts] == ['k', 'position'])


def _example_values(body, fname):
    v = body[0].value
    if not (isinstance(v, ast.Tuple) and len(v.elts) == 2 and all(isinstance(e, ast.Constant) for e in v.elts)
            and isinstance(v.elts[0].value, int) and isinstance(v.elts[1].value, str)):
        raise Unsupported(f"{fname}: example values are not literals")
    return v.elts[0].value, v.elts[1].value


def emit_ragged_examples(ex):
    cmp = {'>': lambda b: f"Z.ltb {b} n", '==': lambda b: f"Z.eqb n {b}", '>=': lambda b: f"Z.leb {b} n",
           '<': lambda b: f"Z.ltb n {b}", '<=': lambda b: f"Z.leb n {b}"}
    lines = ["(* the example `(k, position)` every ragged composer picks from len(dra) *)",
             "Definition ragged_example (l : string) (n : Z) : Z * string :="]
    for key, rows in ex.items():
        body = ""
        for op, b, k, w in rows:
            if op is None:
                body += f"({k}, {coq_str(w)})"
            else:
                body += f"if {cmp[op](b)} then ({k}, {coq_str(w)}) else "
        lines.append(f"  if String.eqb l {coq_str(key)} then {body} else")
    lines.append('  (0, "").\n')
    return "\n".join(lines)


def _int_const(e):
    """an integer constant expression: literals combined with + - * // **"""
    if isinstance(e, ast.Constant) and isinstance(e.value, int) and not isinstance(e.value, bool):
        return e.value
    if isinstance(e, ast.UnaryOp) and isinstance(e.op, ast.USub):
        return -_int_const(e.operand)
    if isinstance(e, ast.BinOp):
        a, b = _int_const(e.left), _int_const(e.right)
        if isinstance(e.op, ast.Add): return a + b
        if isinstance(e.op, ast.Sub): return a - b
        if isinstance(e.op, ast.Mult): return a * b
        if isinstance(e.op, ast.FloorDiv): return a // b
        if isinstance(e.op, ast.Pow) and 0 <= b <= 128: return a ** b
    raise Unsupported("not an integer constant expression")


def r_size_limit(path):
    """readcoder (ragged): `if dra._values.size > LIMIT: return None` for int64 indices"""
    tree = ast.parse(path.read_text(encoding='utf-8'))
    fn = next((n for n in tree.body if isinstance(n, ast.FunctionDef) and n.name == 'readcoder'), None)
    if fn is None:
        raise Unsupported("readcoderaggedarray.readcoder not found")
    found = []
    for node in ast.walk(fn):
        if isinstance(node, ast.Compare) and len(node.ops) == 1 and isinstance(node.left, ast.Attribute) \
                and node.left.attr == 'size':
            op = {ast.Gt: '>', ast.GtE: '>='}.get(type(node.ops[0]))
            if op is None:
                raise Unsupported("readcoder: size test is not > or >=")
            found.append((op, _int_const(node.comparators[0])))
    if len(found) != 1:
        raise Unsupported(f"readcoder: expected one test on the values size, found {len(found)}")
    op, c = found[0]
    return c if op == '>' else c - 1       # largest size for which code is still given


def gen_tables(repo):
    rc = module_literals(repo / 'darr/readcodearray.py')
    nt = module_literals(repo / 'darr/numtype.py')
    ar = module_literals(repo / 'darr/array.py')
    rg = module_literals(repo / 'darr/raggedarray.py')
    out = [HEADER % "darr/numtype.py, darr/array.py, darr/raggedarray.py, "
                    "darr/readcodearray.py, darr/readcoderaggedarray.py, "
                    "docs/readcode.rst"]
    out.append("Open Scope string_scope.\n")
    # numeric types
    if 'numtypesdescr' not in nt or not isinstance(nt['numtypesdescr'], dict):
        raise Unsupported("numtype.numtypesdescr is not a literal dict")
    out.append(emit_str_list('numtypes_keys', list(nt['numtypesdescr'].keys())))
    # protected files, required keys, index types
    for nm, key in (('array_protectedfiles', 'Array._protectedfiles'),
                    ('ragged_protectedfiles', 'RaggedArray._protectedfiles')):
        src = ar if key.startswith('Array.') else rg
        if key not in src or not isinstance(src[key], (set, frozenset)):
            raise Unsupported(f"{key} is not a literal set")
        out.append(emit_str_list(nm, sorted(src[key])))
    out.append(emit_str_list('array_filenames', [
        ar['Array._datafilename'], ar['Array._arraydescrfilename'],
        ar['Array._metadatafilename'], ar['Array._readmefilename']]))
    rk = func_local_tuple(repo / 'darr/array.py', '_read_arraydescr', 'requiredkeys')
    out.append(emit_str_list('requiredkeys', sorted(rk)))
    it = func_local_tuple(repo / 'darr/raggedarray.py', 'asraggedarray',
                          'supportedindextypes')
    out.append(emit_str_list('supportedindextypes', list(it)))
    # per-language tables
    for nm in ('typedescr_numpy', 'typedescr_scilab', 'readfunc_scilab',
               'typedescr_matlab', 'typedescr_r', 'typedescr_julia',
               'typedescr_idl', 'typedescr_mathematica', 'typedescr_maple',
               'typedescr_python'):
        if nm not in rc or not isinstance(rc[nm], dict):
            raise Unsupported(f"readcodearray.{nm} is not a literal dict")
        out.append(emit_opt_str_table(nm, rc[nm]))
    for nm in ('endianness_numpy', 'endianness_scilab', 'endianness_matlab',
               'endianness_r', 'endianness_julia', 'endianness_idl',
               'endianness_mathematica', 'endianness_maple', 'endianness_python'):
        if nm not in rc or not isinstance(rc[nm], dict):
            raise Unsupported(f"readcodearray.{nm} is not a literal dict")
        out.append(emit_str_table(nm, rc[nm], ['little', 'big']))
    fk = dict_keys(repo / 'darr/readcodearray.py', 'readcodefunc')
    out.append("Definition readcodefunc_array : list (string * string) :=\n [" +
               ";\n  ".join(f"({coq_str(k)}, {coq_str(v)})" for k, v in fk) + "].\n")
    fk = dict_keys(repo / 'darr/readcoderaggedarray.py', 'readcodefunc')
    out.append("Definition readcodefunc_ragged : list (string * string) :=\n [" +
               ";\n  ".join(f"({coq_str(k)}, {coq_str(v)})" for k, v in fk) + "].\n")
    out.append(emit_ragged_examples(ragged_examples(repo / 'darr/readcoderaggedarray.py', fk)))
    out.append("(* R read code for int64 indices is given up to this number of values *)\n"
               f"Definition r_size_limit : Z := {r_size_limit(repo / 'darr/readcoderaggedarray.py')}.\n")
    la = languages_tuple(repo / 'darr/array.py', 'readcodetxt')
    out.append("Definition readme_languages_array : list (string * string) :=\n [" +
               ";\n  ".join(f"({coq_str(h)}, {coq_str(k)})" for h, k in la) + "].\n")
    lr = languages_tuple(repo / 'darr/raggedarray.py', 'readcodetxt')
    out.append("Definition readme_languages_ragged : list (string * string) :=\n [" +
               ";\n  ".join(f"({coq_str(h)}, {coq_str(k)})" for h, k in lr) + "].\n")
    # documented compatibility tables
    docs = parse_doc_tables((repo / 'docs/readcode.rst').read_text(encoding='utf-8'))
    if len(docs) != 2:
        raise Unsupported(f"docs/readcode.rst: expected 2 grid tables, found {len(docs)}")
    for nm, (cols, t) in zip(('doc_array', 'doc_ragged'), docs):
        out.append(emit_str_list(nm + '_columns', cols))
        rows = []
        for rowlabel, cells in t.items():
            # 'X', 'X*', 'X**', 'X(1)' = code is provided (footnotes qualify how)
            for c in cols:
                if not re.fullmatch(r'(X(\*{1,2}|\(\d\))?)?', cells[c]):
                    raise Unsupported(f"doc table cell {rowlabel}/{c} = {cells[c]!r}")
            marks = "; ".join('true' if cells[c].startswith('X') else 'false' for c in cols)
            rows.append(f"({coq_str(rowlabel)}, [{marks}])")
        out.append(f"Definition {nm} : list (string * list bool) :=\n [" +
                   ";\n  ".join(rows) + "].\n")
    return "\n".join(out)


# ---------------------------------------------------------------------------
# effect skeletons (tie T for the ORDER of file effects: C17 / C09 / C03)
# ---------------------------------------------------------------------------
# A function body is reduced to its control skeleton over a fixed vocabulary of
# effect-relevant calls; everything else is dropped.  Fail-closed on statement
# kinds the reduction does not know.

EFFECT_VOCAB = ('tofile', 'truncate', '_update_len', '_update_lens', '_update_arrayinfo', '_update_readmetxt',
                '_update_arraydescr', '_write_jsondict', '_write_txt', '_append', 'truncate_array',
                'append', 'iterappend', 'write', 'unlink', 'rename', 'replace', 'remove')


def _call_name(c):
    f = c.func
    if isinstance(f, ast.Attribute):
        return f.attr
    if isinstance(f, ast.Name):
        return f.id
    return None


def _subarray_of(c):
    """'@_values' / '@_indices' when the call's receiver or first argument names that
    sub-array of a RaggedArray (the effect then lands in that sub-directory)"""
    where = []
    if isinstance(c.func, ast.Attribute):
        where.append(c.func.value)
    where += c.args[:1]
    for w in where:
        for n in ast.walk(w):
            if isinstance(n, ast.Attribute) and n.attr in ('_values', '_indices'):
                return '@' + n.attr
            if isinstance(n, ast.Name) and n.id in _LOOPVAR:
                for m in ast.walk(_LOOPVAR[n.id]):
                    if isinstance(m, ast.Attribute) and m.attr in ('_values', '_indices'):
                        return '@' + m.attr
    return ''


_LOOPVAR = {}   # loop variables of an unrolled `for x, .. in ((e1, ..), (e2, ..))`


def _calls_in(node):
    """effect calls inside an expression / simple statement, in evaluation order"""
    out = []

    def visit(n):
        if isinstance(n, (ast.Lambda, ast.FunctionDef, ast.ClassDef)):
            return
        for ch in ast.iter_child_nodes(n):
            visit(ch)
        if isinstance(n, ast.Call) and _call_name(n) in EFFECT_VOCAB:
            out.append(_call_name(n) + _subarray_of(n))
    if node is not None:
        visit(node)
    return out


def _seq(items):
    items = [i for i in items if i != 'Skip']
    if not items:
        return 'Skip'
    r = items[-1]
    for i in reversed(items[:-1]):
        r = f'(Seq {i} {r})'
    return r


def _sk_stmts(ss):
    return _seq([_sk_stmt(s) for s in ss])


def _sk_stmt(s):
    calls = lambda n: [f'(Call "{c}")' for c in _calls_in(n)]
    if isinstance(s, (ast.Expr, ast.Assign, ast.AugAssign, ast.AnnAssign, ast.Delete, ast.Assert)):
        return _seq(calls(s))
    if isinstance(s, ast.Pass):
        return 'Skip'
    if isinstance(s, ast.Return):
        return _seq(calls(s.value) + ['Return'])
    if isinstance(s, ast.Raise):
        return _seq(calls(s.exc) + ['Raise'])
    if isinstance(s, ast.If):
        return _seq(calls(s.test) + [f'(If {_sk_stmts(s.body)} {_sk_stmts(s.orelse)})'])
    if isinstance(s, ast.For):
        if s.orelse:
            fail(s, 'for-else in an effect skeleton')
        if isinstance(s.iter, ast.Tuple) and s.iter.elts and isinstance(s.target, ast.Tuple) \
                and all(isinstance(t, ast.Name) for t in s.target.elts) \
                and all(isinstance(e, ast.Tuple) and len(e.elts) == len(s.target.elts) for e in s.iter.elts):
            # a loop over a literal tuple of tuples is unrolled
            parts = []
            for e in s.iter.elts:
                saved = dict(_LOOPVAR)
                for t, v in zip(s.target.elts, e.elts):
                    _LOOPVAR[t.id] = v
                try:
                    parts.append(_sk_stmts(s.body))
                finally:
                    _LOOPVAR.clear()
                    _LOOPVAR.update(saved)
            return _seq(parts)
        return _seq(calls(s.iter) + [f'(For {_sk_stmts(s.body)})'])
    if isinstance(s, ast.While):
        if s.orelse:
            fail(s, 'while-else in an effect skeleton')
        return f'(For {_seq(calls(s.test) + [_sk_stmts(s.body)])})'
    if isinstance(s, ast.With):
        pre = []
        for it in s.items:
            pre += calls(it.context_expr)
        return _seq(pre + [_sk_stmts(s.body)])
    if isinstance(s, ast.Try):
        if s.orelse:
            fail(s, 'try-else in an effect skeleton')
        body = _sk_stmts(s.body)
        if s.handlers:
            if len(s.handlers) != 1:
                fail(s, 'more than one except clause in an effect skeleton')
            body = f'(Try {body} {_sk_stmts(s.handlers[0].body)})'
        if s.finalbody:
            body = f'(Finally {body} {_sk_stmts(s.finalbody)})'
        return body
    if isinstance(s, (ast.Import, ast.ImportFrom, ast.Global, ast.Nonlocal)):
        return 'Skip'
    fail(s, f'statement {type(s).__name__} in an effect skeleton')


EFFECT_FUNS = (('darr/array.py', 'Array', '_update_arrayinfo', 'sk_update_arrayinfo'),
               ('darr/array.py', 'Array', '_update_len', 'sk_update_len'),
               ('darr/array.py', 'Array', '_append', 'sk_append'),
               ('darr/array.py', 'Array', 'iterappend', 'sk_iterappend'),
               ('darr/array.py', 'Array', 'append', 'sk_append_method'),
               ('darr/array.py', None, 'truncate_array', 'sk_truncate_array'),
               ('darr/raggedarray.py', None, 'truncate_raggedarray', 'sk_truncate_raggedarray'),
               ('darr/raggedarray.py', 'RaggedArray', '_append', 'sk_ragged_append'),
               ('darr/raggedarray.py', 'RaggedArray', '_update_lens', 'sk_ragged_update_lens'),
               ('darr/raggedarray.py', 'RaggedArray', 'iterappend', 'sk_ragged_iterappend'))

EFFECTS_HEADER = """(* GENERATED by /verif/gen/py2v.py from darr/array.py, darr/raggedarray.py -- do not edit.
   Control skeletons of the functions that change files, over the vocabulary
   %s;
   every other statement and call is dropped. *)
From Coq Require Import List String.
From Darr Require Import Skel.
Import ListNotations.
Open Scope string_scope.

"""


def gen_effects(repo):
    out = EFFECTS_HEADER % ' '.join(EFFECT_VOCAB)
    trees = {}
    for path, cls, fn, name in EFFECT_FUNS:
        if path not in trees:
            trees[path] = ast.parse((repo / path).read_text(encoding='utf-8'))
        f = find_function(trees[path], fn, cls)
        body = f.body
        if body and isinstance(body[0], ast.Expr) and isinstance(getattr(body[0], 'value', None), ast.Constant) \
                and isinstance(body[0].value.value, str):
            body = body[1:]
        out += f"Definition {name} : sk :=\n  {_sk_stmts(body)}.\n\n"
    return out


# ---------------------------------------------------------------------------
# the open-time size gate (tie T for C18): Array._check_arrayinfoconsistency
# ---------------------------------------------------------------------------
# Symbolic reading of a straight-line function over three quantities: the shape of the
# description, the item size of its dtype and the size of the data file.  Fail-closed.

_ZOPS = {ast.Mult: '*', ast.Add: '+', ast.Sub: '-'}
_ZFUN = {ast.FloorDiv: 'Z.div', ast.Mod: 'Z.modulo'}
_ZCMP = {ast.Eq: 'Z.eqb {a} {b}', ast.NotEq: 'negb (Z.eqb {a} {b})', ast.Lt: 'Z.ltb {a} {b}',
         ast.LtE: 'Z.leb {a} {b}', ast.Gt: 'Z.ltb {b} {a}', ast.GtE: 'Z.leb {b} {a}'}


def _is_shape_of_info(e, env):
    return (isinstance(e, ast.Subscript) and isinstance(e.value, ast.Name) and env.get(e.value.id) == '#info'
            and isinstance(e.slice, ast.Constant) and e.slice.value == 'shape')


def _gate_expr(e, env):
    if isinstance(e, ast.Name):
        v = env.get(e.id)
        if v is None or v.startswith('#'):
            fail(e, f'name {e.id} is not an integer quantity of the size gate')
        return v
    if isinstance(e, ast.Constant) and isinstance(e.value, int) and not isinstance(e.value, bool):
        return f'({e.value})' if e.value < 0 else str(e.value)
    if isinstance(e, ast.BinOp) and type(e.op) in _ZOPS:
        return f'({_gate_expr(e.left, env)} {_ZOPS[type(e.op)]} {_gate_expr(e.right, env)})'
    if isinstance(e, ast.BinOp) and type(e.op) in _ZFUN:
        return f'({_ZFUN[type(e.op)]} {_gate_expr(e.left, env)} {_gate_expr(e.right, env)})'
    if isinstance(e, ast.Call) and _call_name(e) in ('product', 'prod') and len(e.args) == 1 and not e.keywords \
            and _is_shape_of_info(e.args[0], env):
        return '(prodZ shape)'
    if isinstance(e, ast.Call) and _call_name(e) == 'int' and len(e.args) == 1 and not e.keywords:
        return _gate_expr(e.args[0], env)
    if isinstance(e, ast.Attribute) and e.attr == 'itemsize' and isinstance(e.value, ast.Name) \
            and env.get(e.value.id) == '#dtype':
        return 'isz'
    if isinstance(e, ast.Attribute) and e.attr == 'st_size' and isinstance(e.value, ast.Call) \
            and _call_name(e.value) == 'stat' and not e.value.args \
            and isinstance(e.value.func.value, ast.Attribute) and e.value.func.value.attr == '_datapath':
        return 'fsz'
    fail(e, 'expression outside the size-gate subset')


def _gate_cond(t, env):
    if isinstance(t, ast.Compare) and len(t.ops) == 1 and type(t.ops[0]) in _ZCMP:
        return '(' + _ZCMP[type(t.ops[0])].format(a=_gate_expr(t.left, env), b=_gate_expr(t.comparators[0], env)) + ')'
    if isinstance(t, ast.BoolOp):
        op = ' && ' if isinstance(t.op, ast.And) else ' || '
        return '(' + op.join(_gate_cond(v, env) for v in t.values) + ')'
    if isinstance(t, ast.UnaryOp) and isinstance(t.op, ast.Not):
        return f'(negb {_gate_cond(t.operand, env)})'
    fail(t, 'condition outside the size-gate subset')


def gen_gate(repo):
    tree = ast.parse((repo / 'darr/array.py').read_text(encoding='utf-8'))
    f = find_function(tree, '_check_arrayinfoconsistency', 'Array')
    env, rejects = {}, []
    for s in f.body:
        if isinstance(s, ast.Expr) and isinstance(s.value, ast.Constant) and isinstance(s.value.value, str):
            continue
        if isinstance(s, ast.Assign) and len(s.targets) == 1 and isinstance(s.targets[0], ast.Name):
            name, v = s.targets[0].id, s.value
            if isinstance(v, ast.Attribute) and v.attr == '_arrayinfo' and isinstance(v.value, ast.Name) \
                    and v.value.id == 'self':
                env[name] = '#info'
            elif isinstance(v, ast.Call) and _call_name(v) == 'dtype' and len(v.args) == 1 \
                    and isinstance(v.args[0], ast.Call) and _call_name(v.args[0]) == 'arrayinfotodtype' \
                    and len(v.args[0].args) == 1 and isinstance(v.args[0].args[0], ast.Name) \
                    and env.get(v.args[0].args[0].id) == '#info':
                env[name] = '#dtype'
            else:
                env[name] = _gate_expr(v, env)
            continue
        if isinstance(s, ast.If) and not s.orelse and len(s.body) == 1 and isinstance(s.body[0], ast.Raise):
            exc = s.body[0].exc
            if not (isinstance(exc, ast.Call) and _call_name(exc) == 'ValueError'):
                fail(s, 'the size gate raises something else than ValueError')
            rejects.append(_gate_cond(s.test, env))
            continue
        fail(s, f'statement {type(s).__name__} outside the size-gate subset')
    if not rejects:
        raise Unsupported('_check_arrayinfoconsistency refuses nothing')
    body = ' && '.join(f'negb {r}' for r in rejects)
    return ("(* GENERATED by /verif/gen/py2v.py from darr/array.py (Array._check_arrayinfoconsistency)\n"
            "   -- do not edit.  size_gate shape isz fsz = true: the open-time check lets a description with\n"
            "   this shape, whose dtype has item size isz, pass for a data file of fsz bytes. *)\n"
            "From Coq Require Import ZArith List Bool.\nFrom Darr Require Import Base.\nOpen Scope Z_scope.\n\n"
            f"Definition size_gate (shape : list Z) (isz fsz : Z) : bool :=\n  {body}.\n")


def main():
    repo = Path(sys.argv[1] if len(sys.argv) > 1 else '/repo')
    outdir = Path(sys.argv[2] if len(sys.argv) > 2 else '/verif/coq')
    status = 0
    for fname, gen in (('Gen_frames.v', gen_frames), ('Gen_tables.v', gen_tables), ('Gen_effects.v', gen_effects), ('Gen_gate.v', gen_gate)):
        try:
            text = gen(repo)
        except (Unsupported, SyntaxError, OSError, KeyError, ValueError) as e:
            print(f"py2v: TRANSLATION FAILED for {fname}: {type(e).__name__}: {e}")
            status = 2
            continue
        p = outdir / fname
        if not p.exists() or p.read_text(encoding='utf-8') != text:
            p.write_text(text, encoding='utf-8')
            print(f"py2v: wrote {p}")
        else:
            print(f"py2v: {p} unchanged")
    sys.exit(status)


if __name__ == '__main__':
    main()
