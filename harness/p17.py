"""C17 -- a process crash at any point never makes Darr return wrong data."""
import arrlib
import raglib
import p04
from arrlib import history_case, mk_op, nd_spec, rand_array
from raglib import rhistory_case, mk_rop, item_spec, INDEXTYPES
from common import NUMTYPES, czl_rle, cz, parse_coq_value

META = dict(
    coq_targets=['CheckArray.vo', 'CheckRagged.vo'],
    rule="scenarios {append, iterappend of 1..3 chunks, iterappend failing at each position by a "
         "raising iterable / wrong shape (recovery path), truncate, metadata creation / change / "
         "deletion} x {Array 1-D / 2-D, RaggedArray atom () / (2,)} x {empty, non-empty start}; "
         "each runs under sys.settrace and the directory is snapshotted at every executed line "
         "of darr/*.py: (i) the sequence of distinct on-disk states must equal the model's "
         "Crash.trace_states for the same operation (effect order and granularity), (ii) every "
         "observed state and its synthesised torn variants (file emptied, one byte / half / all "
         "but one byte of the appended tail or of the rewritten text) is materialised and opened: "
         "it must raise or show the state before, after, or before + a whole number of chunks; "
         "non-trivial = the operation wrote at least two files",
    trusted_base=[
        "Coq 8.16.1 kernel (coqc), vm_compute for evaluating the model on cases",
        "hand-written models (effect lists of ArrayModel.exec / RaggedModel.rexec; Crash.v torn "
        "forms), tied by comparing traced state sequences inside coqc",
        "H-json-prefix: a strict prefix of the JSON text of a dictionary does not parse (used as "
        "'a description being rewritten is Torn'); exercised here by the torn variants",
        "atomicity of os.truncate / unlink; line-level tracing as the observable granularity",
        "translator gen/py2v.py (tie T for the ORDER of file effects): Gen_effects.v holds the control "
        "skeletons of Array._update_arrayinfo / _update_len / _append / iterappend, truncate_array, "
        "RaggedArray._append / _update_lens / iterappend and truncate_raggedarray regenerated from the "
        "source on every run; the reading of the vocabulary calls as effect kinds (EffectOrder.aprim, "
        "EffectOrderR.rprim) and the over-approximating skeleton semantics Skel.runs are trusted",
    ],
    assumptions=["torn data writes expose prefixes of the written bytes (no reordering of blocks)"],
)


def scenarios(ctx):
    r = ctx.rng
    A, G = [], []
    ti = 0
    ashapes = [(0,), (3,), (0, 2), (2, 2)] + ([] if ctx.quick else [(1,), (2, 1, 2), (0, 1), (4, 3), (7,), (0, 2, 2)])
    for sh in ashapes:
        tail = sh[1:]
        ops = []
        for n in ((1, 2, 3) if ctx.quick else (1, 2, 3, 4)):
            ops.append(('iter%d' % n, None, n))
            for pos in range(n):
                ops.append(('fail%d@%d' % (n, pos), pos, n))
        for name, pos, n in ops:
            ti += 1
            if ctx.quick and ti % 2:
                continue
            nt = NUMTYPES[ti % 13]; bo = ('little', 'big')[ti % 2]
            c = history_case(r, nt, bo, sh, [])
            items = [nd_spec(rand_array(r, nt, bo, (r.randint(1, 2),) + tail)) for _ in range(n)]
            if pos is not None:
                items[pos] = r.choice([dict(kind='raise'),
                                       nd_spec(arrlib.small_values(r, (2,) + tail + (2,), arrlib.dtype_str(nt, bo)))])
            c['ops'] = [dict(op='iterappend', items=items)]
            c['letters'] = [name]
            A.append(c)
        for letter in ['a1', 'a0', 't-1', 't0', 't1', 'ms', 'mc']:
            for meta in (None, {'a': 1}):
                ti += 1
                nt = NUMTYPES[ti % 13]; bo = ('little', 'big')[ti % 2]
                c = history_case(r, nt, bo, sh, [letter], metadata=meta)
                A.append(c)
    # a value rewritten with one of the same width: a torn in-place write would splice two numbers
    c = history_case(r, 'int32', 'little', (3,), ['ms'], metadata={'fs': 20000, 'tag': 'x'})
    c['ops'] = [dict(op='metaset', value={'fs': 44100})]
    A.append(c)
    g = rhistory_case(r, 'float32', 'little', (), 'int64', [2, 1], ['ms'], metadata={'fs': 20000, 'tag': 'x'})
    g['ops'] = [dict(op='metaset', value={'fs': 44100})]
    G.append(g)
    rstarts = [None, [2, 0, 1], [1]] + ([] if ctx.quick else [[0, 0], [3, 1, 0, 2], [1, 1, 1, 1, 1, 1]])
    ratoms = [(), (2,)] + ([] if ctx.quick else [(2, 3), (1,)])
    # ONE metadata change given partly as a dictionary and partly as keywords
    c = history_case(r, 'int16', 'big', (2,), ['ms'], metadata={'fs': 20000, 'unit': 'mV'})
    c['ops'] = [dict(op='metaset', value={'fs': 48000}, kw={'unit': 'V'})]
    A.append(c)
    g = rhistory_case(r, 'float64', 'little', (), 'int32', [1, 2], ['ms'], metadata={'fs': 20000, 'unit': 'mV'})
    g['ops'] = [dict(op='metaset', value={'fs': 48000}, kw={'unit': 'V'})]
    G.append(g)
    for start in rstarts:
        for atom in ratoms:
            for n in ((1, 2, 3) if ctx.quick else (1, 2, 3, 4)):
                for pos in [None] + list(range(n)):
                    ti += 1
                    if ctx.quick and ti % 2:
                        continue
                    nt = NUMTYPES[ti % 13]; bo = ('little', 'big')[ti % 2]
                    c = rhistory_case(r, nt, bo, atom, INDEXTYPES[ti % 7], start, [])
                    items = [item_spec(r, nt, bo, atom, r.randint(0, 2), 'nd') for _ in range(n)]
                    if pos is not None:
                        items[pos] = r.choice([dict(kind='raise'), dict(kind='scalar', value=3)])
                    c['ops'] = [dict(op='iterappend', items=items)]
                    c['letters'] = ['iter%d%s' % (n, '' if pos is None else '@%d' % pos)]
                    G.append(c)
            for letter in ['a1', 'a0', 't-1', 't0', 't1', 'ms', 'mc']:
                for meta in (None, {'a': 1}):
                    ti += 1
                    nt = NUMTYPES[ti % 13]; bo = ('little', 'big')[ti % 2]
                    G.append(rhistory_case(r, nt, bo, atom, INDEXTYPES[ti % 7], start, [letter], metadata=meta))
    return A, G


def run(ctx):
    A, G = scenarios(ctx)
    obsA = ctx.run_impl(A, 'array_scenario', timeout=3000)
    obsG = ctx.run_impl(G, 'ragged_scenario', timeout=3000)
    termsA, keepA, termsG, keepG = [], [], [], []
    for case, ob in zip(A, obsA):
        key = dict(kind='Array', nt=case['nt'], shape=case['shape'], op=case['letters'][0], meta=bool(case['metadata']))
        if 'harness_error' in ob:
            ctx.fail('harness-error', key, observed=ob); continue
        nfiles = len(ob['states'])
        ctx.seen(key, nontrivial=nfiles > 2); ctx.count('array:' + case['letters'][0].split('@')[0])
        ctx.count('states=%d' % min(nfiles, 12)); ctx.extra['probes_opened'] = ctx.extra.get('probes_opened', 0) + ob['opened']
        ctx.extra['probes'] = ctx.extra.get('probes', 0) + ob['probes']
        for b in ob['bad'][:3]:
            ctx.fail('crash-state-shows-wrong-data:' + case['letters'][0], dict(case=case, probe=b['probe']),
                     expected=dict(legit_shapes=ob['legit']), observed=b)
        flats = dedup([raglib.dir_flat(s) for s in ob['states']])
        st = dict(images=ob.get('images'), refres=['ok'])
        op = case['ops'][0]
        termsA.append(f"chk_trace {arrlib.created_term(case)} {arrlib.op_term(op, st)} "
                      "[" + "; ".join(czl_rle(f) for f in flats) + "]")
        keepA.append((key, case, ob, flats))
        ctx.traces += nfiles
    for case, ob in zip(G, obsG):
        key = dict(kind='RaggedArray', **p04.key_of(case))
        if 'harness_error' in ob:
            ctx.fail('harness-error', key, observed=ob); continue
        nfiles = len(ob['states'])
        ctx.seen(key, nontrivial=nfiles > 2); ctx.count('ragged:' + case['letters'][0].split('@')[0])
        ctx.extra['probes_opened'] = ctx.extra.get('probes_opened', 0) + ob['opened']
        ctx.extra['probes'] = ctx.extra.get('probes', 0) + ob['probes']
        for b in ob['bad'][:3]:
            ctx.fail('ragged-crash-state-shows-wrong-data:' + case['letters'][0], dict(case=case, probe=b['probe']),
                     expected=dict(legit_lengths=ob['legit']), observed=b)
        flats = dedup([rdir_flat_only(s) for s in ob['states']])
        st = dict(images=ob.get('images'))
        step0 = dict(ref=ob['ref'])
        termsG.append(f"rchk_trace {raglib.rcreated_term(case, step0)} {raglib.rop_term(case['ops'][0], st)} "
                      "[" + "; ".join(czl_rle(f) for f in flats) + "]")
        keepG.append((key, case, ob, flats))
        ctx.traces += nfiles
    if keepA:
        k, c, ob, fl = keepA[3]
        ctx.sample(dict(scenario=k, result=ob['res'][:2], distinct_states=len(ob['states']), line_events=ob['events'],
                        probes=ob['probes'], probes_that_opened=ob['opened'], legit_shapes=ob['legit']))
    if keepG:
        k, c, ob, fl = keepG[2]
        ctx.sample(dict(scenario=k, result=ob['res'][:2], distinct_states=len(ob['states']),
                        probes=ob['probes'], probes_that_opened=ob['opened'], legit_lengths=ob['legit']))
    bad = ctx.coq_check('c17a', arrlib.PRELUDE, termsA, shard=60)
    badg = ctx.coq_check('c17g', raglib.PRELUDE, termsG, shard=40)
    if bad is None or badg is None:
        ctx.model_ok = False
        return
    for i in bad[:4]:
        key, case, ob, flats = keepA[i]
        txt = ctx.coq_show('c17dbg%d' % i, arrlib.PRELUDE,
                           termsA[i].replace('chk_trace', 'dbg_trace', 1).rsplit(' [', 1)[0])
        model = parse_coq_value(txt)
        ctx.mismatch('Crash.trace_states (effect order/granularity) vs traced implementation', key,
                     dict(n_impl=len(flats)), model_obs=None if model else txt[:800],
                     detail=first_diff(model, flats))
    for i in badg[:4]:
        key, case, ob, flats = keepG[i]
        txt = ctx.coq_show('c17gdbg%d' % i, raglib.PRELUDE,
                           termsG[i].replace('rchk_trace', 'rdbg_trace', 1).rsplit(' [', 1)[0])
        model = parse_coq_value(txt)
        ctx.mismatch('Crash.rtrace_states vs traced implementation', key, dict(n_impl=len(flats)),
                     model_obs=None if model else txt[:800], detail=first_diff(model, flats))


def dedup(fl):
    out = []
    for f in fl:
        if not out or out[-1] != f:
            out.append(f)
    return out


def first_diff(model, flats):
    if model is None:
        return None
    model = [list(m) for m in model]
    for j in range(max(len(model), len(flats))):
        m = model[j] if j < len(model) else None
        o = flats[j] if j < len(flats) else None
        if m != o:
            return dict(index=j, n_model=len(model), n_impl=len(flats), model=m, impl=o)
    return None


def rdir_flat_only(s):
    """CheckRagged.rdir_flat of an observed ragged state"""
    fake = dict(res=['ok'],
                live=dict(mode='r', vh=dict(mode='r', dtype=['int8', 'little'], shape=[0]),
                          ih=dict(mode='r', dtype=['int8', 'little'], shape=[0, 2]),
                          info=dict(len=0, size=0, numtype='int8', atom=[]), reads=[]),
                top=s['top'], values=s['values'], indices=s['indices'])
    rc, fl, rd = raglib.flat_rstep(fake)
    # drop the handle part: 1 + (4+1) + (4+2) + 4 entries
    return fl[1 + 5 + 6 + 4:]
