"""C12 implementation side."""
import os
import numpy as np
import darr
from implutil import dtype_info
from impl_arr import parse_index, build_value


def fdcount(path):
    datafile = os.path.realpath(os.path.join(path, 'arrayvalues.bin'))
    nfd = 0
    for fd in os.listdir('/proc/self/fd'):
        try:
            if os.path.realpath(os.readlink(f'/proc/self/fd/{fd}')) == datafile:
                nfd += 1
        except OSError:
            pass
    nmap = sum(1 for line in open('/proc/self/maps') if datafile in line)
    return nfd, nmap


def desc(x):
    x = np.asarray(x)
    return dict(shape=list(x.shape), dtype=dtype_info(x.dtype) if x.dtype.kind in 'iufc' else [str(x.dtype), ''],
                data=np.ascontiguousarray(x).tobytes().hex())


def indexing(case, d):
    """one array; a list of accesses; results are kept and re-examined after the file has
    been truncated and deleted"""
    path = os.path.join(d, 'arr')
    dt = np.dtype(case['dtype'])
    n = int(np.prod(case['shape']))
    ref = (np.arange(n) % 251).astype(dt).reshape(case['shape'])
    a = darr.asarray(path, ref, accessmode='r+', **(dict(chunklen=1) if 0 in case['shape'][1:] else {}))
    ref = ref.copy()
    tail = tuple(case['shape'][1:])
    kept = []
    out = []
    ctx = None
    for acc in case['accesses']:
        k = acc['k']
        if k == 'enter':
            ctx = a.open_array(accessmode=acc.get('mode'))
            ctx.__enter__()
            out.append(dict(k=k)); continue
        if k == 'exit':
            if ctx is not None:
                ctx.__exit__(None, None, None); ctx = None
            out.append(dict(k=k, leak=fdcount(path))); continue
        if k == 'mode':
            try:
                a.accessmode = acc['mode']
                out.append(dict(k=k, res=['ok']))
            except Exception as e:
                out.append(dict(k=k, res=['exc', type(e).__name__]))
            continue
        if k in ('grow', 'shrink', 'hide'):
            o = dict(k=k)
            try:
                if k == 'grow':
                    rows = ((np.arange(acc['n'] * int(np.prod(tail))) % 7) + 100).astype(dt).reshape((acc['n'],) + tail)
                    a.append(rows)
                    ref = np.concatenate([ref, rows]).astype(ref.dtype)
                elif k == 'shrink':
                    newlen = max(len(ref) - acc['n'], 0)
                    if newlen < len(ref):
                        darr.truncate_array(a, newlen)
                        ref = ref[:newlen].copy()
                else:
                    # the data file is away for a moment: the access must fail and leave nothing behind
                    dp = os.path.join(path, 'arrayvalues.bin')
                    os.rename(dp, dp + '.away')
                    try:
                        a[0]
                        o['hidden_access'] = 'ok'
                    except Exception as e:
                        o['hidden_access'] = type(e).__name__
                    finally:
                        os.rename(dp + '.away', dp)
                o['res'] = ['ok']
            except Exception as e:
                o['res'] = ['exc', type(e).__name__, str(e)[:120]]
            o['len'] = len(a); o['reflen'] = len(ref); o['shape'] = list(a.shape); o['refshape'] = list(ref.shape)
            if ctx is None:
                o['leak'] = fdcount(path)
            out.append(o); continue
        ix = parse_index(acc['index'])
        o = dict(k=k)
        if k == 'get':
            try:
                r = a[ix]
                o['res'] = ['ok', desc(r)]
                o['detached'] = bool(type(r) is np.ndarray and r.flags.owndata or np.asarray(r).ndim == 0) \
                    and not isinstance(r, np.memmap)
                kept.append((len(out), r, np.array(r, copy=True)))
            except Exception as e:
                o['res'] = ['exc', type(e).__name__]
            try:
                rr = ref[ix]
                o['ref'] = ['ok', desc(rr)]
            except Exception as e:
                o['ref'] = ['exc', type(e).__name__]
        else:
            val = build_value(acc['value'])
            try:
                a[ix] = val
                o['res'] = ['ok']
            except Exception as e:
                o['res'] = ['exc', type(e).__name__]
            try:
                tmp = ref.copy(); tmp[ix] = val; ref = tmp
                o['ref'] = ['ok']
            except Exception as e:
                o['ref'] = ['exc', type(e).__name__]
            try:
                o['fresh'] = desc(darr.Array(path)[:])
            except Exception as e:
                o['fresh'] = dict(error=f'{type(e).__name__}: {e}'[:200])
            o['raw'] = open(os.path.join(path, 'arrayvalues.bin'), 'rb').read().hex()
            o['refall'] = desc(ref)
        if ctx is None:
            o['leak'] = fdcount(path)
        # whatever the access was, the raw file holds exactly the reference
        o['rawsame'] = open(os.path.join(path, 'arrayvalues.bin'), 'rb').read() == np.ascontiguousarray(ref).tobytes()
        out.append(o)
    if ctx is not None:
        ctx.__exit__(None, None, None)
    # the file goes away; everything returned earlier must be unchanged and usable
    final = dict(leak_end=fdcount(path))
    try:
        if len(a) > 0:
            darr.truncate_array(a, 0)
        darr.delete_array(a)
    except Exception as e:
        final['cleanup'] = type(e).__name__
    final['survive'] = all(bool(np.array_equal(r, c, equal_nan=True)) if np.asarray(r).dtype.kind in 'fc'
                           else bool(np.array_equal(r, c)) for _, r, c in kept)
    out.append(final)
    return out


def offsets(case, d):
    """NumPy's own answer for basic indices on an arange array = the flat offsets"""
    out = []
    for shape, ixs in case['items']:
        base = np.arange(int(np.prod(shape)), dtype='int64').reshape(shape)
        try:
            r = base[tuple(parse_index(x) for x in ixs)]
            out.append(['ok', list(np.shape(r)), [int(v) for v in np.asarray(r).ravel()]])
        except Exception as e:
            out.append(['exc', type(e).__name__])
    return out


def warnerr(case, d):
    """warnings are errors (python -W error) and the description says the array was written by a NEWER
    version of the library: every access raises -- and must leave no descriptor or map behind"""
    import json
    import warnings
    path = os.path.join(d, 'arr')
    a = darr.asarray(path, np.arange(6, dtype=case['dtype']), accessmode='r+')
    jp = os.path.join(path, 'arraydescription.json')
    info = json.load(open(jp))
    good = dict(info)
    info['darrversion'] = '99.0.0'
    json.dump(info, open(jp, 'w'))
    out = []
    with warnings.catch_warnings():
        warnings.simplefilter('error')
        for what in case['accesses']:
            try:
                if what == 'get':
                    a[0]
                elif what == 'set':
                    a[0] = 1
                elif what == 'iter':
                    next(a.iterchunks(2))
                elif what == 'ctx':
                    with a.open_array():
                        pass
                elif what == 'fresh':
                    darr.Array(path)[0]
                res = 'ok'
            except Exception as e:
                res = type(e).__name__
            out.append(dict(what=what, res=res, leak=fdcount(path)))
    json.dump(good, open(jp, 'w'))
    try:
        out.append(dict(what='afterwards', res=int(a[1]), leak=fdcount(path)))
    except Exception as e:
        out.append(dict(what='afterwards', res=type(e).__name__, leak=fdcount(path)))
    return out
