"""Writes /verif/MANIFEST.json from the table below (single source of truth)."""
import json
import importlib
import sys
from pathlib import Path

sys.path.insert(0, str(Path(__file__).resolve().parent))
VERIF = Path(__file__).resolve().parent.parent

TRUST = ("Trusted: Coq 8.16.1 kernel + vm_compute (no native_compute); no axioms declared "
         "(Print Assumptions output of every property theorem is copied into the evidence "
         "file); gen/py2v.py (translator, tie T) where used; the correspondence harness "
         "(harness/*.py, coq/Check*.v) which evaluates the hand-written model inside coqc on "
         "the cases the implementation ran and compares (tie K); NumPy/json/kernel as oracles "
         "named per property in DESIGN.md sec. 5/6. ")

# id -> (level text, technique, note)
CLAIMS = {
 'C01': ("kernel-checked over the model of _archunkgenerator/asarray/_fillgenerator, which uses the "
         "fit_frames/iterindices GENERATED from the source: for every input length and every chunklen "
         "(None, <= 0, > len included) the chunk plan tiles the input exactly (archunks_seq, archunks_darr, "
         "fillchunks_concat), the created directory and handle are related to the NumPy reference (dtype "
         "with byte order, shape, every byte), the result is independent of chunklen, and inputs of an "
         "unsupported element type yield TypeError with nothing created. Tie: the model is evaluated "
         "inside coqc on the same creation cases (13 types x byte orders x layouts x ranks x input forms "
         "x dtype x chunklen x fill) and compared with handle state and every file; the NumPy reference "
         "is compared bit-exactly as well.",
         "Coq proof over source-translated chunk arithmetic + executable creation model, in-Coq differential evaluation",
         "6.C01"),
 'C02': ("Codec.v states the documented format as a reader sharing nothing with the operation model; "
         "kernel-checked: encode/decode round trip for every element-list length, type and byte order "
         "(C02_codec_roundtrip), and for EVERY history of operations from a state related to the NumPy "
         "model the directory satisfies Inv_disk (files present, |data| = prod(shape) x itemsize) and the "
         "reader reconstructs dtype, shape and exactly the stored bytes (C02_reachable, by induction via "
         "the simulation of C03); type-name table regenerated from numtype.py. Tie: independent Python "
         "reader and the Coq reader are both run on the observed files after every step and compared "
         "with the API.",
         "Coq proof (codec round trip + invariant by induction over histories) + in-Coq differential evaluation",
         "6.C02"),
 'C03': ("forward simulation proved in Coq: every step of the hand-written executable model of "
         "append/iterappend/truncate/__setitem__/mode/reopen/metadata refines the NumPy list-of-rows "
         "model (step_refines), lifted to every history by induction (C03_refines); corollaries: fresh "
         "handle = live handle, append keeps the old bytes as a prefix, truncate keeps a prefix, rejected "
         "calls leave the state unchanged, which calls are rejected. The model is tied to darr/array.py by "
         "evaluating it inside coqc on the same bounded-exhaustive + random histories the implementation "
         "ran, comparing outcome class, handle state and every file after every step; the NumPy reference "
         "is also compared directly.",
         "Coq refinement proof over an executable model + in-Coq differential evaluation on operation histories",
         "6.C03"),
 'C04': ("forward simulation proved in Coq for the RaggedArray model: creation (create_raggedarray / "
         "asraggedarray for any atom, dtype, index type, metadata) establishes the relation RRel to the "
         "list-of-arrays model and every step of iterappend/append (with recovery), truncate_raggedarray, "
         "mode change, reopen and metadata change preserves it (rstep_refines, lifted to every history in "
         "C04_refines); ra[k] returns exactly subarray k for -len <= k < len, IndexError outside, TypeError "
         "for non-integers (C04_getitem, proved through the index codec and chain arithmetic); a fresh "
         "handle is related to the same state; the stored index type is the requested one. Tie: model "
         "evaluated inside coqc on the same bounded-exhaustive + random histories as the implementation, "
         "comparing handle state, all five files and nine reads after every step; list-of-arrays reference "
         "compared directly, incl. iter_arrays.",
         "Coq refinement proof over an executable model + in-Coq differential evaluation on operation histories",
         "6.C04"),
 'C05': ("kernel-checked invariant: every state related to the list-of-arrays model is wf_ragged -- two "
         "well-formed Darr arrays, indices (n,2) of an integer type whose rows, as a reader of the files "
         "obtains them, start at 0, have start <= end, are contiguous and end at N (chain_ok), top-level "
         "descriptor consistent -- and RRel is preserved by every operation of every history "
         "(C05_reachable); file-only reader returns subarray k. Tie: the Coq readers (index_rows, "
         "chain_ok) and an independent Python reader are run on the observed files after every step.",
         "Coq invariant proof by induction over histories + in-Coq evaluation of the readers on observed files",
         "6.C05"),
 'C08': ("kernel-checked: README content is modelled as facts (stated type, byte order, dimensions, metadata "
         "mention; ragged: count, rank, type, first-five listing, '...', last) written by each operation "
         "from the view the code has at that moment; the relations Rel/RRel of C03/C04 include 'README "
         "facts = facts of the disk state', hence for every history of operations and right after every "
         "creation the README is current (C08_array_current, C08_ragged_current: the stored facts equal "
         "those recomputed from a freshly opened handle), also for values/ and indices/. Tie: README bytes "
         "compared with regeneration from a fresh handle after every step, parsed facts compared with the "
         "model's inside coqc, snippets compared with readcode().",
         "Coq invariant proof (README facts in the simulation relation) + in-Coq differential evaluation",
         "6.C08"),
 'C09': ("kernel-checked for every start state, number of chunks, failure position and kind, and every "
         "byte count k of a failed write: the call fails, the directory is again related to the model "
         "holding the original rows ++ the completely appended chunks, and opens (C09_failed_append; "
         "corollary of the C03 simulation, which covers the except-branch and the empty-array path). "
         "Tie: real failures (raising iterables, wrong shape/rank, unconvertible items, RLIMIT_FSIZE at "
         "chunk boundaries +-1, mid-element, mid-row) run against the implementation and the model.",
         "Coq proof over an executable model with fault plans + recovery order proved against control skeletons translated from source + in-Coq differential evaluation with kernel-enforced write failures",
         "6.C09"),
 'C10': ("kernel-checked for every start state, atom, number of items, failure position and kind (raising "
         "iterable, wrong atom/rank, unconvertible item, index overflow decided by index_max of the index "
         "type, values or index-row write stopped after any k bytes): the call fails, the state is related "
         "to the model with the original subarrays ++ those completely appended, the directory is "
         "wf_ragged and opens (C10_failed_append, corollary of the C04 simulation which covers the "
         "except-branch). Tie: real failures incl. RLIMIT_FSIZE on the values file and on the indices "
         "file and OverflowError with int8/uint8 indices, run against implementation and model.",
         "Coq proof over an executable model with fault plans + recovery order proved against control skeletons translated from source + in-Coq differential evaluation with kernel-enforced write failures",
         "6.C10"),
 'C11': ("kernel-checked over the models: in mode 'r' (a field of the state, so all ways of obtaining it "
         "and all histories of mode switches are covered) every mutating operation -- assignment, append, "
         "iterappend, truncate, metadata update/creation/pop/deletion, on Array (any state incl. empty first "
         "axis) and RaggedArray (any related state incl. empty values) -- returns OSError and the world "
         "(every file) is unchanged (C11_array_readonly, C11_ragged_readonly); after switching to 'r+' "
         "the valid operations succeed (C11_*_rplus). Tie: full operation x kind x state x how-obtained "
         "matrix run against implementation (byte-for-byte file snapshots) and model; delete_array / "
         "delete_raggedarray checked on the implementation here, their model is C16's.",
         "Coq proof over executable models + in-Coq differential evaluation over the full operation matrix",
         "6.C11"),
 'C15': ("kernel-checked: Array.copy = asarray on a Darr source whose chunk plan is the GENERATED "
         "iterindices: for every chunk length and first-axis length (0 included) the copy is related to the "
         "cast image of the source with the same metadata flag (C15_copy_array); RaggedArray.copy builds, "
         "subarray by subarray, a state related to the list-of-arrays model, also with no subarrays "
         "(C15_copy_ragged); archive(): refuses an existing target without overwrite, accepts only xz/gz/bz2, "
         "never touches the array, and -- PARTIAL: under the Section hypothesis H-tar (tarfile+compression "
         "round-trip, not proved) -- extraction yields exactly the directory tree. Tie: copies of all types x "
         "dtype x chunklen x metadata compared with the NumPy cast and with the model in coqc; post-copy "
         "mutations on either side with byte snapshots of the other; every archive extracted and compared "
         "byte-for-byte.",
         "Coq proof over executable models (partial for the tar round trip: Section hypothesis) + in-Coq differential evaluation",
         "6.C15"),
 'C16': ("kernel-checked over Fs.v (tree with files, directories, symbolic links): delete_array / "
         "delete_raggedarray keep every entry that is not one of Darr's own file names directly in the "
         "directory exactly as it was (bytes, link targets, at any depth) and, when such an entry is "
         "inside the directory, raise OSError; a path that does not open as an array of the right kind "
         "gives TypeError and a read-only one OSError with the tree untouched; creating on an existing "
         "path without overwrite (and over a plain file in any case) is refused before anything is "
         "touched. Tie: foreign content kinds x locations x target kinds x call forms, and 7 creating "
         "functions x occupants x overwrite, with recursive byte snapshots of the target and of an outside "
         "directory; the remaining listing is compared with the model inside coqc.",
         "Coq proof over a file-tree model + in-Coq differential evaluation with byte snapshots",
         "6.C16"),
 'C17': ("kernel-checked for every fault plan and EVERY crash state (inductive relation crash/rcrash: any "
         "point between two file effects, or the effect in progress torn -- any prefix of written or "
         "appended bytes, description/README being rewritten unparsable): Array append/iterappend incl. the "
         "recovery path and the first-chunk path of empty arrays, truncate_array, RaggedArray "
         "append/iterappend incl. recovery, truncate_raggedarray -- the state does not open, or shows the "
         "state before, after, or before + a whole number of appended chunks/subarrays (C17_*_crash_safe; "
         "the ragged proofs go through the index codec and the chain of index rows). Tie at effect "
         "granularity: each scenario runs under sys.settrace with a directory snapshot at every executed "
         "line of darr/*.py; the sequence of distinct on-disk states must equal the model's "
         "Crash.trace_states (so a reordering, preallocation or extra write breaks the correspondence); "
         "every observed state and synthesised torn variants are materialised and opened with Darr. "
         "Second tie, by translation: the control skeletons of the nine functions that change files are "
         "regenerated from the source on every run (Gen_effects.v) and it is proved that the effect log of "
         "every model call is, kind by kind and in order, a run the present source's skeleton admits "
         "(C17_*_order_from_source).",
         "Coq proof over an effect-logging model with an inductive crash-state relation + effect order proved against control skeletons translated from source + traced state sequences compared in coqc",
         "6.C17"),
 'C18': ("kernel-checked over Json.v, which follows _read_arraydescr / arrayinfotodtype / "
         "_check_arrayinfoconsistency check by check on generic JSON values: if Array() succeeds then the "
         "description is a dictionary with the required keys, a known numeric type, byte order, array "
         "order, a shape that is a sequence of non-negative ints, and shape x itemsize EQUALS the data "
         "length (C18_open_sound; contrapositive = every listed corruption is rejected, a size mismatch "
         "by any amount included); darr.open() succeeds only where Array() does; delete/truncate by path "
         "refuse with TypeError without running. Tie: ~550 single-field corruptions x array kinds incl. "
         "ragged sub-arrays run against implementation and model (open result of Array, darr.open, "
         "RaggedArray; by-path refusal with byte snapshots); key/type tables regenerated from source.",
         "Coq proof over an executable model of descriptor validation, its size test proved equal to the test translated from source + in-Coq differential evaluation over enumerated corruptions",
         "6.C18"),
 'C06': ("kernel-checked over Readcode.v, whose type / byte-order / language tables and both documented "
         "compatibility tables are REGENERATED from darr/readcodearray.py and docs/readcode.rst on every run: for "
         "every language, numeric type, byte order, shape of any rank and extents and any element values, the "
         "documented meaning of the offered program applied to the encoded data file is defined and yields the "
         "stored element at every index -- axes as stored (row-major languages) or reversed (column-major), via "
         "rev_axes for any rank -- incl. Matlab's strided complex passes and half.typecast, Scilab's pair axis, "
         "Python's real/imag split (C06_denote); every table token means the stored type and byte order in its "
         "language (finite, exhaustive); offered = documented tables, readcodelanguages = the offered ones; the "
         "named file is the requested path; no writing open mode. Tie: the model's printer must equal "
         "Array.readcode character for character over the complete structure space (13 types x 2 orders x rank "
         "1-4 x 12 languages x 3 path modes, compared inside coqc). Direct oracle / search: Python-family snippets "
         "are executed, the other eight are run by independent strict interpreters on arrays of distinct random "
         "values, with directory snapshots (also on empty arrays). TRUSTED, not proved: the reading of each "
         "foreign construct (Appendix A).",
         "Coq proof over a table-generated model of the code generators + in-Coq string equality with Array.readcode",
         "6.C06"),
 'C07': ("kernel-checked over ReadcodeRagged.v (on top of Readcode.v and the generated tables): for every language, "
         "atom of any rank, value and index type, ANY index chain and ANY k, the accessor the program defines, "
         "applied to the index and values arrays the two embedded array programs bind (C07_arrays, from C06), "
         "returns exactly subarray k in the language's axis order and numbering; a zero-length subarray gives an "
         "empty value whose dimensions, where the language gives it any, are the atom's in that order "
         "(C07_accessor); the example binds subarray min(2, n-1) and names it first/second/third (C07_example); "
         "code is withheld exactly when the value or index type has no token in the language's table, R also for "
         "int64 indices beyond the int32 size range (C07_withheld); neither embedded program opens a file for "
         "writing. Tie: the model's text must equal RaggedArray.readcode character for character over 9 languages "
         "x 13 value types x 7 index types x atom rank 0-3 x subarray-count / zero-length patterns x 3 path "
         "modes (compared inside coqc). Direct oracle / search: darr and numpymemmap programs are executed, the "
         "other seven run by independent strict interpreters, the accessor called for every k, the example "
         "evaluated, directory snapshots before/after. TRUSTED, not proved: the reading of range subscripts and "
         "index origins (Appendix A).",
         "Coq proof over a model of the ragged code generators + in-Coq string equality with RaggedArray.readcode",
         "6.C07"),
 'C12': ("PARTIAL. Kernel-checked: Python's slice normalisation and the positions a slice selects for every "
         "start/stop/step incl. negative steps and out-of-range bounds (exactly lo, lo+step, ... on the "
         "right side of hi; always inside the axis), the size of a basic-index result; on the Sched model: "
         "every access -- read, write, or one for which NumPy raises -- outside contexts leaves no map, "
         "handle or user behind (C12_discipline), a write is returned by the next read and changes nothing "
         "else (C12_write_through), reads are independent of open contexts, also after the length changed "
         "inside a context (C12_resize_in_context). NOT proved (oracle / runtime): "
         "advanced indexing, broadcasting and NumPy's error classes; survival of returned arrays after "
         "unmapping. Tie: Index.basic_index vs NumPy on arange arrays, bounded-exhaustive over a per-axis "
         "index alphabet (in coqc); a[idx] / a[idx]=v vs NumPy on reference copies incl. advanced indices, "
         "returned arrays re-read after the file was truncated and deleted, /proc fd and map listings after "
         "every access, raw file compared after every assignment.",
         "Coq proof (partial) over models of basic indexing and of the handle protocol + in-Coq differential evaluation against NumPy",
         "6.C12"),
 'C13': ("kernel-checked over Meta.v (keys = strings ordered as Python orders them, values opaque): the "
         "dictionary laws of the stored mapping (get-after-set, set/remove keep other keys, removed is gone), "
         "and for EVERY sequence of update/setitem/pop(with and without default)/popitem/del/mode change: "
         "metadata.json is never left unparsable, exists exactly when the metadata are non-empty and then "
         "holds them sorted (C13_file_iff_nonempty, by induction); pop with a default never raises, a missing "
         "key without default gives KeyError, a non-serialisable update gives TypeError and changes nothing, "
         "read-only refuses, crash states of a change read as before/after or raise. Tie: bounded-exhaustive "
         "+ random op sequences x 25 value kinds x start x {Array, RaggedArray}, outcome and file compared "
         "inside coqc; all read accessors of live and fresh handles compared with an independent dict + "
         "JSON-round-trip oracle.",
         "Coq proof over an executable model of MetaData + in-Coq differential evaluation on operation sequences",
         "6.C13"),
 'C14': ("fit_frames and Array.iterindices are re-translated from /repo's source into Gallina on "
         "every run and five theorems (exact frame count for all integers, remainder rule, "
         "rejection of every out-of-range parameter, tiling a[start:end] when step=chunklen) are "
         "re-checked by coqc against what the code says now; float arguments, defaults and "
         "iterchunks' copying are compared on exhaustive small and random 62-bit cases.",
         "Coq proof over source-translated functions (tie T) + in-Coq differential evaluation (tie K)",
         "6.C14"),
 'C19': ("kernel-checked over Sched.v (the user-counting protocol of Array._open_array, iterchunks "
         "generators with frames from the GENERATED iterindices computed at the first next(), open_array "
         "contexts, element reads/writes, failing accesses, failed opens, and length changes (append / truncate) "
         "while the array is open, which renew the shared map and leave the old one to the generators still "
         "reading from it): "
         "for ANY action sequence of any length with any number of generators and contexts the protocol "
         "invariant holds and no step touches a closed memory map (C19_safe, by induction over the "
         "schedule), a chunk is read through the shared map at the moment it is returned "
         "(C19_chunk_is_current), and when all users are finished no map or file handle is open "
         "(C19_no_leak). PARTIAL on one point: that touching an unmapped page kills the interpreter is "
         "runtime behaviour, observed not modelled. Tie: random well-formed interleavings (+ the schedule "
         "that crashed the pinned tree), each in its own interpreter on a 4.8 MB array; exit status, every "
         "chunk/value, user counter, cached map, open fds and mappings compared with the model in coqc.",
         "Coq invariant proof over a protocol state machine for all schedules + per-schedule child processes compared in coqc",
         "6.C19"),
 'C20': ("kernel-checked over Fs.v: a name given to any public DataDir mutator that RESOLVES ('.', '..', "
         "separators, absolute spelling, symbolic links) on or below a protected entry is refused with OSError "
         "and the file system is unchanged (C20_protected), in particular for the unbounded family of spellings "
         "./(n times) x1/../ ... xk/../ NAME [/below...] (C20_spellings); the protected sets are regenerated "
         "from the source (ragged: values/ and indices/ directories included); user files: write/read round "
         "trip, overwrite gate, get/set/delete laws. Tie: every public method x every protected name of both "
         "kinds x spelling grammar (str and Path, ./, //, sub/../, absolute, symlink) x 7 file modes x overwrite, "
         "result and 'did the tree change' compared with the model in coqc, byte snapshots compared directly.",
         "Coq proof over a path-resolution model + in-Coq differential evaluation over spellings",
         "6.C20"),
}

ALL = [f'C{i:02d}' for i in range(1, 21)]
NOT_YET = "check not built yet in this session (work in progress; see DESIGN.md sec. 6 for the plan)"


def main():
    checks = []
    for pid in ALL:
        if pid not in CLAIMS:
            continue
        text, tech, ref = CLAIMS[pid]
        checks.append(dict(
            property_id=pid,
            quick_cmd=f"./check {pid} --tier quick",
            thorough_cmd=f"./check {pid} --tier thorough",
            evidence_file=f"/verif/evidence/{pid}.json",
            replay_cmd_template="./check --replay {path}",
            engine="coq-darr",
            level_claimed=dict(category="proof", text=text, design_ref=ref),
            level_note=TRUST,
            technique=tech))
    m = dict(
        version=1,
        setup_cmd="./check --setup",
        hooks=dict(guard="DARR_VERIF",
                   enable="no hook exists in /repo; checks export DARR_VERIF=1 for uniformity and "
                          "run the implementation with PYTHONPATH=/repo",
                   baseline_off_cmd="cd /repo && /venv/bin/python -m pytest -ra -q -p no:cacheprovider "
                                    "--timeout=900 --continue-on-collection-errors",
                   source_commits=[], add_only=True),
        engines=[dict(name="coq-darr", path="/verif/coq",
                      serves_properties=sorted(CLAIMS),
                      kind_free_text="Coq 8.16 development: hand-written executable Gallina model + "
                                     "source-translated functions/tables, property theorems in "
                                     "coq/Props, correspondence evaluated by vm_compute inside coqc")],
        checks=checks,
        notes="See DESIGN.md. `fix:` commits in /repo are listed in known_findings.json (fixed entries).",
        not_applicable=[dict(property_id=p, reason=NOT_YET) for p in ALL if p not in CLAIMS],
    )
    (VERIF / 'MANIFEST.json').write_text(json.dumps(m, indent=1))
    print("MANIFEST.json:", len(checks), "checks,", len(m['not_applicable']), "not claimed")


if __name__ == '__main__':
    main()
