"""C02 -- on-disk format is self-describing: the files alone reconstruct the array."""
import itertools
import arrlib
from arrlib import history_case, ALPHABET, hexl, NT_CODE, BO_CODE, NT_COQ, BO_COQ
from common import NUMTYPES, cz, czl, czl_rle

META = dict(
    coq_targets=['CheckArray.vo'],
    rule="every state reached by the histories of C03 (creation inputs x append / iterappend / "
         "assignment / truncate / metadata change / reopen) is decoded after each step by (a) a "
         "Python reader that uses only json + int.from_bytes (no NumPy, no Darr) and (b) the "
         "Coq reader Codec.decode_dir, and compared with what the Darr API returned; plus the "
         "13 types x 2 byte orders table; non-trivial = the state holds at least one element",
    trusted_base=[
        "Coq 8.16.1 kernel (coqc), vm_compute for evaluating the model on cases",
        "coq/Codec.v is the reading of the documented format (docs/design.rst, README text); "
        "translator gen/py2v.py for the type-name table (Gen_tables.numtypes_keys)",
        "hand-written model coq/ArrayModel.v tied by the C03 correspondence",
        "NumPy's interpretation of a dtype string ('<i4' ...) on the API side",
    ],
    assumptions=[],
)


def gen(ctx):
    r = ctx.rng
    cases = []
    for nt in NUMTYPES:
        for bo in ('little', 'big'):
            for sh in ((0,), (3,), (2, 2), (0, 3), (2, 1, 3)):
                n = 3 if ctx.quick else 6
                for _ in range(1 if ctx.quick else 3):
                    letters = [r.choice(['a1', 'aod', 'a2l', 'it2', 'set', 't-1', 't1', 'tni', 'ms', 'mc', 'ro', 'abad', 'abad0', 'a0d', 'itbad', 'itraise', 'asw', 'itl'])
                               for _ in range(n)]
                    cases.append(history_case(r, nt, bo, sh, letters,
                                              metadata=r.choice([None, {'a': 1}]),
                                              layout=r.choice(['C', 'F', 'strided', 'T', 'neg'])))
    for _ in range(30 if ctx.quick else 300):
        nt = r.choice(NUMTYPES); bo = r.choice(['little', 'big'])
        sh = r.choice([(0,), (1,), (5,), (2, 2), (1, 2, 2), (0, 2, 1), (3, 1)])
        letters = [r.choice(ALPHABET) for _ in range(r.randint(3, 10 if ctx.quick else 30))]
        cases.append(history_case(r, nt, bo, sh, letters))
    for i, c in enumerate(cases):
        if i % 5 == 1:
            c['iterchunks'] = ('swapped', 'wider')[(i // 5) % 2]
        elif i % 5 == 3 and not any(o['op'] == 'delete' for o in c['ops']):
            c['heldopen'] = True        # the whole history inside an open_array() context: same files, same answers
    # truncation indices that are NumPy integers of a narrow type, large enough for the byte offset of the cut
    # to overflow that type (they are refused as non-ints; a change that accepts them must still cut correctly)
    for k, (nt, sh, idx, kind) in enumerate([('float64', (40, 10), 30, 'npuint8'), ('int64', (300,), 200, 'npint16'),
                                             ('complex128', (20, 4), 9, 'npuint8'), ('float64', (40, 10), 30, 'npint')]):
        c = history_case(r, nt, ('little', 'big')[k % 2], sh, ['a1', 'ro'])
        c['ops'] = [dict(op='truncate', index=idx, nonint=kind)] + c['ops']
        c['letters'] = ['tni'] + c['letters']
        cases.append(c)
    return cases


def dir_term(f):
    d = f['descr']
    ds = (f"(Val (mkDescr {NT_COQ[d['numtype']]} {BO_COQ[d['byteorder']]} {czl(d['shape'])} "
          f"{'OrdC' if d['arrayorder'] == 'C' else 'OrdF'}))")
    return f"(mkDir (Some {czl_rle(hexl(f['data']))}) {ds} Absent false)"


def run(ctx):
    cases = gen(ctx)
    obs = ctx.run_impl(cases, 'history')
    terms, keep = [], []
    for case, steps in zip(cases, obs):
        key0 = dict(nt=case['nt'], bo=case['bo'], shape=case['shape'], letters=case['letters'],
                    layout=case['layout'])
        if isinstance(steps, dict):
            ctx.fail('harness-error', key0, observed=steps)
            continue
        if steps and 'creation_failed' in steps[0]:
            ctx.fail('self-describing', dict(case=case, step=0), detail='creation from an iterator of chunks failed',
                     expected='an array holding the chunks, cast to the first chunk\'s type',
                     observed=dict(error=steps[0]['creation_failed'], listing=(steps[0].get('files') or {}).get('listing')))
            continue
        for i, st in enumerate(steps):
            key = dict(key0, step=i)
            nonempty = bool(st['files']['data'])
            ctx.seen(key, nontrivial=nonempty)
            ctx.count('type:' + case['nt'] + '/' + case['bo'])
            why = arrlib.check_c02(st)
            if why:
                ctx.fail('self-describing', dict(case=case, step=i), detail=why,
                         observed=dict(descr=st['files']['descr'], datalen=len(st['files']['data'] or '') // 2,
                                       live=st['live'].get('shape'), listing=st['files']['listing']))
                break
            f, v = st['files'], st['fresh']
            try:
                t = (f"chk_decode {dir_term(f)} {NT_CODE[v['dtype'][0]]} {BO_CODE[v['dtype'][1]]} "
                     f"{czl(v['shape'])} {czl_rle(hexl(v['canon']))}")
            except Exception as e:
                ctx.fail('descriptor-not-expressible', dict(case=case, step=i), detail=str(e),
                         observed=f['descr'])
                break
            terms.append(t)
            keep.append((key, f, v))
            ctx.traces += 1
    if keep:
        k, f, v = keep[len(keep) // 2]
        ctx.sample(dict(state=k, descr=arrlib.descr_core(f['descr']), data_hex=f['data'][:64],
                        api_dtype=v['dtype'], api_shape=v['shape']))
    bad = ctx.coq_check('c02', arrlib.PRELUDE, terms, shard=300)
    if bad is None:
        ctx.model_ok = False
        return
    for i in bad[:5]:
        key, f, v = keep[i]
        ctx.mismatch('Codec.decode_dir (documented format) vs Darr API', key,
                     dict(api_dtype=v['dtype'], api_shape=v['shape'], api_canon=v['canon'][:200]),
                     model_obs=ctx.coq_show('c02dbg%d' % i, arrlib.PRELUDE, f"dbg_decode {dir_term(f)}")[:600])
