"""Shared machinery of the /verif checks (see DESIGN.md sec. 1, 2, 4).

One check run =
  1. translate   : gen/py2v.py regenerates coq/Gen_*.v from the repo's working tree
  2. prove       : `make` the dependency closure of coq/Props/<id>.v, then re-run
                   coqc on Props/<id>.v itself (kernel re-checks the property
                   theorems; the literal `Print Assumptions` output is captured)
  3. correspond  : the property module generates cases, runs the implementation
                   (child processes, PYTHONPATH=<repo>) and asks Coq to evaluate
                   the model on the same cases (`Eval vm_compute`) and to compare
  4. oracle      : the property evaluated directly on the implementation's
                   observations (the failing-input search of the brief)
  5. verdict + evidence
"""
import fcntl
import fnmatch
import json
import os
import random
import re
import shutil
import subprocess
import sys
import tempfile
import time
import traceback
from collections import Counter
from pathlib import Path

VERIF = Path(__file__).resolve().parent.parent
REPO = Path(os.environ.get('DARR_REPO', '/repo'))
COQ = VERIF / 'coq'
OUT = VERIF / 'out'
PY = '/venv/bin/python'
NPROC = int(os.environ.get('VERIF_NPROC', '16'))
GUARD = 'DARR_VERIF'

THEOREM_RE = re.compile(r'^\s*(Theorem|Lemma|Example|Corollary|Fact|Remark|Proposition)\s+(\w+)',
                        re.M)


# a process whose preferred text encoding is not UTF-8 (legacy locale, Windows code page)
C_LOCALE = {'LC_ALL': 'C', 'LANG': 'C', 'PYTHONUTF8': '0', 'PYTHONCOERCECLOCALE': '0'}


def impl_env():
    env = dict(os.environ)
    env['PYTHONPATH'] = f"{REPO}:{VERIF / 'harness'}"
    env['PYTHONHASHSEED'] = '0'
    env['PYTHONDONTWRITEBYTECODE'] = '1'
    env[GUARD] = '1'
    env.pop('PYTHONSTARTUP', None)
    return env


# ---------------------------------------------------------------------------
# Coq side
# ---------------------------------------------------------------------------

class CoqLock:
    def __enter__(self):
        self.f = open(COQ / '.lock', 'w')
        fcntl.flock(self.f, fcntl.LOCK_EX)
        return self

    def __exit__(self, *a):
        fcntl.flock(self.f, fcntl.LOCK_UN)
        self.f.close()


def translate():
    """Tie T. Returns (ok, log)."""
    p = subprocess.run([PY, str(VERIF / 'gen/py2v.py'), str(REPO), str(COQ)],
                       capture_output=True, text=True, timeout=120)
    return p.returncode == 0, (p.stdout + p.stderr).strip()


def ensure_makefile():
    mk = COQ / 'Makefile'
    cp = COQ / '_CoqProject'
    if not mk.exists() or mk.stat().st_mtime < cp.stat().st_mtime:
        subprocess.run(['coq_makefile', '-f', '_CoqProject', '-o', 'Makefile'],
                       cwd=COQ, check=True, capture_output=True, timeout=120)


def make(targets, timeout=1500, jobs=None):
    ensure_makefile()
    cmd = ['timeout', str(timeout), 'make', f'-j{jobs or NPROC}'] + list(targets)
    p = subprocess.run(cmd, cwd=COQ, capture_output=True, text=True)
    return p.returncode == 0, p.stdout + p.stderr, ' '.join(cmd)


def closure(vfile):
    """Our own .v files that `vfile` (relative to coq/) transitively requires."""
    seen = []

    def visit(rel):
        if rel in seen:
            return
        p = COQ / rel
        if not p.exists():
            return
        seen.append(rel)
        txt = p.read_text(encoding='utf-8')
        for m in re.finditer(r'From\s+Darr\s+Require\s+(?:Import|Export)?\s*([^.]*(?:\.[A-Za-z_][^.\s]*)*)\.\s', txt):
            pass
        for line in re.findall(r'From\s+Darr\s+Require\s+(?:Import\s+|Export\s+)?([\w\s.]+?)\.\s*\n', txt):
            for mod in line.split():
                visit(mod.replace('.', '/') + '.v')
    visit(vfile)
    return seen


def count_obligations(files):
    names = []
    for rel in files:
        txt = (COQ / rel).read_text(encoding='utf-8')
        names += [f"{rel}:{m.group(2)}" for m in THEOREM_RE.finditer(txt)]
    return names


FORBIDDEN = re.compile(r'\b(Admitted|admit|Axiom|Parameter|Conjecture|Abort All)\b|'
                       r'Unset\s+Guard|bypass_check|Admit\s+Obligations|'
                       r'-type-in-type|-impredicative-set')


def hygiene(files):
    """No Admitted/admit/Axiom/... anywhere in the development."""
    bad = []
    for rel in files:
        txt = (COQ / rel).read_text(encoding='utf-8')
        txt = re.sub(r'\(\*.*?\*\)', '', txt, flags=re.S)
        for m in FORBIDDEN.finditer(txt):
            bad.append(f"{rel}: {m.group(0)}")
    # Variables/Hypotheses outside sections would be axioms too
    return bad


def prove(pid, extra=()):
    """Build closure of Props/<pid>.v and re-check the property file itself.
    Returns dict(ok, log, assumptions{thm: text}, obligations[], discharged, cmd)."""
    props = f'Props/{pid}.v'
    files = closure(props)
    out = dict(ok=False, log='', assumptions={}, obligations=count_obligations(files),
               discharged=0, cmd='', files=files, hygiene=hygiene(files))
    with CoqLock():
        ok, log, cmd = make([f'Props/{pid}.vo'])
        model_ok = True
        if extra:
            model_ok, log_m, _ = make(list(extra))
            if not model_ok:
                log += log_m
        out['model_ok'] = model_ok
        out['cmd'] = f'cd {COQ} && {cmd}'
        out['log'] = log[-6000:]
        if ok:
            p = subprocess.run(['timeout', '600', 'coqc', '-Q', '.', 'Darr', props],
                               cwd=COQ, capture_output=True, text=True)
            out['cmd'] += f' && coqc -Q . Darr {props}'
            ok = p.returncode == 0
            out['log'] = (p.stdout + p.stderr)[-6000:]
            if ok:
                out['assumptions'] = parse_assumptions((COQ / props).read_text(), p.stdout)
    if ok:
        out['discharged'] = len(out['obligations'])
    else:
        def fresh(rel):
            vo = (COQ / rel).with_suffix('.vo')
            return vo.exists() and all(vo.stat().st_mtime >= (COQ / d).stat().st_mtime
                                       for d in closure(rel))
        done = [rel for rel in files if fresh(rel)]
        out['discharged'] = len(count_obligations(done))
    if out['hygiene']:
        ok = False
        out['log'] += '\nFORBIDDEN constructs: ' + '; '.join(out['hygiene'])
    out['ok'] = ok
    return out


def parse_assumptions(src, stdout):
    names = re.findall(r'Print Assumptions\s+(\w+)\s*\.', src)
    blocks = re.split(r'(?=^(?:Closed under the global context|Axioms:|Section Variables:))',
                      stdout.strip(), flags=re.M)
    blocks = [b.strip() for b in blocks if b.strip()]
    res = {}
    for i, n in enumerate(names):
        res[n] = blocks[i] if i < len(blocks) else '?'
    return res


def _mem_cap():
    # a runaway implementation (an endless generator collected into a list ...) must end in a MemoryError
    # of its own process, not in the exhaustion of the machine
    import resource
    try:
        resource.setrlimit(resource.RLIMIT_AS, (12 * 1024 ** 3, 12 * 1024 ** 3))
    except Exception:
        pass


def _big_stack():
    """coqc parses multi-MB list literals recursively: lift the stack limit for the child"""
    import resource
    try:
        soft, hard = resource.getrlimit(resource.RLIMIT_STACK)
        resource.setrlimit(resource.RLIMIT_STACK, (hard, hard))
    except Exception:
        pass


def coqc_text(text, workdir, name, timeout=900):
    f = Path(workdir) / f'{name}.v'
    f.write_text(text, encoding='utf-8')
    p = subprocess.run(['timeout', str(timeout), 'coqc', '-Q', str(COQ), 'Darr',
                        f.name], cwd=workdir, capture_output=True, text=True, preexec_fn=_big_stack)
    return p.returncode, p.stdout, p.stderr


def parse_natlist(out):
    m = re.search(r'=\s*(\[[^\]]*\]|nil)', out.replace('\n', ' '))
    if not m:
        return None
    body = m.group(1)
    if body == 'nil' or body == '[]':
        return []
    return [int(x.replace('%nat', '').strip()) for x in body.strip('[]').split(';') if x.strip()]


def parse_coq_value(text):
    """Parse `= <value> : type` printed by Eval for values made of Z, lists and
    tuples into Python ints / lists / tuples (None if it does not parse)."""
    m = re.search(r'=\s*(.*?)\s*:\s*[^:]*$', text, flags=re.S)
    if not m:
        return None
    body = m.group(1).replace(';', ',').replace('%Z', '').replace('%nat', '')
    body = re.sub(r'\bnil\b', '[]', body)
    if not re.fullmatch(r'[\s\d,()\[\]\-]*', body):
        return None
    try:
        return eval(body, {'__builtins__': {}})
    except Exception:
        return None


# ---------------------------------------------------------------------------
# Coq literals
# ---------------------------------------------------------------------------

def cz(n):
    n = int(n)
    return f"({n})" if n < 0 else str(n)


def czl(xs):
    return "[" + "; ".join(cz(x) for x in xs) + "]"


def czl_rle(xs, minrun=48):
    """list literal with long runs written as `repeat v (Z.to_nat n)` (a Gallina
    expression of type list Z; keeps case files small for large zero-filled arrays)"""
    parts, cur, i, n = [], [], 0, len(xs)
    while i < n:
        j = i
        while j < n and xs[j] == xs[i]:
            j += 1
        if j - i >= minrun:
            if cur:
                parts.append(czl(cur)); cur = []
            parts.append(f"repeat {cz(xs[i])} (Z.to_nat {j - i})")
        else:
            cur += xs[i:j]
        i = j
    if cur or not parts:
        parts.append(czl(cur))
    return "(" + " ++ ".join(parts) + ")"


def czll(xss):
    return "[" + "; ".join(czl(x) for x in xss) + "]"


def cbool(b):
    return 'true' if b else 'false'


def copt(x, f=cz):
    return 'None' if x is None else f"(Some {f(x)})"


def cstr(s):
    assert all(32 <= ord(c) < 127 for c in s), s
    return '"' + s.replace('"', '""') + '"'


NUMTYPES = ['int8', 'int16', 'int32', 'int64', 'uint8', 'uint16', 'uint32',
            'uint64', 'float16', 'float32', 'float64', 'complex64', 'complex128']
NT_COQ = {'int8': 'Int8', 'int16': 'Int16', 'int32': 'Int32', 'int64': 'Int64',
          'uint8': 'UInt8', 'uint16': 'UInt16', 'uint32': 'UInt32', 'uint64': 'UInt64',
          'float16': 'Float16', 'float32': 'Float32', 'float64': 'Float64',
          'complex64': 'Complex64', 'complex128': 'Complex128'}
ITEMSIZE = {'int8': 1, 'int16': 2, 'int32': 4, 'int64': 8, 'uint8': 1, 'uint16': 2,
            'uint32': 4, 'uint64': 8, 'float16': 2, 'float32': 4, 'float64': 8,
            'complex64': 8, 'complex128': 16}
EXC_CODE = {'ValueError': 1, 'TypeError': 2, 'OSError': 3, 'IndexError': 4,
            'KeyError': 5, 'AppendDataError': 6}


def exc_class(name):
    """canonical exception class (only the classes the properties name)."""
    return name if name in EXC_CODE else 'OtherError'


# ---------------------------------------------------------------------------
# context of one check run
# ---------------------------------------------------------------------------

class Ctx:
    def __init__(self, pid, tier, seed):
        self.pid, self.tier, self.seed = pid, tier, seed
        self.rng = random.Random(seed * 1000003 + int(pid[1:]))
        self.t0 = time.time()
        self.work = Path(tempfile.mkdtemp(prefix=f'verif_{pid}_'))
        for old in (OUT / 'replays').glob(f'{pid}_*.json') if (OUT / 'replays').exists() else []:
            old.unlink()
        self.dist = Counter()
        self.evaluations = 0
        self.distinct = set()
        self.samples = []
        self.failures = []          # direct-oracle failures (concrete inputs)
        self.mismatches = []        # correspondence differences
        self.corr_cases = 0
        self.traces = 0
        self.notes = []
        self.extra = {}
        self.proof = None
        self.translate_ok = True
        self.translate_log = ''
        self.exhaustive = False
        self.rule = ''
        self.model_ok = True        # model can be evaluated (Coq side built)

    @property
    def quick(self):
        return self.tier != 'thorough'

    def cleanup(self):
        shutil.rmtree(self.work, ignore_errors=True)

    def count(self, key, n=1):
        self.dist[key] += n

    def seen(self, case, nontrivial=True):
        self.evaluations += 1
        if nontrivial:
            self.distinct.add(json.dumps(case, sort_keys=True, default=str))

    def sample(self, obj, limit=4):
        if len(self.samples) < limit:
            self.samples.append(obj)

    def fail(self, signature, case, expected=None, observed=None, detail=''):
        self.failures.append(dict(signature=signature, case=case, expected=expected,
                                  observed=observed, detail=detail))

    def mismatch(self, name, case, impl_obs, model_obs=None, detail=''):
        self.mismatches.append(dict(correspondence=name, case=case, impl=impl_obs,
                                    model=model_obs, detail=detail))

    # -- implementation runner ------------------------------------------------
    def run_impl(self, cases, func, shards=None, timeout=1200, per_process=False, env_extra=None):
        """Run harness/impl_<pid>.<func>(case) on every case in child processes
        (PYTHONPATH=<repo>). Returns the list of observations (same order)."""
        if not cases:
            return []
        shards = shards or min(NPROC, max(1, len(cases) // 8))
        idx = list(range(len(cases)))
        parts = [idx[i::shards] for i in range(shards)]
        procs = []
        for k, part in enumerate(parts):
            if not part:
                continue
            fin = self.work / f'impl_in_{func}_{k}.json'
            fout = self.work / f'impl_out_{func}_{k}.json'
            fin.write_text(json.dumps([cases[i] for i in part]))
            p = subprocess.Popen([PY, str(VERIF / 'harness/implrun.py'), self.pid, func,
                                  str(fin), str(fout)], env=dict(impl_env(), **(env_extra or {})),
                                 stdout=subprocess.PIPE, stderr=subprocess.STDOUT, text=True,
                                 cwd=str(self.work), preexec_fn=_mem_cap)
            procs.append((part, fout, p))
        obs = [None] * len(cases)
        for part, fout, p in procs:
            try:
                out, _ = p.communicate(timeout=timeout)
            except subprocess.TimeoutExpired:
                p.kill()
                out, _ = p.communicate()
                out = (out or '') + '\n[timeout]'
            res = []
            if fout.exists():
                try:
                    res = json.loads(fout.read_text())
                except Exception:
                    res = []
            for j, i in enumerate(part):
                if j < len(res):
                    obs[i] = res[j]
                else:
                    obs[i] = {'harness_error': f'runner died (rc={p.returncode}): '
                              + (out or '')[-800:], 'runner_died': True, 'returncode': p.returncode}
        # a runner that died takes the rest of its shard with it: isolate the culprit by
        # re-running those cases one per process
        dead = [i for i, o in enumerate(obs) if isinstance(o, dict) and o.get('runner_died')]
        if dead and not per_process and len(dead) <= 400:
            redo = self.run_impl([cases[i] for i in dead], func, shards=len(dead), timeout=timeout,
                                 per_process=True, env_extra=env_extra)
            for i, o in zip(dead, redo):
                obs[i] = o
        return obs

    # -- model evaluation inside Coq ---------------------------------------------
    def coq_check(self, name, prelude, terms, shard=400, timeout=1200):
        """terms: list of Gallina terms of type bool (`true` = model agrees with
        the implementation's observation). Returns list of indices evaluating to
        false, or None if Coq could not evaluate (model broken)."""
        if not terms:
            return []
        jobs = []
        for k in range(0, len(terms), shard):
            chunk = terms[k:k + shard]
            body = ";\n  ".join(f"({i}%nat, {t})" for i, t in enumerate(chunk))
            text = (prelude + "\nDefinition checks : list (nat * bool) :=\n [" + body +
                    "].\nEval vm_compute in (map fst (filter (fun p => negb (snd p)) checks)).\n")
            f = self.work / f'{name}_{k}.v'
            f.write_text(text, encoding='utf-8')
            jobs.append((k, f))
        bad = []
        running = []
        results = {}

        def reap(block):
            for item in list(running):
                k, f, p = item
                if block:
                    p.wait()
                if p.poll() is not None:
                    out, err = p.communicate()
                    results[k] = (p.returncode, out, err)
                    running.remove(item)
                    if block:
                        return
        for k, f in jobs:
            while len(running) >= max(1, NPROC // 2):
                reap(True)
            p = subprocess.Popen(['timeout', str(timeout), 'coqc', '-Q', str(COQ), 'Darr', f.name],
                                 cwd=str(self.work), stdout=subprocess.PIPE,
                                 stderr=subprocess.PIPE, text=True, preexec_fn=_big_stack)
            running.append((k, f, p))
        while running:
            reap(True)
        for k, f in jobs:
            rc, out, err = results[k]
            lst = parse_natlist(out) if rc == 0 else None
            if lst is None:
                self.notes.append(f"coq evaluation of {f.name} failed: {(err or out)[-1500:]}")
                return None
            bad += [k + i for i in lst]
        self.corr_cases += len(terms)
        return sorted(bad)

    def coq_show(self, name, prelude, term, timeout=300):
        rc, out, err = coqc_text(prelude + f"\nEval vm_compute in ({term}).\n",
                                 self.work, name, timeout)
        return (out if rc == 0 else err)[-4000:].strip()


# ---------------------------------------------------------------------------
# known findings
# ---------------------------------------------------------------------------

def load_known():
    f = VERIF / 'known_findings.json'
    if not f.exists():
        return dict(findings=[], fixed=[])
    return json.loads(f.read_text())


def match_known(pid, failure, known):
    for k in known.get('findings', []):
        if k.get('property') != pid:
            continue
        if fnmatch.fnmatch(failure.get('signature', ''), k.get('signature', '')):
            return k
    return None


# ---------------------------------------------------------------------------
# verdict and evidence
# ---------------------------------------------------------------------------

def write_replay(pid, kind, payload):
    OUT.mkdir(exist_ok=True)
    d = OUT / 'replays'
    d.mkdir(exist_ok=True)
    n = 0
    while (d / f'{pid}_{kind}_{n}.json').exists():
        n += 1
    f = d / f'{pid}_{kind}_{n}.json'
    f.write_text(json.dumps(payload, indent=1, default=str))
    return f


def finish(ctx, meta):
    """Decide, print, write evidence, return exit status."""
    pid = ctx.pid
    known = load_known()
    unknown, knownhits = [], []
    for fl in ctx.failures:
        k = match_known(pid, fl, known)
        (knownhits if k else unknown).append((fl, k))
    status = 0
    lines = []
    seenk = set()
    for fl, k in knownhits:
        if k['id'] not in seenk:
            seenk.add(k['id'])
            lines.append(f"KNOWN-FINDING: property={pid} {k['description']}")
    # findings listed for this property are reported even when this run's sample
    # did not re-hit them (they are facts about the unchanged tree)
    for k in known.get('findings', []):
        if k.get('property') == pid and k['id'] not in seenk and k.get('always_report', True):
            seenk.add(k['id'])
            lines.append(f"KNOWN-FINDING: property={pid} {k['description']}")
    proof_ok = ctx.proof is not None and ctx.proof['ok'] and ctx.translate_ok
    corr_ok = not ctx.mismatches and ctx.model_ok
    nviol = 0
    if unknown:
        # concrete failing inputs against the real code
        by_sig = {}
        for fl, _ in unknown:
            by_sig.setdefault(fl['signature'], fl)
        for sig, fl in list(by_sig.items())[:5]:
            rp = write_replay(pid, 'input', dict(
                property=pid, kind='failing-input', signature=sig, case=fl['case'],
                expected=fl['expected'], observed=fl['observed'], detail=fl['detail'],
                seed=ctx.seed, tier=ctx.tier,
                proof_ok=proof_ok, correspondence_ok=corr_ok))
            lines.append(f"VIOLATION property={pid} replay={rp}")
            nviol += 1
        status = 1
    elif not proof_ok or not corr_ok:
        what = []
        if not ctx.translate_ok:
            what.append(dict(broken='translator (tie T)', log=ctx.translate_log))
        if ctx.proof is not None and not ctx.proof['ok']:
            what.append(dict(broken=f'proof: Props/{pid}.v or its dependencies no longer check',
                             log=ctx.proof['log'][-3000:]))
        if ctx.proof is None:
            what.append(dict(broken='proof step did not run'))
        if not ctx.model_ok:
            what.append(dict(broken='model could not be evaluated by coqc', notes=ctx.notes[-3:]))
        for m in ctx.mismatches[:5]:
            what.append(dict(broken=f"correspondence {m['correspondence']}", first_difference=m))
        rp = write_replay(pid, 'unproved', dict(
            property=pid, kind='no-failing-input-found',
            explanation='a proof obligation or the model/implementation correspondence no '
                        'longer checks; the failing-input search (direct oracle over this '
                        "run's cases and the corpus) found no input on which the property fails",
            no_longer_checks=what, seed=ctx.seed, tier=ctx.tier))
        lines.append(f"VIOLATION property={pid} replay={rp} no-failing-input-found")
        nviol += 1
        status = 1
    for ln in lines:
        print(ln)
    wall = time.time() - ctx.t0
    pr = ctx.proof or dict(obligations=[], discharged=0, cmd='', assumptions={}, files=[])
    tb = list(meta.get('trusted_base', []))
    for thm, txt in pr.get('assumptions', {}).items():
        tb.append(f"Print Assumptions {thm}: {' '.join(txt.split())}")
    cov = dict(
        obligations=max(len(pr['obligations']), 0),
        discharged=pr['discharged'],
        checker_cmd=pr['cmd'] or 'not run',
        trusted_base=tb,
        evaluations=ctx.evaluations,
        distinct_nontrivial=len(ctx.distinct),
        rule=ctx.rule or meta.get('rule', ''),
        samples=ctx.samples or [{'note': 'no case sampled'}],
        traces_validated_against_impl=ctx.traces,
        exhaustive=ctx.exhaustive,
        proof_files=pr.get('files', []),
        theorems=[o for o in pr['obligations'] if o.startswith('Props/')],
        translator=dict(ok=ctx.translate_ok, log=ctx.translate_log[-500:]),
        correspondence=dict(cases_evaluated_in_coq=ctx.corr_cases,
                            differences=len(ctx.mismatches), model_evaluable=ctx.model_ok),
        direct_oracle=dict(failures=len(ctx.failures), unlisted=len(unknown)),
        input_distribution=dict(ctx.dist),
        known_findings_printed=sorted(seenk),
        notes=ctx.notes[-10:],
    )
    cov.update(ctx.extra)
    ev = dict(property_id=pid, tier='thorough' if ctx.tier == 'thorough' else 'quick',
              seed=ctx.seed, level='proof', coverage=cov,
              assumptions=meta.get('assumptions', []), wall_s=round(wall, 2),
              violations=nviol)
    (VERIF / 'evidence').mkdir(exist_ok=True)
    (VERIF / 'evidence' / f'{pid}.json').write_text(json.dumps(ev, indent=1, default=str))
    print(f"[{pid}] tier={ctx.tier} seed={ctx.seed} proof={'ok' if proof_ok else 'BROKEN'} "
          f"obligations={cov['discharged']}/{cov['obligations']} "
          f"correspondence={ctx.corr_cases - len(ctx.mismatches)}/{ctx.corr_cases} "
          f"evaluations={ctx.evaluations} oracle_failures={len(ctx.failures)} "
          f"wall={wall:.1f}s -> exit {status}")
    return status
