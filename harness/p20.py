"""C20 -- DataDir never modifies protected files and round-trips user files."""
import os
import random
from common import cz, czl, cbool, EXC_CODE

META = dict(
    coq_targets=['Check20.vo'],
    rule="each public DataDir mutator {write_txt, write_jsonfile, write_jsondict, update_jsondict, "
         "delete_files, open_file in modes w a x r+ rb+ wb ab} x each protected name of Array and "
         "RaggedArray (incl. values/ indices/ and files below them) x spellings {plain, ./x, ././x, "
         "x/, .//x, sub/../x, absolute, symlink to it, pathlib.Path} x overwrite flag: must raise "
         "OSError and leave the directory tree byte-identical; user file names: write/read round "
         "trip, overwrite gate, delete_files removes exactly the named files; non-trivial = protected "
         "target with a non-canonical spelling, or a user-file mutation",
    trusted_base=[
        "Coq 8.16.1 kernel (coqc), vm_compute for evaluating the model on cases",
        "hand-written model coq/Fs.v (path resolution incl. '.', '..', symlinks; the guard of "
        "DataDir._check_writeprotected after the resolved-target fix; dd_step), tied by in-Coq "
        "differential evaluation; translator gen/py2v.py for both _protectedfiles sets",
        "the kernel's / pathlib's path resolution (Path.resolve) as oracle for where a name lands",
    ],
    assumptions=["hard links are not modelled"],
)

PRELUDE = ("From Coq Require Import ZArith List Bool String.\n"
           "From Darr Require Import Base Fs CheckArray Check20.\n"
           "Import ListNotations.\nOpen Scope string_scope.\nOpen Scope Z_scope.\nOpen Scope list_scope.\n")

APROT = ['README.txt', 'arraydescription.json', 'arrayvalues.bin', 'metadata.json']
RPROT = ['README.txt', 'arraydescription.json', 'indices', 'metadata.json', 'values']
MODES = ['w', 'a', 'x', 'r+', 'rb+', 'wb', 'ab']


def spellings(name, r, quick):
    sp = [dict(s=name), dict(s='./' + name), dict(s='././' + name), dict(s='sub/../' + name),
          dict(s='.//' + name), dict(s='nonexist/../' + name), dict(s='$BASE/' + name),
          dict(s=name, aspath=True), dict(s='./' + name, aspath=True), dict(s='sub/../' + name, aspath=True),
          dict(s='$BASE/./' + name, aspath=True), dict(s='sub/./../' + name)]
    if '/' not in name:
        sp += [dict(s='lnk_' + name.replace('.', '_'))]        # a symlink to it (planted below)
    return sp


def comps(s, base):
    """spelling string -> (abs?, [comp terms])"""
    s = s.replace('$BASE', base)
    ab = s.startswith('/')
    parts = s.split('/')
    if ab:
        parts = parts[1:]
    out = []
    for p in parts:
        if p in ('', '.'):
            out.append('CDot')
        elif p == '..':
            out.append('CUp')
        else:
            out.append(f'(CName "{p}")')
    return ab, out


def sp_term(spec, base):
    ab, cs = comps(spec['s'], base)
    return f"(mkSp {cbool(ab)} [" + "; ".join(cs) + "])"


def pterm(p):
    return "[" + "; ".join(f'"{c}"' for c in p) + "]"


def fs_term(tree, base, extra_links):
    """observed tree (implutil.snapshot) -> Fs.fs term rooted at the real base path"""
    bcomps = [c for c in base.split('/') if c]
    ents = [f"({pterm(bcomps)}, FDir)"]
    for rel, node in sorted(tree.items()):
        p = bcomps + [c for c in rel.split('/') if c]
        if node[0] == 'dir':
            ents.append(f"({pterm(p)}, FDir)")
        elif node[0] == 'file':
            ents.append(f"({pterm(p)}, FFile [{len(node[1]) // 2}])")       # content abstracted to its length
        elif node[0] == 'link':
            tgt = os.path.normpath(os.path.join(os.path.dirname('/' + '/'.join(p)), node[1]))
            ents.append(f"({pterm(p)}, FLink {pterm([c for c in tgt.split('/') if c])})")
    return "[" + "; ".join(ents) + "]"


def gen(ctx):
    r = ctx.rng
    cases = []
    for kind, prot in (('Array', APROT), ('RaggedArray', RPROT)):
        targets = list(prot)
        if kind == 'RaggedArray':
            targets += ['values/arrayvalues.bin', 'indices/README.txt', 'values/new.txt',
                        'indices/arraydescription.json', 'values/../values/README.txt']
        links = [['lnk_' + n.replace('.', '_'), '$BASE/' + n] for n in prot]
        for name in targets:
            sps = spellings(name, r, ctx.quick)
            ops = []
            for sp in sps:
                methods = ['write_txt', 'write_jsonfile', 'write_jsondict', 'update_jsondict', 'delete_files', 'open_file']
                if ctx.quick:
                    methods = r.sample(methods, 3)
                for m in methods:
                    ow = r.random() < 0.7
                    if m == 'write_txt':
                        ops.append(dict(m=m, name=sp, text='gone', ow=ow))
                    elif m in ('write_jsonfile', 'write_jsondict'):
                        ops.append(dict(m=m, name=sp, data={'x': 1}, ow=ow))
                    elif m == 'update_jsondict':
                        ops.append(dict(m=m, name=sp, data={'x': 1}))
                    elif m == 'delete_files':
                        ops.append(dict(m=m, names=[dict(s='notes.txt'), sp] if r.random() < 0.5 else [sp]))
                    else:
                        ops.append(dict(m=m, name=sp, mode=r.choice(MODES)))
            cases.append(dict(kind=kind, links=links, dirs=['sub'], files=[['notes.txt', 'hello']], ops=ops,
                              via=[None, None, 'dotdot', 'symlink', 'relative'][len(cases) % 5],
                              target=name, prot=prot))
    # user files
    for kind, prot in (('Array', APROT), ('RaggedArray', RPROT)):
        for _ in range(4 if ctx.quick else 30):
            ops = []
            names = ['notes.txt', 'n2.json', 'sub/in.txt', './dotted.txt', 'uni.txt',
                     # user names that merely BEGIN / END like protected ones
                     'metadata.json.bak', 'README.txt.old', 'arrayvalues.bin.txt', 'xREADME.txt',
                     'values_notes.txt' if kind == 'RaggedArray' else 'values', 'indices.json']
            for _ in range(12):
                nm = dict(s=r.choice(names), aspath=r.random() < 0.3)
                m = r.choice(['write_txt', 'write_jsondict', 'update_jsondict', 'delete_files', 'open_file',
                              'read_txt', 'read_jsondict'])
                if m == 'write_txt':
                    ops.append(dict(m=m, name=nm, text=r.choice(['abc', 'zwei\nzeilen', 'üñí €']), ow=r.random() < 0.5))
                elif m == 'write_jsondict':
                    ops.append(dict(m=m, name=nm, data=r.choice([{'k': [1, 2.5, None]}, {'ü': 'x'}, [1, 2], {'file': 'track\udcff.wav', 'été': ['é', 'half\ud83d']}]),
                                    ow=r.random() < 0.5))
                elif m == 'update_jsondict':
                    ops.append(dict(m=m, name=nm, data={'u': r.randrange(9)}))
                elif m == 'delete_files':
                    ops.append(dict(m=m, names=[nm]))
                elif m == 'open_file':
                    ops.append(dict(m=m, name=nm, mode=r.choice(['w', 'a', 'x', 'r', 'r+'])))
                else:
                    ops.append(dict(m=m, name=nm))
            cases.append(dict(kind=kind, links=[], dirs=['sub'], files=[], ops=ops, target=None, prot=prot, user=True))
    # JSON text that is not plain ASCII (accents, a lone surrogate): written, read back, updated, read back
    for kind, prot in (('Array', APROT), ('RaggedArray', RPROT)):
        nm = dict(s='tags.json')
        data = {'file': 'track\udcff.wav', 'été': ['é', 'half\ud83d']}
        cases.append(dict(kind=kind, links=[], dirs=['sub'], files=[], target=None, prot=prot, user=True,
                          ops=[dict(m='write_jsondict', name=nm, data=data, ow=False), dict(m='read_jsondict', name=nm),
                               dict(m='update_jsondict', name=nm, data={'u': 1}), dict(m='read_jsondict', name=nm),
                               dict(m='write_jsondict', name=nm, data={'ü': 'x\udc80'}, ow=True), dict(m='read_jsondict', name=nm)]))
    return cases


def run(ctx):
    cases = gen(ctx)
    obs = ctx.run_impl(cases, 'datadir_ops', timeout=2400)
    terms, keep = [], []
    for case, ob in zip(cases, obs):
        if isinstance(ob, dict):
            ctx.fail('harness-error', dict(kind=case['kind'], target=case['target']), observed=ob); continue
        final = ob[-1]['final_open']
        usermodel = {}
        for op, o in zip(case['ops'], ob[:-1]):
            nm = op.get('name', (op.get('names') or [None])[-1])
            key = dict(kind=case['kind'], m=op['m'], name=nm, mode=op.get('mode'), ow=op.get('ow'))
            protected_target = case['target'] is not None
            ctx.seen(key, nontrivial=(protected_target and nm['s'] != case['target']) or bool(case.get('user')))
            ctx.count(op['m']); ctx.count('protected' if protected_target else 'user')
            if protected_target:
                plain_r = op['m'] == 'open_file' and op['mode'] == 'r'
                if not plain_r and (o['res'][0] == 'ok' or o['res'][1] != 'OSError' or o['changed']):
                    ctx.fail('protected-file-touched:' + op['m'], dict(case=dict(kind=case['kind'], target=case['target']), op=op),
                             expected='OSError, directory byte-identical', observed=o)
            else:
                # user files: round trip / overwrite gate / exact deletion, against a dict model
                s = nm['s'][2:] if nm['s'].startswith('./') else nm['s']
                m = op['m']
                exp = None
                if m == 'write_txt':
                    if s in usermodel and not op['ow']: exp = 'exc'
                    else: usermodel[s] = ('txt', op['text']); exp = 'ok'
                elif m == 'write_jsondict':
                    if not isinstance(op['data'], dict): exp = 'exc'
                    elif s in usermodel and not op['ow']: exp = 'exc'
                    else: usermodel[s] = ('json', op['data']); exp = 'ok'
                elif m == 'delete_files':
                    usermodel.pop(s, None); exp = 'ok'
                elif m == 'read_txt':
                    if s in usermodel and usermodel[s][0] == 'txt':
                        exp = ('val', usermodel[s][1])
                elif m == 'read_jsondict':
                    if s in usermodel and usermodel[s][0] == 'json':
                        exp = ('val', usermodel[s][1])
                elif m == 'update_jsondict':
                    if s in usermodel and usermodel[s][0] == 'json':
                        usermodel[s] = ('json', dict(usermodel[s][1], **op['data'])); exp = 'ok'
                    else:
                        usermodel.pop(s, None) if False else None
                        exp = None
                elif m == 'open_file':
                    exp = None
                    if o['res'][0] == 'ok' and op['mode'] != 'r':
                        usermodel[s] = ('raw', None)
                if exp in ('ok', 'exc') and o['res'][0] != exp:
                    ctx.fail('user-file:' + m, dict(kind=case['kind'], op=op), expected=exp, observed=o['res'])
                if isinstance(exp, tuple) and (o['res'][0] != 'ok' or o['res'][1] != exp[1]):
                    ctx.fail('user-file-roundtrip:' + m, dict(kind=case['kind'], op=op), expected=exp[1], observed=o['res'])
                if any(c.split('/')[0] in case['prot'] for c in o['changed']):
                    ctx.fail('user-op-changed-protected', dict(kind=case['kind'], op=op), observed=o['changed'])
            ctx.traces += 1
        if final[0] != 'ok':
            ctx.fail('array-damaged', dict(kind=case['kind'], target=case['target']), observed=final)
        # model correspondence for the protected-target cases (user cases: model needs contents)
        if case['target'] is not None:
            keep.append((case, ob))
    # one bare name instead of a sequence of names
    B = [dict(kind='Array', names=list(APROT)), dict(kind='RaggedArray', names=[n for n in RPROT if '/' not in n] +
                                                                           ['values/arrayvalues.bin', 'indices/arraydescription.json'])]
    for case, ob in zip(B, ctx.run_impl(B, 'bare_names')):
        if isinstance(ob, dict):
            ctx.fail('harness-error', dict(kind=case['kind'], scenario='bare name'), observed=ob); continue
        for o in ob[:-1]:
            key = dict(kind=case['kind'], m='delete_files', name=o['name'], form='one bare ' + o['form'])
            ctx.seen(key); ctx.count('bare-name'); ctx.evaluations += 1
            if not o['unchanged']:
                ctx.fail('protected-file-touched:delete_files', key, expected='directory byte-identical', observed=o)
        if ob[-1]['final'] != 'ok':
            ctx.fail('array-damaged', dict(kind=case['kind'], scenario='bare name'), observed=ob[-1])
    # protected names that do not exist yet
    Pn = [dict(kind='Array', names=['metadata.json']),
          dict(kind='RaggedArray', names=['metadata.json', 'values/notes.txt', 'indices/metadata.json', 'values/sub/x.txt'])]
    for case, ob in zip(Pn, ctx.run_impl(Pn, 'absent_protected')):
        if isinstance(ob, dict):
            ctx.fail('harness-error', dict(kind=case['kind'], scenario='absent protected name'), observed=ob); continue
        for o in ob:
            key = dict(kind=case['kind'], m=o['how'], name=o['name'], scenario='protected name that does not exist yet')
            ctx.seen(key); ctx.count('absent-protected'); ctx.evaluations += 1
            if o['res'][0] == 'ok' or not o['unchanged']:
                ctx.fail('protected-file-touched:' + o['how'], key, expected='OSError, directory byte-identical', observed=o)
    # build terms: need the tree before each op = initial tree (protected ops change nothing)
    for case, ob in keep:
        base = '/B/arr'
        tree = {}
        if case['kind'] == 'Array':
            for n in APROT: tree[n] = ['file', '00']
        else:
            for n in ('README.txt', 'arraydescription.json', 'metadata.json'): tree[n] = ['file', '00']
            for sub in ('values', 'indices'):
                tree[sub] = ['dir']
                for n in ('README.txt', 'arraydescription.json', 'arrayvalues.bin'): tree[sub + '/' + n] = ['file', '00']
        tree['sub'] = ['dir']; tree['notes.txt'] = ['file', '00']
        for lnk, tgt in case['links']:
            tree[lnk] = ['link', tgt.replace('$BASE', base)]
        ft = fs_term(tree, base, case['links'])
        prot = "[" + "; ".join(f'"{p}"' for p in case['prot']) + "]"
        bt = pterm(['B', 'arr'])
        for op, o in zip(case['ops'], ob[:-1]):
            m = op['m']
            if m == 'write_txt':
                t = f"(DWriteTxt {sp_term(op['name'], base)} [1] {cbool(op['ow'])})"
            elif m in ('write_jsonfile', 'write_jsondict'):
                t = f"(DWriteJson {sp_term(op['name'], base)} true [1] {cbool(op['ow'])})"
            elif m == 'update_jsondict':
                t = f"(DUpdateJson {sp_term(op['name'], base)} None)"
            elif m == 'delete_files':
                t = "(DDelete [" + "; ".join(sp_term(n, base) for n in op['names']) + "])"
            else:
                t = f"(DOpen {sp_term(op['name'], base)} {cbool(op['mode'] == 'r')} true (Some [1]))"
            rc = 0 if o['res'][0] == 'ok' else EXC_CODE.get(o['res'][1], 7)
            if m == 'open_file' and op['mode'] == 'r':
                continue
            terms.append(f"chk_dd {ft} {bt} {prot} {t} {cz(rc)} {cbool(bool(o['changed']))}")
    if keep:
        c, ob = keep[0]
        ctx.sample(dict(kind=c['kind'], protected_target=c['target'],
                        calls=[dict(m=o['m'], name=o.get('name', o.get('names')), res=r_['res']) for o, r_ in list(zip(c['ops'], ob))[:5]]))
    bad = ctx.coq_check('c20', PRELUDE, terms, shard=300)
    if bad is None:
        ctx.model_ok = False
        return
    for i in bad[:5]:
        ctx.mismatch('Fs.dd_step (guard + resolution) vs DataDir', dict(term=terms[i][-400:]), None)
