"""C04 -- RaggedArray histories equal a list-of-arrays model and persist."""
import itertools
import raglib
from raglib import rhistory_case, RALPHABET, RCOMPACT, INDEXTYPES
from common import NUMTYPES, parse_coq_value

META = dict(
    coq_targets=['CheckRagged.vo'],
    rule="operation sequences over the alphabet of harness/raglib.py (append 0/1/3 rows, list, "
         "other dtype, bad atom, iterappend of nothing / 2 items / a failing item, truncate "
         "-1/0/1/2/too large/non-int, reopen, mode, metadata) from create_raggedarray and "
         "asraggedarray starts: bounded-exhaustive up to depth 2 (thorough tier: depth 3 sampled) + random longer ones, x atom "
         "{(), (2,), (1,), (2,3), (2,1)} x 13 value types x 2 byte orders x 7 index types x subarray "
         "lengths incl. 0; every ra[k] for k in {0,-1,n-1,n,-n,-n-1,1, 1.5, np.int64} and four "
         "iter_arrays parameterisations are read after every step through the live and a fresh "
         "handle; non-trivial = some step changed the array; distinct by the full case key",
    trusted_base=[
        "Coq 8.16.1 kernel (coqc), vm_compute for evaluating the model on cases",
        "hand-written model coq/RaggedModel.v (+ ArrayModel.v for the two sub-arrays); modelled, "
        "not verified: darr/raggedarray.py asraggedarray/create_raggedarray/_append/iterappend/"
        "truncate_raggedarray/__getitem__; tied by in-Coq differential evaluation",
        "translator gen/py2v.py for Gen_tables.supportedindextypes",
        "oracle: NumPy conversion of appended items; NumPy integer indexing of the index array",
    ],
    assumptions=["index arrays are written in native (little-endian) byte order"],
)

ATOMS = [(), (2,), (1,), (2, 3), (2, 1)]


def gen(ctx):
    r = ctx.rng
    cases = []
    L = 2 if ctx.quick else 3
    ti = 0
    starts = [None, [0], [2, 0, 1], [1, 1, 1, 1, 1, 2, 3]]
    for sl in starts:
        for n in range(1, L + 1):
            for letters in itertools.product(RCOMPACT, repeat=n):
                if (ctx.quick and n == 2 and (ti % 3)) or (n == 3 and (ti % 4)):
                    ti += 1         # (depth 3 is sampled: the alphabet has grown to 17 letters)
                    continue
                nt = NUMTYPES[ti % 13]; bo = ('little', 'big')[(ti // 13) % 2]
                atom = ATOMS[(ti // 7) % 5]; ity = INDEXTYPES[ti % 7]
                ti += 1
                cases.append(rhistory_case(r, nt, bo, atom, ity, sl, letters))
    ctx.extra['exhaustive_depth'] = min(L, 2)
    ctx.extra['depth_3'] = 'sampled, one sequence in 4' if L >= 3 else 'not run in this tier'
    for nt in NUMTYPES:
        for bo in ('little', 'big'):
            ity = r.choice(INDEXTYPES)
            cases.append(rhistory_case(r, nt, bo, r.choice(ATOMS), ity, r.choice(starts),
                                       ['a3', 'a0', 'aod', 't-1', 'ro', 'it2', 't0', 'al', 'a1']))
    for _ in range(60 if ctx.quick else 600):
        nt = r.choice(NUMTYPES); bo = r.choice(['little', 'big'])
        letters = [r.choice(RALPHABET) for _ in range(r.randint(3, 10 if ctx.quick else 30))]
        sl = r.choice(starts + [[r.randint(0, 3) for _ in range(r.randint(1, 9))]])
        cases.append(rhistory_case(r, nt, bo, r.choice(ATOMS), r.choice(INDEXTYPES), sl, letters,
                                   mode=r.choice(['r+', 'r+', 'r']),
                                   metadata=r.choice([None, None, {'a': 1}])))
    cases += raglib.trailing_empty_cases(r)
    cases += raglib.index_limit_cases(r)
    # every fourth history runs with both subarrays held open in an open_arrays() context: same outcomes
    for i, c in enumerate(cases):
        if i % 4 == 3 and not any(o['op'] == 'delete' for o in c['ops']):
            c['heldopen'] = True
    return cases


def key_of(case):
    return dict(nt=case['nt'], bo=case['bo'], atom=case['atom'], indextype=case['indextype'],
                start=case['sublens'], letters=case['letters'], mode=case['mode'])


def run(ctx):
    B = [dict(kind='exactchunk'), dict(kind='longlist')]
    for bc, ob in zip(B, ctx.run_impl(B, 'big_first', shards=2, timeout=1800)):
        key = dict(form={'exactchunk': 'first subarray of exactly one default chunk (80 MiB)',
                         'longlist': 'first subarray a list of 2**20+6 numbers, the last one a float'}[bc['kind']])
        if 'harness_error' in ob:
            ctx.fail('harness-error', key, observed=ob); continue
        ctx.seen(key); ctx.count('big-first-subarray'); ctx.evaluations += 1
        if not ob['ok']:
            ctx.fail('list-of-arrays-model:create', key, expected='the subarrays given, as float64', observed=ob['detail'])
    cases = gen(ctx)
    obs = ctx.run_impl(cases, 'history', timeout=2400)
    raglib.locale_independent(ctx, cases, obs, 'history', 'ragged-history')
    terms, keep = [], []
    for case, steps in zip(cases, obs):
        key = key_of(case)
        if isinstance(steps, dict):
            ctx.fail('harness-error', key, observed=steps)
            continue
        changed = False
        for i, st in enumerate(steps):
            why = raglib.check_c04(st, case)
            if why:
                ctx.fail('list-of-arrays-model:' + (case['ops'][i - 1]['op'] if i else 'create'),
                         dict(case=case, step=i), detail=why,
                         expected=[r['shape'] for r in st['ref']],
                         observed=dict(res=st['res'], live=str(st['live'])[:300]))
                break
            if i and st['ref'] != steps[i - 1]['ref']:
                changed = True
            if i:
                op = case['ops'][i - 1]
                if op['op'] == 'truncate' and st['res'][0] == 'ok' and \
                        (op.get('nonint') or not len(st['ref']) < len(steps[i - 1]['ref'])):
                    ctx.fail('invalid-truncate-accepted', dict(case=case, step=i), observed=st['res'])
                    break
                if op['op'] == 'truncate' and st['res'][0] != 'ok' and len(st['ref']) < len(steps[i - 1]['ref']):
                    # (the reference only shortens for an int index in mode 'r+')
                    ctx.fail('valid-truncate-raised', dict(case=case, step=i),
                             expected='truncation to %d subarrays' % len(st['ref']), observed=st['res'])
                    break
        ctx.seen(key, nontrivial=changed)
        ctx.count('atomrank=%d' % len(case['atom'])); ctx.count('indextype:' + case['indextype'])
        for l, st in zip(case['letters'], steps[1:]):
            ctx.count('op:' + l + ':' + ('ok' if st['res'][0] == 'ok' else st['res'][1]))
        ctx.traces += len(steps)
        terms.append(raglib.rhistory_term(case, steps))
        keep.append((case, steps))
        for t in raglib.iter_terms(steps[-1], case):        # iter_arrays on the final files
            terms.append(t)
            keep.append((case, steps))
    if keep:
        c, s = keep[len(keep) // 2]
        ctx.sample(dict(key=key_of(c), results=[x['res'][:2] for x in s],
                        final_lengths=[r['shape'][0] for r in s[-1]['ref']]))
    bad = ctx.coq_check('c04', raglib.PRELUDE, terms, shard=60)
    if bad is None:
        ctx.model_ok = False
        return
    for i in bad[:5]:
        case, steps = keep[i]
        report_rmismatch(ctx, 'c04dbg%d' % i, case, steps)


def report_rmismatch(ctx, name, case, steps, corr='RaggedModel.rstep vs darr.RaggedArray'):
    txt = ctx.coq_show(name, raglib.PRELUDE, raglib.rhistory_term(case, steps, 'rdbg_history'))
    model = parse_coq_value(txt)
    impl = [raglib.flat_rstep(s) for s in steps]
    first = None
    if model is not None:
        for j, (m, o) in enumerate(zip(model, impl)):
            if list(m[1]) != o[1] or list(m[2]) != o[2] or (m[0] != o[0] and not (m[0] in (1, 7) and o[0] != 0)):
                first = dict(step=j, op=(case['ops'][j - 1] if j else 'create'),
                             model=[m[0], list(m[1]), list(m[2])], impl=list(o))
                break
    ctx.mismatch(corr, key_of(case), None, model_obs=None if first else txt[:1500], detail=first)
