"""C05 -- RaggedArray directory stays structurally well-formed and self-describing."""
import raglib
import p04
from raglib import rhistory_case, RALPHABET, INDEXTYPES
from common import NUMTYPES

META = dict(
    coq_targets=['CheckRagged.vo'],
    rule="every on-disk state of the histories of C04 is decoded after each step (a) by a Python "
         "reader that uses only json + int.from_bytes on the three descriptors and the two data "
         "files and (b) by the Coq readers RaggedModel.index_rows + Spec.chain_ok (rchk_wf), and "
         "checked for: two well-formed Darr arrays, values (N,)+atom, indices (n,2) integer, "
         "indices[0,0]=0, start<=end, start=previous end, last end=N, top-level len/size/atom/"
         "numtype/darrobject; non-trivial = at least one subarray; distinct by case key and step",
    trusted_base=[
        "Coq 8.16.1 kernel (coqc), vm_compute for evaluating the model on cases",
        "hand-written model coq/RaggedModel.v tied by the C04 correspondence (same histories)",
        "coq/Codec.v / RaggedModel.index_rows as the reading of the documented format",
    ],
    assumptions=["index arrays are written in native (little-endian) byte order"],
)


def gen(ctx):
    r = ctx.rng
    cases = []
    starts = [None, [0], [2, 0, 1], [0, 0], [1, 1, 1, 1, 1, 2, 3]]
    for nt in NUMTYPES:
        for ity in INDEXTYPES:
            if ctx.quick and (NUMTYPES.index(nt) + INDEXTYPES.index(ity)) % 3:
                continue
            letters = [r.choice(['a0', 'a1', 'a3', 'aod', 'asw', 'abig', 'it2', 'itbad', 't-1', 't1', 't0', 'abad', 'ro', 'al'])
                       for _ in range(4 if ctx.quick else 8)]
            cases.append(rhistory_case(r, nt, r.choice(['little', 'big']), r.choice(p04.ATOMS), ity,
                                       r.choice(starts), letters))
    for _ in range(40 if ctx.quick else 500):
        letters = [r.choice(RALPHABET) for _ in range(r.randint(3, 10 if ctx.quick else 30))]
        cases.append(rhistory_case(r, r.choice(NUMTYPES), r.choice(['little', 'big']), r.choice(p04.ATOMS),
                                   r.choice(INDEXTYPES), r.choice(starts), letters))
    cases += raglib.trailing_empty_cases(r)
    cases += raglib.index_limit_cases(r)
    return cases


def run(ctx):
    cases = gen(ctx)
    obs = ctx.run_impl(cases, 'history', timeout=2400)
    raglib.locale_independent(ctx, cases, obs, 'history', 'ragged-history')
    terms, keep = [], []
    for case, steps in zip(cases, obs):
        key0 = p04.key_of(case)
        if isinstance(steps, dict):
            ctx.fail('harness-error', key0, observed=steps)
            continue
        for i, st in enumerate(steps):
            key = dict(key0, step=i)
            ctx.seen(key, nontrivial=len(st['ref']) > 0)
            ctx.count('n=%d' % min(len(st['ref']), 8)); ctx.count('indextype:' + case['indextype'])
            why = raglib.check_c05(st, case)
            if why:
                ctx.fail('not-well-formed:' + (case['ops'][i - 1]['op'] if i else 'create'),
                         dict(case=case, step=i), detail=why,
                         observed=dict(top=st['top']['descr'], values=raglib.arrlib.descr_core(st['values']['descr']) if st['values'] else None,
                                       indices=raglib.arrlib.descr_core(st['indices']['descr']) if st['indices'] else None))
                break
            terms.append(f"rchk_wf {raglib.rdir_term(st)}")
            keep.append((key, st))
            ctx.traces += 1
    # relative handle, then chdir, then resize
    R = [dict(atom=list(a), dtype=dt, indextype=it, ops=ops) for a, dt, it, ops in
         (((), 'float64', 'int64', ['append', 'truncate', 'meta']), ((2,), '>i4', 'uint16', ['truncate', 'append']),
          ((2, 3), 'uint8', 'int32', ['meta', 'append', 'append']))]
    for case, steps in zip(R, ctx.run_impl(R, 'chdir_resize')):
        key0 = dict(scenario='relative handle, working directory changed', **case)
        if isinstance(steps, dict):
            ctx.fail('harness-error', key0, observed=steps); continue
        for i, st in enumerate(steps):
            ctx.seen(dict(key0, step=i)); ctx.count('chdir:' + st['res'][0])
            why = raglib.check_c05(st, case)
            if why:
                ctx.fail('not-well-formed:after-chdir:' + case['ops'][i], dict(case=case, step=i), detail=why,
                         observed=dict(res=st['res'], top=st['top']['descr']))
                break
    if keep:
        k, st = keep[len(keep) // 2]
        ctx.sample(dict(state=k, top=st['top']['descr'], indices_hex=st['indices']['data'][:96],
                        values_shape=st['values']['descr']['shape']))
    bad = ctx.coq_check('c05', raglib.PRELUDE, terms, shard=200)
    if bad is None:
        ctx.model_ok = False
        return
    for i in bad[:5]:
        key, st = keep[i]
        ctx.mismatch('readers Spec.chain_ok/RaggedModel.index_rows on the observed files', key,
                     dict(top=st['top']['descr']),
                     model_obs=ctx.coq_show('c05dbg%d' % i, raglib.PRELUDE,
                                            f"index_rows (r_indices {raglib.rdir_term(st)})")[:600])
