#!/bin/bash
# test a batch of stored seeded changes inside a `vp run --with-repo` snapshot:
#   vp run --with-repo -- ./harness/seedbatch.sh C01 C02 ...
cd "$(dirname "$0")/.."; mkdir -p out
if [ -n "$VP_RUN_REPO" ]; then export DARR_REPO=$VP_RUN_REPO; fi
./check --setup > out/setup.log 2>&1 || { echo "setup failed"; tail -20 out/setup.log; }
for c in "$@"; do
  python3 harness/seedtool.py test $c 2>&1 | grep -v WARN | grep "DETECTED\|missed\|error"
done
