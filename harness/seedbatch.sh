#!/bin/bash
# test stored seeded changes inside a `vp run --with-repo` snapshot:
#   vp run --with-repo -- ./harness/seedbatch.sh C01 C02 ...            (every change of those properties)
#   vp run --with-repo -- ./harness/seedbatch.sh -f seeded/batch.txt    (one `seedtool.py test` argument list per line)
cd "$(dirname "$0")/.."; mkdir -p out
if [ -n "$VP_RUN_REPO" ]; then export DARR_REPO=$VP_RUN_REPO; fi
./check --setup > out/setup.log 2>&1 || { echo "setup failed"; tail -20 out/setup.log; }
if [ "$1" = "-f" ]; then
  while read -r line; do
    [ -z "$line" ] && continue
    python3 harness/seedtool.py test $line 2>&1 | grep -v WARN | grep "DETECTED\|missed\|error"
  done < "$2"
else
  for c in "$@"; do
    python3 harness/seedtool.py test $c 2>&1 | grep -v WARN | grep "DETECTED\|missed\|error"
  done
fi
