"""C01 -- Array creation round-trips values, dtype, byte order and shape."""
import numpy as np
import arrlib
from arrlib import nd_spec, rand_array, dtype_str, small_values, NT_COQ, BO_COQ, MODE_COQ
from common import NUMTYPES, ITEMSIZE, cz, czl, czl_rle, copt, cbool

META = dict(
    coq_targets=['CheckArray.vo'],
    rule="13 types x 2 byte orders x layouts {C, F, strided, negative stride, transposed, "
         "broadcast} x rank 1..4 incl. length-0/1 axes x input form {ndarray, list, tuple, scalar, "
         "generator of chunks, Darr Array} x dtype argument {None, supported type} x chunklen "
         "{None, 1, 2, len-1, len, len+1} x fill {value, fillfunc} with planted NaN payloads, -0.0, "
         "+-inf, subnormals, integer extremes; quick = covering sample, thorough = far larger "
         "sample; non-trivial = at least one element and more than one chunk or a cast; distinct by "
         "the full parameter tuple",
    trusted_base=[
        "Coq 8.16.1 kernel (coqc), vm_compute for evaluating the model on cases",
        "translator gen/py2v.py: fit_frames and iterindices used by the chunk plans are the "
        "GENERATED ones",
        "hand-written model coq/ArrayModel.v (archunks, asarray_m, fillchunks: modelled, not "
        "verified: _archunkgenerator, asarray, _fillgenerator, create_array), tied by in-Coq "
        "differential evaluation",
        "oracle: NumPy conversion/casting of the input (np.asarray(x, dtype)), memory layouts, "
        "the values a fill function returns",
    ],
    assumptions=["element type of the converted input decides support (as in the code)"],
)

PRELUDE = arrlib.PRELUDE


def chunklens(r, n, quick):
    base = [None, 1, 2, max(n - 1, 1), max(n, 1), n + 1, 0]
    return [r.choice(base)] if quick else base


def shapes_for(rank, r):
    opts = {1: [(0,), (1,), (5,), (7,)], 2: [(0, 2), (3, 1), (4, 3), (1, 2)],
            3: [(2, 1, 3), (0, 2, 2), (3, 2, 2)], 4: [(2, 1, 2, 2), (1, 2, 1, 3)]}
    return opts[rank]


def gen(ctx):
    r = ctx.rng
    cases = []
    q = ctx.quick
    # ndarray inputs
    for nt in NUMTYPES:
        for bo in ('little', 'big'):
            for rank in (1, 2, 3, 4):
                shs = shapes_for(rank, r)
                for sh in ([r.choice(shs)] if q else shs):
                    lays = ['C', 'F', 'strided', 'neg', 'T', 'bcast']
                    for lay in ([r.choice(lays)] if q else lays):
                        a = rand_array(r, nt, bo, sh)
                        if lay == 'bcast' and sh[0] > 0:
                            a = np.broadcast_to(a[:1], a.shape).copy()
                        dts = [None, r.choice(NUMTYPES)]
                        for dt in dts:
                            if dt is not None:
                                a2 = small_values(r, sh, dtype_str(nt, bo))
                                dtarg = dtype_str(dt, r.choice(['little', 'big']))
                            else:
                                a2, dtarg = a, None
                            for cl in chunklens(r, sh[0], q):
                                cases.append(dict(form='nd', value=nd_spec(a2, lay), dtype=dtarg,
                                                  chunklen=cl, mode=r.choice(['r', 'r+'])))
    # lists, tuples, scalars
    for _ in range(40 if q else 400):
        sh = r.choice([(0,), (3,), (2, 2), (4, 1), (2, 2, 2)])
        kind = r.choice(['int', 'float', 'complex'])
        vals = small_values(r, sh, {'int': 'int64', 'float': 'float64', 'complex': 'complex128'}[kind])
        if kind == 'complex':
            continue
        v = vals.tolist()
        dt = r.choice([None, None, dtype_str(r.choice(NUMTYPES), r.choice(['little', 'big']))])
        cases.append(dict(form=r.choice(['list', 'tuple']), value=dict(kind=r.choice(['list', 'tuple']), value=v),
                          dtype=dt, chunklen=r.choice([None, 1, 2, 3, 100])))
    for _ in range(12 if q else 60):
        dt = r.choice([None, dtype_str(r.choice(NUMTYPES), r.choice(['little', 'big']))])
        sc = r.choice([dict(kind='scalar', value=r.randrange(100)), dict(kind='scalar', value=2.5),
                       dict(kind='npscalar', dtype=dtype_str(r.choice(NUMTYPES), 'little'), value=r.randrange(100))])
        cases.append(dict(form='scalar', value=sc, dtype=dt, chunklen=r.choice([None, 1, 5])))
    # iterators of chunks
    for _ in range(40 if q else 400):
        nt = r.choice(NUMTYPES); bo = r.choice(['little', 'big'])
        tail = r.choice([(), (2,), (1, 3)])
        n = r.randint(1, 4)
        chunks = []
        for i in range(n):
            if i and r.random() < 0.4:
                other = r.choice(NUMTYPES)
                chunks.append(nd_spec(small_values(r, (r.randint(0, 3),) + tail, dtype_str(other, r.choice(['little', 'big']))),
                                      r.choice(['C', 'strided', 'neg'])))
            elif r.random() < 0.2:
                chunks.append(dict(kind='list', value=small_values(r, (r.randint(1, 2),) + tail, 'int64').tolist()))
            elif i and r.random() < 0.3:
                # the first chunk's numeric type in the OTHER byte order
                chunks.append(nd_spec(rand_array(r, nt, 'big' if bo == 'little' else 'little', (r.randint(1, 3),) + tail)))
            else:
                arr = rand_array(r, nt, bo, (r.randint(0, 3),) + tail) if i == 0 or r.random() < .5 else \
                    small_values(r, (r.randint(0, 3),) + tail, dtype_str(nt, bo))
                chunks.append(nd_spec(arr, r.choice(['C', 'F', 'strided'])))
        dt = r.choice([None, None, dtype_str(r.choice(NUMTYPES), r.choice(['little', 'big']))])
        if dt is not None:
            chunks = [c if c['kind'] != 'nd' else nd_spec(small_values(r, tuple(c['shape']), c['dtype']), c['layout'])
                      for c in chunks]
        cases.append(dict(form='iter', chunks=chunks, dtype=dt, chunklen=r.choice([None, 1, 7])))
    # Darr arrays as input
    for _ in range(30 if q else 300):
        nt = r.choice(NUMTYPES); bo = r.choice(['little', 'big'])
        sh = r.choice([(0,), (1,), (6,), (5, 2), (0, 2), (3, 1, 2)])
        dt = r.choice([None, dtype_str(r.choice(NUMTYPES), r.choice(['little', 'big']))])
        a = small_values(r, sh, dtype_str(nt, bo)) if dt else rand_array(r, nt, bo, sh)
        for cl in chunklens(r, sh[0], q):
            cases.append(dict(form='darr', value=nd_spec(a), dtype=dt, chunklen=cl))
    # create_array
    for _ in range(50 if q else 500):
        nt = r.choice(NUMTYPES); bo = r.choice(['little', 'big'])
        sh = r.choice([(0,), (1,), (7,), (5, 2), (0, 3), (4, 1, 2), (6, 2, 1, 2)])
        c = dict(form='fill', shape=list(sh), dtype=dtype_str(nt, bo),
                 chunklen=r.choice([None, 1, 2, 3, max(sh[0], 1), sh[0] + 1]),
                 intshape=r.random() < 0.3)
        if r.random() < 0.5:
            c['fillfunc'] = r.choice(['idx', 'dbl', 'mod', 'half', 'sq', 'cum', 'rowsum'])
        else:
            c['fill'] = r.choice([None, 0, 1, 23, 2.5, -0.0, -0.0])      # -0.0: the sign bit must survive
        cases.append(c)
    # unsupported element types
    for u in ['bool', 'str', 'object', 'datetime', 'struct', 'boollist', 'strlist', 'dict', 'none',
              'longdouble', 'clongdouble', 'longdoublescalar', 'timedelta', 'bytes']:
        cases.append(dict(form='unsupported', value=dict(u=u), dtype=None, chunklen=r.choice([None, 1])))
    cases.append(dict(form='nd', value=nd_spec(np.arange(4, dtype='int32')), dtype='bool', chunklen=None))
    cases.append(dict(form='nd', value=nd_spec(np.arange(4, dtype='int32')), dtype='longdouble', chunklen=None))
    cases.append(dict(form='nd', value=nd_spec(np.arange(4, dtype='float64')), dtype='clongdouble', chunklen=2))
    # first axis longer than the range of a narrow integer type: the index grid must not wrap
    for dt in ('uint8', 'int8', '>i2'):
        for cl in (None, 7, 300):
            cases.append(dict(form='fill', shape=[300], dtype=dtype_str(dt.lstrip('>'), 'big' if dt[0] == '>' else 'little'),
                              chunklen=cl, intshape=False, fillfunc='hmod'))
    # the chunk length given as a NumPy integer that cannot count up to the length of the first axis
    big1 = (np.arange(300, dtype='int64') % 251).astype('int16')
    for clt, cl in (('int8', 100), ('uint8', 200), ('int8', 127), ('int16', 7)):
        cases.append(dict(form='nd', value=nd_spec(big1), dtype=None, chunklen=cl, cltype=clt, mode='r'))
        cases.append(dict(form='darr', value=nd_spec(big1), dtype=None, chunklen=cl, cltype=clt))
    return cases


def img_term(im):
    if im['dt'] is None:
        return f"(mkImage None {czl(im['tail'])} [])"
    return arrlib.image_term(im['dt'][0], im['dt'][1], im['tail'], im['rows'])


def source_term(case, ob):
    f = case['form']
    ims = ob.get('images')
    if f in ('nd',):
        return f"(SSeq {img_term(ims[0])} true)"
    if f in ('list', 'tuple'):
        return f"(SSeq {img_term(ims[0])} false)"
    if f in ('scalar', 'npscalar'):
        return f"(SScalar {img_term(ims[0])})"
    if f == 'darr':
        return f"(SDarr {img_term(ims[0])})"
    if f == 'iter':
        return "(SIter [" + "; ".join(img_term(i) for i in ims) + "])"
    if f == 'fill':
        im = ims[0]
        rows = arrlib.rows_term(im['rows'])
        n = im['n']
        isz = ITEMSIZE[im['dt'][0]]
        tail = im['tail']
        cl = case.get('chunklen')
        if cl is None:
            cl = max((80 * 1024 ** 2) // (int(np.prod(tail, dtype=np.int64)) * isz if tail else isz), 1)
        dt = f"(Some ({NT_COQ[im['dt'][0]]}, {BO_COQ[im['dt'][1]]}))"
        return (f"(SIter (fillchunks {cz(n)} {cz(cl)} (fun j => nth (Z.to_nat j) {rows} []) "
                f"{dt} {czl(tail)}))")
    if f == 'unsupported':
        if ims is None:
            return "SOther"
        return f"(SSeq {img_term(ims[0])} true)"
    raise ValueError(f)


def flat_created(ob):
    st = dict(res=ob['res'], live=ob['live'], files=ob['files'])
    return arrlib.flat_step(st)


def run(ctx):
    cases = gen(ctx)
    obs = ctx.run_impl(cases, 'create')
    terms, keep = [], []
    for case, ob in zip(cases, obs):
        key = {k: (v if k not in ('value', 'chunks') else str(v)[:300]) for k, v in case.items()}
        if 'harness_error' in ob:
            ctx.fail('harness-error', key, observed=ob)
            continue
        ref = ob.get('ref')
        supported = ref is not None and ref.get('dtype') is not None
        n = (ref or {}).get('shape', [0])[0] if ref else 0
        ctx.seen(key, nontrivial=supported and n > 0)
        ctx.count('form:' + case['form']); ctx.count('dtypearg:' + ('yes' if case.get('dtype') else 'none'))
        ctx.count('chunklen:' + str(case.get('chunklen')) if case.get('chunklen') in (None, 0, 1, 2) else 'chunklen:other')
        if supported:
            ctx.count('type:' + ref['dtype'][0])
        # ---- direct oracle: equals the NumPy reference
        if not supported:
            if ob['res'][0] == 'ok' or ob['res'][1] != 'TypeError' or ob['exists']:
                ctx.fail('unsupported-input', key, expected='TypeError, nothing created',
                         observed=dict(res=ob['res'], exists=ob['exists']))
        else:
            if ob['res'][0] != 'ok':
                ctx.fail('creation-failed:' + case['form'], key, expected=ref['shape'], observed=ob['res'])
                continue
            for nm in ('live', 'fresh'):
                v = ob[nm]
                if 'error' in v or v['dtype'] != ref['dtype'] or v['shape'] != ref['shape'] \
                        or v['data'] != ref['data']:
                    ctx.fail('creation-differs:' + case['form'], key,
                             expected=dict(dtype=ref['dtype'], shape=ref['shape'], data=ref['data'][:80]),
                             observed=dict(which=nm, dtype=v.get('dtype'), shape=v.get('shape'),
                                           data=(v.get('data') or '')[:80], err=v.get('error')))
                    break
        # ---- correspondence with the model
        try:
            src = source_term(case, ob)
        except Exception as e:
            ctx.notes.append(f'case not expressible for the model: {e}')
            continue
        cl = case.get('chunklen') if case['form'] != 'fill' else None
        mode = MODE_COQ[case.get('mode', 'r+' if case['form'] == 'fill' else 'r')]
        created = f"(created {src} {copt(cl)} {mode} false)"
        if ob['res'][0] == 'ok':
            rc, fl = flat_created(ob)
            terms.append(f"chk_history {created} [] [({cz(rc)}, {czl_rle(fl)})]")
        else:
            rc = {'TypeError': 2, 'ValueError': 1, 'OSError': 3}.get(ob['res'][1], 7)
            terms.append(f"chk_history {created} [] [({cz(rc)}, [])]")
        keep.append((key, ob, created))
        ctx.traces += 1
    # arrays beyond the 80 MiB default chunk (direct oracle only: too large for a Coq literal)
    bigs = [dict(kind='asarray2d'), dict(kind='copy'), dict(kind='wideasarray'), dict(kind='exactmultiple')] if ctx.quick else \
        [dict(kind=k) for k in ('asarray2d', 'fill1d', 'asarray1d', 'copy', 'wideasarray', 'widecopy', 'exactmultiple')]
    for case, ob in zip(bigs, ctx.run_impl(bigs, 'big', shards=len(bigs), timeout=1800)):
        key = dict(form='big:' + case['kind'])
        if 'harness_error' in ob:
            ctx.fail('harness-error', key, observed=ob); continue
        ctx.seen(key); ctx.count('big-array'); ctx.evaluations += 1
        if not ob['ok']:
            ctx.fail('creation-differs:big', key, expected='the NumPy reference, default chunk length', observed=ob['detail'])
    if keep:
        k, ob, _ = keep[len(keep) // 2]
        ctx.sample(dict(case=k, result=ob['res'][:2], shape=ob.get('fresh', {}).get('shape'),
                        dtype=ob.get('fresh', {}).get('dtype')))
    bad = ctx.coq_check('c01', PRELUDE, terms, shard=250)
    if bad is None:
        ctx.model_ok = False
        return
    from common import parse_coq_value
    for i in bad[:5]:
        key, ob, created = keep[i]
        txt = ctx.coq_show('c01dbg%d' % i, PRELUDE, f"dbg_history {created} []")
        ctx.mismatch('ArrayModel.asarray_m vs darr.asarray/create_array', key,
                     dict(res=ob['res'], flat=flat_created(ob)[1][:60] if ob['res'][0] == 'ok' else None),
                     model_obs=txt[:800])
