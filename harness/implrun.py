"""Child process: runs impl_<pid>.<func>(case) for every case of a JSON file with the
implementation on PYTHONPATH; writes the list of observations."""
import importlib
import json
import os
import sys
import tempfile
import shutil
import traceback
import warnings

warnings.simplefilter('ignore')


def _plain(o):
    # a NumPy scalar that leaked into an observation (e.g. a shape entry) is reported by value
    item = getattr(o, 'item', None)
    if callable(item):
        try:
            return item()
        except Exception:
            pass
    return str(o)


def main():
    pid, func, fin, fout = sys.argv[1:5]
    mod = importlib.import_module(f'impl_{pid}')
    f = getattr(mod, func)
    cases = json.load(open(fin))
    out = []
    tmp = tempfile.mkdtemp(prefix=f'verif_impl_{pid}_')
    try:
        for i, c in enumerate(cases):
            d = os.path.join(tmp, f'c{i}')
            os.mkdir(d)
            try:
                out.append(f(c, d))
            except BaseException as e:   # an escape from the per-case wrapper
                out.append({'harness_error': f'{type(e).__name__}: {e}',
                            'tb': traceback.format_exc()[-1500:]})
            shutil.rmtree(d, ignore_errors=True)
            if i % 50 == 49:
                json.dump(out, open(fout, 'w'), default=_plain)
        json.dump(out, open(fout, 'w'), default=_plain)
    finally:
        shutil.rmtree(tmp, ignore_errors=True)


if __name__ == '__main__':
    main()
