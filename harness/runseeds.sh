#!/bin/bash
# quick tier of every check for several seeds (false-alarm hunt): ./harness/runseeds.sh 5 6 7
cd "$(dirname "$0")/.."; mkdir -p out
if [ -n "$VP_RUN_REPO" ]; then export DARR_REPO=$VP_RUN_REPO; fi
./check --setup > out/setup.log 2>&1 || { echo "setup failed"; tail -20 out/setup.log; }
for seed in "$@"; do
  for c in C01 C02 C03 C04 C05 C06 C07 C08 C09 C10 C11 C12 C13 C14 C15 C16 C17 C18 C19 C20; do
    ./check $c --tier quick --seed $seed 2>&1 | grep "^\[C\|VIOLATION\|KNOWN"
  done
done
