"""C07 implementation side: create a ragged array, collect RaggedArray.readcode for every
language and path mode, run / interpret every offered program and call its accessor for
every k; compare with the subarrays."""
import os
import re
import random
import numpy as np
import darr
from darr.readcoderaggedarray import readcodefunc
from implutil import snapshot, dtype_info
import langs
from impl_C06 import distinct_values

MODES = ('rel', 'base', 'abs', 'both')      # both: abspath=True AND a basepath (abspath wins)
ORIGIN0 = {'darr', 'numpymemmap', 'idl'}
NODIMS = {'scilab', 'mathematica', 'idl'}      # an empty range result has no dimensions there
WORDS = ['first', 'second', 'third']


def expected_sub(sub, lang):
    return sub.transpose() if lang in langs.COLMAJOR else sub


def cmp_sub(res, sub, lang, atomrank):
    """res: what the accessor returned; sub: the stored subarray (len_k, atom...)"""
    exp = expected_sub(sub, lang)
    expn = exp.astype(exp.dtype.newbyteorder('='))
    if sub.shape[0] == 0:
        nodims = lang in NODIMS or (lang == 'R' and atomrank == 0)
        if res is None:
            return None if nodims else ('wrong-dims', 'empty value without dimensions')
        if res.size != 0:
            return 'wrong-values', f'{res.size} elements for an empty subarray'
        if not nodims and tuple(res.shape) != tuple(expn.shape):
            return 'wrong-dims', f'empty value of dims {tuple(res.shape)} for {tuple(expn.shape)}'
        return None
    if res is None:
        return 'wrong-values', 'empty value for a non-empty subarray'
    if tuple(res.shape) != tuple(expn.shape):
        return 'wrong-dims', f'{tuple(res.shape)} for {tuple(expn.shape)}'
    if res.dtype != expn.dtype:
        return 'wrong-type', f'{res.dtype} for {expn.dtype}'
    if np.ascontiguousarray(res).tobytes() != np.ascontiguousarray(expn).tobytes():
        return 'wrong-values', 'element bit patterns differ'
    return None


def run_python(lang, code, cwd, path, subs, atomrank):
    """execute the darr / numpymemmap program; returns (fails, ncalls)"""
    fails, calls = [], 0
    old = os.getcwd()
    src = code.replace("'path_to_data_dir'", repr(path)) if lang == 'darr' else code
    ns = {}
    try:
        os.chdir(cwd)
        try:
            exec(compile(src, f'<ragged readcode {lang}>', 'exec'), ns)
        except SyntaxError as e:
            return [('not-well-formed', str(e)[:200])], 0
        except Exception as e:
            return [('run-error', f'{type(e).__name__}: {e}'[:200])], 0
        get = (lambda k: ns['a'][k]) if lang == 'darr' else ns['getsubarray']
        for k, sub in enumerate(subs):
            try:
                res = np.asarray(get(k))
            except Exception as e:
                fails.append(('run-error', f'k={k}: {type(e).__name__}: {e}'[:200])); continue
            calls += 1
            if res.dtype != sub.dtype:
                fails.append(('wrong-type', f'k={k}: {res.dtype} for {sub.dtype}')); continue
            r = cmp_sub(res.astype(res.dtype.newbyteorder('=')), sub, lang, atomrank)
            if r:
                fails.append((r[0], f'k={k}: {r[1]}'))
        if lang == 'darr' and ns['a'].accessmode != 'r':
            fails.append(('changed-files', 'darr snippet opens the array writable'))
        if lang == 'numpymemmap':
            for nm in ('i', 'v'):
                mm = ns.get(nm)
                if isinstance(mm, np.memmap) and mm.flags.writeable and mm.mode != 'c':
                    fails.append(('changed-files', f'memmap {nm} opened with mode {mm.mode!r}'))
        sa = ns.get('sa')
        ns.clear()
    finally:
        os.chdir(old)
    return fails, calls, sa


def ragged(case, d):
    home = os.path.dirname(os.path.abspath(__file__))
    try:
        return _ragged(case, d)
    finally:
        os.chdir(home)          # never stay inside a case directory that is about to be removed


def _ragged(case, d):
    """case: {dtype, indextype, atom, lens, seed}"""
    rng = random.Random(case['seed'])
    sub = os.path.join(d, 'sub')
    os.mkdir(sub)
    path = os.path.join(sub, 'ra.darr')
    atom = tuple(case['atom'])
    dt = np.dtype(case['dtype'])
    p = int(np.prod(atom)) if atom else 1
    total = sum(case['lens']) * p
    allv = distinct_values(dt, total, rng).astype(dt)
    subs, pos = [], 0
    for n in case['lens']:
        subs.append(allv[pos:pos + n * p].reshape((n,) + atom))
        pos += n * p
    if case['lens']:
        ra = darr.asraggedarray(path, subs, dtype=dt, indextype=case['indextype'], accessmode='r+')
    else:
        ra = darr.create_raggedarray(path, atom=atom, dtype=dt, indextype=case['indextype'], accessmode='r+')
    if case['seed'] % 3 == 0:
        # a handle opened through a RELATIVE path (abspath=True must still name the absolute files)
        del ra
        os.chdir(d)
        ra = darr.RaggedArray(os.path.join('sub', 'ra.darr'), accessmode='r+')
    vnt, vbo = dtype_info(ra._values.dtype)
    int_, ibo = dtype_info(ra._indices.dtype)
    out = dict(vnumtype=vnt, vbyteorder=vbo, inumtype=int_, ibyteorder=ibo, n=len(ra), atom=list(ra.atom),
               vlen=int(ra._values.shape[0]), absdir=os.path.realpath(path),
               languages=list(ra.readcodelanguages), all_languages=sorted(readcodefunc.keys()))
    codes = {}
    for lang in sorted(readcodefunc.keys()):
        codes[lang] = {}
        for mode in MODES:
            kw = dict(rel={}, base=dict(basepath='sub/ra.darr'), abs=dict(abspath=True),
                      both=dict(abspath=True, basepath='zzz'))[mode]
            try:
                codes[lang][mode] = ra.readcode(lang, **kw)
            except Exception as e:
                codes[lang][mode] = f'!!raised {type(e).__name__}: {e}'
    out['codes'] = codes
    before = snapshot(path)
    fails, calls = [], 0
    n = len(subs)
    if sum(case['lens']) == 0:
        n = 0            # no value at all: only "running the code changes no file" applies (property scope)
    for lang in out['languages']:
        for mode in MODES if case.get('allmodes') else ('rel', 'abs') if rng.random() < 0.5 else ('base', 'both'):
            code = codes[lang][mode]
            if code is None or code.startswith('!!raised'):
                fails.append(dict(lang=lang, mode=mode, kind='listed-but-withheld', detail=str(code)[:200])); continue
            cwd = dict(rel=path, base=d, abs='/', both='/')[mode]      # absolute paths must work from anywhere
            k0 = min(2, n - 1)
            # the example's comment must name the subarray it binds
            m = re.search(r'(first|second|third) \(k=(\d+)\)', code)
            kc = min(2, len(subs) - 1)
            if len(subs) > 0:
                if not m:
                    fails.append(dict(lang=lang, mode=mode, kind='example-missing', detail='', code=code))
                else:
                    kk = int(m.group(2)) - (0 if lang in ORIGIN0 else 1)
                    if kk != kc or m.group(1) != WORDS[kc]:
                        fails.append(dict(lang=lang, mode=mode, kind='example-wrong',
                                          detail=f'{m.group(0)} for subarray {kc} of {len(subs)}', code=code))
            if lang in ('darr', 'numpymemmap'):
                if n == 0:
                    old = os.getcwd()
                    try:
                        os.chdir(cwd)
                        exec(compile(code.replace("'path_to_data_dir'", repr(path)), '<ragged readcode>', 'exec'), {})
                    except Exception:
                        pass          # nothing to bind in an empty ragged array; only "changes no file" applies
                    finally:
                        os.chdir(old)
                    continue
                r = run_python(lang, code, cwd, path, subs, len(atom))
                if len(r) == 2:
                    fs, c, sa = r[0], r[1], None
                else:
                    fs, c, sa = r
                calls += c
                for kind, detail in fs:
                    fails.append(dict(lang=lang, mode=mode, kind=kind, detail=detail, code=code))
                if not fs:
                    rr = cmp_sub(np.asarray(sa).astype(subs[k0].dtype.newbyteorder('=')), subs[k0], lang, len(atom))
                    if rr:
                        fails.append(dict(lang=lang, mode=mode, kind='example-binds-wrong-subarray', detail=rr[1], code=code))
                continue
            try:
                it = langs.interpret(lang, code, cwd)
            except langs.NotWellFormed as e:
                fails.append(dict(lang=lang, mode=mode, kind='not-well-formed', detail=str(e)[:300], code=code)); continue
            except langs.RunError as e:
                if n == 0:
                    continue         # the example of an empty ragged array has nothing to bind
                fails.append(dict(lang=lang, mode=mode, kind='run-error', detail=str(e)[:300], code=code)); continue
            if it.func is None:
                fails.append(dict(lang=lang, mode=mode, kind='not-well-formed', detail='no accessor defined', code=code)); continue
            org = 0 if lang in ORIGIN0 else 1
            for k, s in enumerate(subs):
                try:
                    res = it.call(k + org)
                except langs.RunError as e:
                    fails.append(dict(lang=lang, mode=mode, kind='run-error', detail=f'k={k}: {e}'[:300], code=code)); continue
                calls += 1
                rr = cmp_sub(res, s, lang, len(atom))
                if rr:
                    fails.append(dict(lang=lang, mode=mode, kind=rr[0], detail=f'k={k} (len {s.shape[0]}): {rr[1]}', code=code))
            if n > 0:
                if it.example is None:
                    fails.append(dict(lang=lang, mode=mode, kind='example-missing', detail='no example statement', code=code))
                else:
                    ek, eres = it.example
                    rr = cmp_sub(eres, subs[k0], lang, len(atom)) if ek - org == k0 else ('example-wrong', f'k={ek}')
                    if rr:
                        fails.append(dict(lang=lang, mode=mode, kind='example-binds-wrong-subarray', detail=str(rr), code=code))
    for lang in set(codes) - set(out['languages']):
        if any(c is not None for c in codes[lang].values()):
            fails.append(dict(lang=lang, mode='rel', kind='offered-but-not-listed', detail=''))
    changed = snapshot(path) != before
    if changed:
        fails.append(dict(lang='*', mode='*', kind='changed-files', detail='array directory changed by running the code'))
    try:
        rb = darr.RaggedArray(path)
        if len(rb) != len(subs):
            fails.append(dict(lang='*', mode='*', kind='changed-files', detail='length changed'))
    except Exception as e:
        fails.append(dict(lang='*', mode='*', kind='changed-files', detail=f'no longer opens: {e}'[:200]))
    # the SAME object after its contents changed but not its number of subarrays (last one replaced by a
    # longer one): the code it gives now is the code of the array as it is now
    if len(subs) >= 1 and not changed and case['seed'] % 2 == 0:
        try:
            darr.truncate_raggedarray(ra, len(subs) - 1)
            ra.append(np.concatenate([subs[-1], subs[-1], np.ones((2,) + atom, dtype=dt)]))
            fresh = darr.RaggedArray(path)
            for lang in out['languages']:
                for kw in ({}, dict(abspath=True)):
                    calls += 1
                    if ra.readcode(lang, **kw) != fresh.readcode(lang, **kw):
                        fails.append(dict(lang=lang, mode='abs' if kw else 'rel', kind='stale-code-after-change-through-the-same-handle',
                                          detail='differs from the code a fresh handle gives', code=ra.readcode(lang, **kw)))
        except Exception as e:
            fails.append(dict(lang='*', mode='*', kind='run-error', detail=f'after replacing the last subarray: {type(e).__name__}: {e}'[:200]))
    del ra
    out['oracle_calls'] = calls
    out['oracle_fails'] = fails
    return out
