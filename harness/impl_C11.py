import impl_arr
import impl_rag


def history(case, d):
    return impl_arr.run_history(case, d, want_regen=False)


def rhistory(case, d):
    return impl_rag.run_history(case, d, want_regen=False)
