import impl_arr
import impl_rag


def history(case, d):
    return impl_arr.run_history(case, d, want_regen=False)


def rhistory(case, d):
    return impl_rag.run_history(case, d, want_regen=False)


def open_scenarios(case, d):
    """read-only mode while the array is open, nested requests, copies: oracle only"""
    import os
    import numpy as np
    import darr
    from implutil import snapshot
    kind = case['kind']
    path = os.path.join(d, 'x.darr')
    shape = tuple(case.get('shape', (5,)))
    out = dict(attempts=[])
    stack = []

    def attempts(obj, target, isragged=False):
        muts = [('setitem', lambda: obj.__setitem__(slice(None), 1)), ('append', lambda: obj.append(np.zeros((1,) + tuple(obj.shape[1:])))),
                ('iterappend', lambda: obj.iterappend([np.zeros((1,) + tuple(obj.shape[1:]))])),
                ('truncate', lambda: darr.truncate_array(obj, 1)), ('meta', lambda: obj.metadata.update({'z': 1})),
                ('delete', lambda: darr.delete_array(obj))] if not isragged else \
               [('append', lambda: obj.append(np.zeros((1,) + tuple(obj.atom)))),
                ('iterappend', lambda: obj.iterappend([np.zeros((1,) + tuple(obj.atom))])),
                ('iterappend-empty', lambda: obj.iterappend([])),
                ('truncate', lambda: darr.truncate_raggedarray(obj, 0)), ('meta', lambda: obj.metadata.update({'z': 1})),
                ('delete', lambda: darr.delete_raggedarray(obj))]
        for name, f in muts:
            if name in ('truncate',) and len(obj) < (2 if not isragged else 1):
                continue
            before = snapshot(target)
            try:
                f()
                raised = None
            except Exception as e:
                raised = type(e).__name__
            out['attempts'].append(dict(op=name, raised=raised, unchanged=snapshot(target) == before,
                                        mode=obj.accessmode))

    try:
        if kind in ('ctx_switch', 'gen_switch'):
            a = darr.asarray(path, np.arange(int(np.prod(shape)), dtype='int32').reshape(shape), accessmode='r+')
            if kind == 'ctx_switch':
                cm = a.open_array(); cm.__enter__(); stack.append(cm)
            else:
                g = a.iterchunks(2); next(g); stack.append(g)
            a.accessmode = 'r'
            attempts(a, path)
            if kind == 'ctx_switch':
                cm.__exit__(None, None, None)
            else:
                g.close()
            a.accessmode = 'r+'
            try:
                a[:] = 5; out['rplus_after'] = 'ok'
            except Exception as e:
                out['rplus_after'] = type(e).__name__
        elif kind == 'meta_mode':
            # the metadata object's own mode was changed; assigning the handle's mode (again) governs both
            a = darr.asarray(path, np.arange(int(np.prod(shape)), dtype='int32').reshape(shape), accessmode='r',
                             metadata={'a': 1})
            a.metadata.accessmode = 'r+'
            a.accessmode = 'r'
            attempts(a, path)
        elif kind in ('exc_exit', 'gen_break'):
            # a read-only handle opened for WRITING only temporarily: the block is left through an exception /
            # the generator is abandoned after a break; afterwards the handle is read-only again
            a = darr.asarray(path, np.arange(int(np.prod(shape)), dtype='int32').reshape(shape), accessmode='r')
            if kind == 'exc_exit':
                try:
                    with a.open_array(accessmode='r+'):
                        a[len(a) + 7]            # IndexError inside the block
                except IndexError:
                    pass
            else:
                for ch in a.iterchunks(2, accessmode='r+'):
                    break
                import gc
                gc.collect()
            attempts(a, path)
        elif kind == 'rmeta_mode':
            # RaggedArray: the handle already says 'r', the metadata object's own mode was changed; assigning
            # 'r' AGAIN must govern the metadata and both subarrays
            ra = darr.asraggedarray(path, [[1.0, 2.0], [3.0]], accessmode='r', metadata={'a': 1})
            ra.metadata.accessmode = 'r+'
            ra.accessmode = 'r'
            attempts(ra, path, isragged=True)
        elif kind == 'rctx_switch':
            # RaggedArray opened for writing by a context on a read-only handle; 'r' is assigned inside
            ra = darr.asraggedarray(path, [[1.0, 2.0], [3.0], [4.0]], accessmode='r')
            cm = ra.open_arrays(accessmode='r+'); cm.__enter__(); stack.append(cm)
            ra.accessmode = 'r'
            attempts(ra, path, isragged=True)
            cm.__exit__(None, None, None)
            ra.accessmode = 'r+'
            try:
                ra.append([7.0]); out['rplus_after'] = 'ok'
            except Exception as e:
                out['rplus_after'] = type(e).__name__
        elif kind == 'nested_rw':
            a = darr.asarray(path, np.arange(int(np.prod(shape)), dtype='int32').reshape(shape), accessmode='r')
            with a.open_array():
                try:
                    with a.open_array(accessmode='r+'):
                        pass
                except Exception:
                    pass
                attempts(a, path)
        elif kind in ('ragged_copy', 'array_copy'):
            if kind == 'ragged_copy':
                src = darr.asraggedarray(os.path.join(d, 'src.darr'), [[1.0, 2.0], [3.0]], accessmode='r+') if case['nonempty'] \
                    else darr.create_raggedarray(os.path.join(d, 'src.darr'), atom=(), dtype='float64', accessmode='r+')
            else:
                src = darr.asarray(os.path.join(d, 'src.darr'), np.arange(4.0) if case['nonempty'] else np.zeros((0,)),
                                   accessmode='r+')
            cp = src.copy(path) if case['default'] else src.copy(path, accessmode='r')
            out['copy_mode'] = cp.accessmode
            attempts(cp, path, isragged=(kind == 'ragged_copy'))
            cp.accessmode = 'r+'
            try:
                cp.append([7.0]); out['rplus_after'] = 'ok'
            except Exception as e:
                out['rplus_after'] = type(e).__name__
    except Exception as e:
        out['error'] = f'{type(e).__name__}: {e}'[:300]
    return out
