"""C17 implementation side: run one operation under sys.settrace, record every distinct
on-disk state seen between two executed lines of darr/*.py, then materialise every
observed state and synthesised torn variants and try to open them."""
import json
import os
import shutil
import sys
import numpy as np
import darr
import impl_arr
import impl_rag
from implutil import dtype_info

DARR_DIR = os.path.dirname(os.path.abspath(darr.__file__))


def tree(path):
    out = {}
    for root, dirs, files in os.walk(path):
        rel = os.path.relpath(root, path)
        rel = '' if rel == '.' else rel + '/'
        for f in files:
            with open(os.path.join(root, f), 'rb') as fh:
                out[rel + f] = fh.read()
    return out


def write_tree(path, t):
    if os.path.exists(path):
        shutil.rmtree(path)
    os.makedirs(path)
    for rel, b in t.items():
        p = os.path.join(path, rel)
        os.makedirs(os.path.dirname(p), exist_ok=True)
        with open(p, 'wb') as fh:
            fh.write(b)
    for sub in ('values', 'indices'):
        pass


class Tracer:
    def __init__(self, path):
        self.path = path
        self.states = [tree(path)]
        self.events = 0

    def snap(self):
        t = tree(self.path)
        if t != self.states[-1]:
            self.states.append(t)

    def local(self, frame, event, arg):
        if event == 'line' or event == 'return':
            self.events += 1
            self.snap()
        return self.local

    def glob(self, frame, event, arg):
        if frame.f_code.co_filename.startswith(DARR_DIR) and '/tests/' not in frame.f_code.co_filename:
            return self.local
        return None


def traced(path, f):
    tr = Tracer(path)
    sys.settrace(tr.glob)
    try:
        try:
            f()
            res = ['ok']
        except Exception as e:
            res = ['exc', type(e).__name__, str(e)[:120]]
    finally:
        sys.settrace(None)
    tr.snap()
    return res, tr.states, tr.events


def files_view_array(t):
    """observation dict in impl_arr.read_files layout from a tree"""
    def js(name):
        if name not in t:
            return None
        try:
            return json.loads(t[name].decode('utf-8'))
        except Exception:
            return 'torn'
    return dict(listing=sorted(t), data=t['arrayvalues.bin'].hex() if 'arrayvalues.bin' in t else None,
                descr=js('arraydescription.json'),
                readme=t['README.txt'].decode('utf-8', 'replace') if 'README.txt' in t else None,
                meta=js('metadata.json'))


def sub(t, prefix):
    return {k[len(prefix):]: v for k, v in t.items() if k.startswith(prefix)}


def variants(A, B):
    """torn versions of every file write between consecutive observed states A -> B"""
    out = []
    for f in sorted(set(A) | set(B)):
        a, b = A.get(f), B.get(f)
        if a == b or b is None:
            continue
        cands = [b'']
        if a is not None and b.startswith(a):
            tail = b[len(a):]
            cands += [a + tail[:len(tail) // 2], a + tail[:1], a + tail[:-1]]
        else:
            cands += [b[:len(b) // 2], b[:-1], b[:1]]
            if a:
                # a writer that overwrites in place instead of truncating first: new prefix, old tail
                ks = range(1, len(b)) if len(b) <= 160 else {1, len(b) // 2, len(b) - 1, min(len(a), len(b)) - 1, (2 * len(b)) // 3}
                for k in sorted(ks):
                    if 0 < k < len(b):
                        cands.append(b[:k] + a[k:])
        for c in cands:
            if c != a and c != b:
                t = dict(A)
                t[f] = c
                out.append((f'{f}:{len(c)}/{len(b)}', t))
    return out


def open_array_view(p, mode='r'):
    try:
        a = darr.Array(p, accessmode=mode)
        d = a[:]
        v = dict(dtype=dtype_info(a.dtype), shape=list(a.shape), data=np.ascontiguousarray(d).tobytes().hex())
        try:
            v['meta'] = dict(a.metadata)
        except Exception as e:
            v['meta'] = 'raises'
        return v
    except Exception as e:
        return None


def open_ragged_view(p, mode='r'):
    try:
        ra = darr.RaggedArray(p, accessmode=mode)
        subs = [np.ascontiguousarray(ra[i]).tobytes().hex() for i in range(len(ra))]
        v = dict(dtype=dtype_info(ra.dtype), atom=list(ra.atom), n=len(ra), subs=subs)
        try:
            v['meta'] = dict(ra.metadata)
        except Exception:
            v['meta'] = 'raises'
        return v
    except Exception:
        return None


def array_scenario(case, d):
    path = os.path.join(d, 'arr')
    scratch = os.path.join(d, 'scratch')
    dt = np.dtype(case['dtype'])
    init = np.frombuffer(bytes.fromhex(case['init']), dtype=dt).reshape(case['shape']).copy()
    kw = {}
    if case.get('metadata') is not None:
        kw['metadata'] = case['metadata']
    a = darr.asarray(path, init, accessmode='r+', **kw)
    ref = init.copy()
    meta_before = dict(a.metadata)
    op = case['ops'][0]
    k = op['op']
    extra = {}
    legit = [ref]
    if k in ('append', 'iterappend'):
        specs = op['items']
        imgs = [impl_arr.image_for_append(s, ref.dtype) for s in specs]
        cur = ref
        for im in imgs:
            if 'tail' in im and im['tail'] == list(ref.shape[1:]):
                cur = np.concatenate([cur, im['_img']]).astype(ref.dtype) if im['n'] else cur
                legit.append(cur)
            else:
                break
        extra['images'] = [{kk: v for kk, v in im.items() if kk != '_img'} for im in imgs]

        def gen():
            for s in specs:
                if s['kind'] == 'raise':
                    raise impl_arr.Boom('iterable fails')
                yield impl_arr.build_value(s)
        f = (lambda: a.append(impl_arr.build_value(specs[0]))) if k == 'append' else (lambda: a.iterappend(gen()))
    elif k == 'truncate':
        new = ref[:op['index']]
        if len(new) < len(ref):
            legit.append(new.copy())
        f = lambda: darr.truncate_array(a, op['index'])
    elif k == 'metaset':
        f = lambda: a.metadata.update(op['value'], **op.get('kw', {}))
    elif k == 'metaclear':
        f = lambda: [a.metadata.pop(key) for key in list(a.metadata.keys())]
    else:
        raise ValueError(k)
    res, states, events = traced(path, f)
    try:
        meta_after = dict(darr.Array(path).metadata)
    except Exception:
        meta_after = 'raises'
    legit_views = [dict(dtype=dtype_info(x.dtype), shape=list(x.shape),
                        data=np.ascontiguousarray(x).tobytes().hex()) for x in legit]
    # every observed state and its torn variants must not open, or show a legitimate view
    probes = [('state%d' % i, s) for i, s in enumerate(states)]
    for i in range(len(states) - 1):
        probes += [('torn%d:%s' % (i, nm), t) for nm, t in variants(states[i], states[i + 1])]
    bad = []
    opened = 0
    for nm, t in probes:
      for mode in ('r', 'r+'):
        write_tree(scratch, t)
        v = open_array_view(scratch, mode)
        if v is None:
            continue
        opened += 1
        core = {kk: v[kk] for kk in ('dtype', 'shape', 'data')}
        if core not in legit_views:
            bad.append(dict(probe=nm, mode=mode, view=dict(dtype=v['dtype'], shape=v['shape'], data=v['data'][:64])))
        elif v['meta'] != 'raises' and v['meta'] not in (meta_before, meta_after):
            bad.append(dict(probe=nm, mode=mode, meta=v['meta']))
    shutil.rmtree(scratch, ignore_errors=True)
    out = dict(res=res, states=[files_view_array(s) for s in states], events=events, probes=len(probes),
               opened=opened, bad=bad, legit=[x['shape'] for x in legit_views])
    out.update(extra)
    return out


def ragged_scenario(case, d):
    path = os.path.join(d, 'ra')
    scratch = os.path.join(d, 'scratch')
    dt = np.dtype(case['dtype'])
    atom = tuple(case['atom'])
    kw = {}
    if case.get('metadata') is not None:
        kw['metadata'] = case['metadata']
    if case['subs'] is None:
        ra = darr.create_raggedarray(path, atom=atom, dtype=dt, indextype=case['indextype'], **kw)
        ref = []
    else:
        vals = [impl_arr.build_value(s) for s in case['subs']]
        ra = darr.asraggedarray(path, vals, dtype=dt, indextype=case['indextype'], **kw)
        ref = [np.asarray(v, dtype=dt) for v in vals]
    meta_before = dict(ra.metadata)
    op = case['ops'][0]
    k = op['op']
    extra = {}
    legit = [list(ref)]
    if k in ('append', 'iterappend'):
        specs = op['items']
        imgs = [impl_rag.item_image(s, dt) for s in specs]
        cur = list(ref)
        vlen = sum(x.shape[0] for x in ref)
        imax = int(np.iinfo(np.dtype(case['indextype'])).max)
        for im in imgs:
            if 'tail' in im and im['tail'] == list(atom) and vlen + im['n'] <= imax:
                cur = cur + [im['_img']]
                vlen += im['n']
                legit.append(cur)
            else:
                break
        extra['images'] = [{kk: v for kk, v in im.items() if kk != '_img'} for im in imgs]

        def gen():
            for s in specs:
                if s['kind'] == 'raise':
                    raise impl_arr.Boom('iterable fails')
                yield impl_arr.build_value(s)
        f = (lambda: ra.append(impl_arr.build_value(specs[0]))) if k == 'append' else (lambda: ra.iterappend(gen()))
    elif k == 'truncate':
        new = ref[:op['index']]
        if len(new) < len(ref):
            legit.append(new)
        f = lambda: darr.truncate_raggedarray(ra, op['index'])
    elif k == 'metaset':
        f = lambda: ra.metadata.update(op['value'], **op.get('kw', {}))
    elif k == 'metaclear':
        f = lambda: [ra.metadata.pop(key) for key in list(ra.metadata.keys())]
    else:
        raise ValueError(k)
    res, states, events = traced(path, f)
    try:
        meta_after = dict(darr.RaggedArray(path).metadata)
    except Exception:
        meta_after = 'raises'
    legit_views = [[np.ascontiguousarray(x).tobytes().hex() for x in l] for l in legit]
    probes = [('state%d' % i, s) for i, s in enumerate(states)]
    for i in range(len(states) - 1):
        probes += [('torn%d:%s' % (i, nm), t) for nm, t in variants(states[i], states[i + 1])]
    bad = []
    opened = 0
    for nm, t in probes:
      for mode in ('r', 'r+'):
        write_tree(scratch, t)
        for subdir in ('values', 'indices'):
            os.makedirs(os.path.join(scratch, subdir), exist_ok=True)
        v = open_ragged_view(scratch, mode)
        if v is None:
            continue
        opened += 1
        if v['subs'] not in legit_views or v['atom'] != list(atom) or v['dtype'] != dtype_info(dt):
            bad.append(dict(probe=nm, mode=mode, n=v['n'], subs=[x[:32] for x in v['subs']][:8]))
        elif v['meta'] != 'raises' and v['meta'] not in (meta_before, meta_after):
            bad.append(dict(probe=nm, mode=mode, meta=v['meta']))
    shutil.rmtree(scratch, ignore_errors=True)

    def rstate(t):
        top = {}
        for nm, key in (('arraydescription.json', 'descr'), ('metadata.json', 'meta')):
            if nm in t:
                try:
                    top[key] = json.loads(t[nm].decode('utf-8'))
                except Exception:
                    top[key] = 'torn'
            else:
                top[key] = None
        top['readme'] = t['README.txt'].decode('utf-8', 'replace') if 'README.txt' in t else None
        top['listing'] = sorted(t)
        return dict(top=top, values=files_view_array(sub(t, 'values/')), indices=files_view_array(sub(t, 'indices/')))
    out = dict(res=res, states=[rstate(s) for s in states], events=events, probes=len(probes), opened=opened,
               bad=bad, legit=[[x.shape[0] for x in l] for l in legit],
               ref=[dict(shape=list(x.shape), data=np.ascontiguousarray(x).tobytes().hex()) for x in ref])
    out.update(extra)
    return out
