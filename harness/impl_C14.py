import numpy as np
import darr
from darr.utils import fit_frames
from implutil import guarded

_cache = {}
CAP = 5000       # no case of the harness has more frames than this


def _array(n, d):
    # one array per length; iterindices only needs shape[0], iterchunks the data
    a = darr.asarray(d + '/a', np.arange(n, dtype='int32') if n else np.zeros((0,), 'int32'))
    return a


def iterindices(case, d):
    """case: {n, big, args: [chunklen, step, start, end, flag]}"""
    n = case['n']
    out = []
    if case.get('big'):
        a = _array(4, d)
        a._shape = (n,)          # iterindices only reads self.shape[0]
    else:
        a = _array(n, d)
    npt = case.get('nptype')     # start / end indices given as NumPy scalars of this type (e.g. taken from an index array)

    def conv(v):
        if npt is None or v is None or v < 0 or v > np.iinfo(npt).max:
            return v
        return np.dtype(npt).type(v)
    # the include_remainder flag as a truthy / falsy object that is not the bool itself
    ft = case.get('flagtype')
    cflag = (lambda f: np.bool_(f)) if ft == 'np' else (lambda f: int(f)) if ft == 'int' else (lambda f: f)
    for (c, s, st, en, flag) in case['args']:
        def f():
            import itertools
            fr = [[int(x), int(y)] for x, y in
                  itertools.islice(a.iterindices(conv(c) if case.get('npall') else c,
                                                 stepsize=conv(s) if case.get('npall') else s,
                                                 startindex=conv(st), endindex=conv(en),
                                                 include_remainder=cflag(flag)), CAP + 1)]
            if len(fr) > CAP:
                raise RuntimeError('more than %d frames: the iterator does not end' % CAP)
            return fr
        r = guarded(f)
        out.append(r[:2])
    return out


def iterchunks(case, d):
    n = case['n']
    a = _array(n, d)
    a.accessmode = 'r+'
    ref = np.arange(n, dtype='int32')
    out = []
    for (c, s, st, en, flag) in case['args']:
        def f():
            import itertools
            frames = [[int(x), int(y)] for x, y in
                      itertools.islice(a.iterindices(c, stepsize=s, startindex=st, endindex=en,
                                                     include_remainder=flag), CAP)]
            chunks = list(itertools.islice(a.iterchunks(c, stepsize=s, startindex=st, endindex=en,
                                                        include_remainder=flag), CAP))
            same = len(chunks) == len(frames) and all(
                ch.dtype == ref.dtype and ch.shape == ref[x:y].shape and
                bool(np.array_equal(ch, ref[x:y])) for ch, (x, y) in zip(chunks, frames))
            detached = all(type(ch) is np.ndarray and ch.flags.owndata for ch in chunks)
            cat = [int(v) for v in np.concatenate(chunks)] if chunks else []
            # "copies of a[frame]" means a[frame] AS IT IS when the chunk is yielded: write into the
            # frames not yet yielded while the generator is suspended
            if len(frames) >= 2 and a.accessmode == 'r+':
                cur = ref.copy()
                g = a.iterchunks(c, stepsize=s, startindex=st, endindex=en, include_remainder=flag)
                for k, (x, y) in enumerate(frames):
                    ch = next(g)
                    if not np.array_equal(ch, cur[x:y]):
                        same = False
                    if k + 1 < len(frames):
                        x2, y2 = frames[k + 1]
                        a[x2:y2] = -(k + 1)
                        cur[x2:y2] = -(k + 1)
                g.close()
                a[:] = ref
            # the SAME call again on the same object after the length changed (append 2, then back):
            # the frames and chunks are those of the array as it is then
            if a.accessmode == 'r+' and en is None:
                a.append(np.array([n, n + 1], dtype='int32'))
                ref2 = np.arange(n + 2, dtype='int32')
                fr2 = [[int(x), int(y)] for x, y in
                       itertools.islice(a.iterindices(c, stepsize=s, startindex=st, endindex=en,
                                                      include_remainder=flag), CAP)]
                ch2 = list(itertools.islice(a.iterchunks(c, stepsize=s, startindex=st, endindex=en,
                                                         include_remainder=flag), CAP))
                if len(ch2) != len(fr2) or not all(bool(np.array_equal(ch, ref2[x:y])) for ch, (x, y) in zip(ch2, fr2)):
                    same = False
                darr.truncate_array(a, n)
                ch3 = list(itertools.islice(a.iterchunks(c, stepsize=s, startindex=st, endindex=en,
                                                         include_remainder=flag), CAP))
                if len(ch3) != len(chunks) or not all(bool(np.array_equal(x, y)) for x, y in zip(ch3, chunks)):
                    same = False
            return dict(frames=frames, same=same, detached=detached, cat=cat,
                        closed=a._memmap is None and a._valuesfd is None)
        out.append(guarded(f)[:2])
    return out


def fitframes(case, d):
    out = []
    for (t, c, s, asfloat) in case['args']:
        conv = (lambda v: None if v is None else float(v)) if asfloat else (lambda v: v)
        def f():
            r = fit_frames(conv(t), conv(c), conv(s))
            return [int(x) for x in r] + [all(isinstance(x, int) for x in r)]
        out.append(guarded(f)[:2])
    return out
