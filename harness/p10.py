"""C10 -- a failed RaggedArray append leaves exactly the completed subarrays."""
import numpy as np
import raglib
import p04
from raglib import item_spec, nd_spec, small_values, dtype_str, INDEXTYPES
from common import NUMTYPES, ITEMSIZE

META = dict(
    coq_targets=['CheckRagged.vo'],
    rule="start {empty, non-empty} x atom rank 0..2 x items 1..n x failure position 0..n-1 x "
         "failure kind {iterable raises, wrong atom, wrong rank, item without length / not "
         "convertible, index overflow with int8/uint8 indices, RLIMIT_FSIZE write failure on the "
         "values file (zero-filled >= 20 KB values) or on the indices file (>= 1500 empty "
         "subarrays so that indices is the largest file) at byte offsets 0, 1, mid-element, "
         "row end-1}; non-trivial = failure after a completed item or inside a write",
    trusted_base=[
        "Coq 8.16.1 kernel (coqc), vm_compute for evaluating the model on cases",
        "translator gen/py2v.py: Gen_effects.v (control skeletons of the appending functions, regenerated "
        "from the source on every run) and the reading of its vocabulary calls as effect kinds "
        "(EffectOrder.v / EffectOrderR.v, Skel.runs)",
        "hand-written model coq/RaggedModel.v (riterappend with its except-branch), tied by in-Coq "
        "differential evaluation",
        "the kernel's RLIMIT_FSIZE behaviour as the source of real write failures; NumPy as oracle "
        "for item conversion and for OverflowError on index rows",
    ],
    assumptions=["a write failure leaves a prefix of the item's bytes in the file (any length k)"],
)

BIG = 20480


def mk(r, nt, bo, atom, ity, sublens, op, kind, pos, start):
    c = raglib.rhistory_case(r, nt, bo, atom, ity, sublens, [])
    c['ops'] = [op, dict(op='reopen', mode='r+')]
    c['letters'] = ['iterappend:%s@%d' % (kind, pos), 'ro']
    c['kind'], c['pos'], c['start'] = kind, pos, start
    return c


def bad_item(kind, r, nt, bo, atom):
    t = tuple(atom)
    if kind == 'raise':
        return dict(kind='raise')
    if kind == 'atom':
        bad = (2,) + tuple(x + 1 for x in t) if t else (2, 3)
        return nd_spec(small_values(r, bad, dtype_str(nt, bo)))
    if kind == 'rank':
        return nd_spec(small_values(r, (2,) + t + (2,), dtype_str(nt, bo)))
    if kind == 'unconv':
        return r.choice([dict(kind='scalar', value=5), dict(kind='str'), dict(kind='obj')]) if not t \
            else r.choice([dict(kind='scalar', value=5), dict(kind='str')])
    raise ValueError(kind)


def gen(ctx):
    r = ctx.rng
    cases = []
    atoms = [(), (2,), (2, 1)]
    maxitems = 3 if ctx.quick else 4
    ti = 0
    # A: failures that are not write failures
    for atom in atoms:
        for start in ('empty', 'nonempty'):
            for n in range(1, maxitems + 1):
                for pos in range(n):
                    for kind in ('raise', 'atom', 'rank', 'unconv'):
                        ti += 1
                        if ctx.quick and ti % 3:
                            continue
                        nt = NUMTYPES[ti % 13]; bo = ('little', 'big')[ti % 2]; ity = INDEXTYPES[ti % 7]
                        items = [item_spec(r, nt, bo, atom, r.randint(0, 3)) for _ in range(n)]
                        items[pos] = bad_item(kind, r, nt, bo, atom)
                        cases.append(mk(r, nt, bo, atom, ity, None if start == 'empty' else [2, 0, 1],
                                        dict(op='iterappend', items=items), kind, pos, start))
    # B: index overflow
    for ity, lim in (('int8', 127), ('uint8', 255)):
        for pos in range(3):
            for start in ('empty', 'nonempty'):
                nt = r.choice(NUMTYPES); bo = r.choice(['little', 'big'])
                base = [100] if start == 'nonempty' else None
                have = 100 if base else 0
                items = [item_spec(r, nt, bo, (), r.randint(0, 3), 'nd') for _ in range(3)]
                items[pos] = nd_spec(small_values(r, (lim - have + r.randint(-3, 3),), dtype_str(nt, bo)))
                exact = nd_spec(small_values(r, (lim - have - 6,), dtype_str(nt, bo)))
                cases.append(mk(r, nt, bo, (), ity, base, dict(op='iterappend', items=items), 'overflow', pos, start))
                cases.append(mk(r, nt, bo, (), ity, base, dict(op='iterappend', items=[exact] + items), 'overflow', pos + 1, start))
    # C: write failures
    for ti, nt in enumerate(NUMTYPES):
        if ctx.quick and ti % 2:
            continue
        bo = ('little', 'big')[ti % 2]
        isz = ITEMSIZE[nt]
        for atom in (atoms if not ctx.quick else [atoms[ti % 3]]):
            rb = int(np.prod(atom, dtype=int)) * isz if atom else isz
            nrows = -(-BIG // rb)
            for n in range(1, 3 if ctx.quick else 4):
                for pos in range(n):
                    items = [item_spec(r, nt, bo, atom, r.randint(1, 3), 'nd') for _ in range(n)]
                    tot = items[pos]['shape'][0] * rb
                    ks = sorted({0, 1, max(tot - 1, 0), rb // 2, isz // 2 + (rb if tot > rb else 0)})
                    ks = [k for k in ks if 0 <= k < tot]
                    for k in ([r.choice(ks)] if ctx.quick else ks):
                        op = dict(op='iterappend', items=items, fsize=dict(item=pos, file='values', k=k))
                        c = mk(r, nt, bo, atom, 'int64', [nrows], op, 'wv', pos, 'big')
                        c['subs'] = [nd_spec(np.zeros((nrows,) + tuple(atom), dtype=dtype_str(nt, bo)))]
                        cases.append(c)
        # the indices file is the largest one
        ity = ['int64', 'uint32', 'int32'][ti % 3]   # wide rows: fewer subarrays needed
        iw = 2 * ITEMSIZE[ity]
        nsub = -(-BIG // iw)
        if ity in ('int8', 'uint8', 'int16', 'uint16') and nsub > 0:
            pass
        for n in range(1, 3):
            for pos in range(n):
                items = [item_spec(r, nt, bo, (), r.randint(0, 2), 'nd') for _ in range(n)]
                for k in ([r.choice([0, 1, iw // 2, iw - 1])] if ctx.quick else [0, 1, iw // 2, iw - 1]):
                    op = dict(op='iterappend', items=items, fsize=dict(item=pos, file='indices', k=k))
                    c = mk(r, nt, bo, (), ity, [0] * nsub, op, 'wi', pos, 'manyempty')
                    c['subs'] = [nd_spec(np.zeros((0,), dtype=dtype_str(nt, bo))) for _ in range(nsub)]
                    cases.append(c)
    # every third failing append happens with both subarrays held open in an open_arrays() context
    for i, c in enumerate(cases):
        if i % 3 == 2:
            c['heldopen'] = True
        # a call with ONE subarray is made through append() half of the time (it has its own entry point)
        if len(c['ops'][0]['items']) == 1 and i % 2 == 0 and c['ops'][0]['items'][0].get('kind') != 'raise':
            c['ops'][0] = dict(c['ops'][0], op='append')
    return cases


def run(ctx):
    # directories in which nothing can be created (read-only for an unprivileged user, files writable)
    RO = [dict(fail=f, meta=m, dtype='<f8', atom=[], indextype='int64') for f in ('shape', 'raise', 'none') for m in (False, True)]
    for case, st in zip(RO, ctx.run_impl(RO, 'rodirs', shards=len(RO))):
        key = dict(scenario='read-only directories, unprivileged user', fail=case['fail'], meta=case['meta'])
        if 'skipped' in st:
            ctx.count('rodirs-skipped'); continue
        if 'harness_error' in st or 'child_failed' in st:
            ctx.fail('harness-error', key, observed=st); continue
        ctx.seen(key); ctx.count('rodirs:' + case['fail']); ctx.evaluations += 1
        if 'unopenable' in st:
            ctx.fail('failed-ragged-append:read-only-directories', key, detail='the array cannot be opened afterwards',
                     expected='the two completed subarrays are kept', observed=st)
            continue
        why = None
        if (case['fail'] == 'none') != (st['res'][0] == 'ok'):
            why = 'outcome %s' % st['res'][:2]
        why = why or raglib.check_c04(st, case) or raglib.check_c05(st, case)
        if why:
            ctx.fail('failed-ragged-append:read-only-directories', key, detail=why, expected='the two completed subarrays are kept',
                     observed=dict(res=st['res'], fresh=str(st['fresh'])[:300], top=st['top']['descr']))
    cases = gen(ctx)
    obs = ctx.run_impl(cases, 'history', timeout=3000)
    terms, keep = [], []
    for case, steps in zip(cases, obs):
        op = case['ops'][0]
        key = dict(nt=case['nt'], atom=case['atom'], indextype=case['indextype'], start=case['start'],
                   kind=case['kind'], pos=case['pos'], n=len(op['items']), fsize=op.get('fsize'))
        if isinstance(steps, dict):
            ctx.fail('harness-error', key, observed=steps)
            continue
        st = steps[1]
        ctx.seen(key, nontrivial=(case['pos'] > 0 or case['kind'] in ('wv', 'wi')))
        ctx.count('kind:' + case['kind']); ctx.count('pos:%d' % case['pos']); ctx.count('start:' + case['start'])
        expected_fail = not st.get('allgood', True)
        why = None
        if expected_fail and st['res'][0] == 'ok':
            why = 'the call did not raise'
        elif not expected_fail and st['res'][0] != 'ok':
            why = None        # e.g. an overflow case that did not overflow: nothing to check here
        else:
            for s2 in steps[1:]:
                why = raglib.check_c04(s2, case) or raglib.check_c05(s2, case)
                if why:
                    break
        ctx.count('failed-as-planned' if expected_fail else 'no-failure')
        if why:
            small = dict(case, subs='<%d subarrays>' % len(case['subs'] or []))
            ctx.fail('failed-ragged-append:' + case['kind'], dict(case=small, step=1), detail=why,
                     expected=[r_['shape'][0] for r_ in st['ref']][-6:],
                     observed=dict(res=st['res'], fresh=str(st['fresh'])[:300]))
        ctx.traces += len(steps)
        terms.append(raglib.rhistory_term(case, steps))
        keep.append((case, steps))
    if keep:
        c, s = keep[len(keep) // 3]
        ctx.sample(dict(type=c['nt'], atom=c['atom'], indextype=c['indextype'], failure=c['kind'],
                        position=c['pos'], fsize=c['ops'][0].get('fsize'), result=s[1]['res'][:2],
                        lengths_after=[r_['shape'][0] for r_ in s[1]['ref']][-5:]))
    bad = ctx.coq_check('c10', raglib.PRELUDE, terms, shard=30)
    if bad is None:
        ctx.model_ok = False
        return
    for i in bad[:5]:
        case, steps = keep[i]
        p04.report_rmismatch(ctx, 'c10dbg%d' % i, case, steps)
