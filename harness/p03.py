"""C03 -- Array histories of append/assign/truncate equal the NumPy model and persist."""
import itertools
import arrlib
from arrlib import history_case, ALPHABET, COMPACT
from common import NUMTYPES

META = dict(
    coq_targets=['CheckArray.vo'],
    rule="operation sequences over the alphabet of harness/arrlib.py (append 0/1/2 rows, list, "
         "scalar, other dtype/byte order/layout, bad shape, iterappend of 2 chunks / nothing, "
         "truncate -1/0/1/too-large/non-int, assignment, reopen, mode r/r+, metadata set/clear): "
         "bounded-exhaustive up to length 2 (thorough tier: length 3 sampled) from empty and non-empty 1-D..3-D starts plus "
         "random longer sequences, over the 13 types x 2 byte orders; a case is non-trivial if "
         "at least one operation changed the array; distinct by (type, order, shape, letters)",
    trusted_base=[
        "Coq 8.16.1 kernel (coqc), vm_compute for evaluating the model on cases",
        "hand-written model coq/ArrayModel.v (modelled, not verified: darr/array.py append/"
        "iterappend/_append/_checkarrayforappend/_update_len/truncate_array/__setitem__/"
        "accessmode/Array.__init__), tied by in-Coq differential evaluation on the same histories",
        "oracle: NumPy casting of appended data and NumPy assignment (which bytes change)",
        "harness/impl_arr.py, arrlib.py (canonicalisation), CheckArray.v (comparison)",
    ],
    assumptions=["file effects are modelled at whole-effect granularity here (torn effects: C17)"],
)


def gen(ctx):
    r = ctx.rng
    cases = []
    starts = [(0,), (3,), (0, 2), (2, 2), (2, 1, 3)]
    L = 2 if ctx.quick else 3
    alpha = COMPACT
    # bounded-exhaustive with one type per start (rotating), all sequences up to L
    ti = 0
    for sh in starts:
        for n in range(1, L + 1):
            for letters in itertools.product(alpha, repeat=n):
                nt = NUMTYPES[ti % 13]
                bo = ('little', 'big')[(ti // 13) % 2]
                ti += 1
                if n == 3 and ti % 3:
                    continue        # (depth 3 is sampled: the alphabet has grown to 22 letters)
                cases.append(history_case(r, nt, bo, sh, letters))
    ctx.extra['exhaustive_depth'] = min(L, 2)
    ctx.extra['depth_3'] = 'sampled, one sequence in 3' if L >= 3 else 'not run in this tier'
    # every type x byte order with a fixed rich sequence
    for nt in NUMTYPES:
        for bo in ('little', 'big'):
            for sh in ((0,), (2, 2)):
                cases.append(history_case(r, nt, bo, sh, ['a1', 'aod', 'set', 't-1', 'ro', 'it2', 't0', 'a2l', 'asc'][:9 if len(sh) == 1 else 8]))
    # random longer sequences over the full alphabet
    for _ in range(60 if ctx.quick else 600):
        nt = r.choice(NUMTYPES)
        bo = r.choice(['little', 'big'])
        sh = r.choice(starts + [(1,), (4, 1), (0, 1, 2)])
        n = r.randint(4, 12 if ctx.quick else 40)
        letters = [r.choice(ALPHABET) for _ in range(n)]
        cases.append(history_case(r, nt, bo, sh, letters, mode=r.choice(['r+', 'r+', 'r']),
                                  metadata=r.choice([None, None, {'a': 1}]),
                                  layout=r.choice(['C', 'F', 'strided', 'T'])))
    # arrays with a zero-length axis that is not the first one: they have rows but no values
    for k, sh in enumerate([(2, 0), (1, 0, 3), (0, 2, 0)]):
        for letters in (['it2', 'a1', 't1', 'ro'], ['a1', 'it2', 'set', 't-1'], ['abad', 'it2', 'itbad', 't0', 'a1']):
            cases.append(history_case(r, NUMTYPES[(4 * k + len(letters)) % 13], ('little', 'big')[k % 2], sh, letters))
    # a read-only handle held open, switched to 'r+' while open, then resized and written (the renewed map must
    # be writable): marked here, held open below
    for k, sh in enumerate([(3,), (2, 2), (0,)]):
        c = history_case(r, NUMTYPES[(5 * k + 2) % 13], ('big', 'little')[k % 2], sh, ['mrw', 'a1', 'set', 't-1', 'set', 'a1', 'mr', 'a1'], mode='r')
        c['heldopen'] = True
        cases.append(c)
    # every fourth history runs with the array held open in an open_array() context: same outcomes
    for i, c in enumerate(cases):
        if i % 4 == 3 and not any(o['op'] == 'delete' for o in c['ops']):
            c['heldopen'] = True
    return cases


def oracle(ctx, case, steps):
    prev = None
    changed = False
    for i, st in enumerate(steps):
        op = case['ops'][i - 1] if i else None
        why = arrlib.check_c03(st, prev)
        if why:
            ctx.fail('numpy-model:' + (op['op'] if op else 'create'),
                     dict(case=case, step=i), detail=why,
                     expected=st['ref'], observed=dict(live=st['live'], fresh=st['fresh']))
            return
        if prev is not None:
            # prefix stability and rejected => unchanged, on the raw file
            a, b = prev['files']['data'], st['files']['data']
            k = op['op']
            if k in ('append', 'iterappend') and not b.startswith(a):
                ctx.fail('append-changed-prefix', dict(case=case, step=i), expected=a, observed=b)
                return
            if k == 'truncate' and not a.startswith(b):
                ctx.fail('truncate-not-prefix', dict(case=case, step=i), expected=a, observed=b)
                return
            rejected = st['res'][0] != 'ok' and k in ('truncate', 'setitem', 'append')
            if rejected and (a != b or arrlib.descr_core(prev['files']['descr']) != arrlib.descr_core(st['files']['descr'])):
                ctx.fail('rejected-call-changed-state', dict(case=case, step=i),
                         expected=a, observed=b)
                return
            # calls the property says must be rejected
            if k == 'truncate' and st['res'][0] == 'ok':
                if op.get('nonint') or not (len(st['ref']['shape']) and st['ref']['shape'][0] < prev['ref']['shape'][0]):
                    ctx.fail('invalid-truncate-accepted', dict(case=case, step=i), observed=st['res'])
                    return
            if k == 'append' and st['res'][0] == 'ok' and not st.get('allgood', True):
                ctx.fail('incompatible-append-accepted', dict(case=case, step=i), observed=st['res'])
                return
            if a != b:
                changed = True
        prev = st
    return changed


def run(ctx, letters_filter=None):
    cases = gen(ctx)
    obs = ctx.run_impl(cases, 'history')
    terms, keep = [], []
    for case, steps in zip(cases, obs):
        key = dict(nt=case['nt'], bo=case['bo'], shape=case['shape'], letters=case['letters'],
                   mode=case['mode'])
        if isinstance(steps, dict):
            ctx.fail('harness-error', key, observed=steps)
            continue
        changed = oracle(ctx, case, steps)
        ctx.seen(key, nontrivial=bool(changed))
        ctx.count('len=%d' % min(len(case['letters']), 13))
        for l, st in zip(case['letters'], steps[1:]):
            ctx.count('op:' + l + ':' + ('ok' if st['res'][0] == 'ok' else st['res'][1]))
        ctx.traces += len(steps)
        terms.append(arrlib.history_term(case, steps))
        keep.append((case, steps))
    if keep:
        c, s = keep[len(keep) // 2]
        ctx.sample(dict(type=c['nt'], byteorder=c['bo'], shape=c['shape'], letters=c['letters'],
                        results=[x['res'][:2] for x in s], final_shape=s[-1]['live'].get('shape')))
    bad = ctx.coq_check('c03', arrlib.PRELUDE, terms, shard=150)
    if bad is None:
        ctx.model_ok = False
        return
    for i in bad[:5]:
        case, steps = keep[i]
        report_mismatch(ctx, 'c03dbg%d' % i, case, steps)


def report_mismatch(ctx, name, case, steps, corr='ArrayModel.step vs darr.Array'):
    from common import parse_coq_value
    txt = ctx.coq_show(name, arrlib.PRELUDE, arrlib.debug_term(case, steps))
    model = parse_coq_value(txt)
    impl = [arrlib.flat_step(s) for s in steps]
    first = None
    if model is not None:
        for j, (m, o) in enumerate(zip(model, impl)):
            if list(m[1]) != o[1] or (m[0] != o[0] and not (m[0] in (1, 7) and o[0] != 0)):
                first = dict(step=j, op=(case['ops'][j - 1] if j else 'create'),
                             model=[m[0], list(m[1])], impl=[o[0], o[1]])
                break
    ctx.mismatch(corr, dict(nt=case['nt'], bo=case['bo'], shape=case['shape'], mode=case['mode'],
                            letters=case['letters']),
                 None, model_obs=None if first else txt[:1500], detail=first)
