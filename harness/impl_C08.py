import impl_arr
import impl_rag


def history(case, d):
    return impl_arr.run_history(case, d, want_regen=True)


def rhistory(case, d):
    return impl_rag.run_history(case, d, want_regen=True)


def overwrite(case, d):
    """an array (or ragged array) is re-created over an existing one with overwrite=True: the README
    must describe the NEW array, including whether metadata exist"""
    import os
    import numpy as np
    import darr
    from darr.array import readcodetxt
    path = os.path.join(d, 'x.darr')
    meta_old = {'a': 1} if case['meta_old'] else None
    meta_new = {'b': 2} if case['meta_new'] else None
    old = case['old']
    if old == 'Array':
        darr.asarray(path, np.arange(12, dtype='int64').reshape(4, 3), metadata=meta_old)
    else:
        darr.asraggedarray(path, [[1.5, 2.5], [3.5]], metadata=meta_old)
    src = darr.asarray(os.path.join(d, 'src.darr'), np.arange(5, dtype='float32'), metadata=meta_new)
    how = case['how']
    try:
        if how == 'asarray':
            a = darr.asarray(path, np.arange(7, dtype='>i2'), metadata=meta_new, overwrite=True)
        elif how == 'create_array':
            a = darr.create_array(path, shape=(2, 2), dtype='uint8', metadata=meta_new, overwrite=True)
        elif how == 'copy':
            a = src.copy(path, overwrite=True)
        elif how == 'asraggedarray':
            a = darr.asraggedarray(path, [[1, 2, 3], [4]], metadata=meta_new, overwrite=True)
        else:
            raise ValueError(how)
    except Exception as e:
        return dict(res=['exc', type(e).__name__, str(e)[:150]])
    readme = open(os.path.join(path, 'README.txt'), encoding='utf-8').read()
    if how == 'asraggedarray':
        from darr.raggedarray import readcodetxt as rreadcodetxt
        regen = rreadcodetxt(darr.RaggedArray(path))
    else:
        regen = readcodetxt(darr.Array(path))
    hasmeta = os.path.exists(os.path.join(path, 'metadata.json'))
    return dict(res=['ok'], same=readme == regen, mentions='metadata.json' in readme, hasmeta=hasmeta,
                expect_meta=bool(meta_new), listing=sorted(os.listdir(path)))


def temp_handle(case, d):
    """metadata changed through a handle that is not kept (one-liners, a helper returning only
    `.metadata`): creating / deleting metadata.json must still refresh README.txt"""
    import gc
    import os
    import numpy as np
    import darr
    from darr.array import readcodetxt
    from darr.raggedarray import readcodetxt as rreadcodetxt
    path = os.path.join(d, 'x.darr')
    ragged = case['kind'] == 'RaggedArray'
    if ragged:
        darr.asraggedarray(path, [[1.5, 2.5], [3.5]])
        cls, regen = darr.RaggedArray, lambda: rreadcodetxt(darr.RaggedArray(path))
    else:
        darr.asarray(path, np.arange(6, dtype='int32').reshape(3, 2))
        cls, regen = darr.Array, lambda: readcodetxt(darr.Array(path))
    out = []

    def look(step):
        readme = open(os.path.join(path, 'README.txt'), encoding='utf-8').read()
        hasmeta = os.path.exists(os.path.join(path, 'metadata.json'))
        out.append(dict(step=step, same=readme == regen(), hasmeta=hasmeta, mentions='metadata.json' in readme))
    try:
        if case['how'] == 'oneliner':
            cls(path, accessmode='r+').metadata['fs'] = 44100
            gc.collect(); look('first key set')
            cls(path, accessmode='r+').metadata.pop('fs')
            gc.collect(); look('last key popped')
        elif case['how'] == 'failing_update':
            # a metadata update that cannot be serialised fails; the length changes afterwards
            h = cls(path, accessmode='r+')
            for bad in ({'s': {1, 2}}, {'b': b'\xff\xfe'}, {'o': object()}):
                try:
                    h.metadata.update(bad)
                    out.append(dict(step='error', error='unserialisable metadata accepted'))
                except Exception:
                    pass
                look('after a refused update')
            if ragged:
                h.append([9.5])
            else:
                h.append(np.zeros((1, 2), dtype='int32'))
            look('appended after the refused updates')
        elif case['how'] == 'meta_rplus':
            # a read-only handle whose metadata object alone was switched to 'r+'
            h = cls(path, accessmode='r')
            h.metadata.accessmode = 'r+'
            h.metadata['fs'] = 1
            look('first key set')
            h.metadata.popitem()
            look('last key popped')
            if not ragged:
                # ... and a length change through a read-only handle that a context opened for writing
                with h.open_array(accessmode='r+'):
                    darr.truncate_array(h, 1)
                look('truncated inside an r+ context of an r handle')
        else:
            def meta_of(p):
                return cls(p, accessmode='r+').metadata
            md = meta_of(path)
            gc.collect()
            md.update({'a': 1}); look('first key set')
            md = meta_of(path); gc.collect()
            md.popitem(); look('last key popped')
    except Exception as e:
        out.append(dict(step='error', error=f'{type(e).__name__}: {e}'[:200]))
    return out
