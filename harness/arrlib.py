"""Main-process side of the Array-history checks: case generation, the direct oracles
(NumPy model, independent file decoder, README facts) and the translation of cases and
observations into Gallina terms for CheckArray.v."""
import json
import re
import struct
import numpy as np
from common import (cz, czl, czl_rle, czll, cbool, copt, NT_COQ, NUMTYPES, ITEMSIZE, EXC_CODE,
                    exc_class)

PRELUDE = ("From Coq Require Import ZArith List Bool.\n"
           "From Darr Require Import Base ArrayModel CheckArray.\n"
           "Import ListNotations.\nOpen Scope Z_scope.\n")

NT_CODE = {n: i for i, n in enumerate(NUMTYPES)}
BO_CODE = {'little': 0, 'big': 1}
BO_COQ = {'little': 'Little', 'big': 'Big'}
MODE_CODE = {'r': 0, 'r+': 1}
MODE_COQ = {'r': 'R', 'r+': 'RW'}


def hexl(h):
    return list(bytes.fromhex(h))


def dtype_str(nt, bo):
    return np.dtype(nt).newbyteorder('<' if bo == 'little' else '>').str


def dt_info(dtstr):
    dt = np.dtype(dtstr)
    bo = dt.byteorder
    if bo in ('=', '|'):
        bo = '<'
    return dt.name, ('little' if bo == '<' else 'big')


# ---------------------------------------------------------------------------
# special values
# ---------------------------------------------------------------------------

def special_values(nt, rng, n):
    """n values of type nt as raw little-endian bytes -> ndarray('<nt'), with planted
    NaN payloads, -0.0, +-inf, subnormals and integer extremes."""
    dt = np.dtype(nt).newbyteorder('<')
    isz = dt.itemsize
    raw = bytearray(rng.getrandbits(8) for _ in range(n * isz))
    a = np.frombuffer(bytes(raw), dtype=dt).copy()
    kind = dt.kind
    specials = []
    if kind in 'iu':
        info = np.iinfo(dt)
        specials = [info.min, info.max, 0, 1, info.max - 1] + ([-1] if kind == 'i' else [])
        specials = [np.array(s, dtype=dt) for s in specials]
    elif kind == 'f':
        u = {2: '<u2', 4: '<u4', 8: '<u8'}[isz]
        bits = {2: [0x7e01, 0xfe55, 0x8000, 0x7c00, 0xfc00, 0x0001, 0x03ff],
                4: [0x7fc00001, 0xffc12345, 0x80000000, 0x7f800000, 0xff800000, 0x1, 0x007fffff],
                8: [0x7ff8000000000001, 0xfff8123456789abc, 0x8000000000000000,
                    0x7ff0000000000000, 0xfff0000000000000, 0x1, 0x000fffffffffffff]}[isz]
        specials = [np.array(b, dtype=u).view(dt) for b in bits]
    elif kind == 'c':
        f = '<f4' if isz == 8 else '<f8'
        specials = [np.array([np.nan, -0.0], dtype=f).view(dt)[0],
                    np.array([np.inf, -np.inf], dtype=f).view(dt)[0]]
        specials = [np.array(s, dtype=dt) for s in specials]
    for i in range(n):
        if specials and rng.random() < 0.35:
            a[i] = specials[rng.randrange(len(specials))]
    return a


def rand_array(rng, nt, bo, shape, distinct=False):
    n = int(np.prod(shape)) if shape else 1
    a = special_values(nt, rng, n).reshape(shape)
    return a.astype(np.dtype(nt).newbyteorder('<' if bo == 'little' else '>'))


def nd_spec(a, layout='C'):
    a = np.asarray(a)
    return dict(kind='nd', dtype=a.dtype.str, shape=list(a.shape),
                hex=np.ascontiguousarray(a).tobytes().hex(), layout=layout)


def start_case(rng, nt, bo, shape, mode='r+', metadata=None, layout='C'):
    a = rand_array(rng, nt, bo, shape)
    return dict(dtype=a.dtype.str, shape=list(shape), init=np.ascontiguousarray(a).tobytes().hex(),
                mode=mode, metadata=metadata, layout=layout, ops=[], nt=nt, bo=bo)


# ---------------------------------------------------------------------------
# flattening of implementation observations (mirrors CheckArray.world_flat)
# ---------------------------------------------------------------------------

def parse_numtype_descr(s):
    m = re.match(r'\s*(\d+)\s*[-‐ ]\s*bit\s+(.*)', s)
    if not m:
        return None
    bits, rest = int(m.group(1)), m.group(2).lower()
    if 'unsigned' in rest:
        return f'uint{bits}'
    if 'signed integer' in rest:
        return f'int{bits}'
    if 'complex' in rest:
        return f'complex{bits}'
    if 'float' in rest:
        return f'float{bits}'
    return None


def readme_facts(text):
    """(numtype, byteorder, shape, mentions_metadata) as README.txt states them."""
    if text is None:
        return None
    nt = bo = shape = None
    for line in text.splitlines():
        s = line.strip()
        if s.startswith('Numeric type:'):
            nt = parse_numtype_descr(s[len('Numeric type:'):])
        elif s.startswith('Byte order:'):
            bo = s.split(':', 1)[1].split()[0]
        elif s.startswith('Array length:'):
            shape = [int(s.split(':', 1)[1])]
        elif s.startswith('Array dimensions:'):
            shape = [int(x) for x in re.findall(r'-?\d+', s.split(':', 1)[1])]
    meta = "The file 'metadata.json' contains metadata" in text.replace('\n', ' ')
    if nt is None or bo not in BO_CODE or shape is None:
        return 'unparsable'
    return dict(nt=nt, bo=bo, shape=shape, meta=meta)


def flat_step(st):
    """(result code, flat list) of one observed step, in CheckArray.world_flat layout."""
    res = st['res']
    rc = 0 if res[0] == 'ok' else EXC_CODE.get(res[1], 7)
    lv = st['live']
    fl = []
    if 'error' in lv:
        fl += [-9]
    else:
        fl += [MODE_CODE[lv['mode']], NT_CODE[lv['dtype'][0]], BO_CODE[lv['dtype'][1]],
               len(lv['shape'])] + lv['shape']
    f = st['files']
    d = f['descr']
    if d is None:
        fl += [-1]
    elif d == 'torn' or not isinstance(d, dict):
        fl += [-2]
    else:
        try:
            fl += [0, NT_CODE[d['numtype']], BO_CODE[d['byteorder']],
                   {'C': 0, 'F': 1}[d['arrayorder']], len(d['shape'])] + [int(x) for x in d['shape']]
        except Exception:
            fl += [-3]
    rf = readme_facts(f['readme'])
    if rf is None:
        fl += [-1]
    elif rf == 'unparsable':
        fl += [-2]
    else:
        fl += [0, NT_CODE[rf['nt']], BO_CODE[rf['bo']], len(rf['shape'])] + rf['shape'] + \
              [1 if rf['meta'] else 0]
    fl += [1 if f['meta'] is not None else 0]
    if f['data'] is None:
        fl += [-1]
    else:
        b = hexl(f['data'])
        fl += [len(b)] + b
    return rc, fl


# ---------------------------------------------------------------------------
# Gallina terms
# ---------------------------------------------------------------------------

def rows_term(rows_hex):
    rows = [hexl(r) for r in rows_hex]
    # many identical rows (zero-filled start arrays): repeat row n
    if len(rows) >= 8 and all(r == rows[0] for r in rows):
        return f"(repeat {czl_rle(rows[0])} (Z.to_nat {len(rows)}))"
    return "[" + "; ".join(czl_rle(r) for r in rows) + "]"


def chunk_term(img):
    if img.get('raise'):
        return 'CRaise'
    if img.get('unconv'):
        return 'CUnconv'
    if 'fail_k' in img:
        return f"(CWriteFail {czl(img['tail'])} {rows_term(img['rows'])} {cz(img['fail_k'])})"
    return f"(CGood {czl(img['tail'])} {rows_term(img['rows'])})"


def op_term(op, st):
    k = op['op']
    if k in ('append', 'iterappend'):
        return "(OpIterAppend [" + "; ".join(chunk_term(i) for i in st['images']) + "])"
    if k == 'truncate':
        if op.get('nonint'):
            return "(OpTruncate None)"
        return f"(OpTruncate (Some {cz(op['index'])}))"
    if k == 'setitem':
        if st['refres'][0] != 'ok':
            return "(OpSetItem None)"
        return "(OpSetItem (Some [" + "; ".join(f"({cz(o)}, {czl(hexl(h))})" for o, h in st['pokes']) + "]))"
    if k == 'setmode':
        if op['mode'] not in MODE_COQ:
            return "(OpSetMode None)"          # an invalid mode string
        return f"(OpSetMode (Some {MODE_COQ[op['mode']]}))"
    if k == 'reopen':
        return f"(OpReopen {MODE_COQ[op['mode']]})"
    if k == 'metaset':
        return "OpMetaSet"
    if k == 'metaclear':
        return "OpMetaClear"
    if k == 'metaop':
        if op['method'] in ('update', 'setitem') or st.get('nkeys_before', 1) > 1:
            return "OpMetaSet"       # the metadata stay non-empty: the file is rewritten
        return "OpMetaPop"
    raise ValueError(k)


def image_term(nt, bo, tail, rows_hex, supported=True):
    dt = f"(Some ({NT_COQ[nt]}, {BO_COQ[bo]}))" if supported else "None"
    return f"(mkImage {dt} {czl(tail)} {rows_term(rows_hex)})"


def init_rows(case):
    dt = np.dtype(case['dtype'])
    a = np.frombuffer(bytes.fromhex(case['init']), dtype=dt).reshape(case['shape'])
    n = a.shape[0]
    if n == 0:
        return []
    flat = a.reshape(n, -1)
    return [np.ascontiguousarray(r).tobytes().hex() for r in flat]


def created_term(case):
    nt, bo = dt_info(case['dtype'])
    im = image_term(nt, bo, case['shape'][1:], init_rows(case))
    meta = bool(case.get('metadata'))
    return f"(created (SSeq {im} true) None {MODE_COQ[case['mode']]} {cbool(meta)})"


def history_term(case, steps):
    ops = "[" + "; ".join(op_term(op, st) for op, st in zip(case['ops'], steps[1:])) + "]"
    obs = "[" + "; ".join("(%s, %s)" % (cz(rc), czl_rle(fl)) for rc, fl in map(flat_step, steps)) + "]"
    return f"chk_history {created_term(case)} {ops} {obs}"


def debug_term(case, steps):
    ops = "[" + "; ".join(op_term(op, st) for op, st in zip(case['ops'], steps[1:])) + "]"
    return f"dbg_history {created_term(case)} {ops}"


# ---------------------------------------------------------------------------
# direct oracles
# ---------------------------------------------------------------------------

STRUCT_CODE = {'int8': 'b', 'int16': 'h', 'int32': 'i', 'int64': 'q', 'uint8': 'B',
               'uint16': 'H', 'uint32': 'I', 'uint64': 'Q'}


def independent_decode(files):
    """Reader that uses only the documented format (json + struct/int, no NumPy, no
    Darr): returns (numtype, byteorder, shape, list of element bit patterns as ints in
    C order) or raises."""
    d = files['descr']
    if not isinstance(d, dict):
        raise ValueError('descriptor is not a dictionary')
    for k in ('numtype', 'byteorder', 'shape', 'arrayorder', 'darrversion', 'darrobject'):
        if k not in d:
            raise ValueError(f'descriptor lacks {k}')
    nt, bo, shape, order = d['numtype'], d['byteorder'], d['shape'], d['arrayorder']
    if nt not in ITEMSIZE or bo not in ('little', 'big') or order != 'C':
        raise ValueError('descriptor values')
    isz = ITEMSIZE[nt]
    raw = bytes.fromhex(files['data'])
    n = 1
    for x in shape:
        n *= x
    if len(raw) != n * isz:
        raise ValueError(f'data length {len(raw)} != {n}*{isz}')
    unit = {'complex64': 4, 'complex128': 8}.get(nt, isz)
    elems = []
    for i in range(n):
        e = raw[i * isz:(i + 1) * isz]
        # canonical big-endian bit pattern of each swap unit
        parts = [e[j:j + unit] for j in range(0, isz, unit)]
        if bo == 'little':
            parts = [p[::-1] for p in parts]
        elems.append(int.from_bytes(b''.join(parts), 'big'))
    return nt, bo, list(shape), elems


def api_elems(viewd):
    """Canonical element bit patterns of what the Darr API returned (a[:] bytes)."""
    nt, bo = viewd['dtype']
    isz = ITEMSIZE[nt]
    unit = {'complex64': 4, 'complex128': 8}.get(nt, isz)
    raw = bytes.fromhex(viewd['data'])
    out = []
    for i in range(len(raw) // isz):
        e = raw[i * isz:(i + 1) * isz]
        parts = [e[j:j + unit] for j in range(0, isz, unit)]
        if bo == 'little':
            parts = [p[::-1] for p in parts]
        out.append(int.from_bytes(b''.join(parts), 'big'))
    return out


def descr_core(d):
    if not isinstance(d, dict):
        return d
    return {k: d.get(k) for k in ('numtype', 'byteorder', 'shape', 'arrayorder', 'darrobject')}


def check_c02(st):
    """C02 on one observed state; returns None or a description of the violation."""
    f = st['files']
    if f['data'] is None or f['descr'] is None or f['readme'] is None:
        return 'a constituent file is missing: ' + str(f['listing'])
    try:
        nt, bo, shape, elems = independent_decode(f)
    except Exception as e:
        return f'files do not decode: {e}'
    for nm in ('live', 'fresh'):
        v = st[nm]
        if 'error' in v:
            return f'{nm} handle fails: {v}'
        if [nt, bo] != v['dtype'] or shape != v['shape'] or elems != api_elems(v):
            return f'decoded files differ from {nm} API view'
        if v['size'] != len(elems) or v['nbytes'] != len(elems) * ITEMSIZE[nt]:
            return f'{nm}: size/nbytes inconsistent'
    return None


def check_c03(st, prev):
    """C03 on one step: live and fresh views equal the NumPy reference."""
    ref = st['ref']
    n = 1
    for x in ref['shape']:
        n *= x
    for nm in ('live', 'fresh'):
        v = st[nm]
        if 'error' in v:
            return f'{nm} handle fails: {v}'
        if v['shape'] != ref['shape'] or v['dtype'] != ref['dtype'] or v['data'] != ref['data']:
            return f'{nm} view differs from the NumPy model'
        if v['len'] != ref['shape'][0] or v['size'] != n or \
                v['nbytes'] != n * ITEMSIZE[ref['dtype'][0]] or v['dshape'] != ref['shape'] \
                or v['ddtype'] != ref['dtype']:
            return f'{nm}: len/size/nbytes/shape of returned data inconsistent'
    return None


def check_c08(st):
    """C08 on one state: README == regeneration from a fresh handle; stated facts and
    snippets are the current ones."""
    f = st['files']
    if f['readme'] is None:
        return 'README.txt missing'
    rg = st.get('regen')
    if rg is None or 'error' in rg:
        return f'cannot regenerate README from a fresh handle: {rg}'
    if f['readme'] != rg['text']:
        return 'README.txt differs from the documentation generated for the current state'
    rf = readme_facts(f['readme'])
    d = f['descr']
    if rf == 'unparsable' or not isinstance(d, dict):
        return 'README facts unparsable'
    fresh = st['fresh']
    if 'error' in fresh:
        return 'fresh handle fails'
    if [rf['nt'], rf['bo']] != fresh['dtype'] or rf['shape'] != fresh['shape']:
        return f'README states {rf}, data are {fresh["dtype"]} {fresh["shape"]}'
    if rf['meta'] != (f['meta'] is not None and f['meta'] != {}):
        return 'README mention of metadata.json does not match its existence'
    for lang, code in rg['code'].items():
        if code is None or code not in f['readme']:
            return f'README lacks the current {lang} snippet'
    return None


# ---------------------------------------------------------------------------
# operation alphabet for histories
# ---------------------------------------------------------------------------

OTHER_DT = {'int8': '<i2', 'int16': '>i4', 'int32': '<f8', 'int64': '>i2', 'uint8': '<u2',
            'uint16': '>u1', 'uint32': '<i8', 'uint64': '<u4', 'float16': '>f4',
            'float32': '<f8', 'float64': '>f4', 'complex64': '<c16', 'complex128': '>c8'}


def small_values(rng, shape, dtstr):
    """values that survive casting between all 13 types without warnings"""
    a = np.array([rng.randrange(0, 100) for _ in range(int(np.prod(shape)))],
                 dtype='int64').reshape(shape)
    return a.astype(dtstr)


def mk_op(letter, rng, nt, bo, tail):
    """letter -> op spec (values drawn from rng)."""
    own = dtype_str(nt, bo)
    t = tuple(tail)
    if letter == 'a0':
        return dict(op='append', items=[nd_spec(np.zeros((0,) + t, dtype=own))])
    if letter == 'a1':
        return dict(op='append', items=[nd_spec(rand_array(rng, nt, bo, (1,) + t))])
    if letter == 'a2l':
        return dict(op='append', items=[dict(kind='list', value=small_values(rng, (2,) + t, 'int64').tolist())])
    if letter == 'asc':
        return dict(op='append', items=[dict(kind='scalar', value=rng.randrange(0, 100))])
    if letter == 'aod':
        lay = rng.choice(['C', 'F', 'strided', 'neg', 'T'])
        return dict(op='append', items=[nd_spec(small_values(rng, (3,) + t, OTHER_DT[nt]), lay)])
    if letter == 'asw':      # the array's own numeric type in the OTHER byte order
        other = 'big' if bo == 'little' else 'little'
        return dict(op='append', items=[nd_spec(rand_array(rng, nt, other, (2,) + t))])
    if letter == 'astr':     # a numeric string: NumPy makes ONE number of it (stored like a scalar)
        return dict(op='append', items=[dict(kind='numstr', value=rng.choice(['12', '3']), bytes=rng.random() < 0.3)])
    if letter == 'amask':    # an ndarray subclass
        return dict(op='append', items=[dict(nd_spec(rand_array(rng, nt, bo, (2,) + t)), kind='masked')])
    if letter == 'atail':    # ONE row without the leading axis (rank one too low): not appendable to an N-D array
        if not t:
            return dict(op='append', items=[nd_spec(rand_array(rng, nt, bo, (1,)))])
        return dict(op='append', items=[nd_spec(rand_array(rng, nt, bo, t))])
    if letter == 'a0d':      # a 0-d ndarray: np.concatenate refuses it (rank)
        return dict(op='append', items=[nd_spec(small_values(rng, (), own))])
    if letter == 'itbad':    # one good chunk, then one of the wrong shape: the first is kept
        bad = (2,) + t + (2,) if t else (2, 2)
        return dict(op='iterappend', items=[nd_spec(rand_array(rng, nt, bo, (1,) + t)),
                                            nd_spec(small_values(rng, bad, own))])
    if letter == 'itraise':  # one good chunk, then the ITERABLE itself fails (with an exception of its own class)
        return dict(op='iterappend', items=[nd_spec(rand_array(rng, nt, bo, (2,) + t)), dict(kind='raise'),
                                            nd_spec(rand_array(rng, nt, bo, (1,) + t))])
    if letter == 'it0d':     # the failing chunk is the first one and is a 0-d array
        return dict(op='iterappend', items=[nd_spec(small_values(rng, (), own)),
                                            nd_spec(rand_array(rng, nt, bo, (1,) + t))])
    if letter == 'abad0':    # wrong trailing shape / rank but ZERO elements: still incompatible
        cands = [(0,) + t + (2,), (0, 7) if t != (7,) else (0, 5), (2, 0) if t != (0,) else (2, 1)]
        if t:
            cands.append((3,) + tuple(0 for _ in t))
        bad = rng.choice([c for c in cands if tuple(c[1:]) != t])
        return dict(op='append', items=[nd_spec(np.zeros(bad, dtype=own))])
    if letter == 'mbad':     # not a mode: refused, the handle keeps working in its old mode
        return dict(op='setmode', mode=rng.choice(['w', 'a', 'rb', 'x']))
    if letter == 'abad':
        bad = (2,) + t + (2,) if rng.random() < 0.5 else (2,) + tuple(x + 1 for x in t) if t else (2, 2)
        return dict(op='append', items=[nd_spec(small_values(rng, bad, own))])
    if letter == 'it2':
        return dict(op='iterappend', items=[nd_spec(rand_array(rng, nt, bo, (2,) + t)),
                                            nd_spec(small_values(rng, (1,) + t, OTHER_DT[nt]))])
    if letter == 'it0':
        return dict(op='iterappend', items=[], aslist=rng.random() < 0.5)
    if letter == 'itl':
        return dict(op='iterappend', aslist=True,
                    items=[dict(kind='list', value=small_values(rng, (1,) + t, 'int64').tolist()),
                           nd_spec(rand_array(rng, nt, bo, (2,) + t), 'strided')])
    if letter == 't-1':
        return dict(op='truncate', index=-1)
    if letter == 't0':
        return dict(op='truncate', index=0)
    if letter == 't1':
        return dict(op='truncate', index=1)
    if letter == 't2':
        return dict(op='truncate', index=2)
    if letter == 'tbig':
        return dict(op='truncate', index=100)
    if letter == 't-big':
        return dict(op='truncate', index=-100)
    if letter == 'tni':
        return dict(op='truncate', index=1, nonint=rng.choice(['float', 'npint', 'npint', 'npint16', 'npuint8', 'str']))
    if letter == 'set':
        ix = rng.choice([['s', 0, None, 2], ['s', None, None, None], 0, -1, ['t', 'E', 0] if t else 0,
                         ['s', 1, 3, None], ['ia', [0, 0]], ['s', None, None, -1]])
        val = rng.choice([dict(kind='scalar', value=rng.randrange(0, 100)),
                          dict(kind='npscalar', dtype='<i2', value=rng.randrange(0, 100))])
        return dict(op='setitem', index=ix, value=val)
    if letter == 'setbad':
        return dict(op='setitem', index=['t'] + [0] * (len(t) + 2), value=dict(kind='scalar', value=1))
    if letter == 'ro':
        return dict(op='reopen', mode='r+')
    if letter == 'ror':
        return dict(op='reopen', mode='r')
    if letter == 'mr':
        return dict(op='setmode', mode='r')
    if letter == 'mrw':
        return dict(op='setmode', mode='r+')
    if letter == 'ms':
        return dict(op='metaset', value={rng.choice(['k1', 'k2']): rng.randrange(100)})
    if letter == 'mc':
        return dict(op='metaclear')
    if letter == 'mpi':
        return dict(op='metaop', method='popitem')
    raise ValueError(letter)


ALPHABET = ['a0', 'a1', 'a2l', 'asc', 'aod', 'asw', 'astr', 'amask', 'atail', 'a0d', 'abad', 'abad0', 'it2', 'it0', 'itl', 'itbad', 'itraise', 'it0d',
            't-1', 't0', 't1', 'tbig', 't-big', 'tni', 'set', 'ro', 'mr', 'mrw', 'mbad', 'ms', 'mc']
COMPACT = ['a1', 'aod', 'asw', 'amask', 'atail', 'a0d', 'abad', 'abad0', 'it2', 'it0', 'itbad', 't-1', 't0', 't1', 'tbig', 't-big', 'tni',
           'set', 'ro', 'mr', 'mbad']


def history_case(rng, nt, bo, shape, letters, mode='r+', metadata=None, layout='C'):
    c = start_case(rng, nt, bo, shape, mode=mode, metadata=metadata, layout=layout)
    c['letters'] = list(letters)
    c['ops'] = [mk_op(l, rng, nt, bo, shape[1:]) for l in letters]
    return c
