"""C01 implementation side: one creation per case, with the NumPy reference computed
with NumPy only."""
import os
import numpy as np
import darr
from implutil import dtype_info
from impl_arr import build_value, make_layout, view, guarded_view, read_files, rows_of

FILLFUNCS = {
    'idx': lambda i: i,
    'dbl': lambda i: i * 2,
    'mod': lambda i: i % 3 - 1,
    'half': lambda i: i / 2,
    'sq': lambda i: i * i + 1,
    'hmod': lambda i: i // 2 % 100,      # depends on the index itself, not on the index modulo 2**k
    # row-wise but NOT element-wise: they need the index grid in the full shape of the chunk
    'cum': lambda i: np.cumsum(i.reshape(i.shape[0], int(np.prod(i.shape[1:]))), axis=1).reshape(i.shape),
    'rowsum': lambda i: i * 0 + i.reshape(i.shape[0], int(np.prod(i.shape[1:]))).sum(axis=1).reshape(
        (i.shape[0],) + (1,) * (i.ndim - 1)),
}


def image(arr):
    """image of a NumPy array for the model: dtype info (or None), tail, rows"""
    arr = np.asarray(arr)
    if arr.ndim == 0:
        arr = arr.reshape(1)
    name = arr.dtype.name
    sup = name in ('int8', 'int16', 'int32', 'int64', 'uint8', 'uint16', 'uint32', 'uint64',
                   'float16', 'float32', 'float64', 'complex64', 'complex128')
    return dict(dt=dtype_info(arr.dtype) if sup else None, tail=list(arr.shape[1:]),
                rows=rows_of(arr) if sup else [], n=int(arr.shape[0]))


def create(case, d):
    path = os.path.join(d, 'new')
    form = case['form']
    dtype = case.get('dtype')
    cl = case.get('chunklen')
    if cl is not None and case.get('cltype'):
        cl = np.dtype(case['cltype']).type(cl)      # the chunk length as a NumPy integer of a narrow type
    out = dict()
    ref = None
    images = None
    try:
        if form in ('nd', 'list', 'tuple', 'scalar', 'npscalar', 'unsupported'):
            spec = case['value']
            if form == 'unsupported':
                u = spec['u']
                val = {'bool': np.array([True, False]), 'str': np.array(['a', 'b']),
                       'object': np.array([object(), None], dtype=object),
                       'datetime': np.array(['2020-01-01', '2021-01-01'], dtype='datetime64[D]'),
                       'struct': np.zeros(2, dtype=[('a', 'i4'), ('b', 'f4')]),
                       'boollist': [True, False], 'strlist': ['a', 'b'],
                       'dict': {'a': 1}, 'none': None,
                       'longdouble': np.array([1.5, 2.5], dtype=np.longdouble),
                       'clongdouble': np.array([1.5 + 2j], dtype=np.clongdouble),
                       'longdoublescalar': np.longdouble(1.5),
                       'timedelta': np.array([1, 2], dtype='timedelta64[s]'),
                       'bytes': np.array([b'ab', b'cd'])}[u]
            else:
                val = build_value(spec)
            try:
                refarr = np.asarray(val, dtype=dtype) if dtype else np.asarray(val)
                if refarr.ndim == 0:
                    refarr = refarr.reshape(1)
                ref = refarr
                images = [image(refarr)]
            except Exception:
                ref = None
                images = None
            call = lambda: darr.asarray(path, val, dtype=dtype, chunklen=cl,
                                        accessmode=case.get('mode', 'r'))
        elif form == 'iter':
            chunks = [build_value(s) for s in case['chunks']]
            conv = [np.asarray(c, dtype=dtype) if dtype else np.asarray(c) for c in chunks]
            conv = [c.reshape(1) if c.ndim == 0 else c for c in conv]
            first = conv[0].dtype
            conv = [c.astype(first) for c in conv]
            ref = np.concatenate(conv, axis=0).astype(first)
            images = [image(c) for c in conv]
            call = lambda: darr.asarray(path, (c for c in chunks), dtype=dtype, chunklen=cl,
                                        accessmode=case.get('mode', 'r'))
        elif form == 'darr':
            src = build_value(case['value'])
            srcpath = os.path.join(d, 'src')
            sa = darr.asarray(srcpath, src)
            refarr = np.asarray(src)
            ref = refarr.astype(dtype) if dtype else refarr
            images = [image(ref)]
            call = lambda: darr.asarray(path, sa, dtype=dtype, chunklen=cl,
                                        accessmode=case.get('mode', 'r'))
        elif form == 'fill':
            shape = tuple(case['shape'])
            dt = np.dtype(dtype or 'float64')
            ref = np.empty(shape, dtype=dt)
            if case.get('fillfunc'):
                grid = np.empty(shape, dtype='int64')
                grid.T[:] = np.arange(shape[0], dtype='int64')
                ref[:] = FILLFUNCS[case['fillfunc']](grid)
                kw = dict(fillfunc=FILLFUNCS[case['fillfunc']])
            else:
                ref[:] = case.get('fill', 0) if case.get('fill') is not None else 0     # np.full semantics (keeps -0.0)
                kw = dict(fill=case.get('fill'))
            images = [image(ref)]
            shp = shape[0] if (case.get('intshape') and len(shape) == 1) else shape
            call = lambda: darr.create_array(path, shp, dtype=dtype or 'float64', chunklen=cl,
                                             accessmode=case.get('mode', 'r+'), **kw)
        else:
            raise ValueError(form)
    except Exception as e:
        return dict(harness_error=f'{type(e).__name__}: {e}')
    try:
        a = call()
        out['res'] = ['ok']
    except Exception as e:
        a = None
        out['res'] = ['exc', type(e).__name__, str(e)[:200]]
    out['exists'] = os.path.exists(path)
    if a is not None:
        out['live'] = guarded_view(lambda: a)
        out['fresh'] = guarded_view(lambda: darr.Array(path))
        out['files'] = read_files(path)
    if ref is not None:
        out['ref'] = dict(shape=list(ref.shape), dtype=dtype_info(ref.dtype) if images[0]['dt'] else None,
                          dtname=ref.dtype.name, data=np.ascontiguousarray(ref).tobytes().hex())
        out['images'] = images
    return out


def big(case, d):
    """arrays larger than the 80 MiB default chunk: the default chunk plan must still tile them
    (direct oracle only -- too large for a Coq literal)"""
    path = os.path.join(d, 'big')
    kind = case['kind']
    try:
        if kind == 'asarray2d':
            ref = (np.arange(3 * 30_000_000, dtype='int64') % 251).astype('uint8').reshape(3, 30_000_000)
            a = darr.asarray(path, ref)
        elif kind == 'fill1d':
            n = 100_000_007
            a = darr.create_array(path, shape=(n,), dtype='uint8', fillfunc=lambda i: i % 251)
            ref = (np.arange(n, dtype='int64') % 251).astype('uint8')
        elif kind == 'asarray1d':
            n = 90_000_001
            ref = (np.arange(n, dtype='int64') % 249).astype('uint8')
            a = darr.asarray(path, ref)
        elif kind == 'copy':
            n = 85_000_003
            ref = (np.arange(n, dtype='int64') % 247).astype('uint8')
            src = darr.asarray(os.path.join(d, 'src'), ref, chunklen=40_000_000)
            a = src.copy(path)
        elif kind == 'exactmultiple':
            # the length is EXACTLY one default chunk (80 MiB // row size rows): no remainder
            ref = ((np.arange(4 * 20 * 1024 ** 2, dtype='int64') % 241).astype('uint8')).reshape(4, 20 * 1024 ** 2)
            a = darr.asarray(path, ref)
        elif kind in ('widecopy', 'wideasarray'):
            # ONE row is larger than the 80 MiB default chunk: the guessed chunk length must not drop to 0
            w = 83_886_081
            ref = np.empty((2, w), dtype='uint8')
            ref[0] = 3; ref[1] = 5; ref[:, ::4097] = 9; ref[1, -1] = 7
            if kind == 'widecopy':
                src = darr.asarray(os.path.join(d, 'src'), ref, chunklen=1)
                a = src.copy(path)
            else:
                a = darr.asarray(path, ref)
        else:
            raise ValueError(kind)
        fresh = darr.Array(path)
        ok = (a.shape == ref.shape and fresh.shape == ref.shape and a.dtype == ref.dtype
              and os.path.getsize(os.path.join(path, 'arrayvalues.bin')) == ref.nbytes)
        detail = ''
        if ok:
            got = fresh[:]
            if not np.array_equal(got, ref):
                bad = np.flatnonzero(got.reshape(-1) != ref.reshape(-1))
                ok, detail = False, f'{bad.size} elements differ, first at flat index {int(bad[0])}'
        else:
            detail = f'shape {a.shape} / {fresh.shape} for {ref.shape}, file {os.path.getsize(os.path.join(path, "arrayvalues.bin"))} bytes for {ref.nbytes}'
        return dict(ok=bool(ok), detail=detail, nbytes=int(ref.nbytes))
    except Exception as e:
        return dict(ok=False, detail=f'{type(e).__name__}: {e}'[:300], nbytes=0)
