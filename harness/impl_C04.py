from impl_rag import run_history


def history(case, d):
    return run_history(case, d, want_regen=False)


def big_first(case, d):
    """asraggedarray whose FIRST subarray is exactly one default chunk (80 MiB) long / a Python list of
    more than 2**20 numbers whose type is decided by its last element.  Oracle only."""
    import os
    import numpy as np
    import darr
    path = os.path.join(d, 'ra')
    try:
        if case['kind'] == 'exactchunk':
            first = (np.arange(10240 * 1024, dtype='int64') % 97).astype('float64').reshape(10240, 1024)
            second = np.full((3, 1024), 5.0)
            ra = darr.asraggedarray(path, [first, second])
            refs, dt = [first, second], 'float64'
        else:
            first = [1] * (2 ** 20 + 5) + [2.5]
            second = [0.5, 7]
            ra = darr.asraggedarray(path, [first, second])
            refs, dt = [np.asarray(first), np.asarray(second, dtype='float64')], 'float64'
        fresh = darr.RaggedArray(path)
        ok = fresh.dtype == np.dtype(dt) and len(fresh) == 2 and fresh.size == sum(r.size for r in refs)
        detail = '' if ok else f'dtype {fresh.dtype}, len {len(fresh)}, size {fresh.size}'
        for k, r in enumerate(refs):
            if ok and not (np.array_equal(fresh[k], r) and np.array_equal(ra[k], r)):
                ok, detail = False, f'subarray {k} differs'
        return dict(ok=bool(ok), detail=detail)
    except Exception as e:
        return dict(ok=False, detail=f'{type(e).__name__}: {e}'[:300])
