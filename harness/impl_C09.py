from impl_arr import run_history


def history(case, d):
    return run_history(case, d, want_regen=False)


def bigdarr(case, d):
    """append of ANOTHER darr Array that is larger than the library's internal chunk size (80 MiB), with
    the file system refusing growth after `k` more bytes: all or nothing.  Rows are 8 MiB wide (NumPy
    converts a darr Array row by row).  Oracle only."""
    import os
    import resource
    import signal
    import numpy as np
    import darr
    rows, k = case['rows'], case['k']
    rowlen = 8 * 1024 ** 2
    tp = os.path.join(d, 't.darr')
    tgt = darr.asarray(tp, np.full((1, rowlen), 3, dtype='int8'), accessmode='r+')
    src = darr.create_array(os.path.join(d, 's.darr'), shape=(rows, rowlen), dtype='int8', fill=1)
    dp = os.path.join(tp, 'arrayvalues.bin')
    out = dict(before=[len(tgt), os.path.getsize(dp)])
    signal.signal(signal.SIGXFSZ, signal.SIG_IGN)
    soft, hard = resource.getrlimit(resource.RLIMIT_FSIZE)
    resource.setrlimit(resource.RLIMIT_FSIZE, (os.path.getsize(dp) + k, hard))
    try:
        tgt.append(src)
        out['res'] = 'ok'
    except Exception as e:
        out['res'] = type(e).__name__
    finally:
        resource.setrlimit(resource.RLIMIT_FSIZE, (hard, hard))
    out['after'] = [len(tgt), os.path.getsize(dp)]
    try:
        f = darr.Array(tp)
        out['fresh'] = [len(f), int(f[0, 0]), int(f[-1, -1])]
    except Exception as e:
        out['fresh'] = f'{type(e).__name__}: {e}'[:200]
    return out
