"""Seeded-change bookkeeping.

  seedtool.py import Cxx /tmp/seed_Cxx     copy mutK.diff / demoK.py / mutK.txt into /verif/seeded/Cxx-mK/
  seedtool.py test Cxx [mK ...] [--tier quick] [--checks C02,C03]
        for each stored change: git apply it to /repo, run the property's check(s), record the
        outcome in /verif/seeded/Cxx-mK/meta.json, then `git -C /repo checkout -- .`

The changes are never committed to /repo.
"""
import json
import os
import re
import shutil
import subprocess
import sys
import time
from pathlib import Path

VERIF = Path(__file__).resolve().parent.parent
REPO = Path(os.environ.get('DARR_REPO', '/repo'))
SEEDED = VERIF / 'seeded'


def sh(cmd, **kw):
    return subprocess.run(cmd, shell=True, text=True, capture_output=True, **kw)


def do_import(pid, src, offset=0):
    src = Path(src)
    n = 0
    for diff in sorted(src.glob('mut*.diff')):
        k0 = re.search(r'mut(\d+)', diff.name).group(1)
        k = str(int(k0) + offset)
        dst = SEEDED / f'{pid}-m{k}'
        dst.mkdir(parents=True, exist_ok=True)
        shutil.copy(diff, dst / 'patch.diff')
        demo = src / f'demo{k0}.py'
        if demo.exists():
            shutil.copy(demo, dst / 'demo.py')
        txt = (src / f'mut{k0}.txt').read_text() if (src / f'mut{k0}.txt').exists() else ''
        meta = dict(property=pid, id=f'{pid}-m{k}', origin='sub-agent given only the property text and a scratch worktree',
                    description=txt.strip(), files=sorted(set(re.findall(r'^\+\+\+ b/(\S+)', diff.read_text(), re.M))),
                    baseline_tests='187 passed with the change applied (reported by the seeding agent)')
        mp = dst / 'meta.json'
        if mp.exists():
            old = json.loads(mp.read_text())
            old.update(meta)
            meta = old
        mp.write_text(json.dumps(meta, indent=1))
        n += 1
    print(f'imported {n} changes for {pid}')


def clean_repo():
    sh(f'git -C {REPO} checkout -- . && git -C {REPO} clean -fdq -- darr docs')


def do_test(pid, names, tier, checks):
    names = [f'{pid}-{n}' if not n.startswith(pid) else n for n in names] or \
        sorted(p.name for p in SEEDED.iterdir() if p.is_dir() and p.name.startswith(pid + '-'))
    for nm in names:
        d = SEEDED / nm
        meta = json.loads((d / 'meta.json').read_text())
        st = sh(f'git -C {REPO} status --porcelain')
        if st.stdout.strip():
            print('refusing: /repo is not clean:', st.stdout)
            sys.exit(2)
        ap = sh(f'git -C {REPO} apply {d / "patch.diff"}')
        if ap.returncode != 0:
            print(nm, 'patch does not apply:', ap.stderr[:300])
            meta['applies'] = False
            (d / 'meta.json').write_text(json.dumps(meta, indent=1))
            continue
        meta['applies'] = True
        try:
            # the demonstration must fail on the changed tree
            demo = d / 'demo.py'
            if demo.exists():
                r = sh(f'PYTHONPATH={REPO} PYTHONHASHSEED=0 timeout 600 /venv/bin/python {demo}')
                meta['demo_exit_on_changed_tree'] = r.returncode
            results = meta.get('checks', {})
            for c in checks or [pid]:
                t0 = time.time()
                # the evidence file of the unchanged tree must not be replaced by a run on a changed tree
                ev = VERIF / 'evidence' / f'{c}.json'
                keep = ev.read_bytes() if ev.exists() else None
                r = sh(f'cd {VERIF} && timeout 3000 ./check {c} --tier {tier}')
                if keep is not None:
                    ev.write_bytes(keep)
                viol = [ln for ln in r.stdout.splitlines() if ln.startswith('VIOLATION')]
                summ = [ln for ln in r.stdout.splitlines() if ln.startswith(f'[{c}]')]
                kinds = []
                for ln in viol:
                    m = re.search(r'replay=(\S+)', ln)
                    if m and os.path.exists(m.group(1)):
                        try:
                            rp = json.loads(open(m.group(1)).read())
                            kinds.append(dict(kind=rp.get('kind'), signature=rp.get('signature', '')))
                        except Exception:
                            pass
                results[f'{c}:{tier}'] = dict(exit=r.returncode, detected=r.returncode == 1 and bool(viol),
                                              violations=viol[:6], replay_kinds=kinds[:6], summary=summ[-1:] if summ else [],
                                              wall_s=round(time.time() - t0, 1))
                print(nm, c, tier, 'exit', r.returncode, 'DETECTED' if results[f'{c}:{tier}']['detected'] else 'missed',
                      [k.get('signature') or k.get('kind') for k in kinds][:3], flush=True)
            meta['checks'] = results
            meta['detected'] = any(v['detected'] for v in results.values())
        finally:
            clean_repo()
            if demo.exists():
                r = sh(f'PYTHONPATH={REPO} PYTHONHASHSEED=0 timeout 600 /venv/bin/python {demo}')
                meta['demo_exit_on_unchanged_tree'] = r.returncode
        (d / 'meta.json').write_text(json.dumps(meta, indent=1))


def main():
    a = sys.argv[1:]
    if a[0] == 'import':
        do_import(a[1], a[2], int(a[3]) if len(a) > 3 else 0)
    elif a[0] == 'test':
        pid = a[1]
        tier, checks, names = 'quick', None, []
        rest = a[2:]
        while rest:
            x = rest.pop(0)
            if x == '--tier':
                tier = rest.pop(0)
            elif x == '--checks':
                checks = rest.pop(0).split(',')
            else:
                names.append(x)
        do_test(pid, names, tier, checks)


if __name__ == '__main__':
    main()
