from impl_rag import run_history


def history(case, d):
    return run_history(case, d, want_regen=False)


def rodirs(case, d):
    """the array directories are read-only for the (unprivileged) user while the files in them are
    writable: nothing new can be created there.  An iterappend fails after completed subarrays; what
    is left must be exactly those.  The append runs in a child process under uid 65534."""
    import json
    import os
    import shutil
    import subprocess
    import sys
    import tempfile
    import numpy as np
    import darr
    from impl_rag import observe, read_keys, iter_keys
    if os.geteuid() != 0:
        return dict(skipped='needs root to switch to an unprivileged user')
    base = tempfile.mkdtemp(prefix='verif_c10_ro_')
    try:
        os.chmod(base, 0o755)
        path = os.path.join(base, 'ra.darr')
        start = [np.array([1.0, 2.0]), np.array([3.0])]
        darr.asraggedarray(path, start, accessmode='r+', **({'metadata': {'a': 1}} if case.get('meta') else {}))
        for root, dirs, files in os.walk(base):
            os.chown(root, 65534, 65534)
            for f in files:
                os.chown(os.path.join(root, f), 65534, 65534)
                os.chmod(os.path.join(root, f), 0o644)
        for sub in ('', 'values', 'indices'):
            os.chmod(os.path.join(path, sub), 0o555)
        def items():
            yield np.array([4.0, 5.0])
            yield np.array([6.0])
            if case['fail'] == 'shape':
                yield np.ones((2, 2))
            elif case['fail'] == 'raise':
                raise RuntimeError('iterable fails')
        # (the interpreter itself lives under /root: the child is forked, not exec'ed)
        rfd, wfd = os.pipe()
        pid = os.fork()
        if pid == 0:
            try:
                os.close(rfd)
                os.setgid(65534)
                os.setuid(65534)
                try:
                    ra = darr.RaggedArray(path, accessmode='r+')
                    ra.iterappend(items())
                    res = ['ok']
                except Exception as e:
                    res = ['exc', type(e).__name__, str(e)[:150]]
                os.write(wfd, json.dumps(res).encode())
            finally:
                os._exit(0)
        os.close(wfd)
        data = b''
        while True:
            b = os.read(rfd, 65536)
            if not b:
                break
            data += b
        os.close(rfd)
        os.waitpid(pid, 0)
        try:
            res = json.loads(data.decode())
        except Exception:
            return dict(child_failed=repr(data)[-600:])
        for sub in ('', 'values', 'indices'):
            os.chmod(os.path.join(path, sub), 0o755)
        ref = start + [np.array([4.0, 5.0]), np.array([6.0])]
        n = len(ref)
        try:
            fresh = darr.RaggedArray(path)
        except Exception as e:
            return dict(res=res, unopenable=f'{type(e).__name__}: {e}'[:300])
        st = observe(fresh, path, ref, res, read_keys(n), iter_keys(n), want_regen=False)
        st['litter'] = sorted(f for f in os.listdir(path) if f.endswith('.tmp'))
        return st
    finally:
        shutil.rmtree(base, ignore_errors=True)
