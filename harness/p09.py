"""C09 -- a failed Array append leaves exactly the completed chunks."""
import numpy as np
import arrlib
from arrlib import nd_spec, rand_array, dtype_str, small_values, OTHER_DT
from common import NUMTYPES, ITEMSIZE
import p03

META = dict(
    coq_targets=['CheckArray.vo'],
    rule="start {empty, non-empty (zero-filled, >= 12 KB so that only the data file can hit the "
         "file-size limit)} x 1-D..3-D x number of chunks 1..n x failure position 0..n-1 x "
         "failure kind {iterable raises, wrong trailing shape, wrong rank (too high / too low), zero-length chunk of a wrong shape, unconvertible item, "
         "RLIMIT_FSIZE write failure at chunk boundary -1/0/+1 byte, mid-element, mid-row}; "
         "a case is non-trivial if the failure happens after at least one completed chunk or "
         "inside a write; distinct by (type, shape, plan)",
    trusted_base=[
        "Coq 8.16.1 kernel (coqc), vm_compute for evaluating the model on cases",
        "translator gen/py2v.py: Gen_effects.v (control skeletons of the appending functions, regenerated "
        "from the source on every run) and the reading of its vocabulary calls as effect kinds "
        "(EffectOrder.v / EffectOrderR.v, Skel.runs)",
        "hand-written model coq/ArrayModel.v (iterappend incl. its except-branch and the "
        "first-chunk path of empty arrays), tied by in-Coq differential evaluation",
        "the kernel's RLIMIT_FSIZE behaviour (partial write, then EFBIG) as the source of "
        "real write failures; NumPy casting as oracle",
    ],
    assumptions=["a write failure leaves a prefix of the chunk's bytes in the file (any length k)"],
)

BIG = 12288      # bytes of zero-filled start data: larger than README.txt / descriptor


def bad_item(kind, rng, nt, bo, tail):
    own = dtype_str(nt, bo)
    t = tuple(tail)
    if kind == 'raise':
        return dict(kind='raise')
    if kind == 'shape':
        bad = (2,) + tuple(x + 1 for x in t) if t else (2, 3)
        return nd_spec(small_values(rng, bad, own))
    if kind == 'rank':
        return nd_spec(small_values(rng, (2,) + t + (2,), own))
    if kind == 'lowrank':    # ONE row without the leading axis (rank one too low): not a chunk of rows
        if not t:
            return dict(kind='obj')
        return nd_spec(small_values(rng, t, own))
    if kind == 'shape0':     # no elements, but a shape that does not fit: still refused
        if t:
            c = rng.choice(['list', 'rank', 'dim', 'mid'])
            if c == 'list':
                return dict(kind='list', value=[])
            bad = {'rank': (0,) + t + (2,), 'dim': (0,) + tuple(x + 1 for x in t), 'mid': (2,) + tuple(0 for _ in t)}[c]
        else:
            bad = (0, 2)
        return nd_spec(np.zeros(bad, dtype=own))
    if kind == 'unconv':
        k = rng.choice(['obj', 'str', 'ragged', 'numlist', 'numlist'] + (['none'] if __import__('numpy').dtype(nt).kind in 'iu' else []))
        if k == 'numlist':
            # a LIST holding a number NumPy refuses to convert to the array's type
            import numpy as _np
            dk = _np.dtype(nt).kind
            if dk in 'iu':
                v = rng.choice([float('nan'), float('inf'), 2 ** 70, -(2 ** 70)] + ([-1] if dk == 'u' else []))
            elif dk == 'f':
                v = 1 + 2j
            else:
                return dict(kind='str')
            row = v
            for _ in t:
                row = [row]
            def shaped(val, dims):
                return val if not dims else [shaped(val, dims[1:]) for _ in range(dims[0])]
            return dict(kind='pylist', value=repr([shaped(v, list(t))]))
        return dict(kind=k)
    raise ValueError(kind)


def gen(ctx):
    r = ctx.rng
    cases = []
    shapes = [(), (2,), (2, 3)] if not ctx.quick else [(), (2,), (1, 3)]
    maxchunks = 3 if ctx.quick else 5
    for ti, nt in enumerate(NUMTYPES):
        bo = ('little', 'big')[ti % 2]
        isz = ITEMSIZE[nt]
        for tail in shapes:
            rb = int(np.prod(tail, dtype=int)) * isz if tail else isz
            nrows = -(-BIG // rb)
            for start_empty in (False, True):
                for nchunks in range(1, maxchunks + 1):
                    if ctx.quick and (ti + nchunks + len(tail)) % 2:
                        continue
                    for pos in range(nchunks):
                        kinds = ['raise', 'shape', 'rank', 'unconv', 'shape0', 'lowrank', 'w']
                        if ctx.quick:
                            kinds = [kinds[(ti + pos + nchunks) % 5], ('shape0', 'lowrank')[pos % 2], 'w'] if (ti + pos) % 2 else [kinds[(ti + pos + nchunks) % 5], 'w']
                        for kind in kinds:
                            items = []
                            for i in range(nchunks):
                                if start_empty and i == 0:
                                    # big first chunk so that later limits exceed README size
                                    items.append(nd_spec(np.zeros((nrows,) + tail, dtype=dtype_str(nt, bo))))
                                else:
                                    items.append(nd_spec(rand_array(r, nt, bo, (r.randint(1, 3),) + tail),
                                                         r.choice(['C', 'strided', 'neg'])))
                            op = dict(op='iterappend', items=items)
                            if kind == 'w':
                                n_i = items[pos]['shape'][0]
                                tot = n_i * rb
                                ks = sorted({0, 1, tot - 1, max(0, tot - rb + isz // 2 if isz > 1 else tot - 1),
                                             rb // 2 if rb > 1 else 0, rb, isz})
                                ks = [k for k in ks if 0 <= k < tot]
                                if start_empty and pos == 0:
                                    ks = [0, 1, tot - 1, tot // 2]
                                k = r.choice(ks) if ctx.quick else None
                                for kk in ([k] if ctx.quick else ks):
                                    op2 = dict(op, fsize=dict(chunk=pos, k=kk))
                                    cases.append(mk_case(r, nt, bo, tail, nrows, start_empty, op2, kind, pos))
                            else:
                                if start_empty and pos == 0:
                                    items[0] = bad_item(kind, r, nt, bo, tail)
                                else:
                                    items[pos] = bad_item(kind, r, nt, bo, tail)
                                cases.append(mk_case(r, nt, bo, tail, nrows, start_empty, op, kind, pos))
            # an EMPTY array whose FIRST chunk is small (numpy's stdio buffer hides a refused write) and is
            # cut by the file system inside it: the description still says length 0
            for k_of in (lambda tot: 1, lambda tot: tot - 1, lambda tot: tot // 2):
                items = [nd_spec(rand_array(r, nt, bo, (r.randint(2, 3),) + tail))]
                if r.random() < 0.5:
                    items.append(nd_spec(rand_array(r, nt, bo, (1,) + tail)))
                tot = items[0]['shape'][0] * rb
                kk = max(0, min(tot - 1, k_of(tot)))
                op2 = dict(op='iterappend', items=items, fsize=dict(chunk=0, k=kk))
                cases.append(mk_case(r, nt, bo, tail, nrows, True, op2, 'w', 0))
                if ctx.quick:
                    break
    # a chunk larger than the I/O buffers (> 8 KB) whose size is not a multiple of the 4 KB block: the
    # file system refuses the write inside the last, partial block (stdio buffers that tail)
    for ti, nt in enumerate(NUMTYPES):
        bo = ('little', 'big')[ti % 2]
        isz = ITEMSIZE[nt]
        for tail in ([(), (3,)] if not ctx.quick else [((), (3,))[ti % 2]]):
            rb = int(np.prod(tail, dtype=int)) * isz if tail else isz
            nrows = -(-BIG // rb)
            big_rows = (3 * 4096) // rb + 5
            tot = big_rows * rb
            lastblock = (tot // 4096) * 4096
            ks = sorted({tot - 1, lastblock + (tot - lastblock) // 2, lastblock, lastblock + 1, lastblock - 1, 8192, 4097})
            ks = [k for k in ks if 0 <= k < tot]
            for start_empty in ((False, True) if not ctx.quick else [bool(ti % 3 == 0)]):
                for kk in ([r.choice([k for k in ks if k >= lastblock])] if ctx.quick else r.sample(ks, 3)):
                    items = [nd_spec(rand_array(r, nt, bo, (big_rows,) + tail))]
                    pos = 0
                    if r.random() < 0.5:
                        items.insert(0, nd_spec(rand_array(r, nt, bo, (big_rows if start_empty else 1,) + tail))); pos = 1
                    op2 = dict(op='iterappend', items=items, fsize=dict(chunk=pos, k=kk))
                    cases.append(mk_case(r, nt, bo, tail, nrows, start_empty, op2, 'w', pos))
    # an EMPTY array whose first chunk has no rows (it goes through the first-chunk path all the same),
    # then good chunks, then a failing one; and a first chunk that is None
    for ti, nt in enumerate(NUMTYPES):
        bo = ('little', 'big')[ti % 2]
        tail = [(), (2,), (1, 3)][ti % 3]
        for kind in ('shape', 'raise', 'unconv'):
            if ctx.quick and (ti + len(kind)) % 2:
                continue
            items = [nd_spec(np.zeros((0,) + tail, dtype=dtype_str(nt, bo))), nd_spec(rand_array(r, nt, bo, (2,) + tail)),
                     bad_item(kind, r, nt, bo, tail), nd_spec(rand_array(r, nt, bo, (1,) + tail))]
            cases.append(mk_case(r, nt, bo, tail, 1, True, dict(op='iterappend', items=items), kind, 2))
        if np.dtype(nt).kind in 'iu':      # (for float types NumPy reads None as nan: not a failure)
            items = [dict(kind='none'), nd_spec(rand_array(r, nt, bo, (1,) + tail))]
            cases.append(mk_case(r, nt, bo, tail, 1, True, dict(op='iterappend', items=items), 'unconv', 0))
    # every third failing append happens with the array held open in an open_array() context
    for i, c in enumerate(cases):
        if i % 3 == 2:
            c['heldopen'] = True
            if i % 2 == 0 and 'fsize' not in c['ops'][0]:
                # ... and a valid append follows the failed one inside the same context
                t = tuple(c['shape'][1:])
                good = dict(op='append', items=[nd_spec(rand_array(r, c['nt'], c['bo'], (2,) + t))])
                c['ops'] = [c['ops'][0], good] + c['ops'][1:]
                c['letters'] = [c['letters'][0], 'a1'] + c['letters'][1:]
    return cases


def mk_case(r, nt, bo, tail, nrows, start_empty, op, kind, pos):
    shape = [0 if start_empty else nrows] + list(tail)
    a = np.zeros(shape, dtype=dtype_str(nt, bo))
    c = dict(dtype=a.dtype.str, shape=shape, init=a.tobytes().hex(), mode='r+', metadata=None,
             layout='C', nt=nt, bo=bo, ops=[op, dict(op='reopen', mode='r+')],
             letters=['iterappend:%s@%d' % (kind, pos), 'ro'], kind=kind, pos=pos,
             start_empty=start_empty)
    return c


def run(ctx):
    # a darr Array larger than the library's internal chunk size appended as ONE object, growth refused
    # inside its second internal piece / its last block
    M = 80 * 1024 ** 2
    big = [dict(rows=11, k=M + 3 * 4096 + 5)] + \
          ([] if ctx.quick else [dict(rows=11, k=M), dict(rows=21, k=2 * M + 1), dict(rows=12, k=M + 8 * 1024 ** 2 + 4097)])
    for case, ob in zip(big, ctx.run_impl(big, 'bigdarr', shards=len(big), timeout=1200)):
        key = dict(form='append of a darr Array of %d x 8 MiB, growth refused after %d bytes' % (case['rows'], case['k']))
        ctx.seen(key); ctx.count('bigdarr')
        if not isinstance(ob, dict) or 'res' not in ob:
            ctx.fail('harness-error', key, observed=ob); continue
        want = dict(res='raises', after=ob['before'], fresh=[ob['before'][0], 3, 3])
        if ob['res'] == 'ok' or ob['after'] != ob['before'] or ob['fresh'] != want['fresh']:
            ctx.fail('failed-append:bigdarr', key, expected=want, observed=ob)
    cases = gen(ctx)
    obs = ctx.run_impl(cases, 'history', timeout=2400)
    terms, keep = [], []
    for case, steps in zip(cases, obs):
        op = case['ops'][0]
        key = dict(nt=case['nt'], shape=case['shape'], kind=case['kind'], pos=case['pos'],
                   n=len(op['items']), k=(op.get('fsize') or {}).get('k'))
        if isinstance(steps, dict):
            ctx.fail('harness-error', key, observed=steps)
            continue
        st = steps[1]
        ctx.seen(key, nontrivial=(case['pos'] > 0 or case['kind'] == 'w'))
        ctx.count('kind:' + case['kind']); ctx.count('pos:%d' % case['pos'])
        ctx.count('start:' + ('empty' if case['start_empty'] else 'nonempty'))
        why = None
        if st['res'][0] == 'ok':
            why = 'the call did not raise'
        else:
            why = arrlib.check_c03(st, None) or arrlib.check_c02(st)
        if not why:
            # what follows the failed call (a valid append inside the same context, the reopen)
            for j, s2 in enumerate(steps[2:], start=2):
                if case['ops'][j - 1]['op'] == 'append' and s2['res'][0] != 'ok':
                    why = 'a valid append after the failed one raised %s' % s2['res'][1]
                why = why or arrlib.check_c03(s2, None) or arrlib.check_c02(s2)
                if why:
                    break
        if why:
            ctx.fail('failed-append:' + case['kind'], dict(case=dict(case, init='<zeros>'), step=1),
                     detail=why, expected=dict(shape=st['ref']['shape']),
                     observed=dict(res=st['res'], live=st['live'].get('shape', st['live']),
                                   fresh=st['fresh'].get('shape', st['fresh']),
                                   datalen=len(st['files']['data'] or '') // 2))
        ctx.traces += len(steps)
        terms.append(arrlib.history_term(case, steps))
        keep.append((case, steps))
    if keep:
        c, s = keep[len(keep) // 3]
        ctx.sample(dict(type=c['nt'], shape=c['shape'], failure=c['kind'], position=c['pos'],
                        fsize=c['ops'][0].get('fsize'), chunks=[i.get('shape', i['kind']) for i in c['ops'][0]['items']],
                        result=s[1]['res'][:2], shape_after=s[1]['fresh'].get('shape')))
    bad = ctx.coq_check('c09', arrlib.PRELUDE, terms, shard=40)
    if bad is None:
        ctx.model_ok = False
        return
    for i in bad[:5]:
        case, steps = keep[i]
        p03.report_mismatch(ctx, 'c09dbg%d' % i, case, steps)
