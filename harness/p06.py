"""C06 -- generated read code for Arrays denotes the stored array in every language."""
import itertools
from common import cz, czl, cbool, NUMTYPES, NT_COQ

META = dict(
    coq_targets=['CheckReadcode.vo'],
    rule="the complete structure space of generated programs: 13 numeric types x 2 byte orders x "
         "rank 1..4 (pairwise distinct extents, fresh random each run, length-1 axes included) x 12 "
         "languages x 3 path modes (relative, basepath, absolute); every offered program is also run "
         "(Python family) or interpreted by the strict per-language interpreter (harness/langs.py) on an "
         "array of distinct random values; plus empty arrays for the read-only clause; non-trivial = "
         "code is offered for the (language, type, rank); distinct by (language, type, byte order, "
         "shape, path mode)",
    trusted_base=[
        "Coq 8.16.1 kernel (coqc), vm_compute for evaluating the model on cases",
        "translator gen/py2v.py: the ten typedescr_* tables, readfunc_scilab, the nine endianness_* tables, "
        "readcodefunc and both documented compatibility tables of docs/readcode.rst are REGENERATED into "
        "Gen_tables.v on every run; the theorems are about the generated tables",
        "hand-written model coq/Readcode.v: token selection, the printer (tied to Array.readcode by string "
        "equality over the whole structure space, evaluated in Coq) and the denotation",
        "the documented meaning of each target-language construct as encoded in Readcode.sem_table / "
        "sem_endian / denote (DESIGN.md Appendix A); cross-checked only against the independent "
        "interpreters of harness/langs.py -- no R, Matlab, Scilab, Julia, IDL, Mathematica or Maple "
        "exists in the sandbox",
        "harness/p06.py, impl_C06.py (case generation, execution of Python-family snippets, directory snapshots)",
    ],
    assumptions=["Julia's map(ltoh/ntoh, .) on Complex arrays is read as acting per component (Appendix A)"],
)

PRELUDE = ("From Coq Require Import ZArith List Bool String.\n"
           "From Darr Require Import Base Readcode CheckReadcode.\n"
           "Import ListNotations.\nOpen Scope Z_scope.\nOpen Scope string_scope.\n")

LANGS = ['R', 'darr', 'idl', 'julia_ver0', 'julia_ver1', 'maple', 'mathematica', 'matlab', 'numpy',
         'numpymemmap', 'python', 'scilab']


def coqstr(s):
    assert all(32 <= ord(c) != 127 or c == '\n' for c in s), repr(s)      # (non-ASCII text: its UTF-8 bytes on both sides)
    return '"' + s.replace('"', '""') + '"'


def ostr(s):
    return 'None' if s is None else f'(Some {coqstr(s)})'


def shapes(rng, rank):
    """pairwise distinct extents; one variant with a length-1 axis"""
    pool = [2, 3, 4, 5, 6, 7]
    rng.shuffle(pool)
    base = pool[:rank]
    out = [base]
    if rank > 1:
        withone = list(base)
        withone[rng.randrange(rank)] = 1
        out.append(withone)
    else:
        out.append([1])
    return out


def gen(ctx):
    r = ctx.rng
    cases = []
    for nt in NUMTYPES:
        for bo in ('<', '>'):
            for rank in (1, 2, 3, 4):
                shs = shapes(r, rank)
                if ctx.quick:
                    shs = shs[:1] if r.random() < 0.7 else shs[1:]
                for sh in shs:
                    cases.append(dict(dtype=bo + {'int8': 'i1', 'int16': 'i2', 'int32': 'i4', 'int64': 'i8',
                                                  'uint8': 'u1', 'uint16': 'u2', 'uint32': 'u4', 'uint64': 'u8',
                                                  'float16': 'f2', 'float32': 'f4', 'float64': 'f8',
                                                  'complex64': 'c8', 'complex128': 'c16'}[nt],
                                      shape=sh, seed=r.randrange(10 ** 9)))
    empties = [dict(dtype=d, shape=s) for d, s in
               (('float64', [0]), ('int32', [0, 3]), ('>c8', [0]), ('uint8', [0, 2, 2]), ('float16', [0]))]
    return cases, empties


def run(ctx):
    cases, empties = gen(ctx)
    # all arrays of one numeric type go through ONE child process, in rank order (state carried
    # from one array to the next of the same type would show): 13 shards, one per type
    groups = {}
    for c in cases:
        groups.setdefault(c['dtype'][1:], []).append(c)
    glist = list(groups.values())
    width = max(len(g) for g in glist)
    order = []
    for j in range(width):
        for g in glist:
            order.append(g[j] if j < len(g) else g[-1])
    cases = order
    obs = ctx.run_impl(cases, 'readcode', shards=len(glist))
    terms, keep = [], []
    for case, ob in zip(cases, obs):
        key0 = dict(dtype=case['dtype'], shape=case['shape'])
        if 'harness_error' in ob:
            ctx.fail('harness-error', key0, observed=ob); continue
        nt, bo = NT_COQ[ob['numtype']], ('Little' if ob['byteorder'] == 'little' else 'Big')
        if ob['all_languages'] != sorted(LANGS):
            ctx.fail('language-set-changed', key0, expected=sorted(LANGS), observed=ob['all_languages'])
        for lang in ob['all_languages']:
            for mode in ('rel', 'base', 'abs', 'both'):
                key = dict(key0, language=lang, path=mode)
                code = ob['codes'][lang][mode]
                ctx.seen(key, nontrivial=code is not None)
                ctx.count(f'{lang}:{"offered" if code is not None else "withheld"}')
                pm = dict(rel='PRel', base=f'(PBase {coqstr(ob["basepath"])})', abs=f'(PAbs {coqstr(ob["absdir"])})',
                          both=f'(PAbs {coqstr(ob["absdir"])})')[mode]
                terms.append(f'chk_rc {coqstr(lang)} {nt} {czl(ob["shape"])} {bo} {pm} {ostr(code)}')
                keep.append((key, code))
        terms.append(f'chk_langs {nt} {czl(ob["shape"])} {bo} [' + '; '.join(coqstr(x) for x in ob['languages']) + ']')
        keep.append((dict(key0, what='readcodelanguages'), ob['languages']))
        ctx.traces += 1
        ctx.evaluations += ob['oracle_ran']
        for f in ob['oracle_fails']:
            ctx.fail(f"{f['kind']}:{f['lang']}", dict(key0, language=f['lang'], path=f['mode'], values_seed=case['seed']),
                     expected='well-formed program yielding the stored values (axes reversed for column-major '
                              'languages) that changes no file',
                     observed=dict(detail=f['detail'], code=f.get('code')))
    eobs = ctx.run_impl(empties, 'empty_readonly')
    for case, ob in zip(empties, eobs):
        key = dict(kind='empty array', dtype=case['dtype'], shape=case['shape'])
        if 'harness_error' in ob:
            ctx.fail('harness-error', key, observed=ob); continue
        ctx.seen(key)
        ctx.count('empty-array')
        for rr in ob['results']:
            ctx.evaluations += 1
            if not rr['unchanged']:
                ctx.fail(f"empty-array-changed-by:{rr['lang']}", key, expected='no file of the array changes',
                         observed=dict(code=rr['code'], ran=rr['ran']))
            elif rr['ran'].startswith('not-well-formed'):
                ctx.fail(f"not-well-formed:{rr['lang']}", key, observed=rr)
        if ob['reopen'] != 'ok':
            ctx.fail('empty-array-unopenable-after-running-code', key, observed=ob['reopen'])
    # a stale handle after the directory was re-created; a directory without README.txt
    extra = [dict(first=['float64', [6]], second=['uint16', [2, 3]]), dict(first=['uint16', [2, 3]], second=['float64', [6]]),
             dict(first=['int32', [6]], second=['complex64', [6]]), dict(first=['>f4', [3, 2]], second=['int64', [6]])]
    for case, ob in zip(extra, ctx.run_impl(extra, 'stale_and_tidy')):
        key = dict(kind='re-created / tidied directory', first=case['first'], second=case['second'])
        if 'harness_error' in ob:
            ctx.fail('harness-error', key, observed=ob); continue
        ctx.seen(key); ctx.count('stale-and-tidy')
        ctx.evaluations += 2 + len(ob['tidy'])
        for who in ('stale', 'fresh'):
            if 'error' in ob[who] or ob[who]['listed'] != ob[who]['offered']:
                ctx.fail(f'readcodelanguages-differs-from-offered:{who}-handle', key,
                         expected='readcodelanguages lists exactly the languages readcode() gives code for',
                         observed=ob[who])
        for t in ob['tidy']:
            if t['kind'] or not t['unchanged']:
                ctx.fail(f"tidied-directory:{t['lang']}", key, expected='the code runs and changes no file', observed=t)
    if keep:
        for j in (7, len(keep) // 2, -2):
            ctx.sample(dict(case=keep[j][0], text=keep[j][1]))
    bad = ctx.coq_check('c06', PRELUDE, terms, shard=250)
    if bad is None:
        ctx.model_ok = False
        return
    for i in bad[:6]:
        key, code = keep[i]
        show = terms[i]
        if show.startswith('chk_rc'):
            show = 'readcode_array ' + show[len('chk_rc '):].rsplit(' (Some ', 1)[0].rsplit(' None', 1)[0] + ' "a" false'
        else:
            show = 'readcodelanguages ' + show[len('chk_langs '):].rsplit(' [', 1)[0]
        ctx.mismatch('Readcode.readcode_array / readcodelanguages vs Array.readcode / Array.readcodelanguages',
                     key, code, model_obs=ctx.coq_show('c06dbg%d' % i, PRELUDE, show)[:1500])
