"""C06 implementation side: create an array of distinct random values, collect the text of
Array.readcode for every language and path mode, run / interpret every offered program
against the array directory and compare with the stored values."""
import os
import sys
import numpy as np
import darr
from darr.readcodearray import readcodefunc
from implutil import snapshot, dtype_info
import langs

MODES = ('rel', 'base', 'abs', 'both')      # both: abspath=True AND a basepath (abspath wins)


def distinct_values(dtype, n, rng):
    dt = np.dtype(dtype)
    k = dt.kind
    if k in 'iu':
        info = np.iinfo(dt)
        span = int(info.max) - int(info.min) + 1
        if span <= 4 * n:
            vals = np.array([int(info.min) + (i * 7 + 3) % span for i in range(n)], dtype='O')
        else:
            picked = set()
            while len(picked) < n:
                picked.add(rng.randrange(int(info.min), int(info.max) + 1))
            vals = np.array(sorted(picked, key=lambda _: rng.random()), dtype='O')
        if n:
            vals[rng.randrange(n)] = int(info.max)
            if n > 1:
                i = rng.randrange(n)
                vals[i] = int(info.min) + (1 if dt.name == 'int32' or dt.name == 'int64' else 0)
        return vals.astype(dt.newbyteorder('='))
    if k == 'f':
        base = np.array([(i + 1) * (1.0 + 1.0 / 64) * (-1) ** i for i in range(n)], dtype='f8')
        if dt.itemsize > 2:
            base = base + np.array([rng.random() for _ in range(n)])
        return base.astype(dt.newbyteorder('='))
    if k == 'c':
        f = 'f4' if dt.itemsize == 8 else 'f8'
        re_ = np.array([(i + 1) + rng.random() for i in range(n)], dtype=f)
        im_ = np.array([-(i + 1) * 3 - rng.random() for i in range(n)], dtype=f)
        return (re_ + 1j * im_).astype(dt.newbyteorder('='))
    raise ValueError(dtype)


def same(res, expected):
    """res: ndarray in the language's axes, native byte order; expected: ndarray (any byte order)"""
    exp = expected.astype(expected.dtype.newbyteorder('='))
    if tuple(res.shape) != tuple(exp.shape):
        return 'wrong-dims', f'{tuple(res.shape)} for {tuple(exp.shape)}'
    if res.dtype != exp.dtype:
        return 'wrong-type', f'{res.dtype} for {exp.dtype}'
    if np.ascontiguousarray(res).tobytes() != np.ascontiguousarray(exp).tobytes():
        return 'wrong-values', 'element bit patterns differ'
    return None, None


def run_python_family(lang, code, cwd, datadir, stored):
    """execute the snippet for real in `cwd`; returns (kind, detail) or (None, None)"""
    old = os.getcwd()
    src = code.replace("'path_to_data_dir'", repr(datadir)) if lang == 'darr' else code
    ns = {}
    try:
        os.chdir(cwd)
        try:
            exec(compile(src, f'<readcode {lang}>', 'exec'), ns)
        except SyntaxError as e:
            return 'not-well-formed', str(e)[:200]
        except Exception as e:
            return 'run-error', f'{type(e).__name__}: {e}'[:200]
    finally:
        os.chdir(old)
    if 'a' not in ns:
        return 'run-error', 'variable a not bound'
    a = ns['a']
    if lang == 'python':
        import array as _array
        if not isinstance(a, _array.array):
            return 'wrong-type', type(a).__name__
        flat = stored.reshape(-1)
        if stored.dtype.kind == 'c':
            exp = flat.view(flat.real.dtype.newbyteorder(stored.dtype.byteorder))
            okre = list(ns.get('real', [])) == [float(x) for x in flat.real]
            okim = list(ns.get('imag', [])) == [float(x) for x in flat.imag]
            if not (okre and okim):
                return 'wrong-values', 'real / imag arrays differ'
            return None, None
        want = [x.item() for x in flat]
        if list(a) != want or (a.typecode in 'fd') != (stored.dtype.kind == 'f'):
            return 'wrong-values', 'array.array differs'
        return None, None
    if lang == 'darr':
        try:
            v = a[:]
            if a.accessmode != 'r':
                return 'changed-files', 'darr snippet opens the array writable'
        except Exception as e:
            return 'run-error', f'{type(e).__name__}: {e}'[:200]
    else:
        v = np.asarray(a)
        if isinstance(a, np.memmap) and a.flags.writeable and a.mode != 'c':
            return 'changed-files', f'memmap opened with mode {a.mode!r}'
    if v.dtype != stored.dtype:
        return 'wrong-type', f'{v.dtype} for {stored.dtype}'
    r = same(v.astype(v.dtype.newbyteorder('=')), stored)
    del a, v, ns
    return r


def evaluate(lang, code, cwd, datadir, stored):
    if lang in ('python', 'numpy', 'numpymemmap', 'darr'):
        return run_python_family(lang, code, cwd, datadir, stored)
    try:
        it = langs.interpret(lang, code, cwd)
    except langs.NotWellFormed as e:
        return 'not-well-formed', str(e)[:300]
    except langs.RunError as e:
        return 'run-error', str(e)[:300]
    if 'a' not in it.env:
        return 'run-error', 'variable a not bound'
    if any(f.get('open') for f in it.files.values()):
        return 'not-well-formed', 'file left open'
    exp = stored.transpose() if lang in langs.COLMAJOR else stored
    return same(it.env['a'], exp)


def readcode(case, d):
    """case: {dtype, shape, seed}"""
    home = os.path.dirname(os.path.abspath(__file__))
    try:
        return _readcode(case, d)
    finally:
        os.chdir(home)          # never stay inside a case directory that is about to be removed


def _readcode(case, d):
    import random
    rng = random.Random(case['seed'])
    sub = os.path.join(d, 'sub')
    os.mkdir(sub)
    path = os.path.join(sub, 'arr.darr')
    shape = tuple(case['shape'])
    n = int(np.prod(shape))
    dt = np.dtype(case['dtype'])
    stored = distinct_values(dt, n, rng).astype(dt).reshape(shape)
    a = darr.asarray(path, stored, accessmode='r+')
    basepath = 'sub/arr.darr'
    if case['seed'] % 3 == 0:
        # a handle opened through a RELATIVE path (abspath=True must still give the absolute file)
        del a
        os.chdir(d)
        a = darr.Array(os.path.join('sub', 'arr.darr'), accessmode='r+')
    elif case['seed'] % 3 == 1:
        # ... or through a symbolic link followed by '..' (resolving is not the same as normalising)
        del a
        os.makedirs(os.path.join(sub, 'deep', 'er'))
        os.symlink(os.path.join(sub, 'deep', 'er'), os.path.join(d, 'cur'))
        os.rename(path, os.path.join(sub, 'deep', 'arr.darr'))
        path = os.path.join(sub, 'deep', 'arr.darr')
        os.makedirs(os.path.join(d, 'arr.darr'))         # what a lexical normalisation would point at
        a = darr.Array(os.path.join(d, 'cur', '..', 'arr.darr'), accessmode='r+')
        basepath = 'cur/../arr.darr'                     # a base path through the link: to be used as it is
    else:
        # ... or a base path with non-ASCII characters in it
        os.symlink(sub, os.path.join(d, 'mesures_donn\u00e9es'))
        basepath = 'mesures_donn\u00e9es/arr.darr'
    nt, bo = dtype_info(a.dtype)
    out = dict(numtype=nt, byteorder=bo, shape=list(a.shape), absdir=os.path.realpath(path), basepath=basepath,
               languages=list(a.readcodelanguages), all_languages=sorted(readcodefunc.keys()))
    codes = {}
    for lang in sorted(readcodefunc.keys()):
        codes[lang] = {}
        for mode in MODES:
            kw = dict(rel={}, base=dict(basepath=basepath), abs=dict(abspath=True),
                      both=dict(abspath=True, basepath='zzz'))[mode]
            try:
                codes[lang][mode] = a.readcode(lang, **kw)
            except Exception as e:
                codes[lang][mode] = f'!!raised {type(e).__name__}: {e}'
    out['codes'] = codes
    # oracle: run every offered program
    before = snapshot(path)
    fails, ran = [], 0
    if case.get('oracle', True):
        for lang in out['languages']:
            for mode in MODES:
                code = codes[lang][mode]
                if code is None or code.startswith('!!raised'):
                    fails.append(dict(lang=lang, mode=mode, kind='listed-but-withheld', detail=str(code)[:200]))
                    continue
                cwd = dict(rel=path, base=d, abs='/', both='/')[mode]     # absolute paths must work from anywhere
                kind, detail = evaluate(lang, code, cwd, path, stored)
                ran += 1
                if kind:
                    fails.append(dict(lang=lang, mode=mode, kind=kind, detail=detail, code=code))
        for lang in set(codes) - set(out['languages']):
            if any(c is not None for c in codes[lang].values()):
                fails.append(dict(lang=lang, mode='rel', kind='offered-but-not-listed', detail=''))
    if snapshot(path) != before:
        fails.append(dict(lang='*', mode='*', kind='changed-files', detail='array directory changed by running the code'))
    # the length changes through ANOTHER handle (truncate_array by path opens its own): the code this
    # handle gives must be the code for the array as it is now
    if case.get('oracle', True) and shape[0] > 1:
        try:
            darr.truncate_array(path, shape[0] - 1)
            fresh = darr.Array(path)
            for lang in out['languages']:
                c1, c2 = a.readcode(lang), fresh.readcode(lang)
                ran += 1
                if c1 != c2:
                    fails.append(dict(lang=lang, mode='rel', kind='stale-code-after-change-through-another-handle',
                                      detail='differs from the code a fresh handle gives', code=c1))
            for lang in ('numpymemmap', 'python', 'R', 'matlab'):
                if lang in out['languages']:
                    kind, detail = evaluate(lang, a.readcode(lang), path, path, stored[:shape[0] - 1])
                    ran += 1
                    if kind:
                        fails.append(dict(lang=lang, mode='rel', kind=kind + '-after-truncate', detail=detail))
        except Exception as e:
            fails.append(dict(lang='*', mode='*', kind='run-error', detail=f'after truncate by path: {type(e).__name__}: {e}'[:200]))
    out['oracle_ran'] = ran
    out['oracle_fails'] = fails
    return out


def empty_readonly(case, d):
    """running the Python-family code on an EMPTY array must not change any file"""
    path = os.path.join(d, 'e.darr')
    shape = tuple(case['shape'])
    a = darr.create_array(path, shape=shape, dtype=case['dtype'], accessmode='r+')
    before = snapshot(path)
    res = []
    for lang in a.readcodelanguages:
        code = a.readcode(lang)
        if lang in ('python', 'numpy', 'numpymemmap', 'darr'):
            old = os.getcwd()
            try:
                os.chdir(path)
                src = code.replace("'path_to_data_dir'", repr(path)) if lang == 'darr' else code
                try:
                    ns = {}
                    exec(compile(src, f'<readcode {lang}>', 'exec'), ns)
                    r = 'ok'
                    ns.clear()
                except Exception as e:
                    r = f'raised {type(e).__name__}'
            finally:
                os.chdir(old)
        else:
            try:
                langs.interpret(lang, code, path)
                r = 'ok'
            except langs.NotWellFormed as e:
                r = f'not-well-formed: {e}'[:200]
            except langs.RunError as e:
                r = f'run-error: {e}'[:200]
        after = snapshot(path)
        res.append(dict(lang=lang, ran=r, unchanged=after == before, code=code))
        if after != before:
            break
    reopen = 'ok'
    try:
        b = darr.Array(path)
        if tuple(b.shape) != shape:
            reopen = f'shape {b.shape}'
    except Exception as e:
        reopen = f'raised {type(e).__name__}: {e}'[:200]
    return dict(results=res, reopen=reopen)


def stale_and_tidy(case, d):
    """(i) a handle whose directory is re-created with another type / rank (overwrite=True): on THAT handle
    readcodelanguages must still list exactly the languages readcode() gives code for;
    (ii) a tidied-up directory (README.txt removed by the user): running the Python-family code changes
    no file."""
    path = os.path.join(d, 'x.darr')
    first = np.arange(6, dtype=case['first'][0]).reshape(case['first'][1])
    second = np.arange(6, dtype=case['second'][0]).reshape(case['second'][1])
    a = darr.asarray(path, first, accessmode='r+')
    out = dict(before=list(a.readcodelanguages))
    darr.asarray(path, second, overwrite=True)
    try:
        listed = list(a.readcodelanguages)
        offered = [l for l in sorted(readcodefunc.keys()) if a.readcode(l) is not None]
        out['stale'] = dict(listed=sorted(listed), offered=sorted(offered))
    except Exception as e:
        out['stale'] = dict(error=f'{type(e).__name__}: {e}'[:200])
    fresh = darr.Array(path)
    out['fresh'] = dict(listed=sorted(fresh.readcodelanguages),
                        offered=sorted(l for l in readcodefunc.keys() if fresh.readcode(l) is not None))
    codes = {l: fresh.readcode(l) for l in ('darr', 'numpy', 'numpymemmap') if l in fresh.readcodelanguages}
    del a, fresh
    os.remove(os.path.join(path, 'README.txt'))
    before = snapshot(path)
    tidy = []
    for lang, code in codes.items():
        kind, detail = run_python_family(lang, code, path, path, second)
        tidy.append(dict(lang=lang, kind=kind, detail=detail, unchanged=snapshot(path) == before))
    out['tidy'] = tidy
    return out
