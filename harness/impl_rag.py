"""Implementation-side executor for RaggedArray histories (child process)."""
import json
import os
import resource
import signal
import numpy as np
import darr
from implutil import dtype_info
from impl_arr import build_value, read_files, rows_of, Boom, call


def item_image(spec, refdtype):
    """np.asarray(item, dtype) as the ragged append sees it (NumPy only)."""
    if spec['kind'] == 'raise':
        return {'raise': True}
    try:
        v = build_value(spec)
        n = len(v)
        img = np.asarray(v, dtype=refdtype)
    except Exception:
        return {'unconv': True}
    if img.ndim == 0:
        return {'unconv': True}
    return {'tail': list(img.shape[1:]), 'rows': rows_of(img), 'n': int(img.shape[0]), '_img': img}


def top_files(path):
    out = {}
    p = os.path.join(path, 'arraydescription.json')
    if os.path.exists(p):
        try:
            out['descr'] = json.load(open(p))
        except Exception:
            out['descr'] = 'torn'
    else:
        out['descr'] = None
    p = os.path.join(path, 'README.txt')
    out['readme'] = open(p, encoding='utf-8').read() if os.path.exists(p) else None
    p = os.path.join(path, 'metadata.json')
    if os.path.exists(p):
        try:
            out['meta'] = json.load(open(p))
        except Exception:
            out['meta'] = 'torn'
    else:
        out['meta'] = None
    out['listing'] = sorted(os.listdir(path)) if os.path.isdir(path) else None
    return out


def hview(a):
    return dict(dtype=dtype_info(a.dtype), shape=list(a.shape), mode=a.accessmode)


def rview(ra, ks, iters):
    v = dict(len=len(ra), narrays=ra.narrays, atom=list(ra.atom), dtype=dtype_info(ra.dtype),
             size=ra.size, mode=ra.accessmode, vh=hview(ra._values), ih=hview(ra._indices),
             info=dict(len=int(ra._arrayinfo['len']), size=int(ra._arrayinfo['size']),
                       atom=list(ra._arrayinfo['atom']), numtype=ra._arrayinfo['numtype']))
    reads = []
    for k in ks:
        if k == 'f':
            kk = 1.5
        elif k == 's':
            kk = slice(0, 1)
        elif k == 'np':
            kk = np.int64(0)
        else:
            kk = k
        try:
            x = ra[kk]
            reads.append(['ok', np.ascontiguousarray(x).tobytes().hex(), list(x.shape),
                          dtype_info(x.dtype)])
        except Exception as e:
            reads.append(['exc', type(e).__name__])
    v['reads'] = reads
    its = []
    for (a, b, c) in iters:
        try:
            its.append(['ok', [[np.ascontiguousarray(x).tobytes().hex(), list(x.shape)]
                               for x in ra.iter_arrays(startindex=a, endindex=b, stepsize=c)]])
        except Exception as e:
            its.append(['exc', type(e).__name__])
    v['iters'] = its
    return v


def guarded(f):
    try:
        return f()
    except Exception as e:
        return {'error': type(e).__name__, 'msg': str(e)[:200]}


def regen(path):
    try:
        from darr.raggedarray import readcodetxt
        b = darr.RaggedArray(path)
        langs = list(b.readcodelanguages)
        from darr.array import readcodetxt as areadcodetxt
        return dict(text=readcodetxt(b), languages=langs,
                    code={l: b.readcode(l) for l in langs},
                    values=areadcodetxt(darr.Array(os.path.join(path, 'values'))),
                    indices=areadcodetxt(darr.Array(os.path.join(path, 'indices'))))
    except Exception as e:
        return {'error': type(e).__name__, 'msg': str(e)[:200]}


def observe(ra, path, ref, res, ks, iters, extra=None, want_regen=True):
    # raw files and the fresh read-only open first: reads through a live 'r+' handle may touch the files
    top = top_files(path)
    vfiles = read_files(os.path.join(path, 'values')) if os.path.isdir(os.path.join(path, 'values')) else None
    ifiles = read_files(os.path.join(path, 'indices')) if os.path.isdir(os.path.join(path, 'indices')) else None
    fresh = guarded(lambda: rview(darr.RaggedArray(path), ks, iters))
    o = dict(res=res,
             live=guarded(lambda: rview(ra, ks, iters)),
             fresh=fresh,
             top=top,
             values=vfiles,
             indices=ifiles,
             ref=[dict(shape=list(x.shape), data=np.ascontiguousarray(x).tobytes().hex()) for x in ref],
             ks=ks, iters=iters)
    if want_regen:
        o['regen'] = regen(path)
    if extra:
        o.update(extra)
    return o


def read_keys(n):
    return [0, -1, n - 1, n, -n, -n - 1, 1, 'f', 'np']


def iter_keys(n):
    return [[0, None, 1], [1, None, 2], [0, n, 1], [n - 1, -1, -1] if n else [0, 0, 1], [0, n + 1, 2],
            [0, None, 0], [-2, None, 1], [n - 1, -n - 1, -2], [2, 1, 1], [-n, 0, 1], [1, n + 3, 3]]


def run_history(case, d, want_regen=True):
    path = os.path.join(d, 'ra')
    dt = np.dtype(case['dtype'])
    atom = tuple(case['atom'])
    kw = {}
    if case.get('metadata') is not None:
        kw['metadata'] = case['metadata']
    subs = case['subs']
    if subs is None:
        ra = darr.create_raggedarray(path, atom=atom, dtype=dt, indextype=case['indextype'],
                                     accessmode=case['mode'], **kw)
        ref = []
    else:
        vals = [build_value(s) for s in subs]
        ra = darr.asraggedarray(path, (v for v in vals) if case.get('gen') else vals, dtype=dt,
                                indextype=case['indextype'], accessmode=case['mode'], **kw)
        ref = [np.asarray(v, dtype=dt) for v in vals]
    n = len(ref)
    steps = [observe(ra, path, ref, ['ok'], read_keys(n), iter_keys(n), want_regen=want_regen)]
    held = []

    def hold():
        # the whole history runs with both subarrays held open (open_arrays() context on the live handle)
        if case.get('heldopen'):
            cm = ra.open_arrays()
            cm.__enter__()
            held.append(cm)

    def unhold():
        while held:
            try:
                held.pop().__exit__(None, None, None)
            except Exception:
                pass
    hold()
    for op in case['ops']:
        k = op['op']
        extra = {}
        if k in ('append', 'iterappend'):
            vlen = sum(x.shape[0] for x in ref)
            imax = int(np.iinfo(np.dtype(case['indextype'])).max)

            def resolve(s, sofar):
                # 'fillto': as many rows as bring the total number of value rows to imax + delta
                if s.get('kind') != 'fillto':
                    return s
                nrows = imax + s['delta'] - sofar
                if not 0 <= nrows <= 1000:
                    nrows = 1
                z = (np.arange(nrows * int(np.prod(atom, dtype=int))) % 7).astype(dt).reshape((nrows,) + atom)
                return dict(kind='nd', dtype=z.dtype.str, shape=list(z.shape), hex=z.tobytes().hex(), layout='C')
            specs, sofar = [], vlen
            for s in op['items']:
                s2 = resolve(s, sofar)
                specs.append(s2)
                if s2.get('kind') == 'nd' and list(s2['shape'][1:]) == list(atom):
                    sofar += s2['shape'][0]
            imgs = [item_image(s, dt) for s in specs]
            fs = op.get('fsize')       # {'item': i, 'file': 'values'|'indices', 'k': bytes}
            newref = list(ref)
            allgood = True
            for i, im in enumerate(imgs):
                if fs is not None and i == fs['item']:
                    allgood = False
                    im['fail'] = [fs['file'], fs['k']]
                    break
                if 'tail' in im and im['tail'] == list(atom):
                    if vlen + im['n'] > imax:
                        allgood = False
                        im['overflow'] = True
                        break
                    newref.append(im['_img'])
                    vlen += im['n']
                else:
                    allgood = False
                    break
            extra['images'] = [{kk: v for kk, v in im.items() if kk != '_img'} for im in imgs]
            extra['allgood'] = allgood

            def gen():
                for i, s in enumerate(specs):
                    if s['kind'] == 'raise':
                        raise Boom('iterable fails')
                    v = build_value(s)
                    if fs is not None and i == fs['item']:
                        signal.signal(signal.SIGXFSZ, signal.SIG_IGN)
                        vsz = os.path.getsize(os.path.join(path, 'values', 'arrayvalues.bin'))
                        isz = os.path.getsize(os.path.join(path, 'indices', 'arrayvalues.bin'))
                        # the limit is per process, not per file: the file that must fail is
                        # the larger one, it may grow k bytes; the other one stays below
                        cur = vsz if fs['file'] == 'values' else isz
                        soft, hard = resource.getrlimit(resource.RLIMIT_FSIZE)
                        resource.setrlimit(resource.RLIMIT_FSIZE, (cur + fs['k'], hard))
                    yield v
            try:
                if k == 'append':
                    val = build_value(specs[0])
                    if fs is not None:
                        signal.signal(signal.SIGXFSZ, signal.SIG_IGN)
                        vsz = os.path.getsize(os.path.join(path, 'values', 'arrayvalues.bin'))
                        isz = os.path.getsize(os.path.join(path, 'indices', 'arrayvalues.bin'))
                        cur = vsz if fs['file'] == 'values' else isz
                        soft, hard = resource.getrlimit(resource.RLIMIT_FSIZE)
                        resource.setrlimit(resource.RLIMIT_FSIZE, (cur + fs['k'], hard))
                    res = call(lambda: ra.append(val))
                elif op.get('aslist'):
                    vals2 = [build_value(s) for s in specs]
                    res = call(lambda: ra.iterappend(vals2))
                else:
                    res = call(lambda: ra.iterappend(gen()))
            finally:
                if fs is not None:
                    soft, hard = resource.getrlimit(resource.RLIMIT_FSIZE)
                    resource.setrlimit(resource.RLIMIT_FSIZE, (hard, hard))
            if ra.accessmode == 'r+':
                ref = newref
        elif k == 'truncate':
            idx = op['index']
            idxv = {'float': lambda: float(idx), 'npint': lambda: np.int64(idx), 'npint16': lambda: np.int16(idx),
                    'npuint8': lambda: np.uint8(idx), 'str': lambda: str(idx)}.get(op.get('nonint'), lambda: idx)()
            if op.get('bypath'):
                res = call(lambda: darr.truncate_raggedarray(path, idxv))
            else:
                res = call(lambda: darr.truncate_raggedarray(ra, idxv))
            if isinstance(idxv, int) and (ra.accessmode == 'r+' or op.get('bypath')):
                new = ref[:idxv]
                if len(new) < len(ref):
                    ref = new
            if op.get('bypath') and res[0] == 'ok':
                unhold()
                ra = darr.RaggedArray(path, accessmode=ra.accessmode)
                hold()
        elif k == 'setmode':
            res = call(lambda: setattr(ra, 'accessmode', op['mode']))
        elif k == 'reopen':
            unhold()
            try:
                ra = darr.RaggedArray(path, accessmode=op['mode'])
                res = ['ok']
            except Exception as e:
                res = ['exc', type(e).__name__]
            hold()
        elif k == 'metaset':
            res = call(lambda: ra.metadata.update(op['value']))
        elif k == 'metaop':
            md = ra.metadata
            try:
                extra['nkeys_before'] = len(dict(md))
            except Exception:
                extra['nkeys_before'] = -1
            m, key, val = op['method'], op.get('key', 'a'), op.get('value', 1)
            f = {'update': lambda: md.update({key: val}), 'setitem': lambda: md.__setitem__(key, val),
                 'pop': lambda: md.pop(key), 'popitem': lambda: md.popitem(),
                 'del': lambda: md.__delitem__(key)}[m]
            res = call(f)
        elif k == 'metaclear':
            def clear():
                for key in list(ra.metadata.keys()):
                    ra.metadata.pop(key)
            res = call(clear)
        elif k == 'delete':
            res = call(lambda: darr.delete_raggedarray(path if op.get('bypath') else ra))
            steps.append(dict(res=res, exists=os.path.exists(path),
                              listing=sorted(os.listdir(path)) if os.path.isdir(path) else None))
            if not os.path.exists(path):
                break
            continue
        else:
            raise ValueError(k)
        n = len(ref)
        steps.append(observe(ra, path, ref, res, read_keys(n), iter_keys(n), extra,
                             want_regen=want_regen))
    unhold()
    return steps
