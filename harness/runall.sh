#!/bin/bash
# run every check of one tier in sequence (used with `vp run`): ./harness/runall.sh thorough [seed]
cd "$(dirname "$0")/.."; mkdir -p out
tier=${1:-quick}; seed=${2:-0}
if [ -n "$VP_RUN_REPO" ]; then export DARR_REPO=$VP_RUN_REPO; fi
./check --setup > out/setup.log 2>&1 || { echo "setup failed"; tail -20 out/setup.log; }
for c in C01 C02 C03 C04 C05 C06 C07 C08 C09 C10 C11 C12 C13 C14 C15 C16 C17 C18 C19 C20; do
  /usr/bin/time -f "$c wall=%es maxrss=%MKB" ./check $c --tier $tier --seed $seed 2>&1 | grep -v "^WARNING" | tail -6
done
