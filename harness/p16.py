"""C16 -- deletion and creation never destroy data that is not theirs to destroy."""
import os
import p20
from p20 import fs_term, pterm
from common import cz, cbool, EXC_CODE

META = dict(
    coq_targets=['Check20.vo'],
    rule="foreign content {file, nested directory, symlink to file / to directory outside, a "
         "directory whose name collides with a Darr file name} x location {top, values/, indices/} "
         "x target {Array, RaggedArray, wrong kind, plain directory, plain file, missing} x call form "
         "{object, str, pathlib.Path} x access mode; and each creating function {asarray, "
         "create_array, asraggedarray, create_raggedarray, copy, RaggedArray.copy, archive} x "
         "overwrite flag x previous occupant {Array with metadata, bigger Array, RaggedArray, plain "
         "dir, plain file} x foreign files; recursive byte snapshots of the target AND of an outside "
         "directory that symlinks point into; non-trivial = foreign content present or overwrite "
         "refused",
    trusted_base=[
        "Coq 8.16.1 kernel (coqc), vm_compute for evaluating the model on cases",
        "hand-written model coq/Fs.v (delete_dir: unlink own names, rmdir; create_gate), tied by "
        "in-Coq differential evaluation of the resulting directory listing",
        "the kernel's unlink / rmdir semantics (rmdir fails on a non-empty directory, unlink does not "
        "follow symlinks)",
    ],
    assumptions=["set iteration order of _protectedfiles is irrelevant except when a directory "
                 "collides with a Darr file name (then only the survival of foreign content is compared)"],
)

PRELUDE = p20.PRELUDE.replace('Check20.', 'Check20 Gen_tables.')
AFILES = ['arrayvalues.bin', 'arraydescription.json', 'metadata.json', 'README.txt']
RTOP = ['README.txt', 'arraydescription.json', 'indices', 'metadata.json', 'values']     # RaggedArray._protectedfiles


def gen(ctx):
    r = ctx.rng
    D, C = [], []
    kinds = [dict(kind='file', name='keep.dat'), dict(kind='file', name='.hidden'), dict(kind='dir', name='nested'),
             dict(kind='linkfile', name='lf', target='$OUT/ofile'), dict(kind='linkdir', name='ld', target='$OUT/odir'),
             dict(kind='collision', name='metadata.json'), dict(kind='linkfile', name='dangling', target='$OUT/nothing')]
    for target, func in (('Array', 'delete_array'), ('RaggedArray', 'delete_raggedarray')):
        wheres = [''] if target == 'Array' else ['', 'values', 'indices']
        for where in wheres:
            for fk in kinds + [None]:
                for form in ('object', 'str', 'path'):
                    if ctx.quick and fk is not None and form == 'path' and r.random() < 0.5:
                        continue
                    foreign = [] if fk is None else [dict(fk, where=where)]
                    D.append(dict(target=target, func=func, form=form, foreign=foreign, meta=r.random() < 0.5,
                                  mode='r+'))
        D.append(dict(target=target, func=func, form='object', foreign=[], mode='r'))
        D.append(dict(target=target, func=func, form='object', foreign=[dict(kinds[0], where='')], mode='r'))
    # a user's file at the top of a ragged array that is NAMED like a file of the other kind of array
    for nm in ('arrayvalues.bin', 'values.bin'):
        D.append(dict(target='RaggedArray', func='delete_raggedarray', form='str', meta=True, mode='r+',
                      foreign=[dict(kind='file', name=nm, where='')]))
    if not ctx.quick:
        # several foreign entries at once, in several places
        for target, func in (('Array', 'delete_array'), ('RaggedArray', 'delete_raggedarray')):
            wheres = [''] if target == 'Array' else ['', 'values', 'indices']
            for _ in range(60):
                fs_ = []
                for fk in r.sample([k for k in kinds if k['kind'] != 'collision'], r.randint(2, 3)):
                    fs_.append(dict(fk, where=r.choice(wheres), name=fk['name'] + str(len(fs_))))
                D.append(dict(target=target, func=func, form=r.choice(['object', 'str', 'path']), foreign=fs_,
                              meta=r.random() < 0.5, mode='r+'))
    # a stale object: its directory was deleted and the path re-used by something else
    for target in ('stale_ragged', 'stale_plaindir'):
        D.append(dict(target=target, func='delete_array', form='object', foreign=[]))
    # wrong kind / not an array
    for target in ('Array', 'RaggedArray', 'plaindir', 'file', 'missing'):
        for func in ('delete_array', 'delete_raggedarray'):
            if (target, func) in (('Array', 'delete_array'), ('RaggedArray', 'delete_raggedarray')):
                continue
            for form in ('str', 'path'):
                D.append(dict(target=target, func=func, form=form, foreign=[]))
    # directories that merely look like (the remains of) an array, and arrays that lost their description
    # (a RaggedArray without its top-level description still opens -- Darr derives everything from the
    # sub-arrays -- so it IS a ragged array for delete_raggedarray and is not in this list)
    for target in ('lookalike', 'lookalike_values', 'lookalike_indices', 'array_nodescr'):
        for func in ('delete_array', 'delete_raggedarray'):
            for form in ('str', 'path'):
                D.append(dict(target=target, func=func, form=form, foreign=[]))
    for func in ('asarray', 'create_array', 'asraggedarray', 'create_raggedarray', 'copy', 'rcopy', 'archive'):
        for occ in ('Array', 'bigArray', 'RaggedArray', 'plaindir', 'emptydir', 'file'):
            for ow in (False, True):
                for foreign in ([], [dict(kind='file', name='keep.dat', where='')],
                                [dict(kind='file', name='arraydescription.tmp', where=''), dict(kind='file', name='metadata.tmp', where=''),
                                 dict(kind='file', name='.hidden', where='')]):
                    if occ in ('file', 'emptydir') and foreign:
                        continue
                    if len(foreign) > 1 and not ow:
                        continue
                    if func == 'archive' and occ != 'file':
                        continue
                    C.append(dict(func=func, occupant=occ, overwrite=ow, foreign=foreign, aspath=r.random() < 0.4))
    # the destination is a dangling symbolic link: it exists, and nothing may be written through it
    for func in ('archive', 'asarray', 'asraggedarray', 'copy'):
        C.append(dict(func=func, occupant='danglinglink', overwrite=False, foreign=[], aspath=False))
    # a change of kind with overwrite=True: what the user keeps INSIDE the old sub-array directories survives
    for func in ('asarray', 'create_array', 'copy'):
        C.append(dict(func=func, occupant='RaggedArray', overwrite=True, aspath=False,
                      foreign=[dict(kind='file', name='notes.txt', where='values'), dict(kind='dir', name='mine', where='indices')]))
    # creation calls that FAIL after the overwrite gate: foreign content must still survive
    for func in ('asraggedarray_fail_empty', 'asraggedarray_fail_atom', 'asraggedarray_fail_gen', 'asraggedarray_fail_type',
                 'asarray_fail_gen', 'asarray_fail_type'):
        for occ in ('Array', 'RaggedArray', 'plaindir'):
            foreign = [dict(kind='file', name='keep.dat', where='')]
            if occ == 'RaggedArray':
                foreign.append(dict(kind='file', name='notes.txt', where='values'))
            C.append(dict(func=func, occupant=occ, overwrite=True, foreign=foreign, aspath=False, fails=True))
    for i, c in enumerate(C):
        c['owtype'] = ('bool', 'npbool', 'bool', 'int')[i % 4]
    return D, C


def foreign_paths(case):
    out = []
    for sp in case['foreign']:
        p = (sp['where'] + '/' if sp['where'] else '') + sp['name']
        out.append(p)
    return out


def run(ctx):
    D, C = gen(ctx)
    obsD = ctx.run_impl(D, 'delete_case', timeout=2400)
    obsC = ctx.run_impl(C, 'create_case', timeout=2400)
    terms, keep = [], []
    for case, ob in zip(D, obsD):
        key = dict(op=case['func'], target=case['target'], form=case['form'], mode=case.get('mode'),
                   foreign=[(f['kind'], f['where']) for f in case['foreign']])
        if 'harness_error' in ob:
            ctx.fail('harness-error', key, observed=ob); continue
        ctx.seen(key, nontrivial=bool(case['foreign']) or case['target'] not in ('Array', 'RaggedArray'))
        ctx.count(case['func'] + ':' + case['target']); ctx.count('form:' + case['form'])
        right_kind = (case['target'], case['func']) in (('Array', 'delete_array'), ('RaggedArray', 'delete_raggedarray'))
        fps = foreign_paths(case)
        if not ob['outside_same']:
            ctx.fail('delete-touched-outside', key, observed=ob['res'])
        if case['target'].startswith('stale_'):
            # whatever the object once described is gone: the call must fail and touch nothing of the new occupant
            if ob['res'][0] == 'ok' or ob['after'] != ob['before']:
                ctx.fail('stale-object-delete-touched-new-occupant', key, expected='an exception, directory untouched',
                         observed=dict(res=ob['res'], unchanged=ob['after'] == ob['before'], after=sorted(ob['after'])))
        elif not right_kind:
            if ob['res'][0] == 'ok' or ob['res'][1] != 'TypeError' or ob['after'] != ob['before']:
                ctx.fail('not-an-array-not-refused', key, expected='TypeError, untouched',
                         observed=dict(res=ob['res'], unchanged=ob['after'] == ob['before']))
        elif case.get('mode') == 'r':
            if ob['res'][0] == 'ok' or ob['after'] != ob['before']:
                ctx.fail('readonly-delete', key, observed=ob['res'])
        elif fps:
            # foreign content survives unmodified and the call raises OSError
            surv = all(ob['after'].get(p) == ob['before'].get(p) and p in ob['after'] for p in fps)
            deep = all(ob['after'].get(k) == v for k, v in ob['before'].items() if any(k.startswith(p + '/') for p in fps))
            if not surv or not deep:
                ctx.fail('foreign-content-destroyed', key, observed=dict(res=ob['res'], after=sorted(ob['after'])))
            if ob['res'][0] == 'ok' or ob['res'][1] not in ('OSError', 'IsADirectoryError', 'PermissionError', 'NotADirectoryError'):
                ctx.fail('foreign-content-no-oserror', key, observed=ob['res'])
        else:
            if ob['res'][0] != 'ok' or ob['exists']:
                ctx.fail('delete-incomplete', key, observed=dict(res=ob['res'], remains=sorted(ob['after'])))
        # model: only for the right kind, r+ object/str/path, without name collisions
        if right_kind and not any(f['kind'] == 'collision' for f in case['foreign']):
            base = '/B/t'
            bcomps = ['B', 't']
            ft = fs_term(ob['before'], base, [])
            writable = case.get('mode') != 'r'
            rc = 0 if ob['res'][0] == 'ok' else (3 if ob['res'][1] in ('OSError', 'IsADirectoryError', 'NotADirectoryError', 'PermissionError') else EXC_CODE.get(ob['res'][1], 7))
            after = ob['after'] if ob['exists'] else {}
            at = fs_term(after, base, []) if ob['exists'] else "[]"
            if case['func'] == 'delete_array':
                files = "array_protectedfiles"      # GENERATED from Array._protectedfiles
                terms.append(f"chk_delete {ft} {pterm(bcomps)} {files} true {cbool(writable)} {cz(rc)} {at}")
                keep.append(key)
            else:
                files = "array_protectedfiles"
                top = "ragged_protectedfiles"       # GENERATED from RaggedArray._protectedfiles
                terms.append(f"chk_rdelete {ft} {pterm(bcomps)} {top} {files} true {cbool(writable)} {cz(rc)} {at}")
                keep.append(key)
        ctx.traces += 1
    for case, ob in zip(C, obsC):
        key = dict(op=case['func'], occupant=case['occupant'], overwrite=case['overwrite'],
                   foreign=bool(case['foreign']))
        if 'harness_error' in ob:
            ctx.fail('harness-error', key, observed=ob); continue
        ctx.seen(key, nontrivial=not case['overwrite'] or bool(case['foreign']))
        ctx.count('create:' + case['func']); ctx.count('occupant:' + case['occupant'])
        if not case['overwrite']:
            if ob['res'][0] == 'ok' or ob['after'] != ob['before'] or (case['occupant'] == 'danglinglink' and ob.get('outside')):
                ctx.fail('existing-path-modified-without-overwrite', key,
                         observed=dict(res=ob['res'], unchanged=ob['after'] == ob['before'], written_elsewhere=ob.get('outside')))
        else:
            for sp in case['foreign']:
                p = (sp['where'] + '/' if sp.get('where') else '') + sp['name']
                if ob['after'].get(p) != ob['before'].get(p):
                    ctx.fail('overwrite-removed-foreign-file', key, observed=dict(res=ob['res'], after=sorted(ob['after'])))
            if case['occupant'] == 'file' and case['func'] != 'archive' and (ob['res'][0] == 'ok' or ob['after'] != ob['before']):
                ctx.fail('plain-file-replaced-by-array', key, observed=ob['res'])
        if case.get('fails'):
            if ob['res'][0] == 'ok':
                ctx.fail('failing-creation-succeeded', key, observed=ob['res'])
            continue
        if case['func'] != 'archive':
            base = '/B/t'
            node = {'file': 'FFile [1]', 'plaindir': 'FDir'}.get(case['occupant'], 'FDir')
            ft = f"[({pterm(['B', 't'])}, {node})]"
            rc = 0 if ob['res'][0] == 'ok' else 3
            if not (case['overwrite'] and case['occupant'] != 'file'):
                # with overwrite=True on a directory the gate passes; later steps are C01's
                terms.append(f"chk_create {ft} {pterm(['B', 't'])} {cbool(case['overwrite'])} {cz(rc if ob['res'][0]=='ok' or ob['res'][1] in ('OSError','FileExistsError','NotADirectoryError','IsADirectoryError') else 7)}")
                keep.append(key)
        ctx.traces += 1
    ctx.sample(dict(delete_case=D[5], observed=dict(res=obsD[5].get('res'), after=sorted(obsD[5].get('after', {}))[:8])))
    ctx.sample(dict(create_case=C[3], observed=obsC[3].get('res')))
    bad = ctx.coq_check('c16', PRELUDE, terms, shard=200)
    if bad is None:
        ctx.model_ok = False
        return
    for i in bad[:5]:
        ctx.mismatch('Fs.delete_dir / create_gate vs implementation', keep[i], dict(term=terms[i][-600:]))
