"""C15 implementation side: copy (Array / RaggedArray) with post-copy mutations on either
side, and archive with extraction."""
import os
import tarfile
import numpy as np
import darr
from implutil import snapshot, dtype_info
import impl_arr
import impl_rag
import impl_C01


def attempt(f):
    try:
        return ['ok', f()]
    except Exception as e:
        return ['exc', type(e).__name__, str(e)[:120]]


def mutate(obj, kind, how, path):
    if kind == 'Array':
        if how == 'append': obj.append(np.ones((1,) + obj.shape[1:], dtype=obj.dtype))
        elif how == 'assign' and len(obj): obj[0] = 1
        elif how == 'truncate' and len(obj): darr.truncate_array(obj, 0)
        elif how == 'meta': obj.metadata['zz'] = 9
        elif how == 'delete': darr.delete_array(obj)
    else:
        if how == 'append': obj.append(np.ones((2,) + tuple(obj.atom), dtype=obj.dtype))
        elif how == 'truncate' and len(obj): darr.truncate_raggedarray(obj, 0)
        elif how == 'meta': obj.metadata['zz'] = 9
        elif how == 'delete': darr.delete_raggedarray(obj)


def copy_array(case, d):
    sp = os.path.join(d, 'src'); cp = os.path.join(d, 'cpy')
    val = impl_arr.build_value(case['value'])
    src = darr.asarray(sp, val, accessmode='r+', metadata=case.get('metadata'))
    dtype = case.get('dtype')
    ref = np.asarray(val).astype(dtype) if dtype else np.asarray(val)
    if case.get('metadata') and isinstance(case['metadata'].get('a'), dict):
        # a value READ from the metadata is changed in place by the caller (nothing is written): the copy
        # must carry what is stored, not the caller's object
        got = src.metadata['a']
        got['b'].append('changed by the caller')
        got['new'] = 1
    res = attempt(lambda: (src.copy(cp, dtype=dtype, chunklen=case.get('chunklen'),
                                    accessmode='r+'), None)[1])
    out = dict(res=res[:2], ref=dict(shape=list(ref.shape), dtype=dtype_info(ref.dtype),
                                     data=np.ascontiguousarray(ref).tobytes().hex()),
               images=[impl_C01.image(ref)])
    if res[0] != 'ok':
        out['exists'] = os.path.exists(cp)
        return out
    c = darr.Array(cp, accessmode='r+')
    out['live'] = impl_arr.guarded_view(lambda: c)
    out['files'] = impl_arr.read_files(cp)
    out['meta_src'] = dict(darr.Array(sp).metadata); out['meta_cpy'] = dict(c.metadata)
    # independence
    indep = []
    for side, how in case.get('mutations', []):
        a, b, pa, pb = (src, c, sp, cp) if side == 'src' else (c, src, cp, sp)
        before = snapshot(pb)
        r = attempt(lambda: mutate(a, 'Array', how, pa))
        same = os.path.exists(pb) and snapshot(pb) == before
        stillopens = attempt(lambda: (darr.Array(pb), None)[1])[0] == 'ok'
        indep.append(dict(side=side, how=how, res=r[:2], other_unchanged=same, other_opens=stillopens))
        if how == 'delete':
            break
    out['indep'] = indep
    return out


def copy_ragged(case, d):
    sp = os.path.join(d, 'src'); cp = os.path.join(d, 'cpy')
    dt = np.dtype(case['dtype0'])
    if case['subs'] is None:
        src = darr.create_raggedarray(sp, atom=tuple(case['atom']), dtype=dt, indextype=case['indextype'],
                                      metadata=case.get('metadata'))
        vals = []
    else:
        vals = [impl_arr.build_value(s) for s in case['subs']]
        src = darr.asraggedarray(sp, vals, dtype=dt, indextype=case['indextype'], metadata=case.get('metadata'))
    dtype = case.get('dtype')
    tdt = np.dtype(dtype) if dtype else dt
    ref = [np.asarray(v, dtype=dt).astype(tdt) for v in vals]
    kwc = {}
    if case.get('onto'):
        # the destination already holds a ragged array WITH metadata: the copy replaces all of it
        darr.asraggedarray(cp, [[9.0], [8.0, 7.0]], metadata={'old': 'stale'})
        kwc['overwrite'] = True
    res = attempt(lambda: (src.copy(cp, dtype=dtype, accessmode='r+', **kwc), None)[1])
    out = dict(res=res[:2], ref=[dict(shape=list(x.shape), data=np.ascontiguousarray(x).tobytes().hex()) for x in ref],
               tdtype=dtype_info(tdt))
    if res[0] != 'ok':
        out['exists'] = os.path.exists(cp)
        out['listing'] = sorted(os.listdir(cp)) if os.path.isdir(cp) else None
        return out
    c = darr.RaggedArray(cp, accessmode='r+')
    n = len(ref)
    out.update(impl_rag.observe(c, cp, ref, ['ok'], impl_rag.read_keys(n), impl_rag.iter_keys(n), want_regen=False))
    out['res'] = res[:2]
    out['meta_src'] = dict(src.metadata); out['meta_cpy'] = dict(c.metadata)
    out['metafile_cpy'] = os.path.exists(os.path.join(cp, 'metadata.json'))
    indep = []
    for side, how in case.get('mutations', []):
        a, b, pa, pb = (src, c, sp, cp) if side == 'src' else (c, src, cp, sp)
        before = snapshot(pb)
        r = attempt(lambda: mutate(a, 'Ragged', how, pa))
        same = os.path.exists(pb) and snapshot(pb) == before
        indep.append(dict(side=side, how=how, res=r[:2], other_unchanged=same))
        if how == 'delete':
            break
    out['indep'] = indep
    return out


def archive(case, d):
    base = os.path.join(d, 'thing.darr')
    if case['kind'] == 'Array':
        a = darr.asarray(base, np.arange(30, dtype='float32').reshape(10, 3), metadata={'k': [1, 2]})
    else:
        a = darr.asraggedarray(base, [[1, 2], [3], []], dtype='int16', metadata={'k': 'v'})
    dest = os.path.join(d, case.get('dest', 'out.tar.' + case['ctype'])) if case.get('explicit') else None
    pre = None
    target = dest or f'{base}.tar.{case["ctype"]}'
    if case.get('existing'):
        open(target, 'wb').write(b'previous archive')
        pre = b'previous archive'
    if case.get('userfiles'):
        for nm, txt in (('.hidden', 'h'), ('notes.txt~', 'n'), ('._x', 'x'), ('long_' + 'n' * 130 + '.txt', 'l')):
            with a.datadir.open_file(nm, 'w') as fh:
                fh.write(txt)
        # ... an empty directory and a dangling symbolic link are part of the directory too
        os.mkdir(os.path.join(base, 'emptydir'))
        os.symlink('nowhere', os.path.join(base, 'dangling'))
    before = snapshot(base)
    res = attempt(lambda: str(a.archive(filepath=dest, compressiontype=case['ctype'], overwrite=case['overwrite'])))
    out = dict(res=res[:2], array_unchanged=snapshot(base) == before, target_exists=os.path.exists(target))
    if pre is not None:
        out['target_is_previous'] = os.path.isfile(target) and open(target, 'rb').read() == pre
    if res[0] == 'ok':
        ex = os.path.join(d, 'extracted')
        os.makedirs(ex)
        with tarfile.open(target) as tf:
            tf.extractall(ex)
        exb = os.path.join(ex, 'thing.darr')
        out['extracted_identical'] = os.path.isdir(exb) and snapshot(exb) == before
        def same():
            b = darr.open(exb)
            if case['kind'] == 'Array':
                return bool(np.array_equal(b[:], a[:])) and b.dtype == a.dtype and dict(b.metadata) == dict(a.metadata)
            return len(b) == len(a) and all(np.array_equal(b[i], a[i]) for i in range(len(a))) and dict(b.metadata) == dict(a.metadata)
        out['opens_equal'] = attempt(same)[:2]
    return out


from impl_C01 import big      # a copy of an array beyond the 80 MiB default chunk (direct oracle)
