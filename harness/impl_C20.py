"""C20 / C16 implementation side."""
import json
import os
import pathlib
import shutil
import numpy as np
import darr
from implutil import snapshot


def attempt(f):
    try:
        r = f()
        return ['ok', r if isinstance(r, (str, int, dict, list)) or r is None else None]
    except Exception as e:
        return ['exc', type(e).__name__, str(e)[:100]]


def make(kind, path, meta=True):
    if kind == 'Array':
        return darr.asarray(path, np.arange(6, dtype='int16'), accessmode='r+',
                            metadata={'a': 1} if meta else None)
    return darr.asraggedarray(path, [[1, 2], [3]], accessmode='r+', metadata={'a': 1} if meta else None)


def name_of(spec, base):
    v = spec['s'].replace('$BASE', base)
    return pathlib.Path(v) if spec.get('aspath') else v


def datadir_ops(case, d):
    """one array; a list of (method, name spelling, args); snapshot before/after each"""
    base = os.path.join(d, 'arr')
    a = make(case['kind'], base)
    via = case.get('via')
    if via:          # the same array, opened through a path that is not canonical
        del a
        os.makedirs(os.path.join(d, 'side'), exist_ok=True)
        if via == 'dotdot':
            p2 = os.path.join(d, 'side', '..', 'arr')
        elif via == 'symlink':
            os.symlink(d, os.path.join(d, 'side', 'lnk'))
            p2 = os.path.join(d, 'side', 'lnk', 'arr')
        else:
            p2 = os.path.relpath(base, os.getcwd())
        a = (darr.Array if case['kind'] == 'Array' else darr.RaggedArray)(p2, accessmode='r+')
    for lnk, tgt in case.get('links', []):
        os.symlink(tgt.replace('$BASE', base), os.path.join(base, lnk))
    for sub in case.get('dirs', []):
        os.makedirs(os.path.join(base, sub), exist_ok=True)
    for fn, txt in case.get('files', []):
        open(os.path.join(base, fn), 'w').write(txt)
    dd = a.datadir
    out = []
    for op in case['ops']:
        before = snapshot(base)
        m = op['m']
        nm = name_of(op['name'], base) if 'name' in op else None
        if m == 'write_txt':
            r = attempt(lambda: dd.write_txt(nm, op['text'], overwrite=op.get('ow', False)))
        elif m == 'write_jsonfile':
            r = attempt(lambda: dd.write_jsonfile(nm, op['data'], overwrite=op.get('ow', False)))
        elif m == 'write_jsondict':
            r = attempt(lambda: dd.write_jsondict(nm, op['data'], overwrite=op.get('ow', False)))
        elif m == 'update_jsondict':
            r = attempt(lambda: dd.update_jsondict(nm, op['data']))
        elif m == 'delete_files':
            names = [name_of(n, base) for n in op['names']]
            r = attempt(lambda: dd.delete_files(names))
        elif m == 'open_file':
            def f():
                with dd.open_file(nm, op['mode']) as fh:
                    if 'r' in op['mode'] and '+' not in op['mode']:
                        return None
                    fh.write(b'Z' if 'b' in op['mode'] else 'Z')
            r = attempt(f)
        elif m == 'read_txt':
            r = attempt(lambda: dd.read_txt(nm))
        elif m == 'read_jsondict':
            r = attempt(lambda: dd.read_jsondict(nm))
        else:
            raise ValueError(m)
        after = snapshot(base)
        changed = sorted(k for k in set(before) | set(after) if before.get(k) != after.get(k))
        out.append(dict(res=r[:2], changed=changed, tree=after if op.get('want_tree') else None))
    # the array must still open and be intact if no protected file changed
    out.append(dict(final_open=attempt(lambda: ((darr.Array(base) if case['kind'] == 'Array' else darr.RaggedArray(base)), None)[1])[:2]))
    return out


def plant(base, spec):
    """foreign content: kind in file / dir / linkfile / linkdir / collision"""
    loc = os.path.join(base, spec['where']) if spec['where'] else base
    p = os.path.join(loc, spec['name'])
    k = spec['kind']
    if k == 'file':
        open(p, 'wb').write(b'precious')
    elif k == 'dir':
        os.makedirs(os.path.join(p, 'deep'))
        open(os.path.join(p, 'deep', 'f.bin'), 'wb').write(b'\x00\x01')
    elif k == 'linkfile':
        os.symlink(spec['target'], p)
    elif k == 'linkdir':
        os.symlink(spec['target'], p)
    elif k == 'collision':          # a directory where Darr expects a file name
        if os.path.lexists(p):
            os.unlink(p)
        os.makedirs(p)
    else:
        raise ValueError(k)


def delete_case(case, d):
    outside = os.path.join(d, 'outside')
    os.makedirs(os.path.join(outside, 'odir'))
    open(os.path.join(outside, 'ofile'), 'wb').write(b'outside-data')
    open(os.path.join(outside, 'odir', 'inner'), 'wb').write(b'inner')
    base = os.path.join(d, 'target')
    tk = case['target']
    if tk in ('stale_ragged', 'stale_plaindir'):
        # an Array object whose directory was deleted meanwhile; the path now holds something else
        obj = make('Array', base, meta=True)
        darr.delete_array(base)
        if tk == 'stale_ragged':
            make('RaggedArray', base, meta=True)
        else:
            os.makedirs(base)
            for nm in ('README.txt', 'arraydescription.json', 'metadata.json', 'notes.txt'):
                open(os.path.join(base, nm), 'w').write('user text in ' + nm)
    elif tk in ('Array', 'RaggedArray'):
        obj = make(tk, base, meta=case.get('meta', True))
    elif tk == 'plaindir':
        os.makedirs(base); open(os.path.join(base, 'x.txt'), 'w').write('x'); obj = None
    elif tk == 'file':
        open(base, 'w').write('just a file'); obj = None
    elif tk in ('lookalike', 'lookalike_values', 'lookalike_indices'):
        # a user's directory that merely LOOKS like (the remains of) an array: files and sub-directories
        # with Darr's names, none of them Darr's
        os.makedirs(base); obj = None
        for nm in ('README.txt', 'arraydescription.json', 'metadata.json', 'notes.txt'):
            open(os.path.join(base, nm), 'w').write('user text in ' + nm)
        subs = {'lookalike': ('values', 'indices'), 'lookalike_values': ('values',),
                'lookalike_indices': ('indices',)}[tk]
        for sub in subs:
            os.makedirs(os.path.join(base, sub))
            for nm in ('arrayvalues.bin', 'README.txt', 'mine.txt'):
                open(os.path.join(base, sub, nm), 'w').write('user data in ' + sub + '/' + nm)
    elif tk in ('ragged_nodescr', 'array_nodescr'):
        # a real array whose description file is gone: not an array any more, to be refused untouched
        make('RaggedArray' if tk == 'ragged_nodescr' else 'Array', base, meta=True); obj = None
        os.unlink(os.path.join(base, 'arraydescription.json'))
    else:
        obj = None
    for sp in case.get('foreign', []):
        sp = dict(sp)
        if 'target' in sp:
            sp['target'] = sp['target'].replace('$OUT', outside)
        plant(base, sp)
    before = snapshot(base) if os.path.lexists(base) else {'': ['missing']}
    before_out = snapshot(outside)
    fn = darr.delete_array if case['func'] == 'delete_array' else darr.delete_raggedarray
    form = case['form']
    if tk.startswith('stale_'):
        arg = obj
    elif form == 'object' and obj is not None and ((case['func'] == 'delete_array') == (tk == 'Array')):
        if case.get('mode') == 'r':
            obj.accessmode = 'r'
        arg = obj
    elif form == 'path':
        arg = pathlib.Path(base)
    else:
        arg = base
    res = attempt(lambda: fn(arg))
    after = snapshot(base) if os.path.lexists(base) else {'': ['missing']}
    return dict(res=res[:2], before=before, after=after, outside_same=snapshot(outside) == before_out,
                exists=os.path.lexists(base))


def create_case(case, d):
    outside = os.path.join(d, 'outside')
    os.makedirs(outside)
    base = os.path.join(d, 'target')
    occ = case['occupant']
    src = darr.asarray(os.path.join(d, 'src'), np.arange(8, dtype='float32'), accessmode='r+', metadata={'s': 1})
    rsrc = darr.asraggedarray(os.path.join(d, 'rsrc'), [[1.5], [2.5, 3.5]], accessmode='r+')
    if occ == 'Array':
        make('Array', base)
    elif occ == 'bigArray':
        darr.asarray(base, np.arange(100, dtype='int64'), metadata={'m': [1, 2]})
    elif occ == 'RaggedArray':
        make('RaggedArray', base)
    elif occ == 'plaindir':
        os.makedirs(base); open(os.path.join(base, 'x.txt'), 'w').write('x')
    elif occ == 'file':
        open(base, 'w').write('just a file')
    elif occ == 'emptydir':
        os.makedirs(base)            # an existing directory, still empty (tempfile.mkdtemp()): it exists
    elif occ == 'danglinglink':
        # the path exists as a symbolic link whose target does not: still an existing thing
        os.symlink(os.path.join(outside, 'elsewhere.tar.xz'), base)
    for sp in case.get('foreign', []):
        plant(base, sp)
    before = snapshot(base) if os.path.lexists(base) else {'': ['missing']}
    ow = case['overwrite']
    # the flag as the int / NumPy boolean a caller may well pass (same truth value)
    if case.get('owtype') == 'int':
        ow = int(ow)
    elif case.get('owtype') == 'npbool':
        ow = np.bool_(ow)
    f = case['func']
    pth = pathlib.Path(base) if case.get('aspath') else base
    if f == 'asarray':
        call = lambda: darr.asarray(pth, [1, 2, 3], overwrite=ow)
    elif f == 'create_array':
        call = lambda: darr.create_array(pth, shape=(2, 2), overwrite=ow)
    elif f == 'asraggedarray':
        call = lambda: darr.asraggedarray(pth, [[1], [2, 3]], overwrite=ow)
    elif f == 'create_raggedarray':
        call = lambda: darr.create_raggedarray(pth, atom=(2,), overwrite=ow)
    elif f == 'copy':
        call = lambda: src.copy(pth, overwrite=ow)
    elif f == 'rcopy':
        call = lambda: rsrc.copy(pth, overwrite=ow)
    elif f == 'asraggedarray_fail_empty':
        call = lambda: darr.asraggedarray(pth, [], overwrite=ow)
    elif f == 'asraggedarray_fail_atom':
        call = lambda: darr.asraggedarray(pth, [[1, 2], [[3, 4]]], overwrite=ow)
    elif f == 'asraggedarray_fail_gen':
        def g():
            yield [1.0, 2.0]
            raise RuntimeError('source fails')
        call = lambda: darr.asraggedarray(pth, g(), overwrite=ow)
    elif f == 'asraggedarray_fail_type':
        call = lambda: darr.asraggedarray(pth, [['a', 'b']], overwrite=ow)
    elif f == 'asarray_fail_gen':
        def g2():
            yield np.arange(3)
            raise RuntimeError('source fails')
        call = lambda: darr.asarray(pth, g2(), overwrite=ow)
    elif f == 'asarray_fail_type':
        call = lambda: darr.asarray(pth, ['a', 'b'], overwrite=ow)
    elif f == 'archive':
        # the archive path is the existing thing
        call = lambda: src.archive(filepath=base, overwrite=ow)
    else:
        raise ValueError(f)
    res = attempt(lambda: (call(), None)[1])
    after = snapshot(base) if os.path.lexists(base) else {'': ['missing']}
    return dict(res=res[:2], before=before, after=after, outside=sorted(os.listdir(outside)))


def bare_names(case, d):
    """delete_files given ONE name (a str or a Path) instead of a sequence of names: whatever the call
    makes of it, a protected file must survive"""
    base = os.path.join(d, 'arr')
    a = make(case['kind'], base, meta=True)
    out = []
    for name in case['names']:
        for form in ('str', 'path'):
            before = snapshot(base)
            arg = name if form == 'str' else pathlib.Path(name)
            r = attempt(lambda: a.datadir.delete_files(arg))
            out.append(dict(name=name, form=form, res=r[:2], unchanged=snapshot(base) == before))
    try:
        (darr.Array if case['kind'] == 'Array' else darr.RaggedArray)(base)
        out.append(dict(final='ok'))
    except Exception as e:
        out.append(dict(final=f'{type(e).__name__}: {e}'[:200]))
    return out


def absent_protected(case, d):
    """protected names that do not exist yet (metadata.json of an array without metadata, a new name under
    values/ or indices/): creating them through the DataDir is refused"""
    base = os.path.join(d, 'arr')
    a = make(case['kind'], base, meta=False)
    dd = a.datadir
    out = []
    for name in case['names']:
        for how in ('write_txt', 'write_jsondict', 'open_x', 'open_w'):
            before = snapshot(base)
            if how == 'write_txt':
                r = attempt(lambda: dd.write_txt(name, 'x'))
            elif how == 'write_jsondict':
                r = attempt(lambda: dd.write_jsondict(name, {'a': 1}))
            else:
                def f():
                    with dd.open_file(name, 'x' if how == 'open_x' else 'w') as fh:
                        fh.write('x')
                r = attempt(f)
            out.append(dict(name=name, how=how, res=r[:2], unchanged=snapshot(base) == before))
    return out
