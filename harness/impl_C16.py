from impl_C20 import delete_case, create_case
