"""C15 -- copy() and archive() produce faithful, independent replicas."""
import numpy as np
import arrlib
import raglib
import p01
import p04
from arrlib import nd_spec, rand_array, small_values, dtype_str, MODE_COQ
from raglib import item_spec, INDEXTYPES
from common import ITEMSIZE, NUMTYPES, cz, czl_rle, copt, cbool

META = dict(
    coq_targets=['CheckArray.vo', 'CheckRagged.vo'],
    rule="Array sources (13 types x byte orders x shapes incl. first axis 0) x target dtype {None, any "
         "of the 13} x chunklen {None, 1, 2, len, len+1} x metadata {none, nested} x post-copy "
         "mutations {append, assign, truncate, metadata, delete} on either side with byte snapshots of "
         "the other side; RaggedArray sources incl. no subarrays and empty subarrays x dtype; archives x "
         "{xz, gz, bz2, unsupported} x {Array, RaggedArray} x overwrite x existing target, extracted "
         "with tarfile and compared byte-for-byte; non-trivial = cast, chunking, or a mutation",
    trusted_base=[
        "Coq 8.16.1 kernel (coqc), vm_compute for evaluating the model on cases",
        "models: asarray_m (SDarr ..) for Array.copy (chunk plan via the GENERATED iterindices), rcreate "
        "for RaggedArray.copy, Archive.archive_m for the gates; tied by in-Coq differential evaluation",
        "H-tar (Section hypothesis in Archive.v, NOT proved): tarfile + xz/gz/bz2 round-trip a "
        "directory tree; exercised here by extracting every archive",
        "oracle: NumPy astype for the cast image",
    ],
    assumptions=["archive round trip is partial: it rests on H-tar"],
)


def gen(ctx):
    r = ctx.rng
    A, G, Z = [], [], []
    muts = [('src', 'append'), ('cpy', 'append'), ('src', 'assign'), ('cpy', 'truncate'), ('src', 'meta'),
            ('cpy', 'meta'), ('src', 'truncate'), ('src', 'delete'), ('cpy', 'delete')]
    for nt in NUMTYPES * (1 if ctx.quick else 3):
        for sh in [(0,), (5,), (0, 2), (4, 3), (3, 1, 2)]:
            if ctx.quick and r.random() < 0.5:
                continue
            bo = r.choice(['little', 'big'])
            for dt in [None, r.choice(NUMTYPES)]:
                src = small_values(r, sh, dtype_str(nt, bo)) if dt else rand_array(r, nt, bo, sh)
                A.append(dict(value=nd_spec(src), dtype=dtype_str(dt, r.choice(['little', 'big'])) if dt else None,
                              chunklen=r.choice([None, 1, 2, max(sh[0], 1), sh[0] + 1]),
                              metadata=r.choice([None, {'a': {'b': [1, 2.5, None, float('inf')]}, 'ü': 'x', 'lim': float('-inf')}]),
                              mutations=r.sample(muts, 3)))
    # the requested dtype is the source's own numeric type in the OTHER byte order (values compare equal either
    # way: only dtype, descriptor and raw bytes tell)
    for k, nt in enumerate(NUMTYPES):
        if ITEMSIZE[nt] == 1 or (ctx.quick and k % 2):
            continue
        bo = ('little', 'big')[k % 2]
        other = ('big', 'little')[k % 2]
        for sh in [(5,), (0, 2), (4, 3)][(k % 3):(k % 3) + 2]:
            A.append(dict(value=nd_spec(rand_array(r, nt, bo, sh)), dtype=dtype_str(nt, other),
                          chunklen=[None, 2, 1][k % 3], metadata=None, mutations=[]))
    for _ in range(25 if ctx.quick else 600):
        nt = r.choice(NUMTYPES); bo = r.choice(['little', 'big']); atom = r.choice(p04.ATOMS)
        sublens = r.choice([None, [0], [2, 0, 1], [1], [0, 0], [3, 2, 1, 0, 1, 2, 3]])
        dt = r.choice([None, None, r.choice(NUMTYPES), nt])
        subs = None if sublens is None else [nd_spec(small_values(r, (n,) + tuple(atom), dtype_str(nt, bo))) for n in sublens]
        G.append(dict(dtype0=dtype_str(nt, bo), atom=list(atom), indextype=r.choice(INDEXTYPES), subs=subs,
                      sublens=sublens, dtype=dtype_str(dt, r.choice(['little', 'big'])) if dt else None,
                      metadata=r.choice([None, {'a': 1}, {'a': [1, float('inf')], 'lim': float('-inf')}]), mutations=r.sample(muts[:2] + muts[3:], 2),
                      onto=r.random() < 0.3))
    for kind in ('Array', 'RaggedArray'):
        for ctype in ('xz', 'gz', 'bz2', 'zip', ''):
            for ow in (False, True):
                for existing in (False, True):
                    for explicit in (False, True):
                        Z.append(dict(kind=kind, ctype=ctype, overwrite=ow, existing=existing, explicit=explicit,
                                      userfiles=(len(Z) % 3 == 0)))
    return A, G, Z


def run(ctx):
    A, G, Z = gen(ctx)
    bigs = [dict(kind='copy'), dict(kind='widecopy')]
    for bc, ob in zip(bigs, ctx.run_impl(bigs, 'big', shards=2, timeout=1800)):
        key = dict(kind={'copy': 'copy of an 85 MB array, default chunk length',
                         'widecopy': 'copy of a 2 x 80 MiB+1 array (one row exceeds the default chunk), default chunk length'}[bc['kind']])
        if 'harness_error' in ob:
            ctx.fail('harness-error', key, observed=ob)
        else:
            ctx.seen(key); ctx.count('big-copy'); ctx.evaluations += 1
            if not ob['ok']:
                ctx.fail('copy-differs:big', key, expected='the source values', observed=ob['detail'])
    obsA = ctx.run_impl(A, 'copy_array', timeout=2400)
    obsG = ctx.run_impl(G, 'copy_ragged', timeout=2400)
    obsZ = ctx.run_impl(Z, 'archive', timeout=2400)
    termsA, termsG = [], []
    for case, ob in zip(A, obsA):
        key = dict(kind='Array.copy', src=case['value']['dtype'], shape=case['value']['shape'], dtype=case['dtype'],
                   chunklen=case['chunklen'], meta=bool(case['metadata']), mutations=case['mutations'])
        if 'harness_error' in ob:
            ctx.fail('harness-error', key, observed=ob); continue
        ctx.seen(key); ctx.count('array-copy'); ctx.count('dtype:' + ('cast' if case['dtype'] else 'same'))
        ref = ob['ref']
        if ob['res'][0] != 'ok':
            ctx.fail('copy-failed', key, expected=ref['shape'], observed=ob['res']); continue
        v = ob['live']
        if 'error' in v or v['dtype'] != ref['dtype'] or v['shape'] != ref['shape'] or v['data'] != ref['data']:
            ctx.fail('copy-differs', key, expected=dict(dtype=ref['dtype'], shape=ref['shape']),
                     observed=dict(dtype=v.get('dtype'), shape=v.get('shape'), err=v.get('error')))
        if ob['meta_src'] != ob['meta_cpy']:
            ctx.fail('copy-metadata-differs', key, expected=ob['meta_src'], observed=ob['meta_cpy'])
        for m in ob['indep']:
            if not m['other_unchanged'] or not m.get('other_opens', True):
                ctx.fail('copy-not-independent', key, observed=m)
        rc, fl = arrlib.flat_step(dict(res=['ok'], live=ob['live'], files=ob['files']))
        src = f"(SDarr {p01.img_term(ob['images'][0])})"
        termsA.append(f"chk_history (created {src} {copt(case['chunklen'])} RW {cbool(bool(case['metadata']))}) [] "
                      f"[({cz(rc)}, {czl_rle(fl)})]")
        ctx.traces += 1
    for case, ob in zip(G, obsG):
        key = dict(kind='RaggedArray.copy', src=case['dtype0'], atom=case['atom'], sublens=case['sublens'],
                   dtype=case['dtype'], meta=bool(case['metadata']))
        if 'harness_error' in ob:
            ctx.fail('harness-error', key, observed=ob); continue
        ctx.seen(key); ctx.count('ragged-copy:' + ('empty' if not case['sublens'] else 'nonempty'))
        if ob['res'][0] != 'ok':
            ctx.fail('ragged-copy-failed', key, observed=dict(res=ob['res'], leftover=ob.get('listing'))); continue
        c2 = dict(dtype=dtype_str(*ob['tdtype']), atom=case['atom'], indextype=ob['fresh']['ih']['dtype'][0] if 'ih' in ob.get('fresh', {}) else 'int64')
        why = raglib.check_c04(ob, c2) or raglib.check_c05(ob, c2)
        if why:
            ctx.fail('ragged-copy-differs', key, detail=why, observed=str(ob.get('fresh'))[:300])
            continue
        if ob['meta_src'] != ob['meta_cpy'] or (ob['metafile_cpy'] != bool(ob['meta_src'])):
            ctx.fail('ragged-copy-metadata', key, expected=ob['meta_src'],
                     observed=dict(meta=ob['meta_cpy'], file=ob['metafile_cpy']))
        for m in ob['indep']:
            if not m['other_unchanged']:
                ctx.fail('ragged-copy-not-independent', key, observed=m)
        mcase = dict(dtype=c2['dtype'], nt=ob['tdtype'][0], bo=ob['tdtype'][1], atom=case['atom'], indextype=c2['indextype'],
                     mode='r+', metadata=case['metadata'], ops=[])
        termsG.append(raglib.rhistory_term(mcase, [ob]))
        ctx.traces += 1
    for case, ob in zip(Z, obsZ):
        key = dict(op='archive', **case)
        if 'harness_error' in ob:
            ctx.fail('harness-error', key, observed=ob); continue
        ctx.seen(key); ctx.count('archive:' + case['ctype'])
        valid = case['ctype'] in ('xz', 'gz', 'bz2')
        if not ob['array_unchanged']:
            ctx.fail('archive-changed-array', key, observed=ob)
        if not valid:
            if ob['res'][0] == 'ok' or ob['res'][1] != 'ValueError':
                ctx.fail('archive-bad-type-accepted', key, observed=ob['res'])
            if case['existing'] and not ob.get('target_is_previous', True):
                ctx.fail('archive-bad-type-clobbered', key, observed=ob)
        elif case['existing'] and not case['overwrite']:
            if ob['res'][0] == 'ok' or not ob.get('target_is_previous'):
                ctx.fail('archive-replaced-without-overwrite', key, observed=ob)
        else:
            if ob['res'][0] != 'ok' or not ob.get('extracted_identical') or ob.get('opens_equal') != ['ok', True]:
                ctx.fail('archive-not-faithful', key, observed=ob)
    ctx.sample(dict(array_copy=dict(src=A[0]['value']['dtype'], shape=A[0]['value']['shape'], dtype=A[0]['dtype'],
                                    chunklen=A[0]['chunklen']), result=obsA[0].get('res'), indep=obsA[0].get('indep')))
    ctx.sample(dict(archive=Z[1], observed=obsZ[1]))
    bad = ctx.coq_check('c15a', arrlib.PRELUDE, termsA, shard=200)
    badg = ctx.coq_check('c15g', raglib.PRELUDE, termsG, shard=100)
    if bad is None or badg is None:
        ctx.model_ok = False
        return
    for i in bad[:3]:
        ctx.mismatch('asarray_m (SDarr ..) vs Array.copy', dict(term=termsA[i][:300]), None)
    for i in badg[:3]:
        ctx.mismatch('rcreate vs RaggedArray.copy', dict(term=termsG[i][:300]), None)
