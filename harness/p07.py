"""C07 -- generated read code for RaggedArrays extracts every subarray correctly."""
from common import cz, czl, NUMTYPES, NT_COQ
from p06 import coqstr, ostr

META = dict(
    coq_targets=['CheckReadcode.vo'],
    rule="generated ragged programs: 9 languages x 13 value types x 7 index types x atom rank 0..3 (fresh "
         "random extents, non-palindromic for rank >= 2) x number of subarrays {0, 1, 2, 3, 7} x subarray "
         "lengths incl. 0 (leading, trailing, all) x value byte order x 3 path modes; for each offered program "
         "the accessor is called for EVERY k (executed for darr / numpymemmap, interpreted by harness/langs.py "
         "otherwise) and the example statement is evaluated; non-trivial = code offered; distinct by "
         "(language, value type, index type, atom, lengths, path mode)",
    trusted_base=[
        "Coq 8.16.1 kernel (coqc), vm_compute for evaluating the model on cases",
        "translator gen/py2v.py (type / byte-order tables, readcodefunc of darr/readcoderaggedarray.py), regenerated on every run",
        "hand-written model coq/ReadcodeRagged.v (text of every composer, accessor meaning), tied to "
        "RaggedArray.readcode by string equality evaluated in Coq; it reuses Readcode.v for both embedded array programs",
        "the documented meaning of each language's range subscripts and index origin as encoded in "
        "ReadcodeRagged.accessor / bounds / empty_has_dims (DESIGN.md Appendix A), cross-checked only against the "
        "independent interpreters of harness/langs.py",
        "harness/p07.py, impl_C07.py",
    ],
    assumptions=[],
)

PRELUDE = ("From Coq Require Import ZArith List Bool String.\n"
           "From Darr Require Import Base Readcode ReadcodeRagged CheckReadcode.\n"
           "Import ListNotations.\nOpen Scope Z_scope.\nOpen Scope string_scope.\n")

INDEXTYPES = ['int8', 'uint8', 'int16', 'uint16', 'int32', 'uint32', 'int64']
CODES = {'int8': 'i1', 'int16': 'i2', 'int32': 'i4', 'int64': 'i8', 'uint8': 'u1', 'uint16': 'u2', 'uint32': 'u4',
         'uint64': 'u8', 'float16': 'f2', 'float32': 'f4', 'float64': 'f8', 'complex64': 'c8', 'complex128': 'c16'}


def atoms(r):
    pool = [2, 3, 4, 5]
    r.shuffle(pool)
    a2 = pool[:2]
    a3 = pool[:3] if pool[0] != pool[2] else [pool[0], pool[1], pool[3]]
    return [[], [pool[3]], a2, a3]


def lens_variants(r):
    return [[], [r.randint(1, 3)], [0], [r.randint(1, 3), 0], [0, r.randint(1, 2), r.randint(1, 3)],
            [r.randint(1, 2), r.randint(0, 2), 0], [0, 0, 0],
            [r.randint(0, 2) for _ in range(6)] + [r.randint(1, 2)]]


def gen(ctx):
    r = ctx.rng
    cases = []
    for nt in NUMTYPES:
        for it in INDEXTYPES:
            ats = atoms(r)
            lvs = lens_variants(r)
            combos = [(a, l) for a in ats for l in lvs]
            if ctx.quick:
                r.shuffle(combos)
                # every atom rank at least once, several length patterns
                picked, seen = [], set()
                for a, l in combos:
                    if len(a) not in seen or len(picked) < 3:
                        picked.append((a, l)); seen.add(len(a))
                    if len(picked) >= 4 and len(seen) == 4:
                        break
                combos = picked
            for a, l in combos:
                bo = r.choice('<>') if CODES[nt][-1] != '1' or nt.startswith('complex') else '<'
                cases.append(dict(dtype=bo + CODES[nt], indextype=it, atom=a, lens=l, seed=r.randrange(10 ** 9),
                                  allmodes=not ctx.quick))
    return cases


def rinfo(ob):
    return (f"(mkRinfo {cz(ob['n'])} {czl(ob['atom'])} {NT_COQ[ob['vnumtype']]} "
            f"{'Little' if ob['vbyteorder'] == 'little' else 'Big'} {cz(ob['vlen'])} {NT_COQ[ob['inumtype']]} "
            f"{'Little' if ob['ibyteorder'] == 'little' else 'Big'})")


def run(ctx):
    cases = gen(ctx)
    obs = ctx.run_impl(cases, 'ragged')
    terms, keep = [], []
    for case, ob in zip(cases, obs):
        key0 = dict(dtype=case['dtype'], indextype=case['indextype'], atom=case['atom'], lens=case['lens'])
        if 'harness_error' in ob:
            ctx.fail('harness-error', key0, observed=ob); continue
        if ob['inumtype'] != case['indextype']:
            ctx.fail('index-type-not-stored', key0, expected=case['indextype'], observed=ob['inumtype'])
        ri = rinfo(ob)
        for lang in ob['all_languages']:
            for mode in ('rel', 'base', 'abs', 'both'):
                key = dict(key0, language=lang, path=mode)
                code = ob['codes'][lang][mode]
                ctx.seen(key, nontrivial=code is not None)
                ctx.count(f'{lang}:{"offered" if code is not None else "withheld"}')
                pm = dict(rel='PRel', base='(PBase "sub/ra.darr")', abs=f'(PAbs {coqstr(ob["absdir"])})',
                          both=f'(PAbs {coqstr(ob["absdir"])})')[mode]
                terms.append(f'chk_rrc {coqstr(lang)} {ri} {pm} {ostr(code)}')
                keep.append((key, code))
        terms.append(f'chk_rlangs {ri} [' + '; '.join(coqstr(x) for x in ob['languages']) + ']')
        keep.append((dict(key0, what='readcodelanguages'), ob['languages']))
        ctx.traces += 1
        ctx.evaluations += ob['oracle_calls']
        ctx.count(f'n={min(len(case["lens"]), 4)}{"+" if len(case["lens"]) > 4 else ""}')
        ctx.count(f'atomrank={len(case["atom"])}')
        for f in ob['oracle_fails']:
            ctx.fail(f"{f['kind']}:{f['lang']}", dict(key0, language=f['lang'], path=f['mode'], values_seed=case['seed']),
                     expected='well-formed program whose accessor returns subarray k for every k, example binds the '
                              'stated subarray, no file changed',
                     observed=dict(detail=f['detail'], code=f.get('code')))
    if keep:
        for j in (5, len(keep) // 2, -3):
            ctx.sample(dict(case=keep[j][0], text=keep[j][1]))
    bad = ctx.coq_check('c07', PRELUDE, terms, shard=250)
    if bad is None:
        ctx.model_ok = False
        return
    for i in bad[:6]:
        key, code = keep[i]
        t = terms[i]
        if t.startswith('chk_rrc'):
            head = t[len('chk_rrc '):]
            cut = head.rfind(' (Some "') if ' (Some "' in head else head.rfind(' None')
            show = 'readcode_ragged ' + head[:cut]
        else:
            show = 'ragged_readcodelanguages ' + t[len('chk_rlangs '):].rsplit(' [', 1)[0]
        ctx.mismatch('ReadcodeRagged.readcode_ragged / ragged_readcodelanguages vs RaggedArray.readcode / readcodelanguages',
                     key, code, model_obs=ctx.coq_show('c07dbg%d' % i, PRELUDE, show)[:2500])
