"""C13 implementation side: metadata operation sequences on an Array or RaggedArray."""
import json
import os
import numpy as np
import darr

KEYS = ['a', 'k2', 'ü中', 'half\ud83d']


def build(v):
    """value spec -> python object"""
    k = v[0]
    if k == 'int': return v[1]
    if k == 'float': return float(v[1])
    if k == 'nan': return float('nan')
    if k == 'inf': return float('inf') * v[1]
    if k == 'str': return v[1]
    if k == 'bool': return bool(v[1])
    if k == 'none': return None
    if k == 'list': return [build(x) for x in v[1]]
    if k == 'tuple': return tuple(build(x) for x in v[1])
    if k == 'dict': return {kk: build(x) for kk, x in v[1]}
    if k == 'npint': return np.dtype(v[1]).type(v[2])
    if k == 'npfloat': return np.dtype(v[1]).type(v[2])
    if k == 'nparray': return np.array(v[2], dtype=v[1])
    if k == 'bytes': return bytes(v[1])
    if k == 'object': return object()
    if k == 'set': return {1, 2}
    if k == 'complex': return 1 + 2j
    raise ValueError(v)


def enc(x):
    """JSON-safe canonical encoding of whatever a read accessor returned"""
    if isinstance(x, float):
        if x != x:
            return ['nan']
        if x in (float('inf'), float('-inf')):
            return ['inf', 1 if x > 0 else -1]
        return ['float', x.hex()]
    if isinstance(x, bool):
        return ['bool', x]
    if isinstance(x, int):
        return ['int', x]
    if x is None:
        return ['none']
    if isinstance(x, str):
        return ['str', [ord(c) for c in x]]
    if isinstance(x, (list, tuple)):
        return ['list', [enc(y) for y in x]]
    if isinstance(x, dict):
        return ['dict', [[[ord(c) for c in str(k)], enc(v)] for k, v in x.items()]]
    return ['other', type(x).__name__]


def reads(md):
    out = {}
    try:
        out['dict'] = enc(dict(md))
        out['len'] = len(md)
        out['keys'] = [[ord(c) for c in k] for k in md.keys()]
        out['items'] = [[[ord(c) for c in k], enc(v)] for k, v in md.items()]
        out['values'] = [enc(v) for v in md.values()]
        out['in'] = [k in md for k in KEYS]
        out['get'] = [enc(md.get(k)) for k in KEYS]
        out['getd'] = [enc(md.get(k, 7)) for k in KEYS]
        gi = []
        for k in KEYS:
            try:
                gi.append(['ok', enc(md[k])])
            except Exception as e:
                gi.append(['exc', type(e).__name__])
        out['getitem'] = gi
    except Exception as e:
        out['error'] = type(e).__name__
    return out


def filestate(path):
    p = os.path.join(path, 'metadata.json')
    if not os.path.exists(p):
        return ['absent']
    raw = open(p, 'rb').read()
    try:
        d = json.loads(raw.decode('utf-8'))
    except Exception:
        return ['torn']
    ascii_only = all(b < 128 for b in raw)
    return ['val', enc(d), ascii_only]


def history(case, d):
    path = os.path.join(d, 'x')
    kw = {}
    if case['start'] is not None:
        kw['metadata'] = {k: build(v) for k, v in case['start']}
    if case['kind'] == 'Array':
        obj = darr.asarray(path, np.arange(4, dtype='int32'), accessmode=case['mode'], **kw)
        fresh = lambda: darr.Array(path)
    else:
        obj = darr.asraggedarray(path, [[1, 2], [3]], accessmode=case['mode'], **kw)
        fresh = lambda: darr.RaggedArray(path)
    steps = [dict(res=['ok'], file=filestate(path), live=reads(obj.metadata), fresh=reads(fresh().metadata))]
    for op in case['ops']:
        k = op[0]
        md = obj.metadata
        try:
            if k == 'update':
                r = md.update({kk: build(v) for kk, v in op[1]})
            elif k == 'updatekw':
                r = md.update(**{kk: build(v) for kk, v in op[1]})
            elif k == 'setitem':
                r = md.__setitem__(op[1], build(op[2]))
            elif k == 'pop':
                r = md.pop(op[1])
            elif k == 'popd':
                # the default is, where possible, the very object that is stored (None, True, 0, ''):
                # the key must be removed all the same
                try:
                    cur = dict(md).get(op[1], 'DEFAULT')
                except Exception:
                    cur = 'DEFAULT'
                dflt = cur if (cur is None or isinstance(cur, bool) or cur == 0 or cur == '') else 'DEFAULT'
                r = md.pop(op[1], dflt)
            elif k == 'popitem':
                r = md.popitem()
            elif k == 'del':
                r = md.__delitem__(op[1])
            elif k == 'setmode':
                obj.accessmode = op[1]; r = None
            elif k == 'reopen':
                obj = fresh() if op[1] == 'r' else (darr.Array(path, 'r+') if case['kind'] == 'Array' else darr.RaggedArray(path, 'r+'))
                r = None
            else:
                raise ValueError(k)
            res = ['ok', enc(r)]
        except Exception as e:
            res = ['exc', type(e).__name__]
        steps.append(dict(res=res, file=filestate(path), live=reads(obj.metadata), fresh=reads(fresh().metadata),
                          mode=obj.accessmode))
    return steps
