"""C18 implementation side: write a (possibly corrupted) description / data file and
try every way of opening; by-path delete/truncate must refuse and change nothing."""
import json
import os
import shutil
import numpy as np
import darr
from implutil import snapshot


def attempt(f):
    try:
        f()
        return ['ok']
    except Exception as e:
        return ['exc', type(e).__name__]


def write_descr(p, spec):
    if spec['kind'] == 'missing':
        if os.path.exists(p):
            os.unlink(p)
    elif spec['kind'] == 'garbage':
        open(p, 'w').write(spec['text'])
    else:
        open(p, 'w').write(json.dumps(spec['json']))


def corrupt(case, d):
    path = os.path.join(d, 'arr')
    a = darr.asarray(path, np.arange(int(np.prod(case['shape'])), dtype=case['dtype']).reshape(case['shape']))
    del a
    write_descr(os.path.join(path, 'arraydescription.json'), case['descr'])
    dp = os.path.join(path, 'arrayvalues.bin')
    if case.get('datalen') is not None:
        if case['datalen'] < 0:
            os.unlink(dp)
        else:
            raw = open(dp, 'rb').read()
            new = (raw + bytes(range(1, 64)))[:case['datalen']]
            open(dp, 'wb').write(new)
    out = dict(datalen=os.path.getsize(dp) if os.path.exists(dp) else None)
    out['array'] = attempt(lambda: darr.Array(path))
    out['open'] = attempt(lambda: darr.open(path))
    before = snapshot(path)
    out['delete'] = attempt(lambda: darr.delete_array(path))
    out['delete_unchanged'] = snapshot(path) == before if os.path.exists(path) else False
    if not os.path.exists(path):
        return out          # it was a valid array and is gone
    before = snapshot(path)
    out['truncate'] = attempt(lambda: darr.truncate_array(path, 0))
    out['truncate_unchanged'] = snapshot(path) == before
    return out


def corrupt_ragged(case, d):
    path = os.path.join(d, 'ra')
    ra = darr.asraggedarray(path, [[1, 2], [3], [4, 5, 6]], dtype=case['dtype'],
                            indextype=case.get('indextype', 'int64'))
    del ra
    sub = os.path.join(path, case['which'])
    write_descr(os.path.join(sub, 'arraydescription.json'), case['descr'])
    dp = os.path.join(sub, 'arrayvalues.bin')
    if case.get('datalen') is not None:
        raw = open(dp, 'rb').read()
        open(dp, 'wb').write((raw + bytes(range(1, 64)))[:case['datalen']])
    out = dict(datalen=os.path.getsize(dp))
    out['other'] = dict(descr=json.load(open(os.path.join(path, 'indices' if case['which'] == 'values' else 'values',
                                                          'arraydescription.json'))),
                        datalen=os.path.getsize(os.path.join(path, 'indices' if case['which'] == 'values' else 'values',
                                                             'arrayvalues.bin')))
    out['ragged'] = attempt(lambda: darr.RaggedArray(path))
    out['open'] = attempt(lambda: darr.open(path))
    before = snapshot(path)
    out['delete'] = attempt(lambda: darr.delete_raggedarray(path))
    out['delete_unchanged'] = os.path.exists(path) and snapshot(path) == before
    if not os.path.exists(path):
        return out
    before = snapshot(path)
    out['truncate'] = attempt(lambda: darr.truncate_raggedarray(path, 1))
    out['truncate_unchanged'] = snapshot(path) == before
    return out
