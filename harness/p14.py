"""C14 -- chunk iteration yields exactly the specified frames."""
import itertools
from common import cz, copt, cbool, exc_class

META = dict(
    coq_targets=['Check14.vo'],
    rule="exhaustive (n, chunklen, stepsize|None, startindex|None, endindex|None, flag) for "
         "n <= N plus random 62-bit-scale tuples; a case is non-trivial if it is valid (yields "
         "frames); distinct by its parameter tuple",
    trusted_base=[
        "Coq 8.16.1 kernel (coqc), vm_compute for evaluating the model on cases",
        "translator /verif/gen/py2v.py: Gen_frames.v is REGENERATED from darr/utils.py "
        "(fit_frames) and darr/array.py (Array.iterindices) on every run; theorems are about "
        "the generated definitions",
        "harness/p14.py + impl_C14.py (case generation, canonicalisation), Check14.v (equality "
        "of results)",
        "not verified, only compared (K): float arguments of fit_frames, iterchunks's slicing "
        "and copying (NumPy), `self.shape[0]` as the array length",
    ],
    assumptions=["Python int arithmetic = Z; // and % = Z.div, Z.modulo"],
)

PRELUDE = "From Coq Require Import ZArith List Bool.\nFrom Darr Require Import Base Gen_frames Check14.\n" \
          "Import ListNotations.\nOpen Scope Z_scope.\n"


def ref_iterindices(n, c, s, st, en, flag):
    """The property statement, written independently of the code."""
    if s is None:
        s = c
    if st is None:
        st = 0
    if en is None:
        en = n
    if c < 1 or s < 1 or not (0 <= st < en <= n):
        return ['exc', 'ValueError']
    fr = []
    k = 0
    while st + k * s + c <= en:
        fr.append([st + k * s, st + k * s + c])
        k += 1
    last_end = fr[-1][1] if fr else st
    nxt = st + k * s
    if flag and last_end < en and nxt < en:
        fr.append([nxt, en])
    return ['ok', fr]


def ref_fit_frames(t, c, s):
    if s is None:
        s = c
    if t < 0 or c < 1 or s < 1:
        return ['exc', 'ValueError']
    n = 0
    while n * s + c <= t:
        n += 1
    ns = 0 if n == 0 else (n - 1) * s + c
    return ['ok', [n, ns, t - ns]]


def res_frames(o):
    if o[0] == 'ok':
        return "(Ok [" + "; ".join(f"({cz(a)}, {cz(b)})" for a, b in o[1]) + "])"
    return f"(Err {exc_class(o[1])})"


def res_triple(o):
    if o[0] == 'ok':
        return f"(Ok ({cz(o[1][0])}, {cz(o[1][1])}, {cz(o[1][2])}))"
    return f"(Err {exc_class(o[1])})"


def gen(ctx):
    N = 5 if ctx.quick else 8
    cases = []
    for n in range(0, N + 1):
        args = []
        cl = list(range(0, n + 3))
        steps = [None] + list(range(0, n + 2))
        starts = [None] + list(range(-1, n + 1))
        ends = [None] + list(range(0, n + 2))
        for c, s, st, en, fl in itertools.product(cl, steps, starts, ends, (True, False)):
            args.append([c, s, st, en, fl])
        cases.append(dict(n=n, args=args))
    ctx.extra['exhaustive_bound_n'] = N
    # the same small space with start / end indices that are NumPy scalars (unsigned ones wrap on subtraction)
    for npt in ('uint64', 'uint8', 'int16', 'uint32'):
        for n in range(1, 4):
            args = [[c, s, st, en, fl] for c, s, st, en, fl in itertools.product(
                range(1, n + 2), [None, 1, 2], [None] + list(range(0, n + 1)), [None] + list(range(0, n + 2)), (True, False))]
            cases.append(dict(n=n, args=args, nptype=npt, flagtype={'uint64': 'np', 'uint8': 'int'}.get(npt)))
    # chunk length and step size as NumPy integers of a narrow type, on an array longer than the type can count
    for npt in ('int8', 'uint8', 'int16'):
        args = [[c, s, st, en, fl] for c in (100, 127, 50, 1) for s in (None, 100, 60, 127) for st in (None, 5)
                for en in (None, 290) for fl in (True, False)]
        cases.append(dict(n=300, args=args, nptype=npt, npall=True))
    # longer arrays, sampled
    r = ctx.rng
    for _ in range(6 if ctx.quick else 40):
        n = r.randint(N + 1, 60)
        args = []
        for _ in range(150):
            c = r.randint(1, n + 2)
            s = r.choice([None, r.randint(1, n + 1), r.randint(1, 4)])
            st = r.choice([None, r.randint(0, n), r.randint(0, 3)])
            en = r.choice([None, r.randint(0, n + 1), n])
            args.append([c, s, st, en, r.random() < 0.6])
        cases.append(dict(n=n, args=args))
    # 62-bit scale
    for _ in range(4 if ctx.quick else 20):
        n = r.randint(2 ** 40, 2 ** 62)
        args = []
        for _ in range(60):
            c = r.randint(n // 40, n + 5)
            s = r.choice([None, r.randint(max(1, n // 40), n), c + r.randint(-3, 3)])
            st = r.choice([None, r.randint(0, n // 2), 0, 1])
            en = r.choice([None, n, n - r.randint(0, 5), r.randint(n // 2, n + 2)])
            args.append([c, s, st, en, r.random() < 0.6])
        cases.append(dict(n=n, big=True, args=args))
    return cases


def run(ctx):
    cases = gen(ctx)
    obs = ctx.run_impl(cases, 'iterindices')
    terms, flat = [], []
    for case, ob in zip(cases, obs):
        if isinstance(ob, dict):
            ctx.fail('harness-error', case['n'], observed=ob)
            continue
        for a, o in zip(case['args'], ob):
            c, s, st, en, fl = a
            key = dict(f='iterindices', n=case['n'], args=a)
            exp = ref_iterindices(case['n'], c, s, st, en, fl)
            ctx.seen(key, nontrivial=(exp[0] == 'ok'))
            ctx.count('iterindices:' + ('valid' if exp[0] == 'ok' else 'invalid'))
            if exp[0] == 'ok':
                ctx.count('frames=%s' % min(len(exp[1]), 5))
            o2 = [o[0], o[1] if o[0] == 'ok' else exc_class(o[1])]
            if o2 != exp:
                ctx.fail('iterindices', key, expected=exp, observed=o2)
            terms.append(f"chk_iterindices {cz(case['n'])} {cz(c)} {copt(s)} {copt(st)} "
                         f"{copt(en)} {cbool(fl)} {res_frames(o)}")
            flat.append((key, o2))
    ctx.sample(dict(call='iterindices', n=cases[3]['n'], args=cases[3]['args'][37],
                    observed=obs[3][37] if not isinstance(obs[3], dict) else None))
    # fit_frames, ints and floats equal to ints
    ff = []
    T = 12 if ctx.quick else 24
    for t in range(-1, T + 1):
        for c in range(-1, T + 2):
            for s in [None] + list(range(-1, T + 2)):
                ff.append([t, c, s, False])
    r = ctx.rng
    for _ in range(300):
        t = r.randint(0, 40); ff.append([t, r.randint(1, 45), r.choice([None, r.randint(1, 45)]), True])
    for _ in range(300):
        t = r.randint(2 ** 40, 2 ** 62)
        ff.append([t, r.randint(1, t + 3), r.choice([None, r.randint(1, t)]), False])
    ffcases = [dict(args=ff[i::8]) for i in range(8)]
    ffobs = ctx.run_impl(ffcases, 'fitframes', shards=8)
    for case, ob in zip(ffcases, ffobs):
        if isinstance(ob, dict):
            ctx.fail('harness-error', 'fit_frames', observed=ob)
            continue
        for a, o in zip(case['args'], ob):
            t, c, s, asfloat = a
            key = dict(f='fit_frames', args=a)
            exp = ref_fit_frames(t, c, s)
            ctx.seen(key, nontrivial=(exp[0] == 'ok'))
            ctx.count('fit_frames:' + ('float' if asfloat else 'int') + ':' + exp[0])
            o2 = [o[0], o[1][:3] if o[0] == 'ok' else exc_class(o[1])]
            if o2 != exp or (o[0] == 'ok' and not o[1][3]):
                ctx.fail('fit_frames', key, expected=exp, observed=o)
            terms.append(f"chk_fit_frames {cz(t)} {cz(c)} {copt(s)} {res_triple(o2)}")
            flat.append((key, o2))
    ctx.sample(dict(call='fit_frames', args=ff[100], observed=ffobs[4][12] if not isinstance(ffobs[4], dict) else None))
    # iterchunks: detached copies of a[frame] for the same frames; concatenation
    ic = []
    for n in range(1, 7 if ctx.quick else 11):
        args = []
        for c in range(1, n + 2):
            for s in [None, 1, 2, c + 1]:
                for st in [None, 1]:
                    for en in [None, n - 1]:
                        for fl in (True, False):
                            args.append([c, s, st, en, fl])
        ic.append(dict(n=n, args=args))
    icobs = ctx.run_impl(ic, 'iterchunks')
    for case, ob in zip(ic, icobs):
        if isinstance(ob, dict):
            ctx.fail('harness-error', case['n'], observed=ob)
            continue
        for a, o in zip(case['args'], ob):
            c, s, st, en, fl = a
            key = dict(f='iterchunks', n=case['n'], args=a)
            exp = ref_iterindices(case['n'], c, s, st, en, fl)
            ctx.seen(key, nontrivial=(exp[0] == 'ok'))
            ctx.count('iterchunks:' + exp[0])
            if exp[0] == 'exc':
                if o[0] != 'exc' or exc_class(o[1]) != 'ValueError':
                    ctx.fail('iterchunks-invalid', key, expected=exp, observed=o)
                continue
            if o[0] != 'ok' or o[1]['frames'] != exp[1] or not o[1]['same'] \
                    or not o[1]['detached'] or not o[1]['closed']:
                ctx.fail('iterchunks', key, expected=exp, observed=o)
                continue
            if fl and (s is None or s == c):
                lo = 0 if st is None else st
                hi = case['n'] if en is None else en
                if o[1]['cat'] != list(range(lo, hi)):
                    ctx.fail('iterchunks-concat', key, expected=list(range(lo, hi)), observed=o[1]['cat'])
    ctx.traces = len(terms)
    bad = ctx.coq_check('c14', PRELUDE, terms)
    if bad is None:
        ctx.model_ok = False
    else:
        for i in bad[:10]:
            key, o2 = flat[i]
            ctx.mismatch('Gen_frames (translated code) vs implementation', key, o2,
                         model_obs=ctx.coq_show('c14show', PRELUDE, terms[i].replace('chk_', 'id (', 1).split(' (Ok')[0].split(' (Err')[0] + ')') if False else None)


def replay(ctx, rp):
    case = rp['case']
    if case.get('f') == 'fit_frames':
        ob = ctx.run_impl([dict(args=[case['args']])], 'fitframes', shards=1)[0][0]
        exp = ref_fit_frames(*case['args'][:3])
        o2 = [ob[0], ob[1][:3] if ob[0] == 'ok' else exc_class(ob[1])]
    else:
        fn = 'iterchunks' if case.get('f', '').startswith('iterchunks') else 'iterindices'
        big = case['n'] > 10 ** 6
        ob = ctx.run_impl([dict(n=case['n'], big=big, args=[case['args']])], fn, shards=1)[0][0]
        exp = ref_iterindices(case['n'], *case['args'])
        if fn == 'iterchunks':
            o2 = ob
            return dict(case=case, expected_frames=exp, observed=ob,
                        fails=not (ob[0] == 'ok' and exp[0] == 'ok' and ob[1]['frames'] == exp[1]
                                   and ob[1]['same'] and ob[1]['detached']) and not
                        (ob[0] == 'exc' and exp[0] == 'exc'))
        o2 = [ob[0], ob[1] if ob[0] == 'ok' else exc_class(ob[1])]
    return dict(case=case, expected=exp, observed=o2, fails=(o2 != exp))
