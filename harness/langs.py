"""Strict mini-interpreters for the read code Darr generates in R, Matlab/Octave, Scilab,
Julia (0.x and >= 1.0), IDL/GDL, Mathematica and Maple.  Independent of coq/Readcode.v:
each one accepts only the statement forms listed in its grammar (anything else is
`NotWellFormed`) and evaluates them with NumPy according to the documented meaning of the
construct (DESIGN.md Appendix A).  Arrays are held as NumPy arrays IN THE LANGUAGE'S AXIS
ORDER (column-major languages: filled first-index-fastest).

Used (a) as the direct oracle of C06/C07 and (b) to search for a failing input when the
model/implementation correspondence breaks.  Runs in the implementation child (needs numpy).
"""
import os
import re
import numpy as np


class NotWellFormed(Exception):
    pass


class RunError(Exception):
    """the program is well-formed but fails when run (e.g. reads past the end of file)"""


INT = r'(-?\d+)'
VAR = r'([A-Za-z_][A-Za-z0-9_]*)'


def _ints(s, sep=','):
    s = s.strip()
    if s == '':
        return []
    out = []
    for x in s.split(sep):
        x = x.strip()
        if not re.fullmatch(r'\d+', x):
            raise NotWellFormed(f'not an integer list: {s!r}')
        out.append(int(x))
    return out


def _read(path, cwd, dtype, count=None, offset=0, stride=None):
    """read `count` (None: all) values of dtype from the file; stride in bytes between value starts"""
    p = path if os.path.isabs(path) else os.path.join(cwd, path)
    if not os.path.isfile(p):
        raise RunError(f'file not found: {path}')
    with open(p, 'rb') as f:       # read-only by construction
        raw = f.read()
    dt = np.dtype(dtype)
    raw = raw[offset:]
    if stride is None or stride == dt.itemsize:
        n = len(raw) // dt.itemsize
        if count is not None:
            if count > n:
                raise RunError(f'file holds {n} values, {count} requested')
            n = count
        return np.frombuffer(raw[:n * dt.itemsize], dtype=dt).copy()
    vals = []
    pos = 0
    while (count is None or len(vals) < count) and pos + dt.itemsize <= len(raw):
        vals.append(raw[pos:pos + dt.itemsize])
        pos += stride
    if count is not None and len(vals) < count:
        raise RunError(f'strided read got {len(vals)} of {count}')
    return np.frombuffer(b''.join(vals), dtype=dt).copy()


def _native(a):
    return a.astype(a.dtype.newbyteorder('='))


def _reshape_f(a, dims):
    if int(np.prod(dims)) != a.size:
        raise RunError(f'cannot reshape {a.size} values to {dims}')
    return a.reshape(dims, order='F')


def _lines(text):
    if not text.endswith('\n'):
        raise NotWellFormed('program text does not end with a newline')
    return text[:-1].split('\n')


# ---------------------------------------------------------------------------------------------
# type tables (documented meaning of each language's tokens)
# ---------------------------------------------------------------------------------------------
R_TYPES = {('integer()', 1, 'TRUE'): 'i1', ('integer()', 2, 'TRUE'): 'i2', ('integer()', 4, 'TRUE'): 'i4',
           ('integer()', 8, 'TRUE'): 'i8', ('integer()', 1, 'FALSE'): 'u1', ('integer()', 2, 'FALSE'): 'u2',
           ('numeric()', 4, 'TRUE'): 'f4', ('numeric()', 8, 'TRUE'): 'f8', ('double()', 8, 'TRUE'): 'f8',
           ('complex()', 16, 'TRUE'): 'c16'}
MATLAB_TYPES = {'int8': 'i1', 'int16': 'i2', 'int32': 'i4', 'int64': 'i8', 'uint8': 'u1', 'uint16': 'u2',
                'uint32': 'u4', 'uint64': 'u8', 'float32': 'f4', 'single': 'f4', 'float64': 'f8', 'double': 'f8'}
MATLAB_END = {'ieee-le': '<', 'ieee-be': '>', 'l': '<', 'b': '>'}
SCILAB_TYPES = {'c': 'i1', 's': 'i2', 'i': 'i4', 'l': 'i8', 'uc': 'u1', 'us': 'u2', 'ui': 'u4', 'ul': 'u8',
                'f': 'f4', 'd': 'f8'}
JULIA_TYPES = {'Int8': 'i1', 'Int16': 'i2', 'Int32': 'i4', 'Int64': 'i8', 'UInt8': 'u1', 'UInt16': 'u2',
               'UInt32': 'u4', 'UInt64': 'u8', 'Float16': 'f2', 'Float32': 'f4', 'Float64': 'f8',
               'Complex{Float32}': 'c8', 'Complex{Float64}': 'c16', 'ComplexF32': 'c8', 'ComplexF64': 'c16'}
JULIA_END = {'ltoh': '<', 'ntoh': '>'}
IDL_TYPES = {1: 'u1', 2: 'i2', 3: 'i4', 4: 'f4', 5: 'f8', 6: 'c8', 9: 'c16', 12: 'u2', 13: 'u4', 14: 'i8', 15: 'u8'}
MMA_TYPES = {'Integer8': 'i1', 'Integer16': 'i2', 'Integer32': 'i4', 'Integer64': 'i8',
             'UnsignedInteger8': 'u1', 'UnsignedInteger16': 'u2', 'UnsignedInteger32': 'u4',
             'UnsignedInteger64': 'u8', 'Real32': 'f4', 'Real64': 'f8', 'Complex64': 'c8', 'Complex128': 'c16'}
MMA_END = {'-1': '<', '+1': '>', '1': '>'}
MAPLE_TYPES = {'integer[1]': 'i1', 'integer[2]': 'i2', 'integer[4]': 'i4', 'integer[8]': 'i8',
               'float[4]': 'f4', 'float[8]': 'f8'}
WORD_END = {'little': '<', 'big': '>'}


def _tok(table, key, what):
    if key not in table:
        raise NotWellFormed(f'unknown {what}: {key!r}')
    return table[key]


# ---------------------------------------------------------------------------------------------
# the interpreters: run(text, cwd) -> environment {name: ndarray | function-spec}
# ---------------------------------------------------------------------------------------------
class Interp:
    origin = 1            # index of the first element
    colmajor = True

    def __init__(self, cwd):
        self.cwd = cwd
        self.env = {}
        self.files = {}
        self.func = None        # ragged accessor, once defined
        self.example = None     # (k, result) of the example statement

    def need(self, v):
        if v not in self.env:
            raise RunError(f'undefined variable {v}')
        return self.env[v]


class RInterp(Interp):
    def run(self, text):
        lines = _lines(text)
        i = 0
        while i < len(lines):
            ln = lines[i]
            if re.fullmatch(r'\s*#.*', ln) or ln.strip() == '':
                i += 1; continue
            m = re.fullmatch(VAR + r' <- file\("([^"]*)", "(rb|r)"\)', ln)
            if m:
                self.files[m.group(1)] = dict(path=m.group(2), open=True); i += 1; continue
            m = re.fullmatch(VAR + r' <- readBin\(con=' + VAR + r', what=([a-z]+\(\)), n=' + INT + r', size=' + INT +
                             r', signed=(TRUE|FALSE), endian="(little|big)"\)', ln)
            if m:
                v, con, what, n, size, signed, en = m.groups()
                if con not in self.files or not self.files[con]['open']:
                    raise RunError('connection not open')
                dt = _tok(R_TYPES, (what, int(size), signed), 'readBin type')
                a = _native(_read(self.files[con]['path'], self.cwd, WORD_END[en] + dt, int(n)))
                if dt == 'i8':
                    if np.any(a > 2147483647) or np.any(a < -2147483647):
                        raise RunError('R integer() of size 8: value outside the int32 range reads as NA')
                self.env[v] = a; i += 1; continue
            m = re.fullmatch(VAR + r' <- array\(data=' + VAR + r', dim=c\(([^()]*)\), dimnames=NULL\)', ln)
            if m:
                v, src, dims = m.groups()
                self.env[v] = _reshape_f(self.need(src), _ints(dims)); i += 1; continue
            m = re.fullmatch(r'close\(' + VAR + r'\)', ln)
            if m:
                if m.group(1) not in self.files:
                    raise RunError('close of unknown connection')
                self.files[m.group(1)]['open'] = False; i += 1; continue
            # ragged accessor
            if ln == 'getsubarray <- function(k){':
                blk = []
                i += 1
                depth = 1
                while i < len(lines) and depth > 0:
                    depth += lines[i].count('{') - lines[i].count('}')
                    blk.append(lines[i]); i += 1
                if depth != 0:
                    raise NotWellFormed('unbalanced braces in function')
                self.func = self.parse_func(blk); continue
            m = re.fullmatch(r'sa = getsubarray\(' + INT + r'\)', ln) or re.fullmatch(r'sa <- getsubarray\(' + INT + r'\)', ln)
            if m:
                if self.func is None:
                    raise RunError('getsubarray undefined')
                k = int(m.group(1))
                self.example = (k, self.call(k)); i += 1; continue
            raise NotWellFormed(f'R: statement not recognised: {ln!r}')
        return self

    def parse_func(self, blk):
        body = '\n'.join(blk)
        pat0 = (r'    starti <- i\[1,k\] \+ 1(\s*#.*)?\n    endi <- i\[2,k\](\s*#.*)?\n'
                r'    if \(starti > endi\) \{(\s*#.*)?\n        return \((c\(\)|array\(numeric\(\),c\(([0-9,]*)\)\))\)(\s*#.*)?\n'
                r'    \} else \{\n        return \(v\[((?:,)*)starti:endi\]\)\n    \}\n\}')
        m = re.fullmatch(pat0, body)
        if not m:
            raise NotWellFormed('R: getsubarray body not recognised')
        empty, emptydims, commas = m.group(4), m.group(5), m.group(7)
        return dict(ncommas=len(commas), emptydims=None if empty == 'c()' else _ints(emptydims))

    def call(self, k):
        i, v = self.need('i'), self.need('v')
        if i.ndim != 2 or i.shape[0] != 2:
            raise RunError(f'i has dims {i.shape}; i[1,k] needs 2 x n')
        if not (1 <= k <= i.shape[1]):
            raise RunError('subscript out of bounds')
        starti, endi = int(i[0, k - 1]) + 1, int(i[1, k - 1])
        f = self.func
        if starti > endi:
            if f['emptydims'] is None:
                return np.zeros((0,), dtype=v.dtype)       # c() : NULL, no dims
            return np.zeros(tuple(f['emptydims']), dtype=v.dtype)
        if v.ndim != f['ncommas'] + 1:
            raise RunError('incorrect number of dimensions')
        if endi > v.shape[-1]:
            raise RunError('subscript out of bounds')
        return v[(slice(None),) * f['ncommas'] + (slice(starti - 1, endi),)]


class MatlabInterp(Interp):
    FREAD = (r"fread\(" + VAR + r", (?:" + INT + r"|\[([0-9, ]*)\]), '\*([a-z0-9]+)',(?: ?" + INT + r",)? ?'([a-z\-]+)'\)")

    def fread(self, m):
        fid, n, dims, ty, skip, en = m
        if fid not in self.files or not self.files[fid]['open']:
            raise RunError('file not open')
        fl = self.files[fid]
        dt = _tok(MATLAB_END, en, 'machine format') + _tok(MATLAB_TYPES, ty, 'precision')
        isz = np.dtype(dt).itemsize
        skip = int(skip) if skip is not None else 0
        if dims is not None:
            d = _ints(dims)
            if len(d) != 2:
                raise NotWellFormed('fread size must be n or [m, n]')
            cnt = d[0] * d[1]
        else:
            d, cnt = None, int(n)
        a = _native(_read(fl['path'], self.cwd, dt, cnt, offset=fl['pos'], stride=isz + skip))
        fl['pos'] += cnt * (isz + skip)
        return _reshape_f(a, d) if d is not None else a

    def run(self, text):
        lines = _lines(text)
        for ln in lines:
            code = re.sub(r'\s*%.*$', '', ln)
            if code.strip() == '':
                continue
            m = re.fullmatch(VAR + r" = fopen\('([^']*)'(?:, ?'(r|rb)')?\);", code)
            if m:
                self.files[m.group(1)] = dict(path=m.group(2), open=True, pos=0); continue
            m = re.fullmatch(VAR + r" = " + self.FREAD + r";", code)
            if m:
                self.env[m.group(1)] = self.fread(m.groups()[1:]); continue
            m = re.fullmatch(VAR + r" = reshape\(" + self.FREAD + r", \[([0-9, ]*)\]\);", code)
            if m:
                g = m.groups()
                self.env[g[0]] = _reshape_f(self.fread(g[1:7]).reshape(-1, order='F'), _ints(g[7])); continue
            m = re.fullmatch(r"fseek\(" + VAR + r", " + INT + r", 'bof'\);", code)
            if m:
                if m.group(1) not in self.files:
                    raise RunError('fseek on unknown file')
                self.files[m.group(1)]['pos'] = int(m.group(2)); continue
            m = re.fullmatch(VAR + r" = half\.typecast\(" + VAR + r"\);", code)
            if m:
                a = self.need(m.group(2))
                if a.dtype != np.dtype('u2'):
                    raise RunError('half.typecast needs uint16')
                self.env[m.group(1)] = a.view('f2'); continue
            m = re.fullmatch(r"fclose\(" + VAR + r"\);", code)
            if m:
                if m.group(1) not in self.files:
                    raise RunError('fclose on unknown file')
                self.files[m.group(1)]['open'] = False; continue
            m = re.fullmatch(VAR + r" = complex\(" + VAR + r", " + VAR + r"\);", code)
            if m:
                re_, im_ = self.need(m.group(2)), self.need(m.group(3))
                if re_.shape != im_.shape or re_.dtype != im_.dtype or re_.dtype.kind != 'f':
                    raise RunError('complex() arguments differ')
                out = np.empty(re_.shape, dtype='c8' if re_.dtype.itemsize == 4 else 'c16', order='F')
                out.real, out.imag = re_, im_
                self.env[m.group(1)] = out; continue
            m = re.fullmatch(r"getsubarray = @\(k\) v\(((?::,)*)i\(1,k\)\+1:i\(2,k\)\);", code)
            if m:
                self.func = dict(ncolons=len(m.group(1)) // 2); continue
            m = re.fullmatch(r"sa = getsubarray\(" + INT + r"\);", code)
            if m:
                if self.func is None:
                    raise RunError('getsubarray undefined')
                k = int(m.group(1)); self.example = (k, self.call(k)); continue
            raise NotWellFormed(f'Matlab: statement not recognised: {ln!r}')
        return self

    def call(self, k):
        i, v = self.need('i'), self.need('v')
        if i.ndim == 1:
            i = i.reshape(-1, 1)
        if i.shape[0] != 2 or not (1 <= k <= i.shape[1]):
            raise RunError('index exceeds matrix dimensions')
        a, b = int(i[0, k - 1]) + 1, int(i[1, k - 1])
        nc = self.func['ncolons']
        vv = v.reshape(-1, 1) if v.ndim == 1 and nc == 0 else v     # column vector: v(a:b) linear
        if nc == 0:
            flat = v.reshape(-1, order='F')
            if b > flat.size:
                raise RunError('index exceeds array bounds')
            return flat[a - 1:b] if a <= b else np.zeros((0,), dtype=v.dtype)
        # N-D with trailing singleton dimensions dropped by Matlab: pad dims
        dims = list(v.shape) + [1] * max(0, nc + 1 - v.ndim)
        if len(dims) != nc + 1:
            # fewer subscripts than dims: last subscript is linear over the remaining dims
            dims = dims[:nc] + [int(np.prod(dims[nc:]))]
        vv = v.reshape(dims, order='F')
        if b > dims[-1]:
            raise RunError('index exceeds array bounds')
        return vv[(slice(None),) * nc + (slice(a - 1, max(b, a - 1)),)]


class ScilabInterp(Interp):
    def run(self, text):
        lines = _lines(text)
        for ln in lines:
            code = ln
            if re.fullmatch(r'\s*/\*([^*]|\*(?!/))*\*/\s*', code) or code.strip() == '':
                continue
            if '/*' in code or '*/' in code:
                raise NotWellFormed(f'Scilab: unbalanced comment: {ln!r}')
            m = re.fullmatch(VAR + r' = mopen\("([^"]*)", "(rb|r)"\);', code)
            if m:
                self.files[m.group(1)] = dict(path=m.group(2), open=True, pos=0); continue
            m = re.fullmatch(VAR + r' = (mget|mgeti)\(' + INT + r', "([a-z]+)", ' + VAR + r'\);', code)
            if m:
                v, fn, n, fmt, fid = m.groups()
                if fid not in self.files or not self.files[fid]['open']:
                    raise RunError('file not open')
                if fmt[-1:] not in ('l', 'b') or fmt[:-1] not in SCILAB_TYPES:
                    raise NotWellFormed(f'Scilab: unknown format {fmt!r}')
                dt = SCILAB_TYPES[fmt[:-1]]
                if (fn == 'mget') != (dt[0] == 'f'):
                    raise RunError(f'{fn} with type {fmt!r} does not give the stored type')
                fl = self.files[fid]
                a = _native(_read(fl['path'], self.cwd, ('<' if fmt[-1] == 'l' else '>') + dt, int(n), offset=fl['pos']))
                fl['pos'] += int(n) * np.dtype(dt).itemsize
                self.env[v] = a; continue
            m = re.fullmatch(VAR + r' = matrix\(' + VAR + r', \[([0-9, ]*)\]\);', code)
            if m:
                self.env[m.group(1)] = _reshape_f(self.need(m.group(2)).reshape(-1, order='F'), _ints(m.group(3))); continue
            m = re.fullmatch(r'mclose\(' + VAR + r'\);', code)
            if m:
                if m.group(1) not in self.files:
                    raise RunError('mclose on unknown file')
                self.files[m.group(1)]['open'] = False; continue
            m = re.fullmatch(VAR + r' = complex\(squeeze\(' + VAR + r'\(1((?:,:)*)\)\),squeeze\(' + VAR + r'\(2((?:,:)*)\)\)\);', code)
            if m:
                v, s1, c1, s2, c2 = m.groups()
                a = self.need(s1)
                if s1 != s2 or c1 != c2 or a.ndim != len(c1) // 2 + 1 or a.shape[0] != 2:
                    raise RunError('complex(squeeze(..)) subscripts do not fit the array')
                out = np.empty(a.shape[1:], dtype='c8' if a.dtype.itemsize == 4 else 'c16', order='F')
                out.real, out.imag = a[0], a[1]
                self.env[v] = out; continue
            m = re.fullmatch(r'deff\("sa = getsubarray\(k\)", "sa = v\(((?::,)*)i\(1,k\)\+1:i\(2,k\)\)"\)', code)
            if m:
                self.func = dict(ncolons=len(m.group(1)) // 2); continue
            m = re.fullmatch(r'sa = getsubarray\(' + INT + r'\);', code)
            if m:
                if self.func is None:
                    raise RunError('getsubarray undefined')
                k = int(m.group(1)); self.example = (k, self.call(k)); continue
            raise NotWellFormed(f'Scilab: statement not recognised: {ln!r}')
        return self

    call = MatlabInterp.call


class JuliaInterp(Interp):
    def run(self, text):
        lines = _lines(text)
        i = 0
        while i < len(lines):
            ln = lines[i]
            code = re.sub(r'\s*#.*$', '', ln)
            if code.strip() == '':
                i += 1; continue
            m = re.fullmatch(VAR + r' = open\("([^"]*)","r"\);', code)
            if m:
                self.files[m.group(1)] = dict(path=m.group(2), open=True); i += 1; continue
            m = (re.fullmatch(VAR + r' = map\((ltoh|ntoh), read\(' + VAR + r', ([A-Za-z0-9{}]+), \(([0-9, ]*)\)\)\);', code) or
                 re.fullmatch(VAR + r' = map\((ltoh|ntoh), read!\(' + VAR + r', Array\{([A-Za-z0-9{}]+)\}\(undef, ([0-9, ]*)\)\)\);', code))
            if m:
                v, en, fid, ty, dims = m.groups()
                if fid not in self.files or not self.files[fid]['open']:
                    raise RunError('stream not open')
                dims = dims.strip()
                if dims.endswith(','):
                    dims = dims[:-1]
                    if ',' in dims:
                        raise NotWellFormed('trailing comma in a tuple of several dims')
                d = _ints(dims)
                dt = JULIA_END[en] + _tok(JULIA_TYPES, ty, 'type')
                a = _native(_read(self.files[fid]['path'], self.cwd, dt, int(np.prod(d))))
                self.env[v] = _reshape_f(a, d); i += 1; continue
            m = re.fullmatch(r'close\(' + VAR + r'\);', code)
            if m:
                if m.group(1) not in self.files:
                    raise RunError('close of unknown stream')
                self.files[m.group(1)]['open'] = False; i += 1; continue
            if code == 'function getsubarray(k)':
                blk = []
                i += 1
                while i < len(lines) and lines[i].strip() != 'end':
                    blk.append(re.sub(r'\s*#.*$', '', lines[i])); i += 1
                if i == len(lines):
                    raise NotWellFormed('function without end')
                i += 1
                body = '\n'.join(blk)
                m = re.fullmatch(r'    starti = i\[1,k\]\+1\n    endi = i\[2,k\]\n    v\[((?::,)*)starti:endi\]', body)
                if not m:
                    raise NotWellFormed('Julia: getsubarray body not recognised')
                self.func = dict(ncolons=len(m.group(1)) // 2); continue
            m = re.fullmatch(r'sa = getsubarray\(' + INT + r'\)', code)
            if m:
                if self.func is None:
                    raise RunError('getsubarray undefined')
                k = int(m.group(1)); self.example = (k, self.call(k)); i += 1; continue
            raise NotWellFormed(f'Julia: statement not recognised: {ln!r}')
        return self

    def call(self, k):
        i, v = self.need('i'), self.need('v')
        if i.ndim != 2 or i.shape[0] != 2 or not (1 <= k <= i.shape[1]):
            raise RunError('BoundsError')
        a, b = int(i[0, k - 1]) + 1, int(i[1, k - 1])
        nc = self.func['ncolons']
        if v.ndim != nc + 1:
            raise RunError('BoundsError: number of indices')      # (Julia allows only trailing 1s)
        if b > v.shape[-1]:
            raise RunError('BoundsError')
        return v[(slice(None),) * nc + (slice(a - 1, max(b, a - 1)),)]


class IdlInterp(Interp):
    origin = 0

    def run(self, text):
        lines = _lines(text)
        for ln in lines:
            code = re.sub(r'\s*;.*$', '', ln) if ln.lstrip().startswith(';') else ln
            if code.strip() == '':
                continue
            m = re.fullmatch(VAR + r' = read_binary\("([^"]*)", data_type=' + INT + r', data_dims=\[([0-9, ]*)\], endian="(little|big)"\)', code)
            if m:
                v, path, ty, dims, en = m.groups()
                d = _ints(dims)
                dt = WORD_END[en] + _tok(IDL_TYPES, int(ty), 'type code')
                a = _native(_read(path, self.cwd, dt, int(np.prod(d))))
                self.env[v] = _reshape_f(a, d); continue
            m = re.fullmatch(r'k = ' + INT + r' ?', code)
            if m:
                self.env['k'] = int(m.group(1)); continue
            m = re.fullmatch(r'IF i\[0,k\] EQ i\[1,k\] THEN sa=\[\] ELSE sa=v\[((?:\*,)*)i\[0,k\]:i\[1,k\]-1\]', code)
            if m:
                self.func = dict(nstars=len(m.group(1)) // 2)
                if 'k' not in self.env:
                    raise RunError('k undefined')
                self.example = (self.env['k'], self.call(self.env['k'])); continue
            raise NotWellFormed(f'IDL: statement not recognised: {ln!r}')
        return self

    def call(self, k):
        i, v = self.need('i'), self.need('v')
        if i.ndim != 2 or i.shape[0] != 2 or not (0 <= k < i.shape[1]):
            raise RunError('subscript out of range')
        a, b = int(i[0, k]), int(i[1, k])
        if a == b:
            return None                                       # [] : !NULL, no dims
        ns = self.func['nstars']
        if v.ndim != ns + 1:
            raise RunError('wrong number of subscripts')
        if b - 1 >= v.shape[-1] or a > b - 1:
            raise RunError('subscript out of range')
        return v[(slice(None),) * ns + (slice(a, b),)]


class MathematicaInterp(Interp):
    colmajor = False

    def run(self, text):
        # comments (* ... *) may span lines; they must be balanced and followed by nothing but a newline
        src = text
        if not src.endswith('\n'):
            raise NotWellFormed('program text does not end with a newline')
        out, pos = [], 0
        while True:
            j = src.find('(*', pos)
            if j < 0:
                out.append(src[pos:]); break
            e = src.find('*)', j + 2)
            if e < 0:
                raise NotWellFormed('Mathematica: unterminated comment')
            out.append(src[pos:j])
            pos = e + 2
        code = ''.join(out)
        if '*)' in code:
            raise NotWellFormed('Mathematica: stray comment terminator')
        stmts = [s for s in code.split('\n')]
        i = 0
        while i < len(stmts):
            ln = stmts[i]
            if ln.strip() == '':
                i += 1; continue
            m = re.fullmatch(VAR + r' = BinaryReadList\["([^"]*)", "([A-Za-z0-9]+)", ByteOrdering -> ([+\-]?1)\];', ln)
            if m:
                v, path, ty, en = m.groups()
                dt = _tok(MMA_END, en, 'ByteOrdering') + _tok(MMA_TYPES, ty, 'type')
                self.env[v] = _native(_read(path, self.cwd, dt)); i += 1; continue
            m = re.fullmatch(VAR + r' = ArrayReshape\[' + VAR + r', \{([0-9, ]*)\}\];', ln)
            if m:
                a = self.need(m.group(2)); d = _ints(m.group(3))
                if int(np.prod(d)) != a.size:
                    raise RunError('ArrayReshape: dimensions do not match (it would pad or drop)')
                self.env[m.group(1)] = a.reshape(d); i += 1; continue
            if ln.rstrip() == 'getsubarray[k_?IntegerQ] :=':
                body = '\n'.join(s.rstrip() for s in stmts[i + 1:i + 6])
                want = ('    Module[{l},\n        l = k;\n        starti = i[[l,1]] + 1;\n'
                        '        endi = i[[l,2]];\n        v[[starti;;endi]]]')
                if body != want:
                    raise NotWellFormed('Mathematica: getsubarray body not recognised')
                self.func = dict(); i += 6; continue
            m = re.fullmatch(r'sa = getsubarray\[' + INT + r'\]', ln)
            if m:
                if self.func is None:
                    raise RunError('getsubarray undefined')
                k = int(m.group(1)); self.example = (k, self.call(k)); i += 1; continue
            raise NotWellFormed(f'Mathematica: statement not recognised: {ln!r}')
        return self

    def call(self, k):
        i, v = self.need('i'), self.need('v')
        if i.ndim != 2 or i.shape[1] != 2 or not (1 <= k <= i.shape[0]):
            raise RunError('Part: out of range')
        a, b = int(i[k - 1, 0]) + 1, int(i[k - 1, 1])
        if b > v.shape[0] or a > b + 1:
            raise RunError('Part: cannot take positions')
        return v[a - 1:max(b, a - 1)]


class MapleInterp(Interp):
    def run(self, text):
        lines = _lines(text)
        i = 0
        while i < len(lines):
            ln = lines[i]
            code = re.sub(r'\s*#.*$', '', ln)
            if code.strip() == '':
                i += 1; continue
            m = re.fullmatch(VAR + r' := FileTools\[Binary\]\[Read\]\("([^"]*)", ([a-z]+\[\d+\]), byteorder=(little|big), output=Array\);', code)
            if m:
                v, path, ty, en = m.groups()
                dt = WORD_END[en] + _tok(MAPLE_TYPES, ty, 'type')
                self.env[v] = _native(_read(path, self.cwd, dt)); i += 1; continue
            m = re.fullmatch(r'FileTools\[Binary\]\[Close\]\("([^"]*)"\);', code)
            if m:
                i += 1; continue
            m = re.fullmatch(VAR + r' := ArrayTools\[Reshape\]\(' + VAR + r', \[([0-9, ]*)\]\);', code)
            if m:
                self.env[m.group(1)] = _reshape_f(self.need(m.group(2)).reshape(-1, order='F'), _ints(m.group(3)))
                i += 1; continue
            if code == 'getsubarray := proc (k::integer);':
                if i + 2 >= len(lines) or lines[i + 2] != 'end proc;':
                    raise NotWellFormed('Maple: proc without end proc')
                m = re.fullmatch(r'    v\(((?:\.\.,)*) i\(1,k\) \+ 1 \.\. i\(2,k\)\);', lines[i + 1])
                if not m:
                    raise NotWellFormed('Maple: getsubarray body not recognised')
                self.func = dict(ndots=len(m.group(1)) // 3); i += 3; continue
            m = re.fullmatch(r'sa := getsubarray\(' + INT + r'\);', code)
            if m:
                if self.func is None:
                    raise RunError('getsubarray undefined')
                k = int(m.group(1)); self.example = (k, self.call(k)); i += 1; continue
            raise NotWellFormed(f'Maple: statement not recognised: {ln!r}')
        return self

    def call(self, k):
        i, v = self.need('i'), self.need('v')
        if i.ndim != 2 or i.shape[0] != 2 or not (1 <= k <= i.shape[1]):
            raise RunError('index out of range')
        a, b = int(i[0, k - 1]) + 1, int(i[1, k - 1])
        nd = self.func['ndots']
        if v.ndim != nd + 1:
            raise RunError('wrong number of indices')
        if b > v.shape[-1]:
            raise RunError('index out of range')
        return v[(slice(None),) * nd + (slice(a - 1, max(b, a - 1)),)]


INTERP = {'R': RInterp, 'matlab': MatlabInterp, 'scilab': ScilabInterp, 'julia_ver0': JuliaInterp,
          'julia_ver1': JuliaInterp, 'julia': JuliaInterp, 'idl': IdlInterp, 'mathematica': MathematicaInterp,
          'maple': MapleInterp}
COLMAJOR = {'R', 'matlab', 'scilab', 'julia_ver0', 'julia_ver1', 'julia', 'idl', 'maple'}


def interpret(lang, text, cwd):
    return INTERP[lang](cwd).run(text)
