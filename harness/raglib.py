"""Main-process side of the RaggedArray-history checks."""
import json
import re
import numpy as np
import arrlib
from arrlib import (hexl, NT_CODE, BO_CODE, NT_COQ, BO_COQ, MODE_CODE, MODE_COQ, nd_spec,
                    rand_array, small_values, dtype_str, dt_info, OTHER_DT, rows_term)
from common import (cz, czl, czl_rle, czll, cbool, copt, NUMTYPES, ITEMSIZE, EXC_CODE)

PRELUDE = ("From Coq Require Import ZArith List Bool.\n"
           "From Darr Require Import Base ArrayModel RaggedModel CheckArray CheckRagged.\n"
           "Import ListNotations.\nOpen Scope Z_scope.\n")

INDEXTYPES = ['int8', 'uint8', 'int16', 'uint16', 'int32', 'uint32', 'int64']


# ---------------------------------------------------------------------------
# README facts of a ragged array
# ---------------------------------------------------------------------------

def ragged_readme_facts(text):
    if text is None:
        return None
    flat = ' '.join(text.split())
    m = re.search(r'This ragged array is a sequence of (\d+) subarrays, each of which is '
                  r'(\d+)-dimensional .*? The array consists of (\w+) numbers\.', flat)
    if not m:
        return 'unparsable'
    n, rank, nt = int(m.group(1)), int(m.group(2)), m.group(3)
    rows = []
    dots = False
    for line in text.splitlines():
        mm = re.match(r'^    (\d+): \((\d+), (.*)\)$', line)
        if mm:
            rows.append((int(mm.group(1)), int(mm.group(2)), mm.group(3)))
        elif line == '    ...':
            dots = True
    first = [l for (i, l, _) in rows if i < 5 and not (n > 5 and i == n - 1 and i >= 5)]
    first = [l for (i, l, _) in rows[:min(n, 5)]]
    last = rows[-1][1] if (n > 5 and rows and rows[-1][0] == n - 1) else None
    return dict(n=n, rank=rank, nt=nt, first=first, dots=dots, last=last,
                idx=[i for (i, _, _) in rows], atoms=[a for (_, _, a) in rows])


# ---------------------------------------------------------------------------
# flattening (mirrors CheckRagged.rworld_flat / reads_flat)
# ---------------------------------------------------------------------------

def hflat(h):
    return [MODE_CODE[h['mode']], NT_CODE[h['dtype'][0]], BO_CODE[h['dtype'][1]],
            len(h['shape'])] + h['shape']


def dir_flat(f):
    """flat of one sub-array directory, in CheckArray.dir_flat layout"""
    st = dict(res=['ok'], live={'error': 1}, files=f)
    _, fl = arrlib.flat_step(st)
    return fl[1:]          # drop the live-handle marker


def flat_rstep(st):
    res = st['res']
    rc = 0 if res[0] == 'ok' else EXC_CODE.get(res[1], 7)
    lv = st['live']
    if 'error' in lv:
        return rc, [-9], [-9]
    fl = [MODE_CODE[lv['mode']]] + hflat(lv['vh']) + hflat(lv['ih'])
    info = lv['info']
    fl += [info['len'], info['size'], NT_CODE[info['numtype']], len(info['atom'])] + info['atom']
    fl += dir_flat(st['values']) + dir_flat(st['indices'])
    d = st['top']['descr']
    if d is None:
        fl += [-1]
    elif not isinstance(d, dict):
        fl += [-2]
    else:
        try:
            fl += [0, int(d['len']), int(d['size']), NT_CODE[d['numtype']], len(d['atom'])] + \
                  [int(x) for x in d['atom']]
        except Exception:
            fl += [-3]
    rf = ragged_readme_facts(st['top']['readme'])
    if rf is None:
        fl += [-1]
    elif rf == 'unparsable' or rf['nt'] not in NT_CODE:
        fl += [-2]
    else:
        fl += [0, rf['n'], rf['rank'], NT_CODE[rf['nt']], len(rf['first'])] + rf['first'] + \
              [1 if rf['dots'] else 0] + [rf['last'] if rf['last'] is not None else -1]
    fl += [1 if st['top']['meta'] is not None else 0]
    rd = []
    for r in lv['reads']:
        if r[0] == 'ok':
            b = hexl(r[1])
            rd += [0, len(b)] + b
        else:
            rd += [EXC_CODE.get(r[1], 7)]
    return rc, fl, rd


def key_term(k):
    if isinstance(k, int):
        return f"(Some {cz(k)})"
    if k == 'np':
        return "(Some 0)"
    return "None"


def ritem_term(im):
    if im.get('raise'):
        return 'RRaise'
    if im.get('unconv'):
        return 'RUnconv'
    if 'fail' in im:
        c = 'RVFail' if im['fail'][0] == 'values' else 'RIFail'
        return f"({c} {czl(im['tail'])} {rows_term(im['rows'])} {cz(im['fail'][1])})"
    return f"(RGood {czl(im['tail'])} {rows_term(im['rows'])})"


def rop_term(op, st):
    k = op['op']
    if k in ('append', 'iterappend'):
        return "(ROpIterAppend [" + "; ".join(ritem_term(i) for i in st['images']) + "])"
    if k == 'truncate':
        return "(ROpTruncate None)" if op.get('nonint') else f"(ROpTruncate (Some {cz(op['index'])}))"
    if k == 'setmode':
        return f"(ROpSetMode {MODE_COQ[op['mode']]})"
    if k == 'reopen':
        return f"(ROpReopen {MODE_COQ[op['mode']]})"
    if k == 'metaset':
        return "ROpMetaSet"
    if k == 'metaclear':
        return "ROpMetaClear"
    if k == 'metaop':
        if op['method'] in ('update', 'setitem') or st.get('nkeys_before', 1) > 1:
            return "ROpMetaSet"
        return "ROpMetaPop"
    raise ValueError(k)


def rcreated_term(case, step0):
    nt, bo = dt_info(case['dtype'])
    refs = step0['ref']
    if len(refs) >= 64 and all(r['shape'][0] == 0 for r in refs):
        subs = f"(repeat [] (Z.to_nat {len(refs)}))"
    else:
        subs = "[" + "; ".join(rows_term(_rows_of_ref(r, case)) for r in refs) + "]"
    meta = bool(case.get('metadata'))
    return (f"(rcreate {NT_COQ[nt]} {BO_COQ[bo]} {czl(case['atom'])} {NT_COQ[case['indextype']]} "
            f"{subs} {MODE_COQ[case['mode']]} {cbool(meta)})")


def _rows_of_ref(r, case):
    n = r['shape'][0]
    if n == 0:
        return []
    b = r['data']
    rb = len(b) // n
    return [b[i * rb:(i + 1) * rb] for i in range(n)]


def keys_term(ks):
    return "[" + "; ".join(key_term(k) for k in ks) + "]"


def iter_terms(st, case):
    """rchk_iter terms: the model's iter_arrays on the OBSERVED files vs what the live handle yielded"""
    out = []
    nt, bo = dt_info(case['dtype'])
    v = st['live']
    if 'error' in v:
        return out
    for (a, b, c), it in zip(st['iters'], v['iters']):
        if it[0] == 'ok':
            flat = [0, len(it[1])]
            for hexdata, shape in it[1]:
                bs = hexl(hexdata)
                flat += [len(bs)] + bs
        else:
            flat = [EXC_CODE.get(it[1], 7)]
        out.append(f"rchk_iter {rdir_term(st)} {cz(a)} {copt(b)} {cz(c)} {czl_rle(flat)}")
    return out


def rhistory_term(case, steps, fn='rchk_history'):
    ops = "[" + "; ".join(f"({rop_term(op, st)}, {keys_term(st['ks'])})"
                          for op, st in zip(case['ops'], steps[1:])) + "]"
    if fn == 'rdbg_history':
        return f"rdbg_history {rcreated_term(case, steps[0])} {keys_term(steps[0]['ks'])} {ops}"
    obs = "[" + "; ".join("(%s, %s, %s)" % (cz(rc), czl_rle(fl), czl_rle(rd))
                          for rc, fl, rd in map(flat_rstep, steps)) + "]"
    return f"rchk_history {rcreated_term(case, steps[0])} {keys_term(steps[0]['ks'])} {ops} {obs}"


# ---------------------------------------------------------------------------
# oracles
# ---------------------------------------------------------------------------

def check_c04(st, case):
    """live and fresh handles equal the list-of-arrays model"""
    ref = st['ref']
    n = len(ref)
    nt, bo = dt_info(case['dtype'])
    size = sum(int(np.prod(r['shape'])) for r in ref)
    for nm in ('live', 'fresh'):
        v = st[nm]
        if 'error' in v:
            return f'{nm} handle fails: {v}'
        if v['len'] != n or v['narrays'] != n or v['atom'] != list(case['atom']) or \
                v['dtype'] != [nt, bo] or v['size'] != size:
            return f'{nm}: len/atom/dtype/size differ from the model ({v["len"]}, {v["atom"]}, {v["dtype"]}, {v["size"]}) vs ({n}, {case["atom"]}, {[nt, bo]}, {size})'
        if v['ih']['dtype'][0] != case['indextype']:
            return f"{nm}: stored index type {v['ih']['dtype'][0]} is not the requested {case['indextype']}"
        for k, r in zip(st['ks'], v['reads']):
            if isinstance(k, int) or k == 'np':
                kk = 0 if k == 'np' else k
                if -n <= kk < n:
                    e = ref[kk]
                    if r[0] != 'ok' or r[1] != e['data'] or r[2] != e['shape'] or r[3] != [nt, bo]:
                        return f'{nm}: ra[{k}] differs from the model'
                elif r[0] != 'exc' or r[1] != 'IndexError':
                    return f'{nm}: ra[{k}] should raise IndexError, got {r[:2]}'
            else:
                if r[0] != 'exc' or r[1] != 'TypeError':
                    return f'{nm}: ra[{k!r}] should raise TypeError, got {r[:2]}'
        for (a, b, c), it in zip(st['iters'], v['iters']):
            if c == 0:
                if it[0] != 'exc' or it[1] != 'ValueError':
                    return f'{nm}: iter_arrays step 0 should raise ValueError, got {it[:2]}'
                continue
            idxs = list(range(a, n if b is None else b, c))
            bad = [i for i in idxs if not (-n <= i < n)]
            if bad:
                # the generator yields the items before the first bad index, then raises
                pass
            if any(not (-n <= i < n) for i in idxs):
                if it[0] != 'exc' or it[1] != 'IndexError':
                    return f'{nm}: iter_arrays({a},{b},{c}) should raise IndexError'
                continue
            exp = [ref[i] for i in idxs]
            if it[0] != 'ok' or [x[0] for x in it[1]] != [e['data'] for e in exp] or \
                    [x[1] for x in it[1]] != [e['shape'] for e in exp]:
                return f'{nm}: iter_arrays({a},{b},{c}) differs from the model'
    return None


def check_c05(st, case):
    """structural well-formedness, decoded from the files only"""
    for nm in ('values', 'indices'):
        f = st[nm]
        if f is None:
            return f'{nm}/ missing'
        try:
            arrlib.independent_decode(f)
        except Exception as e:
            return f'{nm}/ is not a well-formed Darr array: {e}'
        if f['readme'] is None:
            return f'{nm}/README.txt missing'
    vnt, vbo, vshape, velems = arrlib.independent_decode(st['values'])
    int_, ibo, ishape, ielems = arrlib.independent_decode(st['indices'])
    if not (int_.startswith('int') or int_.startswith('uint')):
        return f'index type {int_} is not an integer type'
    if len(ishape) != 2 or ishape[1] != 2:
        return f'indices shape {ishape}'
    atom = vshape[1:]
    N = vshape[0]
    prev = 0
    for i in range(ishape[0]):
        s, e = ielems[2 * i], ielems[2 * i + 1]
        if s != prev or s > e:
            return f'index row {i} = ({s},{e}) does not continue at {prev}'
        prev = e
    if prev != N:
        return f'last end {prev} != number of value rows {N}'
    d = st['top']['descr']
    if not isinstance(d, dict):
        return 'top-level descriptor is not a dictionary'
    size = N
    for x in atom:
        size *= x
    exp = dict(len=ishape[0], size=size, atom=atom, numtype=vnt, darrobject='RaggedArray')
    for k, v in exp.items():
        if d.get(k) != v:
            return f'top-level descriptor {k} = {d.get(k)!r}, files say {v!r}'
    if 'darrversion' not in d:
        return 'top-level descriptor lacks darrversion'
    # a reader using only the files obtains subarray k as values[start_k:end_k]
    rowlen = size // N if N else 0
    ref = st['ref']
    if len(ref) != ishape[0]:
        return None     # C04's business
    return None


def check_c08r(st):
    rg = st.get('regen')
    if rg is None or 'error' in rg:
        return f'cannot regenerate documentation from a fresh handle: {rg}'
    if st['top']['readme'] is None:
        return 'README.txt missing'
    if st['top']['readme'] != rg['text']:
        return 'ragged README.txt differs from the documentation generated for the current state'
    for nm in ('values', 'indices'):
        if st[nm]['readme'] != rg[nm]:
            return f'{nm}/README.txt differs from the documentation generated for the current state'
    rf = ragged_readme_facts(st['top']['readme'])
    if rf == 'unparsable':
        return 'ragged README facts unparsable'
    ref = st['ref']
    n = len(ref)
    lens = [r['shape'][0] for r in ref]
    exp_first = lens[:5]
    if rf['n'] != n or rf['first'] != exp_first or rf['dots'] != (n > 6) or \
            rf['last'] != (lens[-1] if n > 5 else None):
        return f'README lists n={rf["n"]} first={rf["first"]} dots={rf["dots"]} last={rf["last"]}; ' \
               f'current: n={n} lengths={lens}'
    for lang, code in rg['code'].items():
        if code is None or code not in st['top']['readme']:
            return f'README lacks the current {lang} snippet'
    return None


# ---------------------------------------------------------------------------
# case generation
# ---------------------------------------------------------------------------

def item_spec(rng, nt, bo, atom, n, form=None):
    t = tuple(atom)
    form = form or rng.choice(['nd', 'nd', 'list', 'other', 'swapped'])
    if n == 0 and t and form == 'list':
        form = 'nd'      # an empty list cannot carry the atom shape
    if form == 'list':
        return dict(kind='list', value=small_values(rng, (n,) + t, 'int64').tolist())
    if form == 'other':
        return nd_spec(small_values(rng, (n,) + t, OTHER_DT[nt]), rng.choice(['C', 'strided', 'neg']))
    if form == 'swapped':    # the array's own numeric type in the OTHER byte order
        return nd_spec(rand_array(rng, nt, 'big' if bo == 'little' else 'little', (n,) + t), 'C')
    return nd_spec(rand_array(rng, nt, bo, (n,) + t), rng.choice(['C', 'F', 'strided']))


def mk_rop(letter, rng, nt, bo, atom):
    t = tuple(atom)
    if letter == 'a0':
        return dict(op='append', items=[item_spec(rng, nt, bo, atom, 0, 'nd')])
    if letter == 'a1':
        return dict(op='append', items=[item_spec(rng, nt, bo, atom, 1)])
    if letter == 'a3':
        return dict(op='append', items=[item_spec(rng, nt, bo, atom, 3)])
    if letter == 'al':
        return dict(op='append', items=[item_spec(rng, nt, bo, atom, 2, 'list')])
    if letter == 'aod':
        return dict(op='append', items=[item_spec(rng, nt, bo, atom, 2, 'other')])
    if letter == 'abad':
        bad = (2,) + t + (2,) if rng.random() < 0.5 else ((2,) + tuple(x + 1 for x in t) if t else (2, 2))
        return dict(op='append', items=[nd_spec(small_values(rng, bad, dtype_str(nt, bo)))])
    if letter == 'asw':
        return dict(op='append', items=[item_spec(rng, nt, bo, atom, 2, 'swapped')])
    if letter == 'afill0':   # the total number of value rows becomes EXACTLY the largest index the index type holds
        return dict(op='iterappend', items=[dict(kind='fillto', delta=0), item_spec(rng, nt, bo, atom, 0, 'nd')])
    if letter == 'afill1':   # ... one more than that: the end index does not fit, the subarray is refused
        return dict(op='iterappend', items=[dict(kind='fillto', delta=1), item_spec(rng, nt, bo, atom, 1, 'nd')])
    if letter == 'afill1a':  # ... the same through append()
        return dict(op='append', items=[dict(kind='fillto', delta=1)])
    if letter == 'aatom':    # ONE atom without the leading axis: its rank is one too low, it is not a subarray
        if not t:
            return dict(op='append', items=[dict(kind='scalar', value=3)])
        return dict(op='append', items=[nd_spec(rand_array(rng, nt, bo, t))])
    if letter == 'aovf':     # a LIST holding a number NumPy refuses to convert to the array's type
        dk = np.dtype(nt).kind
        if dk in 'iu':
            v = [int(np.iinfo(nt).max) + 1, 1] if rng.random() < 0.6 else [1, int(np.iinfo(nt).min) - 1]
        elif dk == 'f':
            v = [1 + 2j, 0]
        else:
            return dict(op='append', items=[dict(kind='str')])
        row = lambda x: x
        def shaped(val, dims):
            return val if not dims else [shaped(val, dims[1:]) for _ in range(dims[0])]
        return dict(op='append', items=[dict(kind='pylist', value=repr([shaped(x, list(t)) for x in v]))])
    if letter == 'astr':     # a numeric string: NumPy makes ONE number of it
        return dict(op='append', items=[dict(kind='numstr', value=rng.choice(['12', '3', '1e3']), bytes=rng.random() < 0.3)])
    if letter == 'amask':
        d = nd_spec(rand_array(rng, nt, bo, (2,) + t), 'C')
        return dict(op='append', items=[dict(d, kind='masked')])
    if letter == 'abig':     # long enough to overflow an int8 / uint8 index
        return dict(op='iterappend', items=[item_spec(rng, nt, bo, atom, 1, 'nd'),
                                            nd_spec(small_values(rng, (rng.choice([130, 260]),) + t, dtype_str(nt, bo))),
                                            item_spec(rng, nt, bo, atom, 1, 'nd')])
    if letter == 'it0':
        return dict(op='iterappend', items=[], aslist=rng.random() < 0.5)
    if letter == 'it2':
        return dict(op='iterappend', items=[item_spec(rng, nt, bo, atom, rng.randint(0, 3)),
                                            item_spec(rng, nt, bo, atom, rng.randint(0, 2))],
                    aslist=rng.random() < 0.3)
    if letter == 'itbad':
        return dict(op='iterappend', items=[item_spec(rng, nt, bo, atom, 2),
                                            rng.choice([dict(kind='raise'), dict(kind='scalar', value=3),
                                                        dict(kind='str'), dict(kind='numstr', value='12'),
                                                        dict(kind='numstr', value='7', bytes=True)]),
                                            item_spec(rng, nt, bo, atom, 1)])
    if letter in ('t-1', 't0', 't1', 't2'):
        return dict(op='truncate', index=int(letter[1:]))
    if letter == 't-big':
        return dict(op='truncate', index=-100)
    if letter == 'tbig':
        return dict(op='truncate', index=100)
    if letter == 'tni':
        return dict(op='truncate', index=1, nonint=rng.choice(['float', 'npint', 'npint', 'npint16', 'npuint8', 'str']))
    if letter == 'ro':
        return dict(op='reopen', mode='r+')
    if letter == 'ror':
        return dict(op='reopen', mode='r')
    if letter == 'mr':
        return dict(op='setmode', mode='r')
    if letter == 'mrw':
        return dict(op='setmode', mode='r+')
    if letter == 'ms':
        return dict(op='metaset', value={rng.choice(['k1', 'k2']): rng.randrange(100)})
    if letter == 'mc':
        return dict(op='metaclear')
    if letter == 'mpi':
        return dict(op='metaop', method='popitem')
    raise ValueError(letter)


RALPHABET = ['a0', 'a1', 'a3', 'al', 'aod', 'asw', 'astr', 'aovf', 'aatom', 'afill0', 'afill1', 'afill1a', 'amask', 'abig', 'abad', 'it0', 'it2', 'itbad', 't-1', 't0', 't1', 't2',
             'tbig', 't-big', 'tni', 'ro', 'mr', 'mrw', 'ms', 'mc']
RCOMPACT = ['a0', 'a1', 'a3', 'aod', 'asw', 'astr', 'aovf', 'aatom', 'it2', 't-1', 't-big', 't0', 't1', 'ro', 'mr', 'abad']


def rhistory_case(rng, nt, bo, atom, indextype, sublens, letters, mode='r+', metadata=None):
    """sublens: None -> create_raggedarray; list of lengths -> asraggedarray"""
    c = dict(dtype=dtype_str(nt, bo), nt=nt, bo=bo, atom=list(atom), indextype=indextype,
             mode=mode, metadata=metadata, letters=list(letters), gen=rng.random() < 0.5)
    if sublens is None:
        c['subs'] = None
    else:
        c['subs'] = [item_spec(rng, nt, bo, atom, n, 'nd' if i == 0 else None)
                     for i, n in enumerate(sublens)]
    c['sublens'] = sublens
    c['ops'] = [mk_rop(l, rng, nt, bo, atom) for l in letters]
    return c


def trailing_empty_cases(rng):
    """truncations that remove ONLY trailing zero-length subarrays, for every atom (the number of value
    rows and the number of values differ when the atom has more than one element)"""
    out = []
    for k, atom in enumerate([(), (2,), (1,), (2, 3), (2, 1)]):
        for j, (sl, letters) in enumerate([([2, 0, 0], ['t1', 'a1', 'ro']), ([1, 0], ['t-1', 'a0', 't-1', 'ro']),
                                           ([3, 1, 0, 0, 0], ['t-1', 't3' if False else 't2', 'ro', 'a1'])]):
            nt = NUMTYPES[(3 * k + j) % 13]
            out.append(rhistory_case(rng, nt, ('little', 'big')[(k + j) % 2], atom, INDEXTYPES[(k + 2 * j) % len(INDEXTYPES)],
                                     sl, letters))
    return out


def index_limit_cases(rng):
    """appends that end exactly at / one beyond the largest value of a narrow index type"""
    out = []
    for k, (ity, atom) in enumerate([('int8', ()), ('uint8', (2,)), ('int8', (2, 1)), ('uint8', ())]):
        for j, letters in enumerate((['afill0', 'a0', 'a1', 'ro'], ['afill1', 'ro'], ['a3', 'afill1', 'afill0', 't-1', 'afill0'], ['a1', 'afill1a', 'ro', 'a1'])):
            nt = NUMTYPES[(5 * k + j) % 13]
            out.append(rhistory_case(rng, nt, ('little', 'big')[(k + j) % 2], atom, ity, [2, 0, 1], letters))
    return out


def adir_term(f):
    """observed sub-array files -> mkDir term (README not needed by the readers)"""
    d = f['descr']
    ds = (f"(Val (mkDescr {NT_COQ[d['numtype']]} {BO_COQ[d['byteorder']]} {czl(d['shape'])} "
          f"{'OrdC' if d['arrayorder'] == 'C' else 'OrdF'}))")
    return f"(mkDir (Some {czl_rle(hexl(f['data']))}) {ds} Absent false)"


def rdir_term(st):
    d = st['top']['descr']
    td = (f"(Val (mkRDescr {cz(d['len'])} {cz(d['size'])} {czl(d['atom'])} {NT_COQ[d['numtype']]}))")
    return f"(mkRDir {adir_term(st['values'])} {adir_term(st['indices'])} {td} Absent false)"


def locale_independent(ctx, cases, obs, func, label, n=10):
    """the same cases again in a process whose preferred encoding is not UTF-8: every outcome and every
    file must be the same (Darr writes its text files as UTF-8 / ASCII explicitly)"""
    import common
    idx = list(range(0, len(cases), max(1, len(cases) // n)))[:n]
    sub = [cases[i] for i in idx]
    obs2 = ctx.run_impl(sub, func, timeout=1200, env_extra=common.C_LOCALE)
    def essence(steps):
        if isinstance(steps, dict):
            return steps.get('harness_error', str(steps))[:200]
        out = []
        for st in steps:
            keep = {k: st.get(k) for k in ('res', 'files', 'top', 'values', 'indices') if k in st}
            if isinstance(keep.get('res'), list):
                keep['res'] = keep['res'][:2]
            out.append(keep)
        return out
    for i, o2 in zip(idx, obs2):
        ctx.evaluations += 1
        ctx.count('locale-C rerun')
        a, b = essence(obs[i]), essence(o2)
        if a != b:
            first = b if isinstance(b, str) else next((k for k, (x, y) in enumerate(zip(a, b)) if x != y), len(a))
            ctx.fail('locale-dependent:' + label, dict(case_index=i, letters=cases[i].get('letters')),
                     expected='identical outcomes and files under LC_ALL=C, PYTHONUTF8=0',
                     observed=dict(first_difference=first))
