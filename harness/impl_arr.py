"""Implementation-side executor for Array histories (child process; darr importable).

A case describes a start array and a list of operations. The executor runs them on
the real Darr, keeps the NumPy reference array the properties speak of (computed
with NumPy only -- never through Darr), and after creation and after every step
records: the outcome class, the live handle's view, a fresh handle's view, the raw
files, and the NumPy images (trailing shape + row bytes) of appended items that the
Coq model takes as its oracle input.
"""
import json
import os
import resource
import signal
import sys
import numpy as np
import darr
from implutil import dtype_info


def make_layout(arr, layout):
    """Same values, different memory layout."""
    arr = np.asarray(arr)
    if arr.ndim == 0:
        return arr          # np.ascontiguousarray would make it 1-D
    if layout == 'F' and arr.ndim >= 2:
        return np.asfortranarray(arr)
    if layout == 'strided' and arr.ndim >= 1 and arr.shape[0] > 0:
        big = np.zeros((arr.shape[0] * 2,) + arr.shape[1:], dtype=arr.dtype)
        big[::2] = arr
        return big[::2]
    if layout == 'neg' and arr.ndim >= 1:
        return arr[::-1].copy()[::-1]
    if layout == 'T' and arr.ndim >= 2:
        return arr.T.copy().T
    if layout == 'bcast' and arr.ndim >= 1 and arr.shape[0] > 0 and \
            all((arr == arr[:1]).ravel()):
        return np.broadcast_to(arr[:1], arr.shape)
    return np.ascontiguousarray(arr)


def build_value(spec):
    """spec -> python object handed to Darr."""
    k = spec['kind']
    if k == 'nd':
        dt = np.dtype(spec['dtype'])
        a = np.frombuffer(bytes.fromhex(spec['hex']), dtype=dt).reshape(spec['shape']).copy()
        return make_layout(a, spec.get('layout', 'C'))
    if k == 'list':
        return spec['value']
    if k == 'tuple':
        def tup(x):
            return tuple(tup(y) for y in x) if isinstance(x, list) else x
        return tup(spec['value'])
    if k == 'scalar':
        return spec['value']
    if k == 'npscalar':
        return np.dtype(spec['dtype']).type(spec['value'])
    if k == 'pylist':       # a Python list given as source text (may hold nan / inf / complex / huge ints)
        return eval(spec['value'], {'nan': float('nan'), 'inf': float('inf')})
    if k == 'obj':
        return [object(), object()]
    if k == 'str':
        return 'bad'
    if k == 'none':
        return None
    if k == 'numstr':       # text NumPy converts to ONE number although len() says otherwise
        return spec['value'].encode() if spec.get('bytes') else spec['value']
    if k == 'masked':       # an ndarray subclass
        dt = np.dtype(spec['dtype'])
        a = np.frombuffer(bytes.fromhex(spec['hex']), dtype=dt).reshape(spec['shape']).copy()
        return np.ma.MaskedArray(a, mask=np.zeros(a.shape, dtype=bool))
    if k == 'ragged':
        return [[1, 2], [3]]
    raise ValueError(k)


class Boom(Exception):
    pass


def rows_of(img):
    n = img.shape[0]
    if n == 0:
        return []
    be = np.ascontiguousarray(img)
    flat = be.reshape(n, -1)
    return [bytes(np.ascontiguousarray(r).tobytes()).hex() for r in flat]


def image_for_append(spec, refdtype):
    """What np.asarray makes of an appended item (NumPy only): dict(tail, rows) or
    {'unconv': True} / {'raise': True}."""
    if spec['kind'] == 'raise':
        return {'raise': True}
    try:
        v = build_value(spec)
        if hasattr(v, '__len__'):
            img = np.asarray(v, dtype=refdtype)
        else:
            img = np.array(v, dtype=refdtype, ndmin=1)
    except Exception:
        return {'unconv': True}
    if img.ndim == 0:
        img = img.reshape(1)
    return {'tail': list(img.shape[1:]), 'rows': rows_of(img), 'n': int(img.shape[0]),
            '_img': img}


def read_files(path):
    out = {}
    out['listing'] = sorted(os.listdir(path)) if os.path.isdir(path) else None
    p = os.path.join(path, 'arrayvalues.bin')
    out['data'] = open(p, 'rb').read().hex() if os.path.exists(p) else None
    p = os.path.join(path, 'arraydescription.json')
    if os.path.exists(p):
        try:
            out['descr'] = json.load(open(p))
        except Exception:
            out['descr'] = 'torn'
    else:
        out['descr'] = None
    p = os.path.join(path, 'README.txt')
    out['readme'] = open(p, encoding='utf-8').read() if os.path.exists(p) else None
    p = os.path.join(path, 'metadata.json')
    if os.path.exists(p):
        try:
            out['meta'] = json.load(open(p))
        except Exception:
            out['meta'] = 'torn'
    else:
        out['meta'] = None
    return out


def view(a):
    d = a[:]
    return dict(shape=list(a.shape), dtype=dtype_info(a.dtype), len=len(a), size=int(a.size),
                nbytes=int(a.nbytes), ndim=a.ndim, itemsize=a.itemsize,
                data=np.ascontiguousarray(d).tobytes().hex(), dshape=list(d.shape),
                canon=np.ascontiguousarray(d.astype(d.dtype.newbyteorder('>'))).tobytes().hex(),
                ddtype=dtype_info(d.dtype), mode=a.accessmode)


def guarded_view(f):
    try:
        return view(f())
    except Exception as e:
        return {'error': type(e).__name__, 'msg': str(e)[:200]}


def fresh_regen(path):
    """README regenerated from a freshly opened handle, and its readcode outputs."""
    try:
        from darr.array import readcodetxt
        b = darr.Array(path)
        langs = list(b.readcodelanguages)
        return dict(text=readcodetxt(b), languages=langs,
                    code={l: b.readcode(l) for l in langs})
    except Exception as e:
        return {'error': type(e).__name__}


def observe(a, path, ref, res, extra=None, want_regen=True):
    # the raw files and a fresh read-only open come FIRST: a read through a live 'r+' handle can
    # change the files (np.memmap pads a data file that is too short)
    files = read_files(path)
    fresh = guarded_view(lambda: darr.Array(path))
    o = dict(res=res, live=guarded_view(lambda: a),
             fresh=fresh,
             files=files,
             ref=dict(shape=list(ref.shape), dtype=dtype_info(ref.dtype),
                      data=np.ascontiguousarray(ref).tobytes().hex()))
    if want_regen:
        o['regen'] = fresh_regen(path)
    if extra:
        o.update(extra)
    return o


def call(f):
    try:
        f()
        return ['ok']
    except Exception as e:
        return ['exc', type(e).__name__, str(e)[:160]]


def parse_index(ix):
    """index spec -> python index object. Grammar: int | ['s',a,b,c] | 'E' | 'N' |
    ['t', ...] | ['ia', [ints]] | ['bm', [bools]] | ['f', 1.5] | ['str'] | ['npi', dtype, v] |
    ['a0', v] | ['b', v(, 'np')] | ['rng', [args]] | ['u8a', [ints]]"""
    if isinstance(ix, int):
        return ix
    if ix == 'E':
        return Ellipsis
    if ix == 'N':
        return None
    k = ix[0]
    if k == 's':
        return slice(ix[1], ix[2], ix[3])
    if k == 't':
        return tuple(parse_index(x) for x in ix[1:])
    if k == 'ia':
        return np.array(ix[1], dtype='int64')
    if k == 'bm':
        return np.array(ix[1], dtype=bool)
    if k == 'l':
        return list(ix[1])
    if k == 'f':
        return ix[1]
    if k == 'str':
        return 'x'
    if k == 'npi':          # a NumPy integer scalar of the given type
        return np.dtype(ix[1]).type(ix[2])
    if k == 'a0':           # a 0-d integer array
        return np.array(ix[1], dtype='int64')
    if k == 'b':            # a Python / NumPy boolean scalar
        return np.bool_(ix[1]) if len(ix) > 2 else bool(ix[1])
    if k == 'rng':
        return range(*ix[1])
    if k == 'u8a':          # an index array of a small unsigned type
        return np.array(ix[1], dtype='uint8')
    if k == 'huge':         # a legal advanced index whose result cannot be allocated
        return np.broadcast_to(np.intp(0), (2 ** 48,))
    raise ValueError(ix)


def run_history(case, d, want_regen=True):
    path = os.path.join(d, 'arr')
    dt = np.dtype(case['dtype'])
    init = np.frombuffer(bytes.fromhex(case['init']), dtype=dt).reshape(case['shape']).copy()
    kw = {}
    if case.get('metadata') is not None:
        kw['metadata'] = case['metadata']
    if 0 in init.shape[1:]:
        kw['chunklen'] = 1       # (the default chunk length divides by the size of one row)
    if case.get('iterchunks') and init.shape[0] >= 2:
        # created from an ITERATOR of chunks; the later chunk has the same values in the other byte order /
        # a wider type of the same kind (it is cast to the first chunk's type)
        k = init.shape[0] // 2
        second = init[k:].astype(init.dtype.newbyteorder()) if case['iterchunks'] == 'swapped' else \
            init[k:].astype({'i': 'int64', 'u': 'uint64', 'f': 'float64', 'c': 'complex128'}[init.dtype.kind])
        try:
            a = darr.asarray(path, (c for c in [init[:k].copy(), second]), accessmode=case['mode'],
                             **{kk: v for kk, v in kw.items() if kk != 'chunklen'})
        except Exception as e:
            return [dict(creation_failed=f'{type(e).__name__}: {e}'[:300], files=read_files(path) if os.path.isdir(path) else None)]
    else:
        a = darr.asarray(path, make_layout(init, case.get('layout', 'C')),
                         accessmode=case['mode'], **kw)
    ref = init.copy()
    steps = [observe(a, path, ref, ['ok'], want_regen=want_regen)]
    held = []

    def hold():
        # the whole history runs with the array held open (open_array() context on the live handle):
        # every step must behave as it does outside a context
        if case.get('heldopen'):
            cm = a.open_array()
            cm.__enter__()
            held.append(cm)

    def unhold():
        while held:
            try:
                held.pop().__exit__(None, None, None)
            except Exception:
                pass
    hold()
    for op in case['ops']:
        k = op['op']
        extra = {}
        if k in ('append', 'iterappend'):
            specs = op['items']
            imgs = [image_for_append(s, ref.dtype) for s in specs]
            # the reference: original ++ images of the items before the first bad one
            newref = ref
            allgood = True
            for im in imgs:
                if 'tail' in im and im['tail'] == list(ref.shape[1:]):
                    newref = np.concatenate([newref, im['_img']]).astype(ref.dtype) if im['n'] else newref
                else:
                    allgood = False
                    break
            extra['images'] = [{kk: v for kk, v in im.items() if kk != '_img'} for im in imgs]
            extra['allgood'] = allgood

            fs = op.get('fsize')       # {'chunk': i, 'k': bytes of chunk i that fit}
            if fs is not None:
                # kernel-enforced write failure: the data file may grow by k more
                # bytes once chunk i is reached (RLIMIT_FSIZE, SIGXFSZ ignored)
                extra['fsize'] = fs
                im = imgs[fs['chunk']]
                if 'tail' in im:
                    im['fail_k'] = fs['k']
                # reference: chunks before the failing one
                newref = ref
                for im2 in imgs[:fs['chunk']]:
                    if 'tail' in im2 and im2['tail'] == list(ref.shape[1:]):
                        newref = np.concatenate([newref, im2['_img']]).astype(ref.dtype) if im2['n'] else newref
                    else:
                        break
                extra['images'] = [{kk: v for kk, v in im3.items() if kk != '_img'} for im3 in imgs]
                extra['allgood'] = False

            def gen():
                for i, s in enumerate(specs):
                    if s['kind'] == 'raise':
                        raise Boom('iterable fails')
                    v = build_value(s)
                    if fs is not None and i == fs['chunk']:
                        signal.signal(signal.SIGXFSZ, signal.SIG_IGN)
                        cur = os.path.getsize(os.path.join(path, 'arrayvalues.bin'))
                        if len(a) == 0 and i == 0:
                            cur = 0      # the first chunk of an empty array rewrites the file
                        soft, hard = resource.getrlimit(resource.RLIMIT_FSIZE)
                        resource.setrlimit(resource.RLIMIT_FSIZE, (cur + fs['k'], hard))
                    yield v
            if k == 'append':
                val = build_value(specs[0])
                res = call(lambda: a.append(val))
            elif op.get('aslist'):
                vals = [build_value(s) for s in specs]
                res = call(lambda: a.iterappend(vals))
            else:
                try:
                    res = call(lambda: a.iterappend(gen()))
                finally:
                    if fs is not None:
                        soft, hard = resource.getrlimit(resource.RLIMIT_FSIZE)
                        resource.setrlimit(resource.RLIMIT_FSIZE, (hard, hard))
            # property C03/C09: mode r -> nothing changes
            if a.accessmode == 'r+' or res[0] == 'ok':
                ref = newref
        elif k == 'truncate':
            idx = op['index']
            if op.get('nonint') == 'float':
                idxv = float(idx)
            elif op.get('nonint') == 'npint':
                idxv = np.int64(idx)
            elif op.get('nonint') == 'npint16':
                idxv = np.int16(idx)
            elif op.get('nonint') == 'npuint8':
                idxv = np.uint8(idx)
            elif op.get('nonint') == 'str':
                idxv = str(idx)
            else:
                idxv = idx
            if op.get('bypath'):
                res = call(lambda: darr.truncate_array(path, idxv))
            else:
                res = call(lambda: darr.truncate_array(a, idxv))
            if isinstance(idxv, int) and (a.accessmode == 'r+' or op.get('bypath')):
                new = ref[:idxv]
                if len(new) < len(ref):
                    ref = new.copy()
            if op.get('bypath') and res[0] == 'ok':
                unhold()
                a = darr.Array(path, accessmode=a.accessmode)
                hold()
        elif k == 'setitem':
            ix = parse_index(op['index'])
            val = build_value(op['value'])
            before = ref.copy()
            refres = ['ok']
            try:
                tmp = ref.copy()
                tmp[ix] = val
                newref = tmp
            except Exception as e:
                refres = ['exc', type(e).__name__]
                newref = ref
            res = call(lambda: a.__setitem__(ix, val))
            if a.accessmode == 'r+':
                ref = newref
            # pokes for the model: (byte offset, new bytes) of every changed element
            isz = ref.dtype.itemsize
            bb = np.ascontiguousarray(before).tobytes()
            nb = np.ascontiguousarray(newref).tobytes()
            pokes = []
            for i in range(0, len(nb), isz):
                if bb[i:i + isz] != nb[i:i + isz]:
                    pokes.append([i, nb[i:i + isz].hex()])
            extra['pokes'] = pokes
            extra['refres'] = refres
        elif k == 'setmode':
            res = call(lambda: setattr(a, 'accessmode', op['mode']))
        elif k == 'reopen':
            unhold()
            try:
                a = darr.Array(path, accessmode=op['mode'])
                res = ['ok']
            except Exception as e:
                res = ['exc', type(e).__name__]
            hold()
        elif k == 'metaset':
            res = call(lambda: a.metadata.update(op['value']))
        elif k == 'metaop':
            md = a.metadata
            try:
                extra['nkeys_before'] = len(dict(md))
            except Exception:
                extra['nkeys_before'] = -1
            m, key, val = op['method'], op.get('key', 'a'), op.get('value', 1)
            f = {'update': lambda: md.update({key: val}), 'setitem': lambda: md.__setitem__(key, val),
                 'pop': lambda: md.pop(key), 'popitem': lambda: md.popitem(),
                 'del': lambda: md.__delitem__(key)}[m]
            res = call(f)
        elif k == 'metaclear':
            def clear():
                for key in list(a.metadata.keys()):
                    a.metadata.pop(key)
            res = call(clear)
        elif k == 'delete':
            if op.get('bypath'):
                res = call(lambda: darr.delete_array(path))
            else:
                res = call(lambda: darr.delete_array(a))
            steps.append(dict(res=res, files=read_files(path) if os.path.exists(path) else None,
                              exists=os.path.exists(path)))
            if not os.path.exists(path):
                break
            continue
        else:
            raise ValueError(k)
        steps.append(observe(a, path, ref, res, extra, want_regen=want_regen))
    unhold()
    return steps
