"""C11 -- read-only access mode is enforced for every mutating operation."""
import arrlib
import raglib
import p03
import p04
from arrlib import history_case, mk_op
from raglib import rhistory_case, mk_rop, INDEXTYPES
from common import NUMTYPES

META = dict(
    coq_targets=['CheckArray.vo', 'CheckRagged.vo'],
    rule="every mutating entry point {setitem, append, iterappend, truncate, delete, metadata "
         "update/setitem/pop/popitem/del} x {Array, RaggedArray} x how 'r' was obtained "
         "{accessmode='r' at creation, default reopen, assigning accessmode='r', after random mode "
         "switches} x state {empty first axis, non-empty, ragged with empty values, with/without "
         "metadata}: in 'r' the call must raise and every file stay byte-identical; after switching "
         "to 'r+' the same call must succeed (when it is valid in that state); plus read-only mode "
         "assigned while the array is open (context / running generator), nested open requests, a "
         "metadata object whose own mode was changed, copies (default and accessmode='r'); non-trivial = all",
    trusted_base=[
        "Coq 8.16.1 kernel (coqc), vm_compute for evaluating the model on cases",
        "hand-written models ArrayModel.v / RaggedModel.v (mode gates of every mutator as coded; "
        "writability of empty arrays derived as the code derives it), tied by in-Coq differential "
        "evaluation; delete_array / delete_raggedarray are checked on the implementation only here "
        "(their model is C16's)",
    ],
    assumptions=["an 'r' handle used inside an explicit open_array(accessmode='r+') context is not "
                 "exercised: the property speaks of handles in access mode 'r'"],
)

METAOPS = ['update', 'setitem', 'pop', 'popitem', 'del']


def obtain(how, case):
    """prefix of ops / start mode that puts the handle into mode 'r'"""
    if how == 'created':
        case['mode'] = 'r'
        return []
    case['mode'] = 'r+'
    if how == 'reopen':
        return [dict(op='reopen', mode='r')]
    if how == 'setmode':
        return [dict(op='setmode', mode='r')]
    if how == 'switches':
        return [dict(op='setmode', mode='r'), dict(op='setmode', mode='r+'), dict(op='reopen', mode='r+'),
                dict(op='setmode', mode='r')]
    raise ValueError(how)


def gen(ctx):
    r = ctx.rng
    A, G = [], []
    hows = ['created', 'reopen', 'setmode', 'switches']
    aops = ['set', 'a1', 'it2', 'it0', 't0', 't-1', 'delete'] + ['m:' + m for m in METAOPS]
    for sh in [(0,), (3,), (0, 2), (2, 2)] + ([] if ctx.quick else [(1,), (0, 1, 2), (2, 1, 3), (5,), (0, 3), (3, 2)]):
        for meta in (None, {'a': 1}):
            for how in hows:
                for o in aops:
                    nt = r.choice(NUMTYPES); bo = r.choice(['little', 'big'])
                    c = history_case(r, nt, bo, sh, [], metadata=meta)
                    pre = obtain(how, c)
                    if o == 'delete':
                        op = dict(op='delete', bypath=False)
                    elif o.startswith('m:'):
                        op = dict(op='metaop', method=o[2:], key='a', value=5)
                    elif o == 'set':
                        op = dict(op='setitem', index=['s', None, None, None],
                                  value=dict(kind='scalar', value=r.randrange(1, 100)))
                    else:
                        op = mk_op(o, r, nt, bo, sh[1:])
                    c['ops'] = pre + [op, dict(op='setmode', mode='r+'), op]
                    c['letters'] = [how, o]
                    c['probe'] = len(pre) + 1      # index (in steps) of the read-only attempt
                    c['opname'] = o
                    A.append(c)
    rops = ['a1', 'a0', 'it2', 'it0', 't0', 't-1', 'delete'] + ['m:' + m for m in METAOPS]
    for start in [None, [0], [2, 0, 1], [0, 0]] + ([] if ctx.quick else [[1], [3, 2, 1, 0, 1, 2, 3], [0, 2], [1, 1, 1, 1, 1, 1]]):
        for meta in (None, {'a': 1}):
            for how in hows:
                for o in rops:
                    if ctx.quick and r.random() < 0.4:
                        continue
                    nt = r.choice(NUMTYPES); bo = r.choice(['little', 'big'])
                    atom = r.choice([(), (2,)])
                    c = rhistory_case(r, nt, bo, atom, r.choice(INDEXTYPES), start, [], metadata=meta)
                    pre = obtain(how, c)
                    if o == 'delete':
                        op = dict(op='delete', bypath=False)
                    elif o.startswith('m:'):
                        op = dict(op='metaop', method=o[2:], key='a', value=5)
                    else:
                        op = mk_rop(o, r, nt, bo, atom)
                    c['ops'] = pre + [op, dict(op='setmode', mode='r+'), op]
                    c['letters'] = [how, o]
                    c['probe'] = len(pre) + 1
                    c['opname'] = o
                    G.append(c)
    return A, G


def files_of(st, kind):
    if kind == 'A':
        f = st['files']
        return (f['data'], json_norm(f['descr']), f['readme'], json_norm(f['meta']), f['listing'])
    return tuple((st[n]['data'], json_norm(st[n]['descr']), st[n]['readme'], st[n]['listing'])
                 for n in ('values', 'indices')) + \
        (json_norm(st['top']['descr']), st['top']['readme'], json_norm(st['top']['meta']), st['top']['listing'])


def json_norm(x):
    import json
    return json.dumps(x, sort_keys=True)


def valid_in_rplus(case, kind, prev):
    """does the property expect the call to succeed after switching to r+ ?"""
    o = case['opname']
    n = (prev['ref']['shape'][0] if kind == 'A' else len(prev['ref']))
    hasmeta = (prev['files']['meta'] if kind == 'A' else prev['top']['meta']) is not None
    if o in ('t0', 't-1'):
        return n > 0
    if o in ('m:pop', 'm:popitem', 'm:del'):
        return hasmeta
    return True


def judge(ctx, case, steps, kind):
    p = case['probe']
    key = dict(kind='Array' if kind == 'A' else 'RaggedArray', how=case['letters'][0], op=case['opname'],
               start=case.get('shape', case.get('sublens')), meta=bool(case['metadata']))
    ctx.seen(key); ctx.count('op:' + case['opname']); ctx.count('how:' + case['letters'][0])
    before, probe = steps[p - 1], steps[p]
    mode = before['live'].get('mode')
    if mode != 'r':
        ctx.fail('harness-mode', key, observed=mode); return
    if probe['res'][0] == 'ok':
        ctx.fail('readonly-call-accepted:' + case['opname'], dict(case=case, step=p), detail='no exception in mode r',
                 observed=probe['res']); return
    if case['opname'] == 'delete':
        if not probe.get('exists', True):
            ctx.fail('readonly-delete-removed', dict(case=case, step=p), observed=probe); return
        after = dict(probe)
        if kind == 'A':
            same = (probe['files']['data'], probe['files']['readme'], probe['files']['listing']) == \
                   (before['files']['data'], before['files']['readme'], before['files']['listing'])
        else:
            same = probe.get('listing') == before['top']['listing']
        if not same:
            ctx.fail('readonly-delete-changed-files', dict(case=case, step=p), observed=probe.get('listing'))
        # after switching to r+ the delete must succeed
        last = steps[-1]
        if last.get('exists', True):
            ctx.fail('rplus-delete-failed', dict(case=case, step=len(steps) - 1), observed=last.get('res'))
        return
    if files_of(probe, kind) != files_of(before, kind):
        ctx.fail('readonly-call-changed-files:' + case['opname'], dict(case=case, step=p),
                 detail='files differ after a refused call', observed=probe['res']); return
    last, prev = steps[-1], steps[-2]
    if valid_in_rplus(case, kind, prev) and last['res'][0] != 'ok':
        ctx.fail('rplus-call-failed:' + case['opname'], dict(case=case, step=len(steps) - 1),
                 detail="the call does not succeed after switching to 'r+'", observed=last['res'])


def run(ctx):
    A, G = gen(ctx)
    obsA = ctx.run_impl(A, 'history', timeout=2400)
    obsG = ctx.run_impl(G, 'rhistory', timeout=2400)
    termsA, keepA, termsG, keepG = [], [], [], []
    for case, steps in zip(A, obsA):
        if isinstance(steps, dict):
            ctx.fail('harness-error', case['letters'], observed=steps); continue
        judge(ctx, case, steps, 'A')
        ctx.traces += len(steps)
        if case['opname'] != 'delete':
            termsA.append(arrlib.history_term(case, steps)); keepA.append((case, steps))
    for case, steps in zip(G, obsG):
        if isinstance(steps, dict):
            ctx.fail('harness-error', case['letters'], observed=steps); continue
        judge(ctx, case, steps, 'G')
        ctx.traces += len(steps)
        if case['opname'] != 'delete':
            termsG.append(raglib.rhistory_term(case, steps)); keepG.append((case, steps))
    # read-only mode while the array is open (context, live generator), nested requests, copies
    S = [dict(kind=k, shape=sh) for k in ('ctx_switch', 'gen_switch', 'nested_rw', 'meta_mode') for sh in ([5], [4, 2], [0], [0, 3])
         if not (k == 'gen_switch' and sh[0] == 0)]
    S += [dict(kind='rmeta_mode'), dict(kind='rctx_switch')]
    S += [dict(kind=k, shape=sh) for k in ('exc_exit', 'gen_break') for sh in ([5], [4, 2])]
    S += [dict(kind=k, nonempty=ne, default=df) for k in ('ragged_copy', 'array_copy') for ne in (False, True) for df in (True, False)]
    for case, ob in zip(S, ctx.run_impl(S, 'open_scenarios', timeout=1200)):
        key = dict(case)
        if 'harness_error' in ob or 'error' in ob:
            ctx.fail('harness-error', key, observed=ob); continue
        ctx.seen(key); ctx.count('scenario:' + case['kind'])
        if case['kind'].endswith('_copy') and ob.get('copy_mode') != 'r':
            ctx.fail('copy-not-readonly', key, expected="accessmode 'r'", observed=ob.get('copy_mode'))
        for at in ob['attempts']:
            ctx.evaluations += 1
            if at['mode'] != 'r':
                continue
            if at['raised'] is None:
                ctx.fail('readonly-call-accepted:' + case['kind'] + ':' + at['op'], key, observed=at)
            elif not at['unchanged']:
                ctx.fail('readonly-call-changed-files:' + case['kind'] + ':' + at['op'], key, observed=at)
        if 'rplus_after' in ob and ob['rplus_after'] != 'ok':
            ctx.fail('rplus-call-failed:' + case['kind'], key, observed=ob['rplus_after'])
    if keepA:
        c, s = keepA[7]
        ctx.sample(dict(kind='Array', how=c['letters'][0], op=c['opname'], shape=c['shape'],
                        results=[x['res'][:2] for x in s]))
    if keepG:
        c, s = keepG[5]
        ctx.sample(dict(kind='RaggedArray', how=c['letters'][0], op=c['opname'], start=c['sublens'],
                        results=[x['res'][:2] for x in s]))
    bad = ctx.coq_check('c11a', arrlib.PRELUDE, termsA, shard=150)
    badg = ctx.coq_check('c11g', raglib.PRELUDE, termsG, shard=100)
    if bad is None or badg is None:
        ctx.model_ok = False
        return
    for i in bad[:3]:
        p03.report_mismatch(ctx, 'c11dbg%d' % i, *keepA[i])
    for i in badg[:3]:
        p04.report_rmismatch(ctx, 'c11gdbg%d' % i, *keepG[i])
