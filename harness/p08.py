"""C08 -- README.txt documentation is current after every operation."""
import arrlib
import raglib
import p03
import p04
from arrlib import history_case
from raglib import rhistory_case, INDEXTYPES
from common import NUMTYPES

META = dict(
    coq_targets=['CheckArray.vo', 'CheckRagged.vo'],
    rule="histories of C03 and C04 extended with metadata creation/deletion; ragged arrays grown "
         "past 5 and past 6 subarrays; after every step (i) README bytes == documentation "
         "regenerated from a FRESHLY opened handle (robust to wording, exact about staleness), "
         "(ii) the facts parsed from the README (numeric type, byte order, dimensions, metadata "
         "sentence; ragged: count, rank, type, first-five listing, '...', last) == the model's "
         "facts == the data, (iii) every snippet == current readcode(); non-trivial = the step "
         "changed shape or metadata presence",
    trusted_base=[
        "Coq 8.16.1 kernel (coqc), vm_compute for evaluating the model on cases",
        "translator gen/py2v.py: Gen_effects.v (control skeletons of _update_len / _update_lens, regenerated "
        "from the source on every run) with the reading of its calls as effect kinds (EffectOrder*.v, Skel.runs)",
        "hand-written models ArrayModel.v / RaggedModel.v: README content is abstracted to facts "
        "(the snippets are a function of them, C06/C07); tied by in-Coq differential evaluation",
        "harness parsing of README prose (arrlib.readme_facts, raglib.ragged_readme_facts)",
    ],
    assumptions=["README wording/wrapping is not modelled; it is compared against regeneration"],
)


def gen(ctx):
    r = ctx.rng
    A, G = [], []
    for _ in range(70 if ctx.quick else 700):
        nt = r.choice(NUMTYPES); bo = r.choice(['little', 'big'])
        sh = r.choice([(0,), (3,), (2, 2), (0, 2), (2, 1, 3)])
        letters = [r.choice(['a1', 'aod', 'it2', 'itbad', 't-1', 't0', 't1', 'tni', 'ms', 'mc', 'ms', 'mpi', 'mpi', 'ro', 'abad', 'set', 'mr', 'mrw'])
                   for _ in range(r.randint(2, 7 if ctx.quick else 20))]
        A.append(history_case(r, nt, bo, sh, letters, metadata=r.choice([None, {'a': 1}, None])))
    for _ in range(45 if ctx.quick else 450):
        nt = r.choice(NUMTYPES); bo = r.choice(['little', 'big'])
        start = r.choice([None, [1], [2, 0, 1, 3], [1, 2, 3, 4, 5], [1, 1, 1, 1, 1, 1], [3, 2, 1, 0, 1, 2, 3],
                          [2, 1, 0, 0], [1, 0], [1, 2, 3, 0, 0, 0, 0]])
        letters = [r.choice(['a1', 'a3', 'a0', 'it2', 't-1', 't-1', 't1', 't2', 'tni', 'aod', 'abad', 'itbad', 'ro', 'ms', 'mc', 'mpi'])
                   for _ in range(r.randint(2, 6 if ctx.quick else 16))]
        G.append(rhistory_case(r, nt, bo, r.choice(p04.ATOMS), r.choice(INDEXTYPES), start, letters))
    return A, G


def run(ctx):
    A, G = gen(ctx)
    obsA = ctx.run_impl(A, 'history', timeout=2400)
    obsG = ctx.run_impl(G, 'rhistory', timeout=2400)
    raglib.locale_independent(ctx, A, obsA, 'history', 'array-history')
    raglib.locale_independent(ctx, G, obsG, 'rhistory', 'ragged-history')
    # metadata changed through handles that are not kept
    T = [dict(kind=k, how=h) for k in ('Array', 'RaggedArray') for h in ('oneliner', 'helper', 'meta_rplus', 'failing_update')]
    for case, ob in zip(T, ctx.run_impl(T, 'temp_handle')):
        key = dict(scenario='metadata through a temporary handle', **case)
        if isinstance(ob, dict):
            ctx.fail('harness-error', key, observed=ob); continue
        ctx.seen(key); ctx.count('temp-handle'); ctx.evaluations += len(ob)
        for st in ob:
            if 'error' in st:
                ctx.fail('temporary-handle-metadata-failed', key, observed=st)
            elif not st['same'] or (case['kind'] == 'Array' and st['mentions'] != st['hasmeta']):
                ctx.fail('readme-stale-after-metadata-change-through-temporary-handle', key,
                         expected='README == documentation regenerated from a fresh handle', observed=st)
    # re-creation over an existing array with overwrite=True
    O = [dict(old=o, how=h, meta_old=mo, meta_new=mn) for o in ('Array', 'RaggedArray')
         for h in ('asarray', 'create_array', 'copy', 'asraggedarray') for mo in (True, False) for mn in (True, False)]
    for case, ob in zip(O, ctx.run_impl(O, 'overwrite', timeout=1200)):
        key = dict(kind='overwrite', **case)
        if 'harness_error' in ob:
            ctx.fail('harness-error', key, observed=ob); continue
        ctx.seen(key, nontrivial=case['meta_old'] != case['meta_new']); ctx.count('overwrite:' + case['how']); ctx.evaluations += 1
        if ob['res'][0] != 'ok':
            ctx.fail('overwrite-failed', key, observed=ob['res']); continue
        if not ob['same']:
            ctx.fail('readme-stale-after-overwrite', key, expected='README == documentation regenerated from a fresh handle',
                     observed=dict(mentions_metadata=ob['mentions'], metadata_file=ob['hasmeta'], listing=ob['listing']))
        if ob['hasmeta'] != ob['expect_meta']:
            ctx.fail('metadata-file-after-overwrite', key, expected=ob['expect_meta'], observed=ob['hasmeta'])
        if case['how'] != 'asraggedarray' and ob['mentions'] != ob['hasmeta']:
            ctx.fail('readme-metadata-mention-after-overwrite', key, expected=ob['hasmeta'], observed=ob['mentions'])
    termsA, keepA = [], []
    for case, steps in zip(A, obsA):
        key = dict(kind='Array', nt=case['nt'], shape=case['shape'], letters=case['letters'],
                   meta=bool(case['metadata']))
        if isinstance(steps, dict):
            ctx.fail('harness-error', key, observed=steps); continue
        changed = False
        for i, st in enumerate(steps):
            why = arrlib.check_c08(st)
            if why:
                ctx.fail('array-readme-stale:' + (case['ops'][i - 1]['op'] if i else 'create'),
                         dict(case=case, step=i), detail=why,
                         observed=dict(readme_facts=arrlib.readme_facts(st['files']['readme']),
                                       fresh=st['fresh'].get('shape'), meta=st['files']['meta']))
                break
            if i and (st['ref']['shape'] != steps[i - 1]['ref']['shape'] or
                      (st['files']['meta'] is None) != (steps[i - 1]['files']['meta'] is None)):
                changed = True
        ctx.seen(key, nontrivial=changed); ctx.count('array-cases'); ctx.traces += len(steps)
        termsA.append(arrlib.history_term(case, steps)); keepA.append((case, steps))
    termsG, keepG = [], []
    for case, steps in zip(G, obsG):
        key = dict(kind='RaggedArray', **p04.key_of(case))
        if isinstance(steps, dict):
            ctx.fail('harness-error', key, observed=steps); continue
        changed = False
        for i, st in enumerate(steps):
            why = raglib.check_c08r(st)
            if why:
                ctx.fail('ragged-readme-stale:' + (case['ops'][i - 1]['op'] if i else 'create'),
                         dict(case=case, step=i), detail=why,
                         observed=dict(facts=raglib.ragged_readme_facts(st['top']['readme']),
                                       lengths=[r_['shape'][0] for r_ in st['ref']]))
                break
            n = len(st['ref'])
            ctx.count('ragged n>6' if n > 6 else 'ragged n>5' if n > 5 else 'ragged n<=5')
            if i and len(st['ref']) != len(steps[i - 1]['ref']):
                changed = True
        ctx.seen(key, nontrivial=changed); ctx.traces += len(steps)
        termsG.append(raglib.rhistory_term(case, steps)); keepG.append((case, steps))
    if keepG:
        c, s = keepG[len(keepG) // 2]
        ctx.sample(dict(kind='RaggedArray', key=p04.key_of(c),
                        readme_facts_final=raglib.ragged_readme_facts(s[-1]['top']['readme'])))
    if keepA:
        c, s = keepA[len(keepA) // 2]
        ctx.sample(dict(kind='Array', letters=c['letters'], readme_facts_final=arrlib.readme_facts(s[-1]['files']['readme'])))
    bad = ctx.coq_check('c08a', arrlib.PRELUDE, termsA, shard=150)
    badg = ctx.coq_check('c08g', raglib.PRELUDE, termsG, shard=100)
    if bad is None or badg is None:
        ctx.model_ok = False
        return
    for i in bad[:3]:
        p03.report_mismatch(ctx, 'c08dbg%d' % i, *keepA[i])
    for i in badg[:3]:
        p04.report_rmismatch(ctx, 'c08gdbg%d' % i, *keepG[i])
