"""C19 implementation side: each schedule runs in its own child interpreter on a copy of
a multi-MB array."""
import json
import os
import shutil
import subprocess
import sys
import numpy as np
import darr

_template = {}


def template(d, n):
    key = (os.path.dirname(d), n)
    if key not in _template:
        p = os.path.join(os.path.dirname(d), f'template_{n}')
        if not os.path.exists(p):
            darr.asarray(p, np.arange(n, dtype='int64'), accessmode='r+')
        _template[key] = p
    return _template[key]


def schedule(case, d):
    n = case['n']
    path = os.path.join(d, 'arr')
    shutil.copytree(template(d, n), path)
    env = dict(os.environ)
    p = subprocess.run([sys.executable, os.path.join(os.path.dirname(__file__), 'sched_child.py')],
                       input=json.dumps(dict(path=path, acts=case['acts'], mode=case.get('mode', 'r+'))), capture_output=True, text=True,
                       env=env, timeout=300)
    lines = [l for l in p.stdout.splitlines() if l.strip()]
    out = dict(returncode=p.returncode)
    last = None
    progress = 0
    for l in lines:
        try:
            j = json.loads(l)
        except Exception:
            continue
        if 'outs' in j:
            last = j
        elif 'progress' in j:
            progress = j['progress']
    if last is not None:
        out.update(last)
    else:
        out['progress'] = progress
        out['stderr'] = p.stderr[-400:]
    # the data file afterwards (writes must have taken effect)
    a = darr.Array(path)
    out['written'] = [[int(i), int(a[i])] for i in case.get('probe', [])]
    return out
