"""Runs ONE schedule on one Array object in its own interpreter (a crash must be observed,
not suffered). stdin: JSON {path, acts}; stdout: JSON {outs, final}."""
import json
import os
import sys
import warnings
warnings.simplefilter('ignore')
import numpy as np
import darr


def main():
    job = json.load(sys.stdin)
    a = darr.Array(job['path'], accessmode=job.get('mode', 'r+'))
    gens = []
    ctxs = []
    outs = []
    for act in job['acts']:
        k = act[0]
        if k == 'start':
            _, c, s, st, en, fl = act
            gens.append(a.iterchunks(c, stepsize=s, startindex=st, endindex=en, include_remainder=fl))
            outs.append([0])
        elif k == 'advance':
            try:
                ch = next(gens[act[1]])
                outs.append([1, int(len(ch)), int(ch[0]), int(ch[len(ch) // 2]), int(ch[-1])] if len(ch) else [1, 0])
            except StopIteration:
                outs.append([2])
            except ValueError:
                outs.append([4])
        elif k == 'close':
            gens[act[1]].close()
            outs.append([0])
        elif k in ('enter', 'enterrw'):
            cm = a.open_array(accessmode='r+') if k == 'enterrw' else a.open_array()
            cm.__enter__()
            ctxs.append(cm)
            outs.append([0])
        elif k == 'exit':
            if ctxs:
                ctxs.pop().__exit__(None, None, None)
            outs.append([0])
        elif k == 'exitexc':       # the with-block is left through an exception
            if ctxs:
                e = IndexError('left through an exception')
                try:
                    ctxs.pop().__exit__(IndexError, e, None)
                except IndexError:
                    pass
            outs.append([0])
        elif k == 'read':
            outs.append([3, int(a[act[1]])])
        elif k == 'write':
            a[act[1]] = act[2]
            outs.append([0])
        elif k == 'hide':
            dp = os.path.join(job['path'], 'arrayvalues.bin')
            os.rename(dp, dp + '.away')
            try:
                outs.append([3, int(a[0])])
            except Exception:
                outs.append([4])
            finally:
                os.rename(dp + '.away', dp)
        elif k == 'readerr':
            try:
                a[len(a) + 5]
                outs.append([3, 0])
            except IndexError:
                outs.append([4])
        elif k == 'setmode':
            a.accessmode = act[1]
            outs.append([0])
        elif k == 'shrink':
            darr.truncate_array(a, act[2])
            outs.append([0])
        elif k == 'grow':
            n = len(a)           # element i holds i
            a.append(np.arange(n, n + act[1], dtype='int64'))
            outs.append([0])
        sys.stdout.write(json.dumps(dict(progress=len(outs))) + '\n')
        sys.stdout.flush()
    datafile = os.path.realpath(os.path.join(job['path'], 'arrayvalues.bin'))
    nfd = 0
    for fd in os.listdir('/proc/self/fd'):
        try:
            if os.path.realpath(os.readlink(f'/proc/self/fd/{fd}')) == datafile:
                nfd += 1
        except OSError:
            pass
    nmap = sum(1 for line in open('/proc/self/maps') if datafile in line)
    final = dict(users=getattr(a, '_memmapusers', 0), cached=a._memmap is not None, fds=nfd, maps=nmap)
    sys.stdout.write(json.dumps(dict(outs=outs, final=final)) + '\n')


if __name__ == '__main__':
    main()
