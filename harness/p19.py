"""C19 -- interleaved iterators/contexts on one Array are memory-safe and coherent."""
from common import cz, czl, copt, cbool, parse_coq_value

META = dict(
    coq_targets=['CheckSched.vo'],
    rule="well-formed interleavings of {start generator (3 parameter sets incl. overlapping steps and "
         "an invalid one), advance, close, enter context, exit context, read element, write element, append "
         "1 / 3 / 1000 elements, truncate by 1 .. 320000 elements (also inside contexts and while generators "
         "are active)} "
         "for up to 3 generators and 2 nested contexts, random prefixes of length 3..9 completed by "
         "finishing / abandoning the survivors in random order, plus the 6-action schedule that "
         "crashed the pinned tree; each schedule runs in its OWN interpreter on a 4.8 MB int64 array; "
         "exit status / signal, every chunk (length, first, middle, last value), every value read, the "
         "user counter, the cached map and the open fds / mappings of the data file at the end are "
         "compared with the model; non-trivial = at least two users overlap",
    trusted_base=[
        "Coq 8.16.1 kernel (coqc), vm_compute for evaluating the model on cases",
        "hand-written model coq/Sched.v (Array._open_array's user-counting protocol, iterchunks reading "
        "through the object's current map, open_array, __getitem__/__setitem__, _update_len renewing the "
        "map); frames via the GENERATED iterindices; tied by in-Coq differential evaluation of whole schedules",
        "that touching an unmapped page or a page beyond the end of the file kills the interpreter is a "
        "fact about the runtime, observed (child exit status), not modelled: the theorem shows the "
        "protocol never reads through a closed map nor beyond the present length",
    ],
    assumptions=["single-threaded interleavings (generator steps are atomic)"],
)

PRELUDE = ("From Coq Require Import ZArith List Bool.\nFrom Darr Require Import Base Gen_frames Sched CheckArray CheckSched.\n"
           "Import ListNotations.\nOpen Scope Z_scope.\n")
N = 600000
PARAMS = [[200000, None, None, None, True], [250000, 100000, 50000, None, True], [N + 5, None, None, None, True],
          [150000, 300000, None, 500000, False], [100000, None, 400000, 300000, True]]


def gen(ctx):
    r = ctx.rng
    cases = []
    # the pinned-tree crash
    cases.append(dict(n=N, acts=[['start'] + PARAMS[0], ['start'] + PARAMS[1], ['advance', 0], ['advance', 1],
                                 ['advance', 0], ['advance', 0], ['advance', 0], ['advance', 0], ['advance', 1],
                                 ['write', 260000, -5], ['advance', 1], ['advance', 1], ['advance', 1], ['advance', 1], ['advance', 1]],
                      probe=[260000]))
    # overlapping frames with a write into the overlap between two next() calls; a context left through
    # an exception while a generator is suspended
    cases.append(dict(n=N, acts=[['start'] + PARAMS[1], ['advance', 0], ['write', 275000, -7], ['write', 150000, -8],
                                 ['advance', 0], ['write', 375000, -3], ['advance', 0], ['advance', 0], ['advance', 0],
                                 ['advance', 0], ['advance', 0]], probe=[275000, 150000, 375000]))
    cases.append(dict(n=N, acts=[['start'] + PARAMS[0], ['advance', 0], ['enter'], ['readerr'], ['exitexc'], ['advance', 0],
                                 ['enter'], ['enter'], ['exitexc'], ['advance', 0], ['exit'], ['advance', 0], ['advance', 0]],
                      probe=[]))
    # a read-only handle: explicit requests for write access while generators are suspended
    cases.append(dict(n=N, mode='r', acts=[['start'] + PARAMS[0], ['advance', 0], ['enterrw'], ['read', 5], ['exit'], ['advance', 0],
                                          ['start'] + PARAMS[1], ['advance', 1], ['enter'], ['enterrw'], ['exit'], ['advance', 1],
                                          ['exit'], ['advance', 0], ['advance', 0], ['advance', 1], ['close', 1]], probe=[]))
    for _ in range(120 if ctx.quick else 1200):
        acts, gst, depth, probe = [], [], 0, []
        curlen = N
        for _ in range(r.randint(3, 9)):
            opts = ['read', 'write', 'grow', 'shrink', 'hide', 'readerr']
            if len(gst) < 3: opts += ['start', 'start']
            live = [i for i, s in enumerate(gst) if s != 'done']
            if live: opts += ['advance'] * 4 + ['close']
            if depth < 2: opts += ['enter']
            if depth > 0: opts += ['exit', 'exitexc']
            k = r.choice(opts)
            if k == 'start':
                acts.append(['start'] + r.choice(PARAMS)); gst.append('new')
            elif k == 'advance':
                acts.append(['advance', r.choice(live)])
            elif k == 'close':
                g = r.choice(live); acts.append(['close', g]); gst[g] = 'done'
            elif k == 'enter':
                acts.append(['enter']); depth += 1
            elif k in ('exit', 'exitexc'):
                acts.append([k]); depth -= 1
            elif k == 'read':
                acts.append(['read', r.choice([r.randrange(curlen), curlen - 1])])
            elif k in ('hide', 'readerr'):
                acts.append([k])
            elif k == 'grow':
                inc = r.choice([1, 3, 1000])
                curlen += inc
                acts.append(['grow', inc, curlen])
            elif k == 'shrink':
                # truncate_array on the same object, also while generators are suspended and inside
                # contexts (frames still to come are clipped to the new length)
                dec = r.choice([1, 1000, 150000, 320000])
                if curlen - dec < 50000:
                    dec = 1
                curlen -= dec
                acts.append(['shrink', dec, curlen])
            else:
                i = r.choice([0, 199999, 200000, 260000, N - 1, r.randrange(N)])
                i = min(i, curlen - 1)
                acts.append(['write', i, r.randrange(-9, 0)]); probe.append(i)
        # finish the survivors in random order
        todo = [('g', i) for i, s in enumerate(gst) if s != 'done'] + [('c', None)] * depth
        r.shuffle(todo)
        for kind, i in todo:
            if kind == 'c':
                acts.append(['exit'])
            elif r.random() < 0.3:
                acts.append(['close', i])
            else:
                acts += [['advance', i]] * 8        # exhaust (at most 6 frames + stop)
        cases.append(dict(n=N, acts=acts, probe=sorted(set(i for i in probe if i < curlen))))
    # the array is truncated under a running generator (a bus error on the pinned tree)
    cases.append(dict(n=N, acts=[['start'] + PARAMS[0], ['advance', 0], ['shrink', N - 250000, 250000], ['advance', 0],
                                 ['advance', 0], ['advance', 0], ['enter'], ['start'] + PARAMS[1], ['advance', 1],
                                 ['shrink', 190000, 60000], ['read', 59999], ['advance', 1], ['grow', 3, 60003], ['advance', 1],
                                 ['advance', 1], ['advance', 1], ['advance', 1], ['exit']], probe=[]))
    # a read-only handle is switched to 'r+' while a generator / a context keeps the array open, then the
    # length changes and an element is written (the renewed map must be writable)
    cases.append(dict(n=N, mode='r', acts=[['start'] + PARAMS[0], ['advance', 0], ['setmode', 'r+', N], ['grow', 3, N + 3],
                                          ['write', N + 1, -4], ['read', N + 1], ['advance', 0], ['shrink', 2, N + 1], ['write', 7, -2],
                                          ['advance', 0], ['advance', 0], ['advance', 0]], probe=[7]))
    cases.append(dict(n=N, mode='r', acts=[['enter'], ['setmode', 'r+', N], ['grow', 1, N + 1], ['write', N, -6], ['read', N],
                                          ['start'] + PARAMS[1], ['advance', 0], ['exit'], ['write', 3, -1], ['close', 0]], probe=[3, N]))
    # a read-only handle opened for WRITING by a context; the length changes inside it and an element is written
    cases.append(dict(n=N, mode='r', acts=[['enterrw'], ['write', 4, -9], ['shrink', 2, N - 2], ['write', 5, -3], ['read', 5],
                                          ['start'] + PARAMS[0], ['advance', 0], ['shrink', 1, N - 3], ['write', N - 4, -4], ['read', N - 4],
                                          ['exit'], ['advance', 0], ['close', 0]], probe=[4, 5, N - 4]))
    # an array WITHOUT elements is opened in a context and data are appended inside it: the stand-in used for
    # empty arrays must be replaced by a real map
    cases.append(dict(n=0, acts=[['enter'], ['grow', 3, 3], ['read', 2], ['write', 1, -5], ['read', 1], ['start', 2, None, None, None, True],
                                 ['advance', 0], ['grow', 1, 4], ['exit'], ['advance', 0], ['advance', 0], ['read', 3]], probe=[1]))
    # an array without elements: every generator raises at its first next(), every element access raises
    for _ in range(6 if ctx.quick else 60):
        acts, depth, ng = [], 0, 0
        for _ in range(r.randint(3, 8)):
            k = r.choice(['start', 'advance', 'enter', 'exit', 'readerr', 'hide', 'close'])
            if k == 'start' and ng < 2:
                acts.append(['start'] + r.choice(PARAMS[:2])); ng += 1
            elif k in ('advance', 'close') and ng:
                acts.append([k, r.randrange(ng)])
            elif k == 'enter' and depth < 2:
                acts.append(['enter']); depth += 1
            elif k == 'exit' and depth:
                acts.append(['exit']); depth -= 1
            elif k == 'readerr':
                acts.append(['readerr'])
            elif k == 'hide' and depth == 0:
                acts.append(['hide'])
        acts += [['exit']] * depth + [['advance', g] for g in range(ng)]
        cases.append(dict(n=0, acts=acts, probe=[]))
    return cases


def act_term(a):
    k = a[0]
    if k == 'start':
        _, c, s, st, en, fl = a
        return f"(AStart {cz(c)} {copt(s)} {copt(st)} {copt(en)} {cbool(fl)})"
    if k == 'advance': return f"(AAdvance {a[1]}%nat)"
    if k == 'close': return f"(AClose {a[1]}%nat)"
    if k == 'enter': return "AEnter"
    if k in ('exit', 'exitexc'): return "AExit"
    if k == 'enterrw': return "AEnter"
    if k == 'read': return f"(ARead {cz(a[1])})"
    if k == 'write': return f"(AWrite {cz(a[1])} {cz(a[2])})"
    if k in ('grow', 'shrink', 'setmode'): return f"(AResize {cz(a[2])})"    # (a mode change renews the open map at the same length)
    if k == 'hide': return "AOpenFail"
    if k == 'readerr': return "AAccessErr"
    raise ValueError(a)


def run(ctx):
    cases = gen(ctx)
    obs = ctx.run_impl(cases, 'schedule', timeout=3000)
    terms, keep = [], []
    for case, ob in zip(cases, obs):
        key = dict(acts=[' '.join(str(x) for x in a) for a in case['acts']])
        if 'harness_error' in ob:
            ctx.fail('harness-error', key, observed=ob); continue
        kinds = [a[0] for a in case['acts']]
        overlap = kinds.count('start') + kinds.count('enter') >= 2
        ctx.seen(key, nontrivial=overlap); ctx.count('len=%d' % min(len(case['acts']), 30))
        for k in set(kinds):
            ctx.count('has:' + k)
        if ob['returncode'] != 0 or 'outs' not in ob:
            ctx.fail('interpreter-died', key, expected='exit status 0',
                     observed=dict(returncode=ob['returncode'], after_action=ob.get('progress'), stderr=ob.get('stderr')))
            continue
        fin = ob['final']
        if fin['users'] != 0 or fin['cached'] or fin['fds'] != 0 or fin['maps'] != 0:
            ctx.fail('file-handle-leak', key, expected='no user, no cached map, no fd, no mapping', observed=fin)
        # writes took effect
        lastw = {}
        for a in case['acts']:
            if a[0] == 'write':
                lastw[a[1]] = a[2]
            elif a[0] == 'shrink':
                lastw = {i: v for i, v in lastw.items() if i < a[2]}
        for i, v in ob['written']:
            if lastw.get(i, i) != v:
                ctx.fail('write-lost', key, expected=[i, lastw.get(i, i)], observed=[i, v])
        # coherence, stated directly: every chunk shows every earlier write (frames by the reference
        # iterindices of C14, for the length the array has at the generator's first next())
        from p14 import ref_iterindices
        wr, curlen, gens = {}, case['n'], []
        for a, o in zip(case['acts'], ob['outs']):
            if a[0] == 'start':
                gens.append(dict(params=a[1:], frames=None))
            elif a[0] == 'grow':
                curlen = a[2]
            elif a[0] == 'shrink':
                curlen = a[2]
                wr = {i: v for i, v in wr.items() if i < curlen}
            elif a[0] == 'write':
                wr[a[1]] = a[2]
            elif a[0] == 'close':
                gens[a[1]]['frames'] = []
            elif a[0] == 'advance':
                gdesc = gens[a[1]]
                if gdesc['frames'] is None:
                    c, s, st, en, fl = gdesc['params']
                    rr = ref_iterindices(curlen, c, s, st, en, fl)
                    gdesc['frames'] = list(rr[1]) if rr[0] == 'ok' else []
                if o[0] == 1 and gdesc['frames']:
                    x, y = gdesc['frames'].pop(0)
                    x, y = min(x, curlen), min(y, curlen)       # a[frame] for the length the array has NOW
                    want = ([1, y - x] + [wr.get(i, i) for i in (x, x + (y - x) // 2, y - 1)]) if y > x else [1, 0]
                    if o != want:
                        ctx.fail('chunk-not-current', key, expected=want, observed=o)
                        break
        obsl = "[" + "; ".join(czl(o) for o in ob['outs']) + "]"
        final = czl([fin['users'], 1 if fin['cached'] else 0, fin['maps'] and 1 or (1 if fin['cached'] else 0)])
        terms.append(f"chk_sched {cz(case['n'])} [" + "; ".join(act_term(a) for a in case['acts']) + f"] {obsl} {final}")
        keep.append((key, case, ob))
        ctx.traces += len(case['acts'])
    if keep:
        k, c, ob = keep[0]
        ctx.sample(dict(schedule=k['acts'], outcomes=ob['outs'], final=ob['final'], returncode=ob['returncode']))
        k, c, ob = keep[len(keep) // 2]
        ctx.sample(dict(schedule=k['acts'], outcomes=ob['outs'], final=ob['final']))
    bad = ctx.coq_check('c19', PRELUDE, terms, shard=100)
    if bad is None:
        ctx.model_ok = False
        return
    for i in bad[:5]:
        key, case, ob = keep[i]
        t = terms[i].replace('chk_sched', 'dbg_sched', 1)
        t = t[:t.index('] [') + 1]
        txt = ctx.coq_show('c19dbg%d' % i, PRELUDE, t)
        model = parse_coq_value(txt)
        first = None
        if model:
            impl = ob['outs'] + [[ob['final']['users'], 1 if ob['final']['cached'] else 0, 1 if ob['final']['cached'] else 0]]
            for j, (m, o) in enumerate(zip(model, impl)):
                if list(m) != o:
                    first = dict(step=j, action=case['acts'][j] if j < len(case['acts']) else 'final', model=list(m), impl=o)
                    break
        ctx.mismatch('Sched.sched_run vs the implementation', key, None, model_obs=None if first else txt[:600], detail=first)
