"""C13 -- metadata behaves as a dictionary persisted to metadata.json."""
import itertools
import math
import struct
from common import cz, czl, EXC_CODE, parse_coq_value

META = dict(
    coq_targets=['CheckMeta.vo'],
    rule="operation sequences {update, update(**kw), setitem, pop, pop with default, popitem, del, "
         "mode change, reopen} over 3 keys (one non-ASCII): bounded-exhaustive up to a fixed length + "
         "random longer ones x value kinds {int, float incl. NaN/inf, str incl. non-ASCII and control "
         "characters, bool, None, nested list/dict/tuple, numpy int/float/array, bytes, non-"
         "serialisable: invalid-UTF-8 bytes, object, set, complex} x start {no metadata, given at "
         "creation} x {Array, RaggedArray}; after every step all read accessors (dict, len, in, keys, "
         "items, values, get, []) are read through the live and a fresh handle; non-trivial = the "
         "sequence changed the stored dictionary",
    trusted_base=[
        "Coq 8.16.1 kernel (coqc), vm_compute for evaluating the model on cases",
        "hand-written model coq/Meta.v (MetaData._read/update/pop/popitem/__setitem__/__delitem__), "
        "values opaque; tied by in-Coq differential evaluation",
        "H-json-rt: json.load(json.dumps(v, cls=DDJSONEncoder)) = rt v, where rt maps NumPy scalars/"
        "arrays to native numbers/lists, bytes to str, tuples to lists -- rt is implemented "
        "independently in this harness (p13.rt) and compared on every stored value",
    ],
    assumptions=["str keys only (json converts other key types)"],
)

PRELUDE = ("From Coq Require Import ZArith List Bool.\nFrom Darr Require Import Base Meta CheckArray CheckMeta.\n"
           "Import ListNotations.\nOpen Scope Z_scope.\n")
KEYS = ['a', 'k2', 'ü中', 'half\ud83d']

VALUES = [
    ['int', 5], ['int', 0], ['str', ''], ['int', -2 ** 70], ['float', 2.5], ['float', -0.0], ['nan'], ['inf', 1], ['inf', -1],
    ['str', 'plain'], ['str', 'zü中\U0001f600'], ['str', 'tab\tnl\n\x01"\\'], ['bool', 1], ['bool', 0],
    ['str', 'track\udcff.wav'],         # a lone surrogate (os.fsdecode of a Latin-1 file name): legal in str and in JSON
    ['none'], ['list', [['int', 1], ['str', 'x'], ['list', [['none']]]]],
    ['dict', [['p', ['int', 1]], ['q', ['list', [['float', 1.5]]]]]], ['tuple', [['int', 1], ['int', 2]]],
    ['npint', 'int16', 7], ['npint', 'uint64', 2 ** 63], ['npfloat', 'float32', 0.5], ['npfloat', 'float16', 1.5],
    ['npfloat', 'longdouble', 1.5], ['npint', 'int8', -3], ['npfloat', 'float64', 2.25],
    ['nparray', 'int32', [[1, 2], [3, 4]]], ['nparray', 'float64', [0.5, 1.5]], ['bytes', [104, 105]],
    ['nparray', 'int64', 7], ['nparray', 'bool', [True, False]], ['nparray', 'float32', []],     # 0-d, boolean and empty arrays
    ['list', []], ['dict', []],
]
BADVALUES = [['bytes', [255, 254]], ['object'], ['set'], ['complex'], ['list', [['object']]]]


def rt(v):
    """the JSON round trip of a value, written independently of Darr's encoder;
    returns the canonical encoding impl_C13.enc would give, or raises TypeError"""
    k = v[0]
    if k == 'int': return ['int', v[1]]
    if k == 'float': return ['float', float(v[1]).hex()]
    if k == 'nan': return ['nan']
    if k == 'inf': return ['inf', v[1]]
    if k == 'str': return ['str', [ord(c) for c in v[1]]]
    if k == 'bool': return ['bool', bool(v[1])]
    if k == 'none': return ['none']
    if k in ('list', 'tuple'): return ['list', [rt(x) for x in v[1]]]
    if k == 'dict': return ['dict', [[[ord(c) for c in kk], rt(x)] for kk, x in sorted(v[1])]]
    if k == 'npint': return ['int', int(v[2])]
    if k == 'npfloat':
        import numpy as np
        return ['float', float(np.dtype(v[1]).type(v[2])).hex()]
    if k == 'nparray':
        def conv(x, isf):
            if isinstance(x, list):
                return ['list', [conv(y, isf) for y in x]]
            if v[1] == 'bool':
                return ['bool', bool(x)]
            return ['float', float(x).hex()] if isf else ['int', int(x)]
        return conv(v[2], v[1].startswith('float'))
    if k == 'bytes':
        return ['str', [ord(c) for c in bytes(v[1]).decode('utf-8')]]   # UnicodeDecodeError -> not serialisable
    raise TypeError(k)


def serialisable(v):
    try:
        rt(v)
        return True
    except Exception:
        return False


def vflat(e):
    """canonical encoding -> flat list of ints (the model's opaque value)"""
    k = e[0]
    if k == 'int': return [2, e[1]]
    if k == 'float': return [3, struct.unpack('>q', struct.pack('>d', float.fromhex(e[1])))[0]]
    if k == 'nan': return [3, -1]
    if k == 'inf': return [3, -2 if e[1] > 0 else -3]
    if k == 'str': return [4, len(e[1])] + list(e[1])
    if k == 'bool': return [1, 1 if e[1] else 0]
    if k == 'none': return [0]
    if k == 'list': return [5, len(e[1])] + [x for y in e[1] for x in vflat(y)]
    if k == 'dict': return [6, len(e[1])] + [x for kk, y in e[1] for x in ([len(kk)] + list(kk) + vflat(y))]
    return [99]


def kcode(k):
    return [ord(c) for c in k]


def dict_term(kvs):
    return "[" + "; ".join(f"({czl(k)}, {czl(v)})" for k, v in kvs) + "]"


def op_term(op):
    k = op[0]
    if k in ('update', 'updatekw'):
        if not all(serialisable(v) for _, v in op[1]):
            return "(MUpdate None)"
        return "(MUpdate (Some " + dict_term([(kcode(kk), vflat(rt(v))) for kk, v in op[1]]) + "))"
    if k == 'setitem':
        if not serialisable(op[2]):
            return "(MUpdate None)"
        return "(MUpdate (Some " + dict_term([(kcode(op[1]), vflat(rt(op[2])))]) + "))"
    if k == 'pop': return f"(MPop {czl(kcode(op[1]))} false)"
    if k == 'popd': return f"(MPop {czl(kcode(op[1]))} true)"
    if k == 'popitem': return "MPopItem"
    if k == 'del': return f"(MDel {czl(kcode(op[1]))})"
    if k == 'setmode': return "(MSetMode RW)" if op[1] == 'r+' else "(MSetMode R)"
    if k == 'reopen': return "(MSetMode RW)" if op[1] == 'r+' else "(MSetMode R)"
    raise ValueError(k)


def out_flat(op, res):
    if res[0] == 'exc':
        return [9, EXC_CODE.get(res[1], 7)]
    r = res[1]
    k = op[0]
    if k in ('pop',):
        v = vflat(r); return [1, len(v)] + v
    if k == 'popd':
        if r == ['str', [ord(c) for c in 'DEFAULT']]:
            return [2]
        v = vflat(r); return [1, len(v)] + v
    if k == 'popitem':
        kk = r[1][0][1]; v = vflat(r[1][1])
        return [3, len(kk)] + kk + [len(v)] + v
    return [0]


def file_flat(f):
    if f[0] == 'absent': return [-1]
    if f[0] == 'torn': return [-2]
    kvs = f[1][1]
    out = [0, len(kvs)]
    for kk, v in kvs:
        vf = vflat(v)
        out += [len(kk)] + list(kk) + [len(vf)] + vf
    return out


def gen(ctx):
    r = ctx.rng
    cases = []
    L = 3 if ctx.quick else 4
    val = lambda: r.choice(VALUES)
    alphabet = []
    for k in KEYS[:2]:
        alphabet += [('setitem', k), ('pop', k), ('popd', k), ('del', k)]
    alphabet += [('popitem',), ('update0',), ('update2',), ('updatebad',)]

    def mk(sym):
        if sym[0] == 'setitem': return ['setitem', sym[1], val()]
        if sym[0] in ('pop', 'popd', 'del'): return [sym[0], sym[1]]
        if sym[0] == 'popitem': return ['popitem']
        if sym[0] == 'update0': return ['update', []]
        if sym[0] == 'update2': return [r.choice(['update', 'updatekw']), [[KEYS[0], val()], [r.choice(KEYS[1:2]), val()]]]
        if sym[0] == 'updatebad': return ['update', [[KEYS[1], val()], [KEYS[0], r.choice(BADVALUES)]]]
    ti = 0
    for start in (None, [[KEYS[0], ['int', 1]]]):
        for n in range(1, L + 1):
            for seq in itertools.product(alphabet, repeat=n):
                ti += 1
                if n >= 3 and ti % (7 if ctx.quick else 2):
                    continue
                cases.append(dict(kind='Array' if ti % 2 else 'RaggedArray', start=start, mode='r+',
                                  ops=[mk(s) for s in seq]))
    for _ in range(80 if ctx.quick else 800):
        n = r.randint(3, 14)
        ops = []
        for _ in range(n):
            x = r.random()
            if x < 0.12:
                ops.append(['setmode', r.choice(['r', 'r+'])])
            elif x < 0.2:
                ops.append(['reopen', r.choice(['r', 'r+'])])
            elif x < 0.45:
                ops.append(['setitem', r.choice(KEYS), r.choice(VALUES + BADVALUES[:2])])
            elif x < 0.6:
                ops.append(['update', [[r.choice(KEYS), val()] for _ in range(r.randint(0, 3))]])
            else:
                ops.append(mk(r.choice(alphabet)))
        start = r.choice([None, [[r.choice(KEYS), val()]], [[k, val()] for k in KEYS]])
        cases.append(dict(kind=r.choice(['Array', 'RaggedArray']), start=start, mode=r.choice(['r+', 'r+', 'r']), ops=ops))
    # a key re-assigned with a value Python calls EQUAL to the stored one but JSON does not (1 / True / 1.0,
    # 0 / False / -0.0, a tuple for the same list): the new value is what must be stored
    chains = [[['int', 1], ['bool', 1], ['float', 1.0], ['int', 1]], [['int', 0], ['bool', 0], ['float', -0.0], ['int', 0]],
              [['float', 2.0], ['int', 2], ['npfloat', 'float64', 2.0]], [['list', [['int', 1], ['int', 2]]], ['tuple', [['int', 1], ['float', 2.0]]]]]
    for k, chain in enumerate(chains):
        for how in ('setitem', 'update'):
            ops = [[how, KEYS[0], v] if how == 'setitem' else ['update', [[KEYS[0], v]]] for v in chain]
            cases.append(dict(kind=('Array', 'RaggedArray')[k % 2], start=[[KEYS[1], ['int', 7]]], mode='r+', ops=ops))
    return cases


def run(ctx):
    cases = gen(ctx)
    obs = ctx.run_impl(cases, 'history')
    terms, keep = [], []
    for case, steps in zip(cases, obs):
        key = dict(kind=case['kind'], start=str(case['start'])[:80], mode=case['mode'],
                   ops=[str(o)[:60] for o in case['ops']])
        if isinstance(steps, dict):
            ctx.fail('harness-error', key, observed=steps); continue
        # ---- direct oracle: a Python dict with JSON round trip
        model = {}
        if case['start']:
            for k, v in case['start']:
                model[k] = rt(v)
        mode = case['mode']
        changed = False
        failed = False
        for i, st in enumerate(steps):
            op = case['ops'][i - 1] if i else None
            exp_exc = None
            if op:
                k = op[0]
                if k == 'setmode':
                    mode = op[1]
                elif k == 'reopen':
                    mode = op[1]
                elif mode == 'r':
                    exp_exc = 'OSError'
                elif k in ('update', 'updatekw', 'setitem'):
                    items = op[1] if k != 'setitem' else [[op[1], op[2]]]
                    if not all(serialisable(v) for _, v in items):
                        exp_exc = 'TypeError'
                    else:
                        for kk, v in items:
                            model[kk] = rt(v); changed = True
                elif k in ('pop', 'del'):
                    if op[1] in model:
                        del model[op[1]]; changed = True
                    else:
                        exp_exc = 'KeyError'
                elif k == 'popd':
                    model.pop(op[1], None)
                elif k == 'popitem':
                    if model:
                        del model[sorted(model)[-1]]; changed = True
                    else:
                        exp_exc = 'KeyError'
                ctx.count('op:' + k + ':' + (st['res'][1] if st['res'][0] == 'exc' else 'ok'))
                got = st['res'][1] if st['res'][0] == 'exc' else None
                if got != exp_exc:
                    ctx.fail('metadata-outcome:' + k, dict(case=case, step=i), expected=exp_exc, observed=st['res'])
                    failed = True; break
            expd = ['dict', [[kcode(k), model[k]] for k in sorted(model)]]
            for nm in ('live', 'fresh'):
                v = st[nm]
                if 'error' in v:
                    ctx.fail('metadata-unreadable', dict(case=case, step=i), observed=v); failed = True; break
                got = ['dict', sorted(v['dict'][1])]
                if got != expd or v['len'] != len(model) or sorted(v['keys']) != [kcode(k) for k in sorted(model)] \
                        or v['in'] != [k in model for k in KEYS] \
                        or sorted(v['items']) != [[kcode(k), model[k]] for k in sorted(model)] \
                        or v['get'] != [model.get(k, ['none']) for k in KEYS] \
                        or v['getd'] != [model.get(k, ['int', 7]) for k in KEYS] \
                        or [g[1] if g[0] == 'ok' else 'KeyError' for g in v['getitem']] != [model.get(k, 'KeyError') for k in KEYS]:
                    ctx.fail('metadata-differs-from-dict-model:' + nm, dict(case=case, step=i),
                             expected=expd, observed=v.get('dict'))
                    failed = True; break
            if failed:
                break
            f = st['file']
            if (f[0] == 'absent') != (len(model) == 0) or f[0] == 'torn':
                ctx.fail('file-iff-nonempty', dict(case=case, step=i), expected='absent' if not model else 'present',
                         observed=f[0]); failed = True; break
            if f[0] == 'val' and not f[2]:
                ctx.fail('file-not-ascii', dict(case=case, step=i), observed=f[0]); failed = True; break
        ctx.seen(key, nontrivial=changed)
        ctx.traces += len(steps)
        if failed:
            continue
        # ---- model term
        start = "Absent"
        if case['start']:
            d0 = {}
            for k, v in case['start']:
                d0[k] = vflat(rt(v))
            start = "(Val " + dict_term([(kcode(k), d0[k]) for k in sorted(d0)]) + ")"
        ops = "[" + "; ".join(op_term(o) for o in case['ops']) + "]"
        ob = "[" + "; ".join(f"({czl(out_flat(o, s['res']))}, {czl(file_flat(s['file']))})"
                             for o, s in zip(case['ops'], steps[1:])) + "]"
        terms.append(f"mchk_steps (mkM {start} {'RW' if case['mode'] == 'r+' else 'R'}) {ops} {ob}")
        keep.append((key, case, steps))
    if keep:
        k, c, s = keep[len(keep) // 2]
        ctx.sample(dict(case=k, results=[x['res'][:2] for x in s][:8], final_file=s[-1]['file'][0]))
    bad = ctx.coq_check('c13', PRELUDE, terms, shard=200)
    if bad is None:
        ctx.model_ok = False
        return
    for i in bad[:5]:
        key, case, steps = keep[i]
        t = terms[i].replace('mchk_steps', 'mdbg_steps', 1)
        t = t[:t.rindex(' [(')] if ' [(' in t else t
        ctx.mismatch('Meta.m_step vs darr MetaData', key,
                     [[out_flat(o, s['res']), file_flat(s['file'])] for o, s in zip(case['ops'], steps[1:])],
                     model_obs=ctx.coq_show('c13dbg%d' % i, PRELUDE, t)[:1500])
