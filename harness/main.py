"""Entry point: ./check Cxx [--tier quick|thorough] [--seed N] | --setup | --replay FILE"""
import argparse
import importlib
import json
import os
import subprocess
import sys
import time
import traceback
from pathlib import Path

sys.path.insert(0, str(Path(__file__).resolve().parent))
import common
from common import Ctx, VERIF, COQ


def setup():
    t0 = time.time()
    ok, log = common.translate()
    print(log)
    with common.CoqLock():
        ok2, log2, cmd = common.make([], timeout=3000)
    print(log2[-3000:])
    print(f"setup: translate={'ok' if ok else 'FAILED'} build={'ok' if ok2 else 'FAILED'} "
          f"({time.time() - t0:.0f}s)")
    return 0 if (ok and ok2) else 1


def run_check(pid, tier, seed):
    mod = importlib.import_module(f'p{pid[1:]}')
    ctx = Ctx(pid, tier, seed)
    try:
        ctx.translate_ok, ctx.translate_log = common.translate()
        ctx.proof = common.prove(pid, mod.META.get('coq_targets', ()))
        if not ctx.translate_ok:
            # a generated file that could not be regenerated breaks the tie of the properties whose
            # theorems or case files depend on it, not of the others
            import re
            failed = set(re.findall(r'TRANSLATION FAILED for (\S+?):', ctx.translate_log))
            used = set(ctx.proof.get('files', []))
            if failed and used and not (failed & used):
                ctx.translate_ok = True
                ctx.translate_log += '\n(not in the dependency closure of this property: ' + ', '.join(sorted(failed)) + ')'
        # the model can be evaluated if the model files (not necessarily the proofs) built
        ctx.model_ok = ctx.proof.get('model_ok', True)
        mod.run(ctx)
        return common.finish(ctx, mod.META)
    finally:
        ctx.cleanup()


def replay(path):
    """Re-execute a replay file against the current /repo: the check is re-run with the recorded seed
    and tier (every case is derived from them), and the recorded failing input is looked for again."""
    rp = json.loads(Path(path).read_text())
    pid = rp['property']
    if rp.get('kind') == 'no-failing-input-found':
        print(json.dumps(rp, indent=1)[:4000])
        print("replay: this file names proofs/correspondences that stopped checking; re-running the check")
        return run_check(pid, rp.get('tier', 'quick'), rp.get('seed', 0))
    sig = rp.get('signature')
    print(f"replay: property {pid}, signature {sig!r}, seed {rp.get('seed')}, tier {rp.get('tier')}")
    print(json.dumps(dict(case=rp.get('case'), expected=rp.get('expected'), observed=rp.get('observed')),
                     indent=1, default=str)[:3000])
    status = run_check(pid, rp.get('tier', 'quick'), rp.get('seed', 0))
    again = []
    for f in sorted((VERIF / 'out' / 'replays').glob(f'{pid}_input_*.json')):
        try:
            again.append(json.loads(f.read_text()).get('signature'))
        except Exception:
            pass
    if sig in again:
        print(f"replay: REPRODUCED ({sig})")
        return 1
    print(f"replay: not reproduced on the current tree (check exit status {status}; signatures now: {again})")
    return 0 if status == 0 else status


def main():
    ap = argparse.ArgumentParser()
    ap.add_argument('pid', nargs='?')
    ap.add_argument('--tier', default=os.environ.get('VERIF_TIER', 'quick'))
    ap.add_argument('--seed', type=int, default=int(os.environ.get('VERIF_SEED', '0') or 0))
    ap.add_argument('--setup', action='store_true')
    ap.add_argument('--replay')
    a = ap.parse_args()
    if a.setup:
        sys.exit(setup())
    if a.replay:
        sys.exit(replay(a.replay))
    if not a.pid:
        ap.error('property id required')
    try:
        sys.exit(run_check(a.pid, a.tier, a.seed))
    except SystemExit:
        raise
    except Exception:
        traceback.print_exc()
        print(f"[{a.pid}] harness error (not a verdict)")
        sys.exit(2)


if __name__ == '__main__':
    main()
