"""Entry point: ./check Cxx [--tier quick|thorough] [--seed N] | --setup | --replay FILE"""
import argparse
import importlib
import json
import os
import subprocess
import sys
import time
import traceback
from pathlib import Path

sys.path.insert(0, str(Path(__file__).resolve().parent))
import common
from common import Ctx, VERIF, COQ


def setup():
    t0 = time.time()
    ok, log = common.translate()
    print(log)
    with common.CoqLock():
        ok2, log2, cmd = common.make([], timeout=3000)
    print(log2[-3000:])
    print(f"setup: translate={'ok' if ok else 'FAILED'} build={'ok' if ok2 else 'FAILED'} "
          f"({time.time() - t0:.0f}s)")
    return 0 if (ok and ok2) else 1


def run_check(pid, tier, seed):
    mod = importlib.import_module(f'p{pid[1:]}')
    ctx = Ctx(pid, tier, seed)
    try:
        ctx.translate_ok, ctx.translate_log = common.translate()
        ctx.proof = common.prove(pid, mod.META.get('coq_targets', ()))
        # the model can be evaluated if the model files (not necessarily the proofs) built
        ctx.model_ok = ctx.proof.get('model_ok', True)
        mod.run(ctx)
        return common.finish(ctx, mod.META)
    finally:
        ctx.cleanup()


def replay(path):
    rp = json.loads(Path(path).read_text())
    pid = rp['property']
    mod = importlib.import_module(f'p{pid[1:]}')
    if rp.get('kind') == 'no-failing-input-found':
        print(json.dumps(rp, indent=1)[:4000])
        print("replay: this file names proofs/correspondences that stopped checking; "
              f"re-run ./check {pid} to see whether they check now")
        return 0
    ctx = Ctx(pid, 'quick', rp.get('seed', 0))
    try:
        if not hasattr(mod, 'replay'):
            print("no replay function for", pid)
            return 2
        res = mod.replay(ctx, rp)
        print(json.dumps(res, indent=1, default=str)[:6000])
        return 1 if res.get('fails') else 0
    finally:
        ctx.cleanup()


def main():
    ap = argparse.ArgumentParser()
    ap.add_argument('pid', nargs='?')
    ap.add_argument('--tier', default=os.environ.get('VERIF_TIER', 'quick'))
    ap.add_argument('--seed', type=int, default=int(os.environ.get('VERIF_SEED', '0') or 0))
    ap.add_argument('--setup', action='store_true')
    ap.add_argument('--replay')
    a = ap.parse_args()
    if a.setup:
        sys.exit(setup())
    if a.replay:
        sys.exit(replay(a.replay))
    if not a.pid:
        ap.error('property id required')
    try:
        sys.exit(run_check(a.pid, a.tier, a.seed))
    except SystemExit:
        raise
    except Exception:
        traceback.print_exc()
        print(f"[{a.pid}] harness error (not a verdict)")
        sys.exit(2)


if __name__ == '__main__':
    main()
