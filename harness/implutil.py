"""Helpers shared by the impl_Cxx modules (run in the child, with darr importable)."""
import json
import os
import numpy as np


def exc_name(e):
    return type(e).__name__


def guarded(f):
    """Call f(); return ('ok', value) or ('exc', class name)."""
    try:
        return ['ok', f()]
    except Exception as e:
        return ['exc', type(e).__name__, str(e)[:200]]


def hexbytes(b):
    return bytes(b).hex()


def snapshot(path):
    """Recursive byte snapshot of a directory tree (files, dirs, symlinks)."""
    out = {}
    if os.path.islink(path):
        return {'': ['link', os.readlink(path)]}
    if os.path.isfile(path):
        return {'': ['file', open(path, 'rb').read().hex()]}
    if not os.path.exists(path):
        return {'': ['missing']}
    for root, dirs, files in os.walk(path, followlinks=False):
        rel = os.path.relpath(root, path)
        rel = '' if rel == '.' else rel + '/'
        for d in list(dirs):
            p = os.path.join(root, d)
            if os.path.islink(p):
                out[rel + d] = ['link', os.readlink(p)]
            else:
                out[rel + d] = ['dir']
        for f in files:
            p = os.path.join(root, f)
            if os.path.islink(p):
                out[rel + f] = ['link', os.readlink(p)]
            else:
                out[rel + f] = ['file', open(p, 'rb').read().hex()]
    return out


def canon_bytes(a):
    """Element bytes in canonical (big-endian) order, C order, as hex."""
    a = np.asarray(a)
    be = a.astype(a.dtype.newbyteorder('>'), copy=False)
    return np.ascontiguousarray(be).tobytes().hex()


def dtype_info(dt):
    dt = np.dtype(dt)
    bo = dt.byteorder
    if bo in ('=', '|'):
        import sys
        bo = '<' if sys.byteorder == 'little' else '>'
    return [dt.name, 'little' if bo == '<' else 'big']
