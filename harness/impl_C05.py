from impl_rag import run_history


def history(case, d):
    return run_history(case, d, want_regen=False)


def chdir_resize(case, d):
    """a handle opened through a RELATIVE path, then the working directory changes, then the length is
    changed through that handle: whatever the calls do (they may well fail), the files must stay a
    well-formed ragged array"""
    import os
    import numpy as np
    import darr
    from impl_rag import observe
    from impl_arr import call
    home = os.getcwd()
    path = os.path.join(d, 'sub', 'r.darr')
    os.makedirs(os.path.join(d, 'sub'))
    os.makedirs(os.path.join(d, 'other'))
    darr.asraggedarray(path, [np.arange(2 * int(np.prod(case['atom'])), dtype=case['dtype']).reshape((2,) + tuple(case['atom'])),
                              np.zeros((1,) + tuple(case['atom']), dtype=case['dtype'])], indextype=case['indextype'])
    steps = []
    try:
        os.chdir(d)
        ra = darr.RaggedArray(os.path.join('sub', 'r.darr'), accessmode='r+')
        os.chdir(os.path.join(d, 'other'))
        for what in case['ops']:
            if what == 'append':
                res = call(lambda: ra.append(np.ones((1,) + tuple(case['atom']), dtype=case['dtype'])))
            elif what == 'truncate':
                res = call(lambda: darr.truncate_raggedarray(ra, 1))
            elif what == 'meta':
                res = call(lambda: ra.metadata.update({'a': 1}))
            steps.append(observe(darr.RaggedArray(path), path, [], res, [], [], want_regen=False))
    finally:
        os.chdir(home)
    return steps
