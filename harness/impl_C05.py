from impl_rag import run_history


def history(case, d):
    return run_history(case, d, want_regen=False)
