"""C12 -- indexing reads and writes follow NumPy semantics, as detached copies, durably."""
import itertools
from common import cz, czl, copt, EXC_CODE, NUMTYPES
from arrlib import dtype_str

META = dict(
    coq_targets=['CheckIndex.vo'],
    rule="index expressions {ints incl. negative / out of range, slices with any step / reversed / "
         "empty / out of range, Ellipsis, None, tuples of those, integer arrays, boolean masks, lists, "
         "wrong arity, non-index objects} x rank 1..4 incl. empty arrays x dtypes x assigned values "
         "{scalar, broadcastable, other dtype}; inside and outside open_array() contexts; (i) a[idx] "
         "and a[idx]=v against NumPy on a reference copy (shape, dtype, values or the same error "
         "class), (ii) every returned array re-examined after the file was truncated and deleted, "
         "(iii) /proc/self/fd and /proc/self/maps after every access, (iv) the positions the Coq "
         "model Index.basic_index selects against NumPy on arange arrays, bounded-exhaustively over a "
         "per-axis index alphabet; non-trivial = the index selects at least one element or raises",
    trusted_base=[
        "Coq 8.16.1 kernel (coqc), vm_compute for evaluating the model on cases",
        "hand-written model coq/Index.v (Python slice normalisation, NumPy basic indexing on C order) "
        "tied to NumPy by in-Coq differential evaluation; coq/Sched.v for the handle discipline "
        "(tied by C19)",
        "PARTIAL: advanced indexing, broadcasting of assigned values and NumPy's error classes are "
        "oracle (NumPy is what Darr calls and the reference); survival of returned arrays after "
        "unmapping is interpreter memory (observed by re-reading, not modelled)",
    ],
    assumptions=[],
)

PRELUDE = ("From Coq Require Import ZArith List Bool.\nFrom Darr Require Import Base Index CheckArray CheckIndex.\n"
           "Import ListNotations.\nOpen Scope Z_scope.\n")


def np_kind(nt):
    import numpy as np
    return np.dtype(nt).kind


def ix_term(x):
    if isinstance(x, int):
        return f"(IInt {cz(x)})"
    if x == 'E':
        return "IEllipsis"
    if x == 'N':
        return "INone"
    if x[0] == 's':
        return f"(ISlice {copt(x[1])} {copt(x[2])} {copt(x[3])})"
    raise ValueError(x)


AXIS = [0, 1, -1, 2, -3, 5, ['s', None, None, None], ['s', 1, None, None], ['s', None, -1, None],
        ['s', None, None, 2], ['s', None, None, -1], ['s', 3, 0, -2], ['s', -2, 10, None], ['s', 4, 1, None],
        ['s', None, None, 0], ['s', -100, 100, 3], 'E', 'N']


def gen_offsets(ctx):
    r = ctx.rng
    items = []
    shapes = [[4], [0], [3, 2], [2, 0, 3], [2, 3, 2], [1, 2, 1, 3]]
    for sh in shapes:
        for n in range(1, min(len(sh) + 2, 4) + 1):
            combos = list(itertools.product(AXIS, repeat=n))
            if len(combos) > (250 if ctx.quick else 2500):
                combos = r.sample(combos, 250 if ctx.quick else 2500)
            for c in combos:
                items.append([sh, list(c)])
    return items


def gen_access(ctx):
    r = ctx.rng
    cases = []
    shapes = [[6], [0], [3, 4], [2, 3, 2], [2, 1, 2, 2], [0, 3], [3, 0], [2, 0, 2]]
    idxs = AXIS + [['ia', [0, 0, 1]], ['ia', [-1]], ['ia', [7]], ['bm', [True, False]], ['l', [1, 0]], ['f', 1.5], ['str'], ['huge'],
                   ['npi', 'int64', 1], ['npi', 'uint8', 0], ['npi', 'int16', -1], ['npi', 'uint64', 1], ['a0', -1], ['b', True],
                   ['b', False, 'np'], ['rng', [0, 2]], ['u8a', [1, 0]], ['t', ['npi', 'int32', 0], ['s', None, None, None]],
                   ['t', 0, 0, 0, 0, 0], ['t', ['s', None, None, None], 0], ['t', 'E', -1], ['t', 'N', ['s', None, None, -1]],
                   ['t', ['ia', [0, 1]], ['ia', [1, 0]]]]
    vals = [dict(kind='scalar', value=7), dict(kind='scalar', value=2.5), dict(kind='scalar', value=-0.0), dict(kind='list', value=[1, 2]),
            dict(kind='npscalar', dtype='<i2', value=3), dict(kind='list', value=[[1], [2], [3]]), dict(kind='str')]
    for sh in shapes:
        for nt in (NUMTYPES if not ctx.quick else r.sample(NUMTYPES, 4)):
            acc = []
            inctx = False
            full = ['s', None, None, None]
            if 0 not in sh[1:]:
                # the length changes inside a context; reads, writes and further changes must follow
                acc += [dict(k='enter', mode=r.choice([None, 'r+'])), dict(k='grow', n=2), dict(k='get', index=full),
                        dict(k='get', index=-1), dict(k='shrink', n=3), dict(k='get', index=full),
                        dict(k='set', index=-1, value=dict(kind='scalar', value=9)), dict(k='get', index=full),
                        dict(k='shrink', n=1), dict(k='get', index=full), dict(k='exit'), dict(k='get', index=full)]
            if 0 not in sh and np_kind(nt) in 'fc':
                # element 0 holds +0.0: writing -0.0 over it (and back) must reach the file although -0.0 == 0.0
                z = (0,) * len(sh)
                acc += [dict(k='set', index=['t'] + [0] * len(sh), value=dict(kind='scalar', value=-0.0)),
                        dict(k='set', index=0, value=dict(kind='list', value=[-0.0] * int(sh[-1]) if len(sh) == 2 else -0.0))
                        if len(sh) <= 2 else dict(k='get', index=0),
                        dict(k='set', index=['t'] + [0] * len(sh), value=dict(kind='scalar', value=0.0))]
            if 0 not in sh and sh[0] >= 3:
                # a read-only handle opened for writing by the context: the context's mode governs,
                # also after the length changed inside it
                acc += [dict(k='mode', mode='r'), dict(k='enter', mode='r+'), dict(k='set', index=0, value=dict(kind='scalar', value=4)),
                        dict(k='shrink', n=1), dict(k='set', index=-1, value=dict(kind='scalar', value=6)),
                        dict(k='get', index=full), dict(k='exit'), dict(k='get', index=full), dict(k='mode', mode='r+')]
                # the mode is changed INSIDE a context and the length changes after that: the new mode governs
                # the renewed map
                acc += [dict(k='mode', mode='r'), dict(k='enter', mode=None), dict(k='mode', mode='r+'), dict(k='grow', n=1),
                        dict(k='set', index=-1, value=dict(kind='scalar', value=5)), dict(k='get', index=full),
                        dict(k='shrink', n=1), dict(k='set', index=0, value=dict(kind='scalar', value=8)),
                        dict(k='exit'), dict(k='get', index=full)]
            for _ in range(14 if ctx.quick else 30):
                x = r.random()
                if x < 0.08 and not inctx:
                    acc.append(dict(k='enter', mode=r.choice([None, 'r+']))); inctx = True
                elif x < 0.16 and inctx:
                    acc.append(dict(k='exit')); inctx = False
                elif x < 0.24 and 0 not in sh[1:]:
                    acc.append(dict(k=r.choice(['grow', 'grow', 'shrink']), n=r.randint(1, 2)))
                elif x < 0.27 and not inctx:
                    acc.append(dict(k='hide'))
                else:
                    ix = r.choice(idxs)
                    if ix == ['huge'] and 0 in sh[1:]:
                        ix = 0          # (a result of 2**48 x 0 elements is "allocatable": NumPy would loop)
                    if isinstance(ix, list) and ix[0] == 'bm':
                        ix = ['bm', [r.random() < 0.5 for _ in range(sh[0])]]
                    if r.random() < 0.7 or ix == ['huge']:      # (assigning through the huge index would loop)
                        acc.append(dict(k='get', index=ix))
                    else:
                        acc.append(dict(k='set', index=ix, value=r.choice(vals)))
            cases.append(dict(dtype=dtype_str(nt, r.choice(['little', 'big'])), shape=sh, accesses=acc))
    return cases


def run(ctx):
    items = gen_offsets(ctx)
    shards = [dict(items=items[i::16]) for i in range(16)]
    obs = ctx.run_impl(shards, 'offsets', shards=16)
    terms, keep = [], []
    for sh, ob in zip(shards, obs):
        if isinstance(ob, dict):
            ctx.fail('harness-error', 'offsets', observed=ob); continue
        for (shape, ixs), o in zip(sh['items'], ob):
            key = dict(f='basic_index', shape=shape, index=ixs)
            ctx.seen(key, nontrivial=(o[0] == 'exc' or len(o[2]) > 0)); ctx.count('offsets:' + o[0])
            rc = 0 if o[0] == 'ok' else EXC_CODE.get(o[1], 7)
            terms.append(f"chk_index [" + "; ".join(ix_term(x) for x in ixs) + f"] {czl(shape)} {cz(rc)} "
                         f"{czl(o[1]) if o[0] == 'ok' else '[]'} {czl(o[2]) if o[0] == 'ok' else '[]'}")
            keep.append((key, o))
    cases = gen_access(ctx)
    obs2 = ctx.run_impl(cases, 'indexing')
    for case, ob in zip(cases, obs2):
        key0 = dict(dtype=case['dtype'], shape=case['shape'])
        if isinstance(ob, dict):
            # a child interpreter killed by a signal (SIGSEGV / SIGBUS) while reading results it was handed
            # is an observation about Darr (a result that still pointed into the memory map), not about the harness
            ctx.fail('interpreter-died-on-returned-data' if ob.get('runner_died') and (ob.get('returncode') or 0) < 0 else 'harness-error', key0, observed=ob); continue
        for acc, o in zip(case['accesses'], ob[:-1]):
            key = dict(key0, access=acc)
            if acc['k'] == 'mode':
                if o['res'][0] != 'ok':
                    ctx.fail('accessmode-assignment-failed', key, observed=o['res'])
                continue
            if acc['k'] in ('enter', 'exit'):
                if acc['k'] == 'exit' and o['leak'] != [0, 0]:
                    ctx.fail('leak-after-context', key, observed=o['leak'])
                continue
            ctx.seen(key); ctx.count(acc['k'] + ':' + o['res'][0])
            ctx.traces += 1
            if acc['k'] in ('grow', 'shrink', 'hide'):
                if o['res'][0] != 'ok' or o['shape'] != o['refshape']:
                    ctx.fail('length-change:' + acc['k'], key, expected=o.get('refshape'), observed=o)
                if 'leak' in o and o['leak'] != [0, 0]:
                    ctx.fail('leak-after-access:' + acc['k'], key, observed=o['leak'])
                if acc['k'] == 'hide' and o.get('hidden_access') == 'ok' and o['reflen'] > 0:
                    ctx.fail('access-without-data-file-succeeded', key, observed=o)
                continue
            if o['res'][0] != o['ref'][0]:
                ctx.fail('indexing-outcome-differs:' + acc['k'], key, expected=o['ref'][:2] if o['ref'][0] == 'exc' else 'ok',
                         observed=o['res'][:2])
                continue
            if o['res'][0] == 'exc':
                if o['res'][1] != o['ref'][1]:
                    ctx.fail('indexing-error-class:' + acc['k'], key, expected=o['ref'][1], observed=o['res'][1])
            elif acc['k'] == 'get':
                if o['res'][1] != o['ref'][1]:
                    ctx.fail('getitem-differs', key, expected=o['ref'][1], observed=o['res'][1])
                if not o['detached']:
                    ctx.fail('getitem-not-detached', key, observed='memmap view returned')
            if acc['k'] == 'set':
                if o['fresh'] != o['refall'] or o['raw'] != o['refall']['data']:
                    ctx.fail('setitem-not-written-through', key, expected=o['refall']['data'][:64], observed=o['raw'][:64])
            if 'leak' in o and o['leak'] != [0, 0]:
                ctx.fail('fd-or-map-leak', key, observed=o['leak'])
            if o.get('rawsame') is False:
                ctx.fail('raw-file-differs-after:' + acc['k'], key, observed='arrayvalues.bin is not the reference bytes')
        fin = ob[-1]
        if not fin['survive']:
            ctx.fail('returned-array-changed-after-file-removed', key0, observed=fin)
        if fin['leak_end'] != [0, 0]:
            ctx.fail('leak-at-end', key0, observed=fin)
    # accesses that fail because a warning is turned into an error: nothing may stay open
    W = [dict(dtype='int32', accesses=['get', 'set', 'iter', 'ctx', 'fresh', 'get']), dict(dtype='>f8', accesses=['set', 'get', 'ctx'])]
    for case, ob in zip(W, ctx.run_impl(W, 'warnerr')):
        key = dict(scenario='warnings are errors, description from a newer library version', **case)
        if isinstance(ob, dict):
            # a child interpreter killed by a signal (SIGSEGV / SIGBUS) while reading results it was handed
            # is an observation about Darr (a result that still pointed into the memory map), not about the harness
            ctx.fail('interpreter-died-on-returned-data' if ob.get('runner_died') and (ob.get('returncode') or 0) < 0 else 'harness-error', key, observed=ob); continue
        ctx.seen(key); ctx.count('warnerr')
        for st in ob:
            ctx.evaluations += 1
            if st['leak'] != [0, 0]:
                ctx.fail('fd-or-map-leak-after-failed-access:' + st['what'], key, expected=[0, 0], observed=st)
        if ob[-1]['res'] != 1:
            ctx.fail('access-after-failed-accesses', key, expected=1, observed=ob[-1])
    if keep:
        ctx.sample(dict(model_case=keep[77][0], numpy=keep[77][1]))
    if cases and not isinstance(obs2[0], dict):
        ctx.sample(dict(access_case=dict(dtype=cases[0]['dtype'], shape=cases[0]['shape'], accesses=cases[0]['accesses'][:4]),
                        observed=[{k: v for k, v in o.items() if k in ('res', 'leak', 'detached')} for o in obs2[0][:4]]))
    bad = ctx.coq_check('c12', PRELUDE, terms, shard=500)
    if bad is None:
        ctx.model_ok = False
        return
    for i in bad[:6]:
        key, o = keep[i]
        t = terms[i].replace('chk_index', 'dbg_index', 1)
        t = ' '.join(t.split(' ')[:0]) or t
        # keep only the first two arguments (index list, shape)
        head = t[:t.index(']') + 1]
        rest = t[len(head):].strip()
        shape = rest[:rest.index(']') + 1]
        ctx.mismatch('Index.basic_index vs NumPy basic indexing', key, o,
                     model_obs=ctx.coq_show('c12dbg%d' % i, PRELUDE, head + ' ' + shape)[:500])
