"""Fill the generated tables of DESIGN.md (between the FIXED / SEEDED markers) from
known_findings.json and seeded/*/meta.json."""
import json
import re
from pathlib import Path

VERIF = Path(__file__).resolve().parent.parent
FOUND_BY_CHECKS = {'9b7d799', 'a0e19e2', '5d33139', '5204afc', 'b4f39a8', 'd8599a0', 'fd1ba40', '12d63a4', 'fab665f'}


def fixed_table():
    k = json.loads((VERIF / 'known_findings.json').read_text())
    rows = ['| property | commit | what failed on the pinned tree |', '|---|---|---|']
    for ln in k['fixed']:
        m = re.match(r'fixed: property=(C\d\d) (\w+) (.*)', ln)
        pid, h, what = m.groups()
        rows.append(f"| {pid} | {h}{'*' if h in FOUND_BY_CHECKS else ''} | {what.replace('|', '/')} |")
    return '\n'.join(rows)


def seeded_table():
    rows = ['| change | files | what it does (trigger) | caught by | how |', '|---|---|---|---|---|']
    tot = det = conc = 0
    neut = []
    for mp in sorted((VERIF / 'seeded').glob('C*-m*/meta.json')):
        m = json.loads(mp.read_text())
        desc = ' '.join(m.get('description', '').split())
        desc = (desc[:230] + '...') if len(desc) > 230 else desc
        caught, how = [], []
        for ck, r in sorted(m.get('checks', {}).items()):
            if r.get('detected'):
                caught.append(ck.split(':')[0])
                kinds = [k.get('signature') or k.get('kind') for k in r.get('replay_kinds', [])]
                how.append(', '.join(dict.fromkeys(x for x in kinds if x))[:120])
        if m.get('neutralised') and not caught:
            neut.append(m['id'])
            rows.append(f"| {m['id']} | {', '.join(x.replace('darr/', '') for x in m.get('files', []))} | {desc.replace('|', '/')} | "
                        f"(no longer breaks the property) | {m['neutralised'].replace('|', '/')} |")
            continue
        tot += 1
        if caught:
            det += 1
            if any(h and 'no-failing-input-found' not in h for h in how):
                conc += 1
        rows.append(f"| {m['id']} | {', '.join(x.replace('darr/', '') for x in m.get('files', []))} | {desc.replace('|', '/')} | "
                    f"{', '.join(dict.fromkeys(caught)) or '**missed**'} | {'; '.join(h for h in how if h) or ''} |")
    head = (f"{det} of {tot} seeded changes are detected by the quick tier of the check(s) listed; {conc} with a concrete "
            f"failing input as replay, the rest as a broken proof / correspondence (`no-failing-input-found`)."
            + (f" Not counted: {', '.join(neut)}, which stopped breaking their property when a later `fix:` commit closed the gap "
               f"they went through (their own demonstration scripts now pass on the patched tree)." if neut else "") + "\n\n")
    return head + '\n'.join(rows)


def main():
    p = VERIF / 'DESIGN.md'
    s = p.read_text()
    s = re.sub(r'<!-- FIXED-BEGIN -->.*?<!-- FIXED-END -->',
               lambda _: '<!-- FIXED-BEGIN -->\n' + fixed_table() + '\n<!-- FIXED-END -->', s, flags=re.S)
    s = re.sub(r'<!-- SEEDED-BEGIN -->.*?<!-- SEEDED-END -->',
               lambda _: '<!-- SEEDED-BEGIN -->\n' + seeded_table() + '\n<!-- SEEDED-END -->', s, flags=re.S)
    p.write_text(s)
    print('DESIGN.md tables regenerated')


if __name__ == '__main__':
    main()
