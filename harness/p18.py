"""C18 -- inconsistent or invalid array descriptions are rejected at open time."""
import copy
import numpy as np
from common import cz, czl, cbool, ITEMSIZE, NUMTYPES

META = dict(
    coq_targets=['Check18.vo'],
    rule="all single-field corruptions of a valid descriptor (each key removed / retyped to null, "
         "bool, int, float, string, list, dict / set to invalid tokens), description missing or not "
         "JSON or not a dictionary, shape variants (negative, float, string, nested, bool, scalar, "
         "empty), numtype swapped for another item size, data file length 0..n+k incl. non-multiples "
         "of the item size and missing file, x array kinds {1-D, N-D, empty, ragged values/indices}; "
         "tried through Array(), darr.open(), RaggedArray(), delete/truncate by path; non-trivial = "
         "the state is invalid in the property's sense; distinct by (kind, corruption)",
    trusted_base=[
        "Coq 8.16.1 kernel (coqc), vm_compute for evaluating the model on cases",
        "hand-written model coq/Json.v (read_descr/open_json follow Array._read_arraydescr, "
        "arrayinfotodtype, _check_arrayinfoconsistency check by check), tied by in-Coq differential "
        "evaluation; translator gen/py2v.py for requiredkeys, the type-name table and Gen_gate.v (the size "
        "test of Array._check_arrayinfoconsistency read as a function of shape, item size and file size)",
        "oracles: json.load; packaging.version on darrversion (only parsable versions are generated); "
        "NumPy's rejection of negative / boolean extents (marked in Json.open_json)",
    ],
    assumptions=[],
)

PRELUDE = ("From Coq Require Import ZArith List Bool String.\n"
           "From Darr Require Import Base ArrayModel Json CheckArray Check18.\n"
           "Import ListNotations.\nOpen Scope Z_scope.\nOpen Scope string_scope.\n")


def jterm(x):
    if x is None:
        return "JNull"
    if isinstance(x, bool):
        return f"(JBool {cbool(x)})"
    if isinstance(x, int):
        return f"(JInt {cz(x)})"
    if isinstance(x, float):
        return "JFloat"
    if isinstance(x, str):
        assert all(32 <= ord(c) < 127 and c != '"' for c in x)
        return f'(JStr "{x}")'
    if isinstance(x, list):
        return "(JList [" + "; ".join(jterm(y) for y in x) + "])"
    if isinstance(x, dict):
        return "(JDict [" + "; ".join(f'("{k}", {jterm(v)})' for k, v in x.items()) + "])"
    raise ValueError(x)


def file_term(spec):
    if spec['kind'] == 'missing':
        return "JMissing"
    if spec['kind'] == 'garbage':
        return "JGarbage"
    return f"(JFile {jterm(spec['json'])})"


def data_term(n):
    if n is None:
        return "None"
    return f"(Some (repeat 0 (Z.to_nat {n})))"


def valid(spec, datalen):
    """the property's notion of a valid description"""
    if spec['kind'] != 'json' or not isinstance(spec['json'], dict):
        return False
    d = spec['json']
    for k in ('numtype', 'shape', 'arrayorder', 'byteorder'):
        if k not in d:
            return False
    if not isinstance(d['numtype'], str) or d['numtype'] not in ITEMSIZE:
        return False
    if d['byteorder'] not in ('little', 'big') or d['arrayorder'] not in ('C', 'F'):
        return False
    sh = d['shape']
    if not isinstance(sh, list) or not all(isinstance(x, int) and not isinstance(x, bool) and x >= 0 for x in sh):
        return False
    n = 1
    for x in sh:
        n *= x
    return datalen is not None and n * ITEMSIZE[d['numtype']] == datalen


def base_descr(dtype, shape):
    dt = np.dtype(dtype)
    return dict(numtype=dt.name, arrayorder='C', shape=list(shape),
                byteorder='little' if dt.byteorder in '<=|' else 'big', darrversion='0.6.0',
                darrobject='Array')


RETYPES = [None, True, 7, 1.5, 'zzz', [], [1], {}, {'a': 1}]


def corruptions(base, nbytes, quick, r):
    out = []
    J = lambda d: dict(kind='json', json=d)
    out.append((J(base), None, 'valid'))
    out.append((dict(kind='missing'), None, 'missing'))
    out.append((dict(kind='garbage', text='{"numtype": "int'), None, 'truncated-json'))
    out.append((dict(kind='garbage', text=''), None, 'empty-file'))
    # JSON nested deeper than the parser's recursion limit (it fails with RecursionError, not ValueError)
    out.append((dict(kind='garbage', text='[' * 100000 + ']' * 100000), None, 'deep-nesting'))
    out.append((dict(kind='garbage', text='{"shape": ' + '[' * 100000 + ']' * 100000 + '}'), None, 'deep-nesting'))
    for nd in ([], [1, 2], 'x', 5, None):
        out.append((J(nd), None, 'not-dict'))
    for k in list(base):
        d = copy.deepcopy(base); del d[k]
        out.append((J(d), None, 'remove:' + k))
        for v in RETYPES:
            if k == 'darrversion' and isinstance(v, str):
                continue
            d = copy.deepcopy(base); d[k] = v
            out.append((J(d), None, f'retype:{k}'))
    for tok in ['int128', 'Int32', 'float', '', 'bool', 'str', '<i4', 'int32 ']:
        d = copy.deepcopy(base); d['numtype'] = tok; out.append((J(d), None, 'numtype-token'))
    for tok in ['LITTLE', 'middle', '<', '', 'native']:
        d = copy.deepcopy(base); d['byteorder'] = tok; out.append((J(d), None, 'byteorder-token'))
    for tok in ['c', 'K', 'A', '', 'CF']:
        d = copy.deepcopy(base); d['arrayorder'] = tok; out.append((J(d), None, 'arrayorder-token'))
    sh = base['shape']
    n = int(np.prod(sh)) if sh else 1
    shapes = [[-x for x in sh], sh + [-1, -1], [float(x) for x in sh], [str(x) for x in sh], [sh], '23', '',
              n, None, [True] + sh[1:], [n, True], sh + [1], [x + 1 for x in sh], [], {}, [0] + sh[1:], [n],
              # a zero-length axis that is not the first one: no element, so the data file must be empty
              sh[:1] + [0], sh[:1] + [0] + sh[1:], [0, 0], [1, 0, 3], sh + [0]]
    for s2 in shapes:
        d = copy.deepcopy(base); d['shape'] = s2; out.append((J(d), None, 'shape-variant'))
    for nt in NUMTYPES:
        if ITEMSIZE[nt] != ITEMSIZE[base['numtype']]:
            d = copy.deepcopy(base); d['numtype'] = nt; out.append((J(d), None, 'numtype-itemsize'))
    lens = sorted(set([0, 1, nbytes - 1, nbytes + 1, nbytes + 3, nbytes // 2, max(nbytes - ITEMSIZE[base['numtype']], 0),
                       nbytes + ITEMSIZE[base['numtype']], 2 * nbytes]))
    for L in lens:
        if L != nbytes and L >= 0:
            out.append((J(base), L, 'datalen'))
    out.append((J(base), -1, 'data-missing'))
    return out


def gen(ctx):
    r = ctx.rng
    A, G = [], []
    kinds = [('int64', (2,)), ('>i2', (3, 2)), ('float32', (0,)), ('uint8', (3,)), ('<c8', (2, 1, 2)), ('uint8', (0, 3)),
             ('int8', (2, 2))]
    if ctx.quick:
        kinds = kinds[:4]
    for dtype, shape in kinds:
        base = base_descr(dtype, shape)
        nbytes = int(np.prod(shape)) * np.dtype(dtype).itemsize
        for spec, dl, what in corruptions(base, nbytes, ctx.quick, r):
            A.append(dict(dtype=dtype, shape=list(shape), descr=spec, datalen=dl, what=what))
    for which, dtype, shape in (('values', 'float64', (6,)), ('indices', 'int64', (3, 2))):
        base = base_descr(dtype, shape)
        nbytes = int(np.prod(shape)) * 8
        cs = corruptions(base, nbytes, ctx.quick, r)
        if ctx.quick:
            cs = cs[::3]
        for spec, dl, what in cs:
            if dl == -1:
                continue
            G.append(dict(dtype='float64', which=which, descr=spec, datalen=dl, what=what))
    return A, G


def run(ctx):
    A, G = gen(ctx)
    obsA = ctx.run_impl(A, 'corrupt')
    obsG = ctx.run_impl(G, 'corrupt_ragged')
    terms, keep = [], []
    for case, ob in zip(A, obsA):
        key = dict(kind='Array', dtype=case['dtype'], shape=case['shape'], what=case['what'],
                   descr=str(case['descr'])[:200], datalen=case['datalen'])
        if 'harness_error' in ob:
            ctx.fail('harness-error', key, observed=ob); continue
        ok = valid(case['descr'], ob['datalen'])
        ctx.seen(key, nontrivial=not ok); ctx.count(case['what'].split(':')[0])
        raised = [ob['array'][0] != 'ok', ob['open'][0] != 'ok']
        if not ok:
            if not all(raised):
                ctx.fail('invalid-description-opened:' + case['what'], key,
                         expected='Array() and darr.open() raise', observed=dict(array=ob['array'], open=ob['open']))
            for nm in ('delete', 'truncate'):
                if nm in ob and (ob[nm][0] == 'ok' or ob[nm][1] != 'TypeError' or not ob[nm + '_unchanged']):
                    ctx.fail(f'by-path-{nm}-not-refused:' + case['what'], key,
                             expected='TypeError, nothing changed',
                             observed=dict(res=ob[nm], unchanged=ob[nm + '_unchanged']))
        bp_del = ob['delete'][0] == 'exc' and ob['delete'][1] == 'TypeError'
        bp_tr = ('truncate' in ob and ob['truncate'][0] == 'exc' and ob['truncate'][1] == 'TypeError') \
            if 'truncate' in ob else bp_del
        terms.append(f"chk_open {file_term(case['descr'])} {data_term(ob['datalen'])} "
                     f"[{cbool(raised[0])}; {cbool(raised[1])}; {cbool(bp_del)}; {cbool(bp_tr)}]")
        keep.append((key, ob))
        ctx.traces += 1
    for case, ob in zip(G, obsG):
        key = dict(kind='RaggedArray/' + case['which'], what=case['what'], descr=str(case['descr'])[:200],
                   datalen=case['datalen'])
        if 'harness_error' in ob:
            ctx.fail('harness-error', key, observed=ob); continue
        ok = valid(case['descr'], ob['datalen'])
        ctx.seen(key, nontrivial=not ok); ctx.count('ragged:' + case['what'].split(':')[0])
        if not ok:
            if ob['ragged'][0] == 'ok' or ob['open'][0] == 'ok':
                ctx.fail('invalid-subarray-opened:' + case['what'], key,
                         observed=dict(ragged=ob['ragged'], open=ob['open']))
            for nm in ('delete', 'truncate'):
                if nm in ob and (ob[nm][0] == 'ok' or ob[nm][1] != 'TypeError' or not ob[nm + '_unchanged']):
                    ctx.fail(f'ragged-by-path-{nm}-not-refused:' + case['what'], key,
                             observed=dict(res=ob[nm], unchanged=ob[nm + '_unchanged']))
        oth = dict(kind='json', json=ob['other']['descr'])
        this = (file_term(case['descr']), data_term(ob['datalen']))
        other = (file_term(oth), data_term(ob['other']['datalen']))
        fv, dv, fi, di = (this + other) if case['which'] == 'values' else (other + this)
        terms.append(f"chk_open_ragged {fv} {dv} {fi} {di} {cbool(ob['ragged'][0] != 'ok')}")
        keep.append((key, ob))
        ctx.traces += 1
    if keep:
        ctx.sample(dict(case=keep[40][0], observed={k: v for k, v in keep[40][1].items() if k != 'other'}))
        ctx.sample(dict(case=keep[-5][0], observed={k: v for k, v in keep[-5][1].items() if k != 'other'}))
    bad = ctx.coq_check('c18', PRELUDE, terms, shard=300)
    if bad is None:
        ctx.model_ok = False
        return
    for i in bad[:6]:
        key, ob = keep[i]
        ctx.mismatch('Json.open_json / darr_open / by_path vs the implementation', key,
                     {k: v for k, v in ob.items() if k != 'other'},
                     model_obs=ctx.coq_show('c18dbg%d' % i, PRELUDE,
                                            terms[i].split(' [')[0].replace('chk_open_ragged', 'id').replace('chk_open ', 'open_json ', 1) + ' R'
                                            if terms[i].startswith('chk_open ') else 'tt')[:400])
