(* EffectOrderR.v -- reading of the effect vocabulary for darr.RaggedArray, against the
   skeletons GENERATED from darr/raggedarray.py (Gen_effects.v).  No proofs here. *)
From Coq Require Import ZArith List Bool String.
From Darr Require Import Base ArrayModel RaggedModel Skel Gen_effects EffectOrder.
Import ListNotations.
Open Scope string_scope.

Definition rkind_of (e : reff) : kind :=
  match e with
  | RV x => KV (kind_of x) | RI x => KI (kind_of x)
  | RWriteDescr _ => KRDescr | RWriteReadme _ => KRReadme
  | RWriteMeta => KMeta | RUnlinkMeta => KUnlinkMeta
  end.

(* a call on one sub-array does there what the Array skeleton of that function does
   (C17_truncate_order_from_source, C17_update_len_order_from_source) *)
Definition rprim (n : string) : list kind :=
  if String.eqb n "_append@_values" then [KV KAppend]
  else if String.eqb n "_append@_indices" then [KI KAppend]
  else if String.eqb n "truncate_array@_indices" then map KI [KTrunc; KDescr; KReadme]
  else if String.eqb n "truncate_array@_values" then map KV [KTrunc; KDescr; KReadme]
  else if String.eqb n "truncate@_values" then [KV KTrunc]
  else if String.eqb n "truncate@_indices" then [KI KTrunc]
  else if String.eqb n "_update_len@_values" then map KV [KDescr; KReadme]
  else if String.eqb n "_update_len@_indices" then map KI [KDescr; KReadme]
  else if String.eqb n "_update_arraydescr" then [KRDescr]
  else if String.eqb n "_update_readmetxt" then [KRReadme]
  else [].

Definition rsub (n : string) : option sk :=
  if String.eqb n "_append" then Some sk_ragged_append
  else if String.eqb n "_update_lens" then Some sk_ragged_update_lens
  else None.

Definition rruns := runs rprim rsub.
