From Coq Require Import ZArith List Bool.
From Darr Require Import Base Gen_frames Sched CheckArray.
Import ListNotations.
Open Scope Z_scope.

Definition outcome_flat (o : outcome) : list Z :=
  match o with
  | ONothing => [0] | OChunk a b vals => [1; b - a] ++ vals | OStop => [2]
  | OValue v => [3; v] | ORaise => [4] | OCrash => [9]
  end.
(* final: users; cached map present?; number of open maps *)
Definition chk_sched (n : Z) (acts : list action) (obs : list (list Z)) (final : list Z) : bool :=
  let '(os, s) := sched_run (sched_init n 0) acts in
  zll_eqb (map outcome_flat os) obs &&
  zlist_eqb [Z.of_nat (sc_users s); (match sc_cache s with Some _ => 1 | None => 0 end); zlen (sc_open s)] final.
Definition dbg_sched (n : Z) (acts : list action) : list (list Z) :=
  let '(os, s) := sched_run (sched_init n 0) acts in
  map outcome_flat os ++ [[Z.of_nat (sc_users s); (match sc_cache s with Some _ => 1 | None => 0 end); zlen (sc_open s)]].
