(* Check14.v -- comparison of the model's results with observations of the
   implementation for C14 (used by the generated cases files; no proofs). *)
From Coq Require Import ZArith List Bool.
From Darr Require Import Base Gen_frames.
Import ListNotations.
Open Scope Z_scope.

Definition exc_eqb (a b : exc) : bool := exc_code a =? exc_code b.

Definition pair_eqb (a b : Z * Z) : bool := (fst a =? fst b) && (snd a =? snd b).

Definition frames_res_eqb (a b : res (list (Z * Z))) : bool :=
  match a, b with
  | Ok x, Ok y => list_eqb pair_eqb x y
  | Err e, Err f => exc_eqb e f
  | _, _ => false
  end.

Definition triple_res_eqb (a b : res (Z * Z * Z)) : bool :=
  match a, b with
  | Ok (x1, x2, x3), Ok (y1, y2, y3) => (x1 =? y1) && (x2 =? y2) && (x3 =? y3)
  | Err e, Err f => exc_eqb e f
  | _, _ => false
  end.

Definition chk_iterindices (len0 c : Z) (so sto eno : option Z) (flag : bool)
  (obs : res (list (Z * Z))) : bool :=
  frames_res_eqb (iterindices len0 c so sto eno flag) obs.

Definition chk_fit_frames (t c : Z) (so : option Z) (obs : res (Z * Z * Z)) : bool :=
  triple_res_eqb (fit_frames t c so) obs.
