(* ReadcodeRagged.v -- darr/readcoderaggedarray.py as an executable model: the text of
   RaggedArray.readcode per language (index-array code + values-array code from Readcode.v,
   the subarray accessor, the example statement) and the documented meaning of the accessor.
   No proofs. *)
From Coq Require Import ZArith List Bool String Ascii.
From Darr Require Import Base ArrayModel Codec Gen_tables Readcode.
Import ListNotations.
Open Scope Z_scope.
Open Scope string_scope.
Open Scope list_scope.
Infix "+++" := String.append (at level 60, right associativity).

Definition ragged_languages : list string :=      (* sorted as Python sorts them *)
  ["R"; "darr"; "idl"; "julia"; "maple"; "mathematica"; "matlab"; "numpymemmap"; "scilab"].

(* the Array composer each ragged composer calls for both sub-arrays *)
Definition array_lang (l : string) : string := if String.eqb l "julia" then "julia_ver1" else l.

(* index origin of the language (Python, IDL: 0) *)
Definition origin (l : string) : Z :=
  if String.eqb l "darr" || String.eqb l "numpymemmap" || String.eqb l "idl" then 0 else 1.

(* (k, position word) of the example statement: the selection every composer makes from
   len(dra), GENERATED from darr/readcoderaggedarray.py (Gen_tables.ragged_example) *)
Definition example_of (l : string) (n : Z) : Z * string := ragged_example l n.

Definition rpath (m : pathmode) (sub : string) : string :=
  match m with
  | PRel => sub +++ "/arrayvalues.bin"
  | PBase b => (if String.eqb b "" || String.eqb b "." then sub else b +++ "/" +++ sub) +++ "/arrayvalues.bin"
  | PAbs d => d +++ "/" +++ sub +++ "/arrayvalues.bin"
  end.

(* drop the first line (numpymemmap: the second `import numpy as np`) *)
Fixpoint drop_line (s : string) : string :=
  match s with
  | EmptyString => EmptyString
  | String c r => if Ascii.eqb c (ascii_of_nat 10) then r else drop_line r
  end.

Record rinfo := mkRinfo {
  ri_n : Z;                 (* number of subarrays *)
  ri_atom : list Z;
  ri_vnt : numtype; ri_vbo : byteorder; ri_vlen : Z;     (* values array: (vlen, atom...) *)
  ri_int : numtype; ri_ibo : byteorder                   (* index array: (n, 2) *)
}.

Definition values_shape (r : rinfo) : list Z := ri_vlen r :: ri_atom r.
Definition index_shape (r : rinfo) : list Z := [ri_n r; 2].

Definition code_i (l : string) (r : rinfo) (m : pathmode) : option string :=
  option_map print_plan (plan_of (array_lang l) (ri_int r) (index_shape r) (ri_ibo r) (rpath m "indices") "i"
                                 (String.eqb l "R")).
Definition code_v (l : string) (r : rinfo) (m : pathmode) : option string :=
  option_map print_plan (plan_of (array_lang l) (ri_vnt r) (values_shape r) (ri_vbo r) (rpath m "values") "v" false).

(* R cannot hold an int64 index beyond the int32 range; the cut-off is GENERATED from the source
   (Gen_tables.r_size_limit) *)
Definition r_size_ok (r : rinfo) : bool :=
  negb (numtype_eqb (ri_int r) Int64 && Z.ltb r_size_limit (ri_vlen r * prodZ (ri_atom r))).

Definition rank (r : rinfo) : nat := List.length (ri_atom r).

(* dims printed for R's explicit empty result: the atom in R's (reversed) axis order, then 0 *)
Definition r_emptydims (r : rinfo) : list Z := rev (ri_atom r) ++ [0].

Definition readcode_ragged (l : string) (r : rinfo) (m : pathmode) : option string :=
  let '(k, pos) := example_of l (ri_n r) in
  let ks := zstr k in
  let numtype := numtype_name (ri_vnt r) in
  if String.eqb l "darr" then
    Some ("import darr" +++ nl +++ "# path_to_data_dir is the directory that contains this README" +++ nl
          +++ "a = darr.RaggedArray(path='path_to_data_dir')" +++ nl
          +++ "# example to read " +++ pos +++ " (k=" +++ ks +++ ") subarray:" +++ nl
          +++ "sa = a[" +++ ks +++ "]" +++ nl)
  else
  match code_i l r m, code_v l r m with
  | Some rci, Some rcv =>
    if String.eqb l "numpymemmap" then
      Some (rci +++ drop_line rcv
            +++ "def getsubarray(k):" +++ nl +++ "    starti, endi = i[k]" +++ nl +++ "    return v[starti:endi]" +++ nl
            +++ "# example to read " +++ pos +++ " (k=" +++ ks +++ ") subarray:" +++ nl
            +++ "sa = getsubarray(" +++ ks +++ ")" +++ nl)
    else if String.eqb l "R" then
      if negb (r_size_ok r) then None else
      Some ("# read array of indices to be used on values array" +++ nl +++ rci
            +++ "# read array of values:" +++ nl +++ rcv
            +++ "# create function to get subarrays:" +++ nl
            +++ "getsubarray <- function(k){" +++ nl
            +++ "    starti <- i[1,k] + 1  # R starts counting from 1" +++ nl
            +++ "    endi <- i[2,k]        # R has inclusive end index" +++ nl
            +++ (match ri_atom r with
                 | [] => "    if (starti > endi) {  # subarray is empty" +++ nl
                         +++ "        return (c())" +++ nl
                         +++ "    } else {" +++ nl
                         +++ "        return (v[starti:endi])" +++ nl
                 | _ => "    if (starti > endi) {" +++ nl
                        +++ "        return (array(numeric(),c(" +++ sjoin "," (map zstr (r_emptydims r)) +++ "))) # empty array" +++ nl
                        +++ "    } else {" +++ nl
                        +++ "        return (v[" +++ srepeat "," (rank r) +++ "starti:endi])" +++ nl
                 end)
            +++ "    }" +++ nl +++ "}" +++ nl
            +++ "# example to read " +++ pos +++ " (k=" +++ ks +++ ") subarray:" +++ nl
            +++ "sa = getsubarray(" +++ ks +++ ")" +++ nl)
    else if String.eqb l "scilab" then
      Some ("/* read indice array, to be used on values array later: */" +++ nl +++ rci
            +++ "/* read " +++ numtype +++ " values array: */" +++ nl +++ rcv
            +++ "/* create an anonymous function that returns the k-th subarray */" +++ nl
            +++ "/* from the values array: */" +++ nl
            +++ "deff(""sa = getsubarray(k)"", ""sa = v(" +++ srepeat ":," (rank r) +++ "i(1,k)+1:i(2,k))"")" +++ nl
            +++ "/* example to read " +++ pos +++ " (k=" +++ ks +++ ") subarray: */" +++ nl
            +++ "sa = getsubarray(" +++ ks +++ ");" +++ nl)
    else if String.eqb l "matlab" then
      Some ("% read indice array, to be used on values array later:" +++ nl +++ rci
            +++ "% read " +++ numtype +++ " values array:" +++ nl +++ rcv
            +++ "% create an anonymous function that returns the k-th subarray" +++ nl
            +++ "% from the values array:" +++ nl
            +++ "getsubarray = @(k) v(" +++ srepeat ":," (rank r) +++ "i(1,k)+1:i(2,k));" +++ nl
            +++ "% example to read " +++ pos +++ " (k=" +++ ks +++ ") subarray:" +++ nl
            +++ "sa = getsubarray(" +++ ks +++ ");" +++ nl)
    else if String.eqb l "julia" then
      Some ("# read indices array, to be used on values array later:" +++ nl +++ rci
            +++ "# read " +++ numtype +++ " values array:" +++ nl +++ rcv
            +++ "# create a function that returns the k-th subarray" +++ nl
            +++ "# from the values array:" +++ nl
            +++ "function getsubarray(k)" +++ nl
            +++ "    starti = i[1,k]+1  # Julia starts counting from 1" +++ nl
            +++ "    endi = i[2,k]  # Julia has inclusive end index" +++ nl
            +++ "    v[" +++ srepeat ":," (rank r) +++ "starti:endi]" +++ nl
            +++ "end" +++ nl
            +++ "# example to read " +++ pos +++ " (k=" +++ ks +++ ") subarray:" +++ nl
            +++ "sa = getsubarray(" +++ ks +++ ")" +++ nl)
    else if String.eqb l "mathematica" then
      Some ("(* read indices array, to be used on values array later: *)" +++ nl +++ rci
            +++ "(* read " +++ numtype +++ " values array: *)" +++ nl +++ rcv
            +++ "(* create a function that returns the k-th subarray" +++ nl
            +++ "   from the values array: *)" +++ nl
            +++ "getsubarray[k_?IntegerQ] := " +++ nl
            +++ "    Module[{l}," +++ nl
            +++ "        l = k;" +++ nl
            +++ "        starti = i[[l,1]] + 1;" +++ nl
            +++ "        endi = i[[l,2]];" +++ nl
            +++ "        v[[starti;;endi]]]" +++ nl
            +++ "(* example to read " +++ pos +++ " (k=" +++ ks +++ ") subarray: *)" +++ nl
            +++ "sa = getsubarray[" +++ ks +++ "]" +++ nl)
    else if String.eqb l "maple" then
      Some ("# read indices array, to be used on values array later:" +++ nl +++ rci
            +++ "# read " +++ numtype +++ " values array:" +++ nl +++ rcv
            +++ "# create a function that returns the k-th subarray" +++ nl
            +++ "# from the values array:" +++ nl
            +++ "getsubarray := proc (k::integer);" +++ nl
            +++ "    v(" +++ srepeat "..," (rank r) +++ " i(1,k) + 1 .. i(2,k));" +++ nl
            +++ "end proc;" +++ nl
            +++ "# example to read " +++ pos +++ " (k=" +++ ks +++ ") subarray:" +++ nl
            +++ "sa := getsubarray(" +++ ks +++ ");" +++ nl)
    else if String.eqb l "idl" then
      Some ("; read indices array, to be used on values array later:" +++ nl +++ rci
            +++ "; read " +++ numtype +++ " values array:" +++ nl +++ rcv
            +++ "; example to get the " +++ pos +++ " (k=" +++ ks +++ ") subarray from the values array," +++ nl
            +++ "; but set k to get the subarray number you want:" +++ nl
            +++ "k = " +++ ks +++ " " +++ nl
            +++ "; expression below sets sa variable to subarray" +++ nl
            +++ "IF i[0,k] EQ i[1,k] THEN sa=[] ELSE sa=v[" +++ srepeat "*," (rank r) +++ "i[0,k]:i[1,k]-1]" +++ nl)
    else None
  | _, _ => None
  end.

Definition ragged_readcodelanguages (r : rinfo) : list string :=
  filter (fun l => match readcode_ragged l r PRel with Some _ => true | None => false end) ragged_languages.

(* ---------- the accessor's meaning ---------- *)
(* value of an index element (canonical = most significant byte first; indices are never negative) *)
Definition ival (b : list Z) : Z := fold_left (fun acc x => acc * 256 + x) b 0.

Inductive sres :=
| SArr (a : aval)          (* an array value with dimensions *)
| SNoDims.                 (* an empty value that has no dimensions in the language: c(), [], {} *)

(* positions lo .. hi-1 along the SLOWEST axis (first axis of a row-major, last axis of a
   column-major array): a contiguous block of the flat data *)
Definition slowest (a : aval) : Z :=
  match a_ord a with RowMajor => hd 0 (a_dims a) | ColMajor => last (a_dims a) 0 end.
Definition inner (a : aval) : list Z :=
  match a_ord a with RowMajor => tl (a_dims a) | ColMajor => removelast (a_dims a) end.
Definition slice_slowest (a : aval) (lo hi : Z) : aval :=
  let p := Z.to_nat (prodZ (inner a)) in
  mkA (a_nt a)
      (match a_ord a with RowMajor => (hi - lo) :: inner a | ColMajor => inner a ++ [hi - lo] end)
      (a_ord a)
      (firstn (Z.to_nat (hi - lo) * p) (skipn (Z.to_nat lo * p) (a_flat a))).

(* start and end of subarray number k (in the language's numbering) from the index array *)
Definition bounds (l : string) (i : aval) (k : Z) : option (Z * Z) :=
  let k0 := k - origin l in
  match lang_order (array_lang l) with
  | ColMajor => match aget i [0; k0], aget i [1; k0] with
                | Some s, Some e => Some (ival s, ival e) | _, _ => None end
  | RowMajor => match aget i [k0; 0], aget i [k0; 1] with
                | Some s, Some e => Some (ival s, ival e) | _, _ => None end
  end.

(* does the language give an empty range result dimensions? (Scilab: [], Mathematica: {}, IDL: the
   explicit [] branch, R with a scalar atom: the explicit c() branch) *)
Definition empty_has_dims (l : string) (atomrank : nat) : bool :=
  if String.eqb l "scilab" || String.eqb l "mathematica" || String.eqb l "idl" then false
  else if String.eqb l "R" then negb (Nat.eqb atomrank 0)
  else true.

(* the accessor: `nplace` placeholders were printed before the range; `emptydims` is what R's
   explicit empty branch constructs *)
Definition accessor (l : string) (nplace : nat) (emptydims : list Z) (i v : aval) (k : Z) : option sres :=
  match bounds l i k with
  | None => None
  | Some (s, e) =>
      (* the number of subscripts must fit the array (Mathematica's Part takes the first level) *)
      if negb (String.eqb l "mathematica" || String.eqb l "darr" || String.eqb l "numpymemmap")
         && negb (Nat.eqb (S nplace) (List.length (a_dims v))) then None
      else if Z.ltb e s || Z.ltb (slowest v) e || Z.ltb s 0 then None
      else if Z.eqb s e then
        (if String.eqb l "R" then
           (match emptydims with [] => Some SNoDims | _ => Some (SArr (mkA (a_nt v) emptydims ColMajor [])) end)
         else if empty_has_dims l nplace then Some (SArr (slice_slowest v s e))
         else Some SNoDims)
      else Some (SArr (slice_slowest v s e))
  end.

(* the accessor a generated program defines *)
Definition program_accessor (l : string) (r : rinfo) (i v : aval) (k : Z) : option sres :=
  accessor l (rank r) (match ri_atom r with [] => [] | _ => r_emptydims r end) i v k.
