(* Index.v -- NumPy BASIC indexing (ints, slices with any step, Ellipsis, None, tuples)
   on a C-ordered array: Python's slice normalisation (slice.indices), the result shape
   and the flat offsets selected, in row-major order.  Advanced indexing is NumPy's
   (oracle).  No proofs. *)
From Coq Require Import ZArith List Bool.
From Darr Require Import Base.
Import ListNotations.
Open Scope Z_scope.

Inductive idx :=
| IInt (i : Z)
| ISlice (start stop step : option Z)
| IEllipsis
| INone.

Definition clamp (lo hi x : Z) : Z := Z.max lo (Z.min hi x).

(* slice.indices(n): (start, stop, step) with Python's defaults and clamping *)
Definition slice_norm (start stop step : option Z) (n : Z) : Z * Z * Z :=
  let st := match step with None => 1 | Some s => s end in
  if 0 <? st then
    let norm x := if x <? 0 then Z.max 0 (x + n) else Z.min x n in
    (match start with None => 0 | Some x => norm x end,
     match stop with None => n | Some x => norm x end, st)
  else
    let norm x := if x <? 0 then Z.max (-1) (x + n) else Z.min x (n - 1) in
    (match start with None => n - 1 | Some x => norm x end,
     match stop with None => -1 | Some x => norm x end, st).

Definition slice_count (lo hi st : Z) : Z :=
  if 0 <? st then (if lo <? hi then (hi - lo - 1) / st + 1 else 0)
  else if st <? 0 then (if hi <? lo then (lo - hi - 1) / (- st) + 1 else 0)
  else 0.

Definition slice_idx (lo hi st : Z) : list Z :=
  map (fun k => lo + Z.of_nat k * st) (seq 0 (Z.to_nat (slice_count lo hi st))).

(* per axis: the selected positions and whether the axis is kept in the result *)
Inductive axis_sel := SelOne (i : Z) | SelMany (l : list Z) | SelNew.

Definition count_axes (ixs : list idx) : nat :=
  length (filter (fun x => match x with IInt _ | ISlice _ _ _ => true | _ => false end) ixs).

(* replace the (single) Ellipsis by full slices; pad with full slices at the end *)
Definition full := ISlice None None None.
Fixpoint expand (ixs : list idx) (missing : nat) (seen : bool) : list idx :=
  match ixs with
  | [] => if seen then [] else repeat full missing
  | IEllipsis :: t => if seen then full :: expand t missing true    (* a second Ellipsis is an error; see below *)
                      else repeat full missing ++ expand t missing true
  | x :: t => x :: expand t missing seen
  end.

Definition two_ellipsis (ixs : list idx) : bool :=
  Nat.ltb 1 (length (filter (fun x => match x with IEllipsis => true | _ => false end) ixs)).

Fixpoint select (ixs : list idx) (shape : list Z) : res (list axis_sel) :=
  match ixs with
  | [] => match shape with [] => Ok [] | _ => Err OtherError end
  | INone :: t => match select t shape with Ok r => Ok (SelNew :: r) | Err e => Err e end
  | IEllipsis :: t => Err OtherError
  | IInt i :: t =>
      match shape with
      | [] => Err IndexError
      | n :: sh =>
          if (- n <=? i) && (i <? n)
          then match select t sh with Ok r => Ok (SelOne (if i <? 0 then i + n else i) :: r) | Err e => Err e end
          else Err IndexError
      end
  | ISlice a b c :: t =>
      match shape with
      | [] => Err IndexError
      | n :: sh =>
          match c with
          | Some 0 => Err ValueError
          | _ => let '(lo, hi, st) := slice_norm a b c n in
                 match select t sh with Ok r => Ok (SelMany (slice_idx lo hi st) :: r) | Err e => Err e end
          end
      end
  end.

(* result shape and flat offsets (row-major), given the strides of the source *)
Fixpoint strides (shape : list Z) : list Z :=
  match shape with [] => [] | _ :: sh => prodZ sh :: strides sh end.

Fixpoint offsets (sel : list axis_sel) (str : list Z) (base : Z) : list Z :=
  match sel with
  | [] => [base]
  | SelNew :: r => offsets r str base
  | SelOne i :: r => match str with s :: str' => offsets r str' (base + i * s) | [] => [] end
  | SelMany l :: r => match str with s :: str' => concat (map (fun i => offsets r str' (base + i * s)) l) | [] => [] end
  end.
Fixpoint rshape (sel : list axis_sel) : list Z :=
  match sel with
  | [] => []
  | SelNew :: r => 1 :: rshape r
  | SelOne _ :: r => rshape r
  | SelMany l :: r => Z.of_nat (length l) :: rshape r
  end.

Definition basic_index (ixs : list idx) (shape : list Z) : res (list Z * list Z) :=
  if two_ellipsis ixs then Err IndexError else
  let nax := count_axes ixs in
  if Nat.ltb (length shape) nax then Err IndexError else
  match select (expand ixs (length shape - nax) false) shape with
  | Ok sel => Ok (rshape sel, offsets sel (strides shape) 0)
  | Err e => Err e
  end.
