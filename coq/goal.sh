#!/bin/bash
# usage: goal.sh <file.v> <line>   -- show the proof state before <line>
f=$1; n=$2
head -n $((n-1)) $f > /tmp/_goal.v
echo "Show. Admitted." >> /tmp/_goal.v
cd /verif/coq && coqc -Q . Darr /tmp/_goal.v 2>&1 | tail -${3:-60}
rm -f /tmp/_goal.vo /tmp/_goal.glob /tmp/._goal.aux /tmp/_goal.vok /tmp/_goal.vos
