(* CheckArray.v -- flattening of model states and comparison with observations of the
   implementation (tie K for the Array model). No proofs. *)
From Coq Require Import ZArith List Bool.
From Darr Require Import Base ArrayModel Codec.
Import ListNotations.
Open Scope Z_scope.

Definition res_code {A} (r : res A) : Z := match r with Ok _ => 0 | Err e => exc_code e end.

(* the model's ValueError / OtherError stand for "raises something" (the class is
   NumPy's or the iterable's); every other class is compared exactly *)
Definition res_compat {A} (r : res A) (obs : Z) : bool :=
  match r with
  | Ok _ => obs =? 0
  | Err OtherError | Err ValueError => negb (obs =? 0)
  | Err e => obs =? exc_code e
  end.

Definition mode_code (m : mode) : Z := match m with R => 0 | RW => 1 end.
Definition ord_code (o : arrayorder) : Z := match o with OrdC => 0 | OrdF => 1 end.
Definition zlen {A} (l : list A) : Z := Z.of_nat (length l).

Definition descr_flat (d : descr) : list Z :=
  [numtype_code (d_nt d); byteorder_code (d_bo d); ord_code (d_ord d); zlen (d_shape d)] ++ d_shape d.
Definition jdescr_flat (j : jfile descr) : list Z :=
  match j with Absent => [-1] | Torn => [-2] | Val d => 0 :: descr_flat d end.
Definition facts_flat (j : jfile facts) : list Z :=
  match j with
  | Absent => [-1] | Torn => [-2]
  | Val (d, m) => [0; numtype_code (d_nt d); byteorder_code (d_bo d); zlen (d_shape d)] ++ d_shape d
                  ++ [if m then 1 else 0]
  end.
Definition data_flat (o : option (list Z)) : list Z :=
  match o with None => [-1] | Some bs => zlen bs :: bs end.

Definition handle_flat (h : handle) : list Z :=
  [mode_code (h_mode h); numtype_code (h_nt h); byteorder_code (h_bo h); zlen (h_shape h)] ++ h_shape h.
Definition dir_flat (d : adir) : list Z :=
  jdescr_flat (a_descr d) ++ facts_flat (a_readme d) ++ [if a_meta d then 1 else 0] ++ data_flat (a_data d).
Definition world_flat (w : world) : list Z := handle_flat (fst w) ++ dir_flat (snd w).

Fixpoint chk_steps (w : world) (ops : list aop) (obs : list (Z * list Z)) : bool :=
  match ops, obs with
  | [], [] => true
  | o :: ops', (rc, fl) :: obs' =>
      let '(r, w') := step w o in
      res_compat r rc && zlist_eqb (world_flat w') fl && chk_steps w' ops' obs'
  | _, _ => false
  end.

Definition chk_history (c : res world) (ops : list aop) (obs : list (Z * list Z)) : bool :=
  match c, obs with
  | Ok w, (0, fl) :: obs' => zlist_eqb (world_flat w) fl && chk_steps w ops obs'
  | Err e, [(rc, _)] => res_compat (@Err unit e) rc
  | _, _ => false
  end.

(* for diagnosis: what the model says after each step *)
Fixpoint dbg_steps (w : world) (ops : list aop) : list (Z * list Z) :=
  match ops with
  | [] => []
  | o :: ops' => let '(r, w') := step w o in (res_code r, world_flat w') :: dbg_steps w' ops'
  end.
Definition dbg_history (c : res world) (ops : list aop) : list (Z * list Z) :=
  match c with
  | Ok w => (0, world_flat w) :: dbg_steps w ops
  | Err e => [(exc_code e, [])]
  end.

Definition created (s : source) (cl : option Z) (m : mode) (meta : bool) : res world :=
  match asarray_m s cl m meta with Ok (h, d) => Ok (h, d) | Err e => Err e end.

(* C02: the independent reader applied to the observed files must give what the API
   reported (dtype, shape, canonical element bytes) *)
Definition chk_decode (d : adir) (nt bo : Z) (shape canon : list Z) : bool :=
  match decode_dir d with
  | Some (t, b, _, sh, elems) =>
      (numtype_code t =? nt) && (byteorder_code b =? bo) && zlist_eqb sh shape
      && zlist_eqb (concat elems) canon
  | None => false
  end.
Definition dbg_decode (d : adir) : list Z :=
  match decode_dir d with
  | Some (t, b, _, sh, elems) => [numtype_code t; byteorder_code b; zlen sh] ++ sh ++ concat elems
  | None => [-1]
  end.

(* C17: the sequence of distinct on-disk states observed between executed source lines
   while one operation runs must be the model's trace (Crash.trace_states) *)
From Darr Require Import Crash.
Fixpoint dedup (l : list (list Z)) : list (list Z) :=
  match l with
  | a :: ((b :: _) as t) => if zlist_eqb a b then dedup t else a :: dedup t
  | _ => l
  end.
Definition zll_eqb := list_eqb zlist_eqb.
Definition chk_trace (c : res world) (o : aop) (obs : list (list Z)) : bool :=
  match c with
  | Ok w => let '(_, _, es) := exec w o in
            zll_eqb (dedup (map dir_flat (snd w :: trace_states (snd w) es))) obs
  | Err _ => false
  end.
Definition dbg_trace (c : res world) (o : aop) : list (list Z) :=
  match c with
  | Ok w => let '(_, _, es) := exec w o in dedup (map dir_flat (snd w :: trace_states (snd w) es))
  | Err _ => []
  end.
