(* Spec.v -- the abstract specifications the properties speak of (short enough to
   read in minutes; no file system, no handles, no effects). *)
From Coq Require Import ZArith List Bool.
From Darr Require Import Base ArrayModel.
Import ListNotations.
Open Scope Z_scope.

(* ---------- the NumPy model of an Array: a typed list of rows ---------- *)

Record sarr := mkSarr {
  s_nt : numtype; s_bo : byteorder; s_ord : arrayorder;
  s_tail : list Z;                 (* trailing shape *)
  s_rows : list (list Z);          (* first-axis items, each the bytes of one row *)
  s_mode : mode;
  s_meta : bool                    (* metadata exist *)
}.

Definition s_rb (s : sarr) : Z := prodZ (s_tail s) * itemsize (s_nt s).
Definition s_len (s : sarr) : Z := Z.of_nat (length (s_rows s)).
Definition s_shape (s : sarr) : list Z := s_len s :: s_tail s.

Definition with_rows (s : sarr) (rows : list (list Z)) : sarr :=
  mkSarr (s_nt s) (s_bo s) (s_ord s) (s_tail s) rows (s_mode s) (s_meta s).
Definition with_mode (s : sarr) (m : mode) : sarr :=
  mkSarr (s_nt s) (s_bo s) (s_ord s) (s_tail s) (s_rows s) m (s_meta s).
Definition with_meta (s : sarr) (b : bool) : sarr :=
  mkSarr (s_nt s) (s_bo s) (s_ord s) (s_tail s) (s_rows s) (s_mode s) b.

(* rows contributed by the chunks that are appended completely: everything up to
   the first chunk that raises, cannot be converted, has another trailing shape or
   whose write fails; the flag says whether such a chunk was met *)
Fixpoint good_prefix (tail : list Z) (cs : list chunk) : list (list Z) * bool :=
  match cs with
  | [] => ([], false)
  | CGood t rows :: rest =>
      if tails_eqb t tail then let '(g, f) := good_prefix tail rest in (rows ++ g, f)
      else ([], true)
  | _ :: _ => ([], true)
  end.

(* cut a byte string into n rows of rb bytes *)
Fixpoint unconcat (n rb : nat) (l : list Z) : list (list Z) :=
  match n with O => [] | S n' => firstn rb l :: unconcat n' rb (skipn rb l) end.

Definition apply_pokes (pokes : list (Z * list Z)) (data : list Z) : list Z :=
  fold_left (fun d p => poke (fst p) (snd p) d) pokes data.

(* one operation on the NumPy model: (did it succeed, new state) *)
Definition spec_step (s : sarr) (o : aop) : bool * sarr :=
  match o with
  | OpIterAppend cs =>
      match s_mode s with
      | R => (false, s)
      | RW => let '(g, failed) := good_prefix (s_tail s) cs in
              (negb failed, with_rows s (s_rows s ++ g))      (* concatenation *)
      end
  | OpTruncate idx =>
      match s_mode s, idx with
      | RW, Some i =>
          let newlen := slice_len i (s_len s) in              (* len(a[:i]) *)
          if (0 <=? newlen) && (newlen <? s_len s)
          then (true, with_rows s (firstn (Z.to_nat newlen) (s_rows s)))   (* a[:i] *)
          else (false, s)
      | _, _ => (false, s)
      end
  | OpSetItem w =>
      match s_mode s, w with
      | RW, Some pokes =>
          (true, with_rows s (unconcat (length (s_rows s)) (Z.to_nat (s_rb s))
                                       (apply_pokes pokes (concat (s_rows s)))))
      | _, _ => (false, s)
      end
  | OpSetMode (Some m) => (true, with_mode s m)
  | OpSetMode None => (false, s)
  | OpReopen m => (true, with_mode s m)
  | OpMetaSet => match s_mode s with R => (false, s) | RW => (true, with_meta s true) end
  | OpMetaClear => if s_meta s then match s_mode s with R => (false, s) | RW => (true, with_meta s false) end
                   else (true, s)
  | OpMetaPop => match s_mode s with
                 | R => (false, s)
                 | RW => if s_meta s then (true, with_meta s false) else (false, s)
                 end
  end.

Definition spec_run (s : sarr) (os : list aop) : sarr :=
  fold_left (fun s o => snd (spec_step s o)) os s.

(* ---------- the list-of-arrays model of a RaggedArray ---------- *)
From Darr Require Import RaggedModel.

Record srag := mkSrag {
  g_nt : numtype; g_bo : byteorder; g_atom : list Z; g_ity : numtype;   (* index type *)
  g_subs : list (list (list Z));     (* the subarrays: each a list of rows of bytes *)
  g_mode : mode; g_meta : bool }.

Definition g_lens (g : srag) : list Z := map (fun s => Z.of_nat (length s)) (g_subs g).
Definition g_with_subs (g : srag) (subs : list (list (list Z))) : srag :=
  mkSrag (g_nt g) (g_bo g) (g_atom g) (g_ity g) subs (g_mode g) (g_meta g).
Definition g_with_mode (g : srag) (m : mode) : srag :=
  mkSrag (g_nt g) (g_bo g) (g_atom g) (g_ity g) (g_subs g) m (g_meta g).
Definition g_with_meta (g : srag) (b : bool) : srag :=
  mkSrag (g_nt g) (g_bo g) (g_atom g) (g_ity g) (g_subs g) (g_mode g) b.

(* the items appended completely: up to the first one that raises, cannot be converted,
   has another atom, whose index does not fit the index type, or whose write fails;
   v = number of value rows so far *)
Fixpoint rgood_prefix (atom : list Z) (imax v : Z) (its : list ritem)
  : list (list (list Z)) * bool :=
  match its with
  | [] => ([], false)
  | RGood t rows :: rest =>
      if tails_eqb t atom && (v + Z.of_nat (length rows) <=? imax)
      then let '(g, f) := rgood_prefix atom imax (v + Z.of_nat (length rows)) rest in (rows :: g, f)
      else ([], true)
  | _ :: _ => ([], true)
  end.

Definition g_nrows (g : srag) : Z := Z.of_nat (length (concat (g_subs g))).

Definition rspec_step (g : srag) (o : rop) : bool * srag :=
  match o with
  | ROpIterAppend its =>
      match g_mode g with
      | R => (false, g)
      | RW => let '(good, failed) := rgood_prefix (g_atom g) (index_max (g_ity g)) (g_nrows g) its in
              (negb failed, g_with_subs g (g_subs g ++ good))
      end
  | ROpTruncate idx =>
      match idx, g_mode g with
      | Some i, RW =>
          let n := Z.of_nat (length (g_subs g)) in
          let newlen := slice_len i n in
          if (0 <=? newlen) && (newlen <? n)
          then (true, g_with_subs g (firstn (Z.to_nat newlen) (g_subs g)))    (* ra[:i] *)
          else (false, g)
      | _, _ => (false, g)
      end
  | ROpSetMode m => (true, g_with_mode g m)
  | ROpReopen m => (true, g_with_mode g m)
  | ROpMetaSet => match g_mode g with R => (false, g) | RW => (true, g_with_meta g true) end
  | ROpMetaClear => if g_meta g then match g_mode g with R => (false, g) | RW => (true, g_with_meta g false) end
                    else (true, g)
  | ROpMetaPop => match g_mode g with
                  | R => (false, g)
                  | RW => if g_meta g then (true, g_with_meta g false) else (false, g)
                  end
  end.

Definition rspec_run (g : srag) (os : list rop) : srag :=
  fold_left (fun g o => snd (rspec_step g o)) os g.

(* ra[k] in the model: list indexing with Python's negative indices *)
Definition g_getitem (g : srag) (k : Z) : option (list (list Z)) :=
  let n := Z.of_nat (length (g_subs g)) in
  if (- n <=? k) && (k <? n) then nth_error (g_subs g) (Z.to_nat (if k <? 0 then k + n else k))
  else None.

(* the structural condition on index rows: first start = s, start <= end, each start
   equals the previous end; returns the last end *)
Fixpoint chain_ok (s : Z) (idx : list (Z * Z)) : option Z :=
  match idx with
  | [] => Some s
  | (a, b) :: t => if (a =? s) && (a <=? b) then chain_ok b t else None
  end.

