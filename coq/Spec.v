(* Spec.v -- the abstract specifications the properties speak of (short enough to
   read in minutes; no file system, no handles, no effects). *)
From Coq Require Import ZArith List Bool.
From Darr Require Import Base ArrayModel.
Import ListNotations.
Open Scope Z_scope.

(* ---------- the NumPy model of an Array: a typed list of rows ---------- *)

Record sarr := mkSarr {
  s_nt : numtype; s_bo : byteorder; s_ord : arrayorder;
  s_tail : list Z;                 (* trailing shape *)
  s_rows : list (list Z);          (* first-axis items, each the bytes of one row *)
  s_mode : mode;
  s_meta : bool                    (* metadata exist *)
}.

Definition s_rb (s : sarr) : Z := prodZ (s_tail s) * itemsize (s_nt s).
Definition s_len (s : sarr) : Z := Z.of_nat (length (s_rows s)).
Definition s_shape (s : sarr) : list Z := s_len s :: s_tail s.

Definition with_rows (s : sarr) (rows : list (list Z)) : sarr :=
  mkSarr (s_nt s) (s_bo s) (s_ord s) (s_tail s) rows (s_mode s) (s_meta s).
Definition with_mode (s : sarr) (m : mode) : sarr :=
  mkSarr (s_nt s) (s_bo s) (s_ord s) (s_tail s) (s_rows s) m (s_meta s).
Definition with_meta (s : sarr) (b : bool) : sarr :=
  mkSarr (s_nt s) (s_bo s) (s_ord s) (s_tail s) (s_rows s) (s_mode s) b.

(* rows contributed by the chunks that are appended completely: everything up to
   the first chunk that raises, cannot be converted, has another trailing shape or
   whose write fails; the flag says whether such a chunk was met *)
Fixpoint good_prefix (tail : list Z) (cs : list chunk) : list (list Z) * bool :=
  match cs with
  | [] => ([], false)
  | CGood t rows :: rest =>
      if tails_eqb t tail then let '(g, f) := good_prefix tail rest in (rows ++ g, f)
      else ([], true)
  | _ :: _ => ([], true)
  end.

(* cut a byte string into n rows of rb bytes *)
Fixpoint unconcat (n rb : nat) (l : list Z) : list (list Z) :=
  match n with O => [] | S n' => firstn rb l :: unconcat n' rb (skipn rb l) end.

Definition apply_pokes (pokes : list (Z * list Z)) (data : list Z) : list Z :=
  fold_left (fun d p => poke (fst p) (snd p) d) pokes data.

(* one operation on the NumPy model: (did it succeed, new state) *)
Definition spec_step (s : sarr) (o : aop) : bool * sarr :=
  match o with
  | OpIterAppend cs =>
      match s_mode s with
      | R => (false, s)
      | RW => let '(g, failed) := good_prefix (s_tail s) cs in
              (negb failed, with_rows s (s_rows s ++ g))      (* concatenation *)
      end
  | OpTruncate idx =>
      match s_mode s, idx with
      | RW, Some i =>
          let newlen := slice_len i (s_len s) in              (* len(a[:i]) *)
          if (0 <=? newlen) && (newlen <? s_len s)
          then (true, with_rows s (firstn (Z.to_nat newlen) (s_rows s)))   (* a[:i] *)
          else (false, s)
      | _, _ => (false, s)
      end
  | OpSetItem w =>
      match s_mode s, w with
      | RW, Some pokes =>
          (true, with_rows s (unconcat (length (s_rows s)) (Z.to_nat (s_rb s))
                                       (apply_pokes pokes (concat (s_rows s)))))
      | _, _ => (false, s)
      end
  | OpSetMode m => (true, with_mode s m)
  | OpReopen m => (true, with_mode s m)
  | OpMetaSet => match s_mode s with R => (false, s) | RW => (true, with_meta s true) end
  | OpMetaClear => if s_meta s then match s_mode s with R => (false, s) | RW => (true, with_meta s false) end
                   else (true, s)
  end.

Definition spec_run (s : sarr) (os : list aop) : sarr :=
  fold_left (fun s o => snd (spec_step s o)) os s.
