(* CrashSafe.v -- a crash at any point of append / iterappend (incl. its recovery
   path) / truncate on an Array never leaves a directory that opens and shows anything
   but the state before, the state after, or the original rows followed by a whole
   number of the appended chunks. *)
From Coq Require Import ZArith List Bool Lia.
From Darr Require Import Base ArrayModel Spec Crash Proofs.ListLemmas Proofs.ArrayRefine Proofs.ArrayHist.
Import ListNotations.
Open Scope Z_scope.

(* every traced state is a crash state *)
Lemma crash_trace : forall es d s, In s (trace_states d es) -> crash d es s.
Proof.
  induction es as [|e es IH]; intros d s H; [contradiction|]. cbn [trace_states] in H.
  apply in_app_or in H. destruct H as [H|H].
  - destruct e; cbn [trace_of] in H;
      try (destruct H as [<-|[]]; apply crash_later, crash_here).
    + destruct H as [<-|[<-|[]]]; [apply crash_torn; constructor|apply crash_later, crash_here].
    + destruct H as [<-|[<-|[]]]; [apply crash_torn; constructor|apply crash_later, crash_here].
  - apply crash_later. apply IH. exact H.
Qed.

Lemma crash_app : forall a b d st,
  crash d (a ++ b) st -> crash d a st \/ crash (apply_effs a d) b st.
Proof.
  induction a as [|e a IH]; intros b d st H; [right; exact H|].
  cbn [app] in H. inversion H as [ | ? ? ? ? Ht | ? ? ? ? Hc ]; subst.
  - left. apply crash_here.
  - left. apply crash_torn. exact Ht.
  - destruct (IH _ _ _ Hc) as [L|Rr]; [left; apply crash_later; exact L|right; exact Rr].
Qed.

Definition view_rows (s : sarr) (rows : list (list Z)) : view :=
  (s_nt s, s_bo s, Z.of_nat (length rows) :: s_tail s, concat rows).

Lemma view_torn_descr : forall d, a_descr d = Torn -> view_of d = None.
Proof. intros d H. unfold view_of, open_dir. rewrite H. reflexivity. Qed.

(* a directory whose description says "rows'" and whose data file holds those rows
   plus extra bytes z: it fails to open unless z is empty, and then shows rows' *)
Lemma view_extra : forall st s rows' z,
  Forall (fun r => Z.of_nat (length r) = s_rb s) rows' -> 0 < s_rb s ->
  Forall (fun x => 0 < x) (s_tail s) ->
  a_descr st = Val (mkDescr (s_nt s) (s_bo s) (Z.of_nat (length rows') :: s_tail s) (s_ord s)) ->
  a_data st = Some (concat rows' ++ z) ->
  view_of st = None \/ view_of st = Some (view_rows s rows').
Proof.
  intros st s rows' z Hrows Hrb Htl Hds Hdat. unfold view_of, open_dir. rewrite Hds, Hdat.
  cbn [d_shape d_nt d_bo].
  destruct (shape_ok (Z.of_nat (length rows') :: s_tail s)); cbn [negb]; [|left; reflexivity].
  rewrite prod_shape. fold (s_rb s). rewrite app_length, Nat2Z.inj_add, (concat_rows_length _ _ Hrows).
  destruct (Z.of_nat (length rows') * s_rb s + Z.of_nat (length z) =? Z.of_nat (length rows') * s_rb s) eqn:E;
    [|left; reflexivity].
  apply Z.eqb_eq in E. assert (z = []) by (destruct z; [reflexivity|cbn in E; lia]). subst z.
  right. rewrite app_nil_r. reflexivity.
Qed.

(* description and data agree: it opens and shows rows' *)
Lemma view_exact : forall st s rows',
  Forall (fun r => Z.of_nat (length r) = s_rb s) rows' ->
  Forall (fun x => 0 < x) (s_tail s) ->
  a_descr st = Val (mkDescr (s_nt s) (s_bo s) (Z.of_nat (length rows') :: s_tail s) (s_ord s)) ->
  a_data st = Some (concat rows') ->
  view_of st = Some (view_rows s rows').
Proof.
  intros st s rows' Hrows Htl Hds Hdat. unfold view_of, open_dir. rewrite Hds, Hdat. cbn [d_shape d_nt d_bo].
  assert (Hok: shape_ok (Z.of_nat (length rows') :: s_tail s) = true).
  { unfold shape_ok. cbn [forallb length]. apply andb_true_iff. split; [|reflexivity].
    apply andb_true_iff. split; [apply Z.leb_le; lia|].
    apply forallb_forall. intros x Hx. rewrite Forall_forall in Htl. specialize (Htl x Hx). apply Z.leb_le. lia. }
  rewrite Hok. cbn [negb]. rewrite prod_shape. fold (s_rb s). rewrite (concat_rows_length _ _ Hrows), Z.eqb_refl.
  reflexivity.
Qed.

(* wrong length for the description on disk: does not open *)
Lemma view_wrong_len : forall st s n bytes,
  a_descr st = Val (mkDescr (s_nt s) (s_bo s) (n :: s_tail s) (s_ord s)) ->
  a_data st = Some bytes -> Z.of_nat (length bytes) <> n * s_rb s -> view_of st = None.
Proof.
  intros st s n bytes Hds Hdat Hne. unfold view_of, open_dir. rewrite Hds, Hdat. cbn [d_shape d_nt d_bo].
  destruct (shape_ok (n :: s_tail s)); cbn [negb]; [|reflexivity].
  rewrite prod_shape. fold (s_rb s).
  destruct (Z.of_nat (length bytes) =? n * s_rb s) eqn:E; [apply Z.eqb_eq in E; contradiction|reflexivity].
Qed.

(* ---------- the chunks appended completely, one list of rows per chunk ---------- *)
Fixpoint good_chunks (tail : list Z) (cs : list chunk) : list (list (list Z)) :=
  match cs with
  | CGood t rows :: rest => if tails_eqb t tail then rows :: good_chunks tail rest else []
  | _ => []
  end.

Lemma good_chunks_prefix : forall tail cs, fst (good_prefix tail cs) = concat (good_chunks tail cs).
Proof.
  intros tail cs; induction cs as [|c cs IH]; [reflexivity|].
  destruct c as [t rows| | |t rows k]; cbn [good_prefix good_chunks]; try reflexivity.
  destruct (tails_eqb t tail); [|reflexivity].
  destruct (good_prefix tail cs) as [g f]. cbn [fst] in *. rewrite IH. reflexivity.
Qed.

(* legitimate views during an append: original rows ++ a whole number of the chunks *)
Definition legit_append (s : sarr) (cs : list chunk) (v : view) : Prop :=
  exists j, v = view_rows s (s_rows s ++ concat (firstn j (good_chunks (s_tail s) cs))).

(* ---------- the appends of the loop ---------- *)
Definition is_append (e : eff) : Prop := match e with EAppendData _ => True | _ => False end.

Lemma append_loop_appends : forall cs h inc es inc' failed,
  append_loop h cs inc = (es, inc', failed) -> Forall is_append es.
Proof.
  induction cs as [|c cs IH]; intros h inc es inc' failed H; cbn [append_loop] in H.
  - inversion H; subst. constructor.
  - destruct (append_one h c) as [es1 [n|]] eqn:A1.
    + destruct (append_loop h cs (inc + n)) as [[es2 i2] f2] eqn:L2. inversion H; subst.
      apply Forall_app. split; [|eapply IH; exact L2].
      destruct c as [t rows| | |t rows k]; cbn [append_one] in A1; try discriminate.
      destruct (tails_eqb t (tl (h_shape h))); inversion A1; subst. repeat constructor.
      destruct (tails_eqb t (tl (h_shape h))); discriminate.
    + inversion H; subst. destruct c as [t rows| | |t rows k]; cbn [append_one] in A1.
      * destruct (tails_eqb t (tl (h_shape h))); inversion A1; subst; constructor.
      * inversion A1; constructor.
      * inversion A1; constructor.
      * destruct (tails_eqb t (tl (h_shape h))); inversion A1; subst; repeat constructor.
Qed.

Lemma set_data_same : forall d old, a_data d = Some old -> set_data d (Some old) = d.
Proof. intros [dat ? ? ?] old H. cbn in H. subst. reflexivity. Qed.

(* while only appends run, the data file is the old content plus some bytes and nothing
   else has changed *)
Lemma appends_crash : forall es d old rest st,
  Forall is_append es -> a_data d = Some old ->
  crash d (es ++ rest) st ->
  (exists z, st = set_data d (Some (old ++ z))) \/ crash (apply_effs es d) rest st.
Proof.
  induction es as [|e es IH]; intros d old rest st Hall Hdat H; [right; exact H|].
  inversion Hall as [|? ? He Hes]; subst. destruct e as [|bs| | | | | |]; try contradiction.
  cbn [app] in H. inversion H as [ | ? ? ? ? Ht | ? ? ? ? Hc ]; subst.
  - left. exists []. rewrite app_nil_r, (set_data_same _ _ Hdat). reflexivity.
  - inversion Ht; subst. left. exists p. rewrite Hdat. reflexivity.
  - assert (Hd': a_data (apply_eff (EAppendData bs) d) = Some (old ++ bs)) by (cbn; rewrite Hdat; reflexivity).
    destruct (IH _ _ _ _ Hes Hd' Hc) as [(z & Hz)|Hr].
    + left. exists (bs ++ z). rewrite Hz, <- app_assoc. reflexivity.
    + right. exact Hr.
Qed.

Ltac crash_cases :=
  repeat match goal with
  | H : crash _ (_ :: _) _ |- _ => inversion H; subst; clear H
  | H : crash _ [] _ |- _ => inversion H; subst; clear H
  | H : torn _ _ _ |- _ => inversion H; subst; clear H
  end.

(* ---------- the main loop + bookkeeping (+ recovery) ---------- *)
Lemma iterappend_main_crash : forall h d s cs r h' es st,
  Rel (h, d) s -> s_mode s = RW -> Forall (wf_chunk s) cs ->
  iterappend_main h d cs [] = (r, h', es) -> crash d es st ->
  view_of st = None \/ view_of st = Some (view_rows s (s_rows s)) \/
  view_of st = Some (view_rows s (s_rows s ++ fst (good_prefix (s_tail s) cs))).
Proof.
  intros h d s cs r h' es st HR Hm Hwf Hex Hc.
  pose proof HR as (Hdat & Hds & Hrm & Hme & (Hhm & Hhn & Hhb & Hhs) & Hrows & Hrb & Htl). cbn [fst snd] in *.
  unfold iterappend_main in Hex.
  destruct (append_loop h cs 0) as [[es0 inc] failed] eqn:HL.
  pose proof (append_loop_appends _ _ _ _ _ _ HL) as Happ.
  destruct (good_prefix (s_tail s) cs) as [g f] eqn:HG. cbn [fst].
  assert (Ht: tl (h_shape h) = s_tail s) by (rewrite Hhs; reflexivity).
  pose proof HG as HG'. rewrite <- Ht in HG'.
  destruct (append_loop_spec _ _ _ _ _ _ _ _ d HL HG') as (Hf & Hinc & junk & Hd1 & Hj).
  subst failed. rewrite Hd1 in Hex. unfold update_len in Hex. cbn [a_descr a_meta] in Hex. rewrite Hds in Hex.
  assert (Hgw := good_prefix_wf _ _ _ _ Hwf HG).
  set (s' := with_rows s (s_rows s ++ g)) in *.
  assert (Hshape: set_len (h_shape h) (lenof (h_shape h) + inc) = s_shape s').
  { rewrite Hhs. cbn [s_shape set_len lenof hd]. unfold s_shape, s_len. subst s'.
    cbn [s_rows s_tail with_rows]. rewrite app_length, Nat2Z.inj_add. f_equal. lia. }
  rewrite Hshape in Hex.
  assert (Hall: Forall (fun r => Z.of_nat (length r) = s_rb s) (s_rows s ++ g)) by (apply Forall_app; split; assumption).
  (* the states *)
  assert (Old: forall z, view_of (set_data d (Some (concat (s_rows s) ++ z))) = None \/
                         view_of (set_data d (Some (concat (s_rows s) ++ z))) = Some (view_rows s (s_rows s))).
  { intros z. apply (view_extra _ s (s_rows s) z); try assumption; try reflexivity; try exact Hds. }
  assert (New: forall z st0, a_descr st0 = Val (descr_of s') -> a_data st0 = Some (concat (s_rows s ++ g) ++ z) ->
                 view_of st0 = None \/ view_of st0 = Some (view_rows s (s_rows s ++ g))).
  { intros z st0 A B. apply (view_extra st0 s (s_rows s ++ g) z); try assumption. }
  assert (Hsplit: crash d es0 st \/ crash (apply_effs es0 d)
                    ([EWriteDescr (descr_of s'); EWriteReadme (descr_of s', a_meta d)] ++
                     (if f then [ETruncData (prodZ (s_shape s') * itemsize (h_nt h))] else [])) st).
  { destruct f; inversion Hex; subst r h' es; cbn [app] in Hc; apply crash_app in Hc;
      (destruct Hc as [L|Rr]; [left; exact L|right; exact Rr]). }
  destruct Hsplit as [Hc0|Hc1].
  - (* during the appends *)
    rewrite <- (app_nil_r es0) in Hc0.
    destruct (appends_crash _ _ _ _ _ Happ Hdat Hc0) as [(z & ->)|Hc0'].
    + destruct (Old z) as [N|V]; [left; exact N|right; left; exact V].
    + inversion Hc0'; subst. rewrite Hd1, Hdat. cbn [option_map].
      destruct (Old (concat g ++ junk)) as [N|V]; [left|right; left]; assumption.
  - rewrite Hd1, Hdat in Hc1. cbn [option_map] in Hc1.
    assert (Hd1eq: concat (s_rows s) ++ concat g ++ junk = concat (s_rows s ++ g) ++ junk)
      by (rewrite concat_app, app_assoc; reflexivity).
    rewrite Hd1eq in Hc1.
    assert (Htr: firstn (Z.to_nat (prodZ (s_shape s') * itemsize (h_nt h))) (concat (s_rows s ++ g) ++ junk)
                 = concat (s_rows s ++ g)).
    { apply firstn_app_exact. apply Nat2Z.inj. rewrite (concat_rows_length _ _ Hall), Hhn.
      unfold s_shape at 1. rewrite prod_shape. fold (s_rb s'). unfold s_len. subst s'. cbn [s_rows with_rows].
      rewrite Z2Nat.id; [reflexivity|]. unfold s_rb in *. cbn [s_tail s_nt with_rows]. nia. }
    set (ntr := prodZ (s_shape s') * itemsize (h_nt h)) in *. clearbody ntr.
    destruct f; cbn [app] in Hc1; crash_cases;
      cbn [apply_eff set_descr set_readme a_data a_descr a_readme a_meta option_map];
      try (left; apply view_torn_descr; reflexivity);
      try (match goal with |- context [a_descr d] => idtac end;
           rewrite <- Hd1eq;
           destruct (Old (concat g ++ junk)) as [N|V]; [left; exact N|right; left; exact V]).
    all: try (rewrite ?Htr;
              match goal with |- view_of ?st0 = None \/ _ =>
                 first [ destruct (New junk st0 eq_refl eq_refl) as [N|V]
                       | destruct (New [] st0 eq_refl ltac:(cbn; rewrite app_nil_r; reflexivity)) as [N|V] ];
                 [left; exact N|right; right; exact V] end).
Qed.

Lemma view_rel : forall h d s, Rel (h, d) s -> view_of d = Some (view_rows s (s_rows s)).
Proof. intros h d s HR. exact (proj2 (fresh_agrees (h, d) s R HR)). Qed.

Lemma firstn_all_chunks : forall tail cs,
  concat (firstn (length (good_chunks tail cs)) (good_chunks tail cs)) = fst (good_prefix tail cs).
Proof. intros. rewrite firstn_all, good_chunks_prefix. reflexivity. Qed.

Theorem iterappend_crash : forall h d s cs r h' es st,
  Rel (h, d) s -> Forall (wf_chunk s) cs ->
  iterappend h d cs = (r, h', es) -> crash d es st ->
  view_of st = None \/ exists v, view_of st = Some v /\ legit_append s cs v.
Proof.
  intros h d s cs r h' es st HR Hwf Hex Hc.
  pose proof HR as (Hdat & Hds & Hrm & Hme & (Hhm & Hhn & Hhb & Hhs) & Hrows & Hrb & Htl). cbn [fst snd] in *.
  assert (Before: view_of d = Some (view_rows s (s_rows s)) ->
                  exists v, view_of d = Some v /\ legit_append s cs v).
  { intros V. eexists. split; [exact V|]. exists 0%nat. cbn. rewrite app_nil_r. reflexivity. }
  assert (J0: forall st0, view_of st0 = Some (view_rows s (s_rows s)) ->
                exists v, view_of st0 = Some v /\ legit_append s cs v).
  { intros st0 V. eexists. split; [exact V|]. exists 0%nat. cbn. rewrite app_nil_r. reflexivity. }
  assert (Jall: forall st0, view_of st0 = Some (view_rows s (s_rows s ++ fst (good_prefix (s_tail s) cs))) ->
                exists v, view_of st0 = Some v /\ legit_append s cs v).
  { intros st0 V. eexists. split; [exact V|]. exists (length (good_chunks (s_tail s) cs)).
    rewrite firstn_all_chunks. reflexivity. }
  unfold iterappend in Hex. rewrite Hhm in Hex.
  destruct (s_mode s) eqn:Hm.
  { inversion Hex; subst. crash_cases. right. apply J0. exact (view_rel _ _ _ HR). }
  assert (Hprod: prodZ (h_shape h) =? 0 = (s_len s =? 0)).
  { rewrite Hhs. unfold s_shape, prodZ. cbn [fold_right]. fold (prodZ (s_tail s)).
    unfold s_rb in Hrb. destruct (s_len s =? 0) eqn:E; [apply Z.eqb_eq in E; rewrite E; reflexivity|].
    apply Z.eqb_neq in E. apply Z.eqb_neq. intros H0. apply Z.mul_eq_0 in H0.
    destruct H0 as [H0|H0]; [lia|rewrite H0 in Hrb; lia]. }
  rewrite Hprod in Hex. destruct (s_len s =? 0) eqn:Elen.
  2:{ destruct (iterappend_main_crash _ _ _ _ _ _ _ _ HR Hm Hwf Hex Hc) as [N|[V|V]];
        [left; exact N|right; apply J0; exact V|right; apply Jall; exact V]. }
  (* empty array *)
  apply Z.eqb_eq in Elen. assert (Hnil: s_rows s = []).
  { unfold s_len in Elen. destruct (s_rows s); [reflexivity|cbn in Elen; lia]. }
  assert (Empty: forall z, view_of (set_data d (Some z)) = None \/
                           view_of (set_data d (Some z)) = Some (view_rows s (s_rows s))).
  { intros z. apply (view_extra (set_data d (Some z)) s (s_rows s) z); try assumption; try exact Hds.
    cbn [set_data a_data]. rewrite Hnil. reflexivity. }
  destruct cs as [|c rest]; [inversion Hex; subst; crash_cases; right; apply J0; exact (view_rel _ _ _ HR)|].
  inversion Hwf as [|c0 rest0 Hcw Hrest]; subst c0 rest0.
  assert (Htl': tl (h_shape h) = s_tail s) by (rewrite Hhs; reflexivity).
  destruct c as [t rows| | |t rows k]; rewrite ?Htl' in Hex.
  - destruct (tails_eqb t (s_tail s)) eqn:E.
    2:{ inversion Hex; subst. crash_cases. right. apply J0. exact (view_rel _ _ _ HR). }
    apply tails_eqb_spec in E. subst t.
    unfold update_len in Hex. cbn [apply_effs fold_left apply_eff a_descr a_meta] in Hex. rewrite Hds in Hex.
    set (s1 := with_rows s rows) in *.
    assert (Hrows1: Forall (fun r0 => Z.of_nat (length r0) = s_rb s1) rows) by (apply Hcw; reflexivity).
    assert (Hsh: set_len (h_shape h) (lenof (h_shape h) + Z.of_nat (length rows)) = s_shape s1).
    { rewrite Hhs. cbn [s_shape set_len lenof hd]. unfold s_shape, s_len. subst s1.
      cbn [s_rows s_tail with_rows]. rewrite Hnil. cbn. f_equal. }
    rewrite Hsh in Hex.
    match type of Hex with iterappend_main ?h1 ?d1 rest ?pre = _ =>
      set (hh1 := h1) in *; set (dd1 := d1) in *; set (pre1 := pre) in * end.
    assert (HR1: Rel (hh1, dd1) s1).
    { subst hh1 dd1 pre1. unfold Rel. cbn [fst snd apply_effs fold_left app apply_eff a_data a_descr a_readme a_meta
                       h_mode h_nt h_bo h_shape].
      repeat split; try assumption.
      - rewrite Hme. reflexivity.
      - rewrite Hhm. symmetry. exact Hm. }
    (* the effects of the main part are those of iterappend_main ... [] after the prefix *)
    assert (Hpre: forall cs0 pre, iterappend_main hh1 dd1 cs0 pre =
              let '(r0, h0, es0) := iterappend_main hh1 dd1 cs0 [] in (r0, h0, pre ++ es0)).
    { intros cs0 pre. unfold iterappend_main. destruct (append_loop hh1 cs0 0) as [[e0 i0] f0].
      destruct (update_len hh1 (apply_effs e0 dd1) i0) as [[h0 u0]|e]; [|reflexivity].
      destruct f0; reflexivity. }
    rewrite Hpre in Hex. destruct (iterappend_main hh1 dd1 rest []) as [[r0 h0] es0] eqn:HM.
    inversion Hex; subst r h' es; clear Hex.
    assert (J1: forall st0, view_of st0 = Some (view_rows s1 (s_rows s1)) ->
                  exists v, view_of st0 = Some v /\ legit_append s (CGood (s_tail s) rows :: rest) v).
    { intros st0 V. eexists. split; [exact V|]. exists 1%nat. cbn [good_chunks].
      assert (Et: tails_eqb (s_tail s) (s_tail s) = true) by (apply tails_eqb_spec; reflexivity).
      rewrite Et. cbn [firstn concat]. rewrite app_nil_r. unfold view_rows. subst s1. cbn. rewrite Hnil. reflexivity. }
    apply (crash_app [_; _; _] es0) in Hc. destruct Hc as [Hc|Hc].
    + (* first chunk and its bookkeeping *)
      crash_cases;
        cbn [apply_eff set_data set_descr set_readme a_data a_descr a_readme a_meta option_map].
      all: try (left; apply view_torn_descr; reflexivity).
      all: try (match goal with |- view_of ?st0 = None \/ _ =>
                  match st0 with context [Some ?z] =>
                    destruct (Empty z) as [N|V]; [left; exact N|right; apply J0; exact V] end end).
      all: try (right; apply J0; exact (view_rel _ _ _ HR)).
      all: right; apply J1;
        match goal with |- view_of ?st0 = _ =>
          apply (view_exact st0 s rows); [exact Hrows1|exact Htl|reflexivity|] end;
        cbn [a_data]; unfold chunk_bytes; reflexivity.
    + fold dd1 in Hc.
      destruct (iterappend_main_crash _ _ _ _ _ _ _ _ HR1 Hm Hrest HM Hc) as [N|[V|V]];
        [left; exact N|right; apply J1; exact V|].
      right. eexists. split; [exact V|]. exists (S (length (good_chunks (s_tail s) rest))).
      cbn [good_chunks].
      assert (Et: tails_eqb (s_tail s) (s_tail s) = true) by (apply tails_eqb_spec; reflexivity).
      rewrite Et. cbn [firstn concat]. rewrite firstn_all, <- good_chunks_prefix.
      unfold view_rows. subst s1. cbn [s_rows s_tail s_nt s_bo with_rows]. rewrite Hnil. reflexivity.
  - inversion Hex; subst. crash_cases. right. apply J0. exact (view_rel _ _ _ HR).
  - inversion Hex; subst. crash_cases. right. apply J0. exact (view_rel _ _ _ HR).
  - destruct (tails_eqb t (s_tail s)); inversion Hex; subst; crash_cases;
      cbn [apply_eff set_data a_data a_descr a_readme a_meta option_map];
      try (right; apply J0; exact (view_rel _ _ _ HR)).
    all: match goal with |- view_of ?st0 = None \/ _ =>
           match st0 with context [Some ?z] =>
             destruct (Empty z) as [N|V]; [left; exact N|right; apply J0; exact V] end end.
Qed.

(* ---------- truncate ---------- *)
Theorem truncate_crash : forall h d s idx r h' es st,
  Rel (h, d) s -> truncate h d idx = (r, h', es) -> crash d es st ->
  view_of st = None \/ view_of st = Some (view_rows s (s_rows s)) \/
  view_of st = Some (view_rows s (s_rows (snd (spec_step s (OpTruncate idx))))).
Proof.
  intros h d s idx r h' es st HR Hex Hc.
  pose proof HR as (Hdat & Hds & Hrm & Hme & (Hhm & Hhn & Hhb & Hhs) & Hrows & Hrb & Htl). cbn [fst snd] in *.
  pose proof (view_rel _ _ _ HR) as Vd.
  cbn [spec_step]. unfold truncate in Hex. rewrite Hhm in Hex.
  destruct (s_mode s) eqn:Hm; [inversion Hex; subst; crash_cases; right; left; exact Vd|].
  destruct idx as [i|]; [|inversion Hex; subst; crash_cases; right; left; exact Vd].
  rewrite Hds in Hex. cbn [d_shape descr_of lenof s_shape hd] in Hex.
  assert (Hl: lenof (h_shape h) = s_len s) by (rewrite Hhs; reflexivity). rewrite Hl in Hex.
  destruct ((0 <=? slice_len i (s_len s)) && (slice_len i (s_len s) <? s_len s)) eqn:E;
    [|inversion Hex; subst; crash_cases; right; left; exact Vd].
  apply andb_true_iff in E. destruct E as [E1 E2]. apply Z.leb_le in E1. apply Z.ltb_lt in E2.
  set (k := slice_len i (s_len s)) in *.
  unfold update_len in Hex. cbn [apply_effs fold_left apply_eff a_descr a_meta] in Hex.
  rewrite Hds, Hl in Hex. inversion Hex; subst r h' es; clear Hex.
  cbn [snd with_rows s_rows].
  set (rows' := firstn (Z.to_nat k) (s_rows s)) in *.
  assert (Hr': Forall (fun r0 => Z.of_nat (length r0) = s_rb s) rows') by (apply Forall_firstn; exact Hrows).
  assert (Hlen': Z.of_nat (length rows') = k).
  { subst rows'. rewrite firstn_length. unfold s_len in E2. lia. }
  assert (Hcut: firstn (Z.to_nat (k * rowbytes (h_nt h) (h_shape h))) (concat (s_rows s)) = concat rows').
  { unfold rowbytes. rewrite Hhs, Hhn. cbn [s_shape tl]. fold (s_rb s).
    assert (Hrn: Forall (fun r0 => length r0 = Z.to_nat (s_rb s)) (s_rows s)).
    { eapply Forall_impl; [|exact Hrows]. cbn. intros r0 Hr. lia. }
    replace (Z.to_nat (k * s_rb s)) with (Z.to_nat k * Z.to_nat (s_rb s))%nat by nia.
    apply firstn_concat_rows. exact Hrn. }
  assert (Hsh: set_len (h_shape h) (s_len s + (k - s_len s)) = Z.of_nat (length rows') :: s_tail s).
  { rewrite Hhs. cbn [set_len s_shape]. f_equal. lia. }
  rewrite Hsh in Hc. cbn [app] in Hc.
  set (ntr := k * rowbytes (h_nt h) (h_shape h)) in *. clearbody ntr.
  crash_cases; cbn [apply_eff set_descr set_readme a_data a_descr a_readme a_meta option_map];
    try (left; apply view_torn_descr; reflexivity);
    try (right; left; exact (view_rel _ _ _ HR)).
  all: rewrite ?Hdat; cbn [option_map]; rewrite ?Hcut.
  all: try (left; eapply (view_wrong_len _ s (s_len s) (concat rows'));
            [cbn [a_descr]; exact Hds|reflexivity|];
            rewrite (concat_rows_length _ _ Hr'), Hlen'; unfold s_len in *; nia).
  all: right; right; apply (view_exact _ s rows'); try assumption; reflexivity.
Qed.
