(* SkelRProofs.v -- RaggedArray: the effect log of every model operation is a run that the
   control skeleton GENERATED from darr/raggedarray.py admits. *)
From Coq Require Import ZArith List Bool String.
From Darr Require Import Base ArrayModel RaggedModel Skel Gen_effects EffectOrder EffectOrderR Proofs.SkelProofs.
Import ListNotations.
Open Scope string_scope. Open Scope list_scope.

Lemma rruns_eq : forall s o k k', rruns s o k -> k = k' -> rruns s o k'.
Proof. intros s o k k' H E; subst; exact H. Qed.

Lemma map_lift_i : forall es, map rkind_of (lift_i es) = map KI (map kind_of es).
Proof. unfold lift_i; intros es; rewrite !map_map; reflexivity. Qed.
Lemma map_lift_v : forall es, map rkind_of (lift_v es) = map KV (map kind_of es).
Proof. unfold lift_v; intros es; rewrite !map_map; reflexivity. Qed.

(* what truncate_array does on one sub-array, kind by kind *)
Lemma truncate_kinds : forall h d idx r h' es,
  truncate h d idx = (r, h', es) ->
  match r with
  | Ok _ => map kind_of es = [KTrunc; KDescr; KReadme]
  | Err _ => exists q, [KTrunc; KDescr; KReadme] = map kind_of es ++ q
  end.
Proof.
  unfold truncate; intros h d idx r h' es H.
  destruct (h_mode h); [inversion H; subst; eexists; reflexivity|].
  destruct idx as [i|]; [|inversion H; subst; eexists; reflexivity].
  destruct (a_descr d) as [| |]; try (inversion H; subst; eexists; reflexivity).
  match type of H with (if ?c then _ else _) = _ => destruct c end;
    [|inversion H; subst; eexists; reflexivity].
  match type of H with (match ?u with _ => _ end) = _ => destruct u as [[h1 ues]|e] eqn:Hu end;
    inversion H; subst.
  - cbn [map app kind_of]. rewrite (update_len_kinds _ _ _ _ _ Hu). reflexivity.
  - exists [KDescr; KReadme]. reflexivity.
Qed.

Definition rt_body : sk :=
  Seq (Call "truncate_array@_indices")
      (Seq (If Skip Skip)
           (Seq (If (Call "truncate_array@_values") Skip)
                (Seq (Call "_update_readmetxt") (Call "_update_arraydescr")))).

Lemma sk_truncate_raggedarray_shape :
  sk_truncate_raggedarray = Seq (Try (If Skip Skip) Raise) (Seq (If Raise Skip) (If rt_body Raise)).
Proof. reflexivity. Qed.

Lemma rt_prefix : forall o ks, rruns rt_body o ks -> rruns sk_truncate_raggedarray o ks.
Proof.
  intros o ks H. rewrite sk_truncate_raggedarray_shape.
  apply (R_seq _ _ _ _ [] o ks); [apply R_try_ok; [discriminate | apply R_if_t, R_skip]|].
  apply (R_seq _ _ _ _ [] o ks); [apply R_if_e, R_skip | apply R_if_t; exact H].
Qed.

Ltac rraised_nil H :=
  inversion H; subst; exists Raised; split; [exact eq_refl | apply R_any_raise].

Lemma call_trunc_i : rruns (Call "truncate_array@_indices") Normal (map KI [KTrunc; KDescr; KReadme]).
Proof. apply (R_prim rprim rsub "truncate_array@_indices"); reflexivity. Qed.
Lemma call_trunc_v : rruns (Call "truncate_array@_values") Normal (map KV [KTrunc; KDescr; KReadme]).
Proof. apply (R_prim rprim rsub "truncate_array@_values"); reflexivity. Qed.

Theorem rtruncate_runs : forall h d idx r h' es,
  rtruncate h d idx = (r, h', es) ->
  exists o, oc_match r o /\ rruns sk_truncate_raggedarray o (map rkind_of es).
Proof.
  unfold rtruncate; intros h d idx r h' es H.
  destruct idx as [i|]; [|rraised_nil H].
  destruct (a_descr (r_indices d)) as [| |]; try (rraised_nil H; fail).
  destruct (rh_mode h); [rraised_nil H|].
  match type of H with (if ?c then _ else _) = _ => destruct c end; [|rraised_nil H].
  match type of H with (match ?t with _ => _ end) = _ => destruct t as [[ri hi] ei] eqn:Hti end.
  pose proof (truncate_kinds _ _ _ _ _ _ Hti) as Ki.
  destruct ri as [u|e].
  2:{ inversion H; subst. destruct Ki as [q Hq]. exists Raised; split; [exact eq_refl|].
      apply rt_prefix. unfold rt_body. apply R_seq_stop; [discriminate|].
      rewrite map_lift_i.
      apply (R_prim_fail rprim rsub "truncate_array@_indices" _ (map KI q)); [reflexivity|].
      change (rprim "truncate_array@_indices") with (map KI [KTrunc; KDescr; KReadme]).
      rewrite Hq, map_app. reflexivity. }
  match type of H with context [if ?c then truncate ?a ?b ?cc else ?z] =>
    destruct (if c then truncate a b cc else z) as [[rv hv] ev] eqn:Htv end.
  assert (Kv : match rv with
               | Ok _ => ev = [] \/ map kind_of ev = [KTrunc; KDescr; KReadme]
               | Err _ => exists q, [KTrunc; KDescr; KReadme] = map kind_of ev ++ q end).
  { match type of Htv with (if ?c then _ else _) = _ => destruct c end.
    - pose proof (truncate_kinds _ _ _ _ _ _ Htv) as K. destruct rv; [right; exact K | exact K].
    - inversion Htv; subst. left; reflexivity. }
  assert (Vrun : forall o' k', rruns (Seq (Call "_update_readmetxt") (Call "_update_arraydescr")) o' k' ->
            match rv with Ok _ => True | Err _ => False end ->
            rruns rt_body o' (map KI (map kind_of ei) ++ map KV (map kind_of ev) ++ k')).
  { intros o' k' Hk Hok. destruct rv as [u'|]; [|contradiction]. rewrite Ki. unfold rt_body.
    apply R_seq; [apply call_trunc_i|].
    apply (R_seq _ _ _ _ [] o'); [apply R_if_t, R_skip|].
    apply R_seq; [|exact Hk].
    destruct Kv as [Kv|Kv]; rewrite Kv; [apply R_if_e, R_skip | apply R_if_t, call_trunc_v]. }
  destruct rv as [u'|e].
  - match type of H with (match ?t with _ => _ end) = _ => destruct t as [f|] end; inversion H; subst.
    + exists Normal; split; [left; exact eq_refl|]. apply rt_prefix.
      rewrite !map_app, map_lift_i, map_lift_v.
      apply (Vrun Normal [KRReadme; KRDescr]); [|exact I].
      apply (R_seq _ _ _ _ [KRReadme] Normal [KRDescr]);
        [apply (R_prim rprim rsub "_update_readmetxt"); reflexivity
        |apply (R_prim rprim rsub "_update_arraydescr"); reflexivity].
    + exists Raised; split; [exact eq_refl|]. apply rt_prefix.
      rewrite !map_app, map_lift_i, map_lift_v.
      apply (rruns_eq _ _ (map KI (map kind_of ei) ++ map KV (map kind_of ev) ++ [])); [|rewrite app_nil_r; reflexivity].
      apply (Vrun Raised []); [apply R_any_raise | exact I].
  - inversion H; subst. destruct Kv as [q Hq]. exists Raised; split; [exact eq_refl|]. apply rt_prefix.
    rewrite !map_app, map_lift_i, map_lift_v, Ki. unfold rt_body.
    apply R_seq; [apply call_trunc_i|].
    apply (R_seq _ _ _ _ [] Raised); [apply R_if_t, R_skip|].
    apply R_seq_stop; [discriminate|]. apply R_if_t.
    apply (R_prim_fail rprim rsub "truncate_array@_values" _ (map KV q)); [reflexivity|].
    change (rprim "truncate_array@_values") with (map KV [KTrunc; KDescr; KReadme]).
    rewrite Hq, map_app. reflexivity.
Qed.

(* ---------- RaggedArray._update_lens, _append, iterappend ---------- *)

Definition lens_kinds : list kind := [KV KDescr; KV KReadme; KI KDescr; KI KReadme; KRDescr; KRReadme].

Lemma update_lens_kinds : forall h d vinc iinc h' es,
  update_lens h d vinc iinc = Ok (h', es) -> map rkind_of es = lens_kinds.
Proof.
  unfold update_lens; intros h d vinc iinc h' es H.
  destruct (update_len (rh_v h) (r_values d) vinc) as [[hv ev]|] eqn:Hv; [|discriminate].
  destruct (update_len (rh_i h) (r_indices d) iinc) as [[hi ei]|] eqn:Hi; [|discriminate].
  match type of H with (match ?t with _ => _ end) = _ => destruct t as [f|] end; [|discriminate].
  inversion H; subst. rewrite !map_app, !map_map.
  change (map (fun x => rkind_of (RV x)) ev) with (map (fun x => KV (kind_of x)) ev).
  change (map (fun x => rkind_of (RI x)) ei) with (map (fun x => KI (kind_of x)) ei).
  rewrite <- (map_map kind_of KV), <- (map_map kind_of KI).
  rewrite (update_len_kinds _ _ _ _ _ Hv), (update_len_kinds _ _ _ _ _ Hi). reflexivity.
Qed.

Lemma sk_ragged_update_lens_ok : rruns sk_ragged_update_lens Normal lens_kinds.
Proof.
  unfold sk_ragged_update_lens, lens_kinds.
  apply (R_seq _ _ _ _ [KV KDescr; KV KReadme] Normal [KI KDescr; KI KReadme; KRDescr; KRReadme]);
    [apply (R_prim rprim rsub "_update_len@_values"); reflexivity|].
  apply (R_seq _ _ _ _ [KI KDescr; KI KReadme] Normal [KRDescr; KRReadme]);
    [apply (R_prim rprim rsub "_update_len@_indices"); reflexivity|].
  apply (R_seq _ _ _ _ [KRDescr] Normal [KRReadme]);
    [apply (R_prim rprim rsub "_update_arraydescr"); reflexivity
    |apply (R_prim rprim rsub "_update_readmetxt"); reflexivity].
Qed.

Lemma call_update_lens_ok : rruns (Call "_update_lens") Normal lens_kinds.
Proof.
  apply (R_sub rprim rsub "_update_lens" sk_ragged_update_lens Normal lens_kinds);
    [reflexivity | apply sk_ragged_update_lens_ok].
Qed.

Theorem update_lens_runs : forall h d vinc iinc h' es,
  update_lens h d vinc iinc = Ok (h', es) -> rruns sk_ragged_update_lens Normal (map rkind_of es).
Proof.
  intros h d vinc iinc h' es H. rewrite (update_lens_kinds _ _ _ _ _ _ H). apply sk_ragged_update_lens_ok.
Qed.

Lemma call_append_v : rruns (Call "_append@_values") Normal [KV KAppend].
Proof. apply (R_prim rprim rsub "_append@_values"); reflexivity. Qed.

Lemma rappend_one_call : forall h it vlen es r,
  rappend_one h it vlen = (es, r) ->
  rruns (Call "_append") (match r with Some _ => Normal | None => Raised end) (map rkind_of es).
Proof.
  unfold rappend_one; intros h it vlen es r H.
  assert (Full : rruns (Call "_append") Normal [KV KAppend; KI KAppend]).
  { apply (R_sub rprim rsub "_append" sk_ragged_append Returned); [reflexivity|]. unfold sk_ragged_append.
    apply (R_seq _ _ _ _ [KV KAppend] Returned [KI KAppend]); [apply call_append_v|].
    apply (R_seq _ _ _ _ [KI KAppend] Returned []);
      [apply (R_prim rprim rsub "_append@_indices"); reflexivity | apply R_return]. }
  assert (Vonly : rruns (Call "_append") Raised [KV KAppend]).
  { apply (R_sub rprim rsub "_append" sk_ragged_append Raised); [reflexivity|]. unfold sk_ragged_append.
    apply R_seq_stop; [discriminate|].
    apply (R_prim_fail rprim rsub "_append@_values" [KV KAppend] []); reflexivity. }
  assert (Both : rruns (Call "_append") Raised [KV KAppend; KI KAppend]).
  { apply (R_sub rprim rsub "_append" sk_ragged_append Raised); [reflexivity|]. unfold sk_ragged_append.
    apply (R_seq _ _ _ _ [KV KAppend] Raised [KI KAppend]); [apply call_append_v|].
    apply R_seq_stop; [discriminate|].
    apply (R_prim_fail rprim rsub "_append@_indices" [KI KAppend] []); reflexivity. }
  destruct it as [tail rows| | |tail rows k|tail rows k];
    try (inversion H; subst; apply R_any_raise);
    destruct (tails_eqb tail (tl (h_shape (rh_v h)))); try (inversion H; subst; apply R_any_raise).
  - match type of H with (if ?c then _ else _) = _ => destruct c end; inversion H; subst;
      [exact Full | exact Vonly].
  - inversion H; subst. exact Vonly.
  - match type of H with (if ?c then _ else _) = _ => destruct c end; inversion H; subst;
      [exact Both | exact Vonly].
Qed.

Lemma rloop_runs : forall its h vlen vinc iinc es v' i' failed,
  rappend_loop h its vlen vinc iinc = (es, v', i', failed) ->
  rruns (For (Call "_append")) (if failed then Raised else Normal) (map rkind_of es).
Proof.
  induction its as [|it its IH]; intros h vlen vinc iinc es v' i' failed H; cbn [rappend_loop] in H.
  - inversion H; subst. apply R_for_0.
  - destruct (rappend_one h it (vlen + vinc)%Z) as [e1 [n|]] eqn:Ha.
    + destruct (rappend_loop h its vlen (vinc + n)%Z (iinc + 1)%Z) as [[[es' v''] i''] f'] eqn:Hl.
      inversion H; subst. rewrite map_app.
      apply R_for_s; [exact (rappend_one_call _ _ _ _ _ Ha) | exact (IH _ _ _ _ _ _ _ _ Hl)].
    + inversion H; subst. apply R_for_stop; [discriminate | exact (rappend_one_call _ _ _ _ _ Ha)].
Qed.

Definition ria_handler : sk :=
  Seq (Seq (Call "truncate@_values") (Call "truncate@_indices")) (Seq (Call "_update_lens") Raise).

Lemma sk_ragged_iterappend_shape :
  sk_ragged_iterappend =
  Seq (If Raise Skip) (Seq (Try (For (Call "_append")) ria_handler) (Call "_update_lens")).
Proof. reflexivity. Qed.

Lemma cut_both : rruns (Seq (Call "truncate@_values") (Call "truncate@_indices")) Normal [KV KTrunc; KI KTrunc].
Proof.
  apply (R_seq _ _ _ _ [KV KTrunc] Normal [KI KTrunc]);
    [apply (R_prim rprim rsub "truncate@_values"); reflexivity
    |apply (R_prim rprim rsub "truncate@_indices"); reflexivity].
Qed.

Theorem riterappend_runs : forall h d its r h' es,
  riterappend h d its = (r, h', es) ->
  exists o, oc_match r o /\ rruns sk_ragged_iterappend o (map rkind_of es).
Proof.
  unfold riterappend; intros h d its r h' es H.
  destruct (rh_mode h); [rraised_nil H|].
  match type of H with context [rappend_loop ?a ?b ?c ?d0 ?e] =>
    destruct (rappend_loop a b c d0 e) as [[[es0 vinc] iinc] failed] eqn:Hl end.
  apply rloop_runs in Hl. rewrite sk_ragged_iterappend_shape.
  match type of H with (match ?u with _ => _ end) = _ => destruct u as [[h1 ues]|e] eqn:Hu end.
  - apply update_lens_kinds in Hu. destruct failed; inversion H; subst.
    + exists Raised; split; [exact eq_refl|]. rewrite map_app. cbn [app map rkind_of kind_of]. rewrite Hu.
      apply (R_seq _ _ _ _ [] Raised); [apply R_if_e, R_skip|].
      apply R_seq_stop; [discriminate|]. apply R_try_h; [exact Hl|]. unfold ria_handler.
      apply (R_seq _ _ _ _ [KV KTrunc; KI KTrunc] Raised lens_kinds); [apply cut_both|].
      apply (rruns_eq _ _ (lens_kinds ++ [])); [|apply app_nil_r].
      apply R_seq; [apply call_update_lens_ok | apply R_any_raise].
    + exists Normal; split; [left; exact eq_refl|]. rewrite map_app. cbn [app map]. rewrite Hu.
      apply (R_seq _ _ _ _ [] Normal); [apply R_if_e, R_skip|].
      apply R_seq; [apply R_try_ok; [discriminate | exact Hl] | apply call_update_lens_ok].
  - inversion H; subst. exists Raised; split; [exact eq_refl|]. rewrite map_app.
    apply (R_seq _ _ _ _ [] Raised); [apply R_if_e, R_skip|]. destruct failed; cbn [map rkind_of kind_of].
    + apply R_seq_stop; [discriminate|]. apply R_try_h; [exact Hl|]. unfold ria_handler.
      apply (rruns_eq _ _ ([KV KTrunc; KI KTrunc] ++ [])); [|reflexivity].
      apply R_seq; [apply cut_both | apply R_any_raise].
    + apply R_seq; [apply R_try_ok; [discriminate | exact Hl] | apply R_any_raise].
Qed.
