(* SkelRProofs.v -- RaggedArray: the effect log of every model operation is a run that the
   control skeleton GENERATED from darr/raggedarray.py admits. *)
From Coq Require Import ZArith List Bool String.
From Darr Require Import Base ArrayModel RaggedModel Skel Gen_effects EffectOrder EffectOrderR Proofs.SkelProofs.
Import ListNotations.
Open Scope string_scope. Open Scope list_scope.

Lemma rruns_eq : forall s o k k', rruns s o k -> k = k' -> rruns s o k'.
Proof. intros s o k k' H E; subst; exact H. Qed.

Lemma map_lift_i : forall es, map rkind_of (lift_i es) = map KI (map kind_of es).
Proof. unfold lift_i; intros es; rewrite !map_map; reflexivity. Qed.
Lemma map_lift_v : forall es, map rkind_of (lift_v es) = map KV (map kind_of es).
Proof. unfold lift_v; intros es; rewrite !map_map; reflexivity. Qed.

(* what truncate_array does on one sub-array, kind by kind *)
Lemma truncate_kinds : forall h d idx r h' es,
  truncate h d idx = (r, h', es) ->
  match r with
  | Ok _ => map kind_of es = [KTrunc; KDescr; KReadme]
  | Err _ => exists q, [KTrunc; KDescr; KReadme] = map kind_of es ++ q
  end.
Proof.
  unfold truncate; intros h d idx r h' es H.
  destruct (h_mode h); [inversion H; subst; eexists; reflexivity|].
  destruct idx as [i|]; [|inversion H; subst; eexists; reflexivity].
  destruct (a_descr d) as [| |]; try (inversion H; subst; eexists; reflexivity).
  match type of H with (if ?c then _ else _) = _ => destruct c end;
    [|inversion H; subst; eexists; reflexivity].
  match type of H with (match ?u with _ => _ end) = _ => destruct u as [[h1 ues]|e] eqn:Hu end;
    inversion H; subst.
  - cbn [map app kind_of]. rewrite (update_len_kinds _ _ _ _ _ Hu). reflexivity.
  - exists [KDescr; KReadme]. reflexivity.
Qed.

Definition rt_body : sk :=
  Seq (Call "truncate_array@_indices")
      (Seq (If Skip Skip)
           (Seq (If (Call "truncate_array@_values") Skip)
                (Seq (Call "_update_readmetxt") (Call "_update_arraydescr")))).

Lemma sk_truncate_raggedarray_shape :
  sk_truncate_raggedarray = Seq (Try (If Skip Skip) Raise) (Seq (If Raise Skip) (If rt_body Raise)).
Proof. reflexivity. Qed.

Lemma rt_prefix : forall o ks, rruns rt_body o ks -> rruns sk_truncate_raggedarray o ks.
Proof.
  intros o ks H. rewrite sk_truncate_raggedarray_shape.
  apply (R_seq _ _ _ _ [] o ks); [apply R_try_ok; [discriminate | apply R_if_t, R_skip]|].
  apply (R_seq _ _ _ _ [] o ks); [apply R_if_e, R_skip | apply R_if_t; exact H].
Qed.

Ltac rraised_nil H :=
  inversion H; subst; exists Raised; split; [exact eq_refl | apply R_any_raise].

Lemma call_trunc_i : rruns (Call "truncate_array@_indices") Normal (map KI [KTrunc; KDescr; KReadme]).
Proof. apply (R_prim rprim rsub "truncate_array@_indices"); reflexivity. Qed.
Lemma call_trunc_v : rruns (Call "truncate_array@_values") Normal (map KV [KTrunc; KDescr; KReadme]).
Proof. apply (R_prim rprim rsub "truncate_array@_values"); reflexivity. Qed.

Theorem rtruncate_runs : forall h d idx r h' es,
  rtruncate h d idx = (r, h', es) ->
  exists o, oc_match r o /\ rruns sk_truncate_raggedarray o (map rkind_of es).
Proof.
  unfold rtruncate; intros h d idx r h' es H.
  destruct idx as [i|]; [|rraised_nil H].
  destruct (a_descr (r_indices d)) as [| |]; try (rraised_nil H; fail).
  destruct (rh_mode h); [rraised_nil H|].
  match type of H with (if ?c then _ else _) = _ => destruct c end; [|rraised_nil H].
  match type of H with (match ?t with _ => _ end) = _ => destruct t as [[ri hi] ei] eqn:Hti end.
  pose proof (truncate_kinds _ _ _ _ _ _ Hti) as Ki.
  destruct ri as [u|e].
  2:{ inversion H; subst. destruct Ki as [q Hq]. exists Raised; split; [exact eq_refl|].
      apply rt_prefix. unfold rt_body. apply R_seq_stop; [discriminate|].
      rewrite map_lift_i.
      apply (R_prim_fail rprim rsub "truncate_array@_indices" _ (map KI q)); [reflexivity|].
      change (rprim "truncate_array@_indices") with (map KI [KTrunc; KDescr; KReadme]).
      rewrite Hq, map_app. reflexivity. }
  match type of H with context [if ?c then truncate ?a ?b ?cc else ?z] =>
    destruct (if c then truncate a b cc else z) as [[rv hv] ev] eqn:Htv end.
  assert (Kv : match rv with
               | Ok _ => ev = [] \/ map kind_of ev = [KTrunc; KDescr; KReadme]
               | Err _ => exists q, [KTrunc; KDescr; KReadme] = map kind_of ev ++ q end).
  { match type of Htv with (if ?c then _ else _) = _ => destruct c end.
    - pose proof (truncate_kinds _ _ _ _ _ _ Htv) as K. destruct rv; [right; exact K | exact K].
    - inversion Htv; subst. left; reflexivity. }
  assert (Vrun : forall o' k', rruns (Seq (Call "_update_readmetxt") (Call "_update_arraydescr")) o' k' ->
            match rv with Ok _ => True | Err _ => False end ->
            rruns rt_body o' (map KI (map kind_of ei) ++ map KV (map kind_of ev) ++ k')).
  { intros o' k' Hk Hok. destruct rv as [u'|]; [|contradiction]. rewrite Ki. unfold rt_body.
    apply R_seq; [apply call_trunc_i|].
    apply (R_seq _ _ _ _ [] o'); [apply R_if_t, R_skip|].
    apply R_seq; [|exact Hk].
    destruct Kv as [Kv|Kv]; rewrite Kv; [apply R_if_e, R_skip | apply R_if_t, call_trunc_v]. }
  destruct rv as [u'|e].
  - match type of H with (match ?t with _ => _ end) = _ => destruct t as [f|] end; inversion H; subst.
    + exists Normal; split; [left; exact eq_refl|]. apply rt_prefix.
      rewrite !map_app, map_lift_i, map_lift_v.
      apply (Vrun Normal [KRReadme; KRDescr]); [|exact I].
      apply (R_seq _ _ _ _ [KRReadme] Normal [KRDescr]);
        [apply (R_prim rprim rsub "_update_readmetxt"); reflexivity
        |apply (R_prim rprim rsub "_update_arraydescr"); reflexivity].
    + exists Raised; split; [exact eq_refl|]. apply rt_prefix.
      rewrite !map_app, map_lift_i, map_lift_v.
      apply (rruns_eq _ _ (map KI (map kind_of ei) ++ map KV (map kind_of ev) ++ [])); [|rewrite app_nil_r; reflexivity].
      apply (Vrun Raised []); [apply R_any_raise | exact I].
  - inversion H; subst. destruct Kv as [q Hq]. exists Raised; split; [exact eq_refl|]. apply rt_prefix.
    rewrite !map_app, map_lift_i, map_lift_v, Ki. unfold rt_body.
    apply R_seq; [apply call_trunc_i|].
    apply (R_seq _ _ _ _ [] Raised); [apply R_if_t, R_skip|].
    apply R_seq_stop; [discriminate|]. apply R_if_t.
    apply (R_prim_fail rprim rsub "truncate_array@_values" _ (map KV q)); [reflexivity|].
    change (rprim "truncate_array@_values") with (map KV [KTrunc; KDescr; KReadme]).
    rewrite Hq, map_app. reflexivity.
Qed.
