From Coq Require Import ZArith List Bool Lia.
From Darr Require Import Base ArrayModel Codec Spec Proofs.ListLemmas Proofs.ArrayRefine.
Import ListNotations.
Open Scope Z_scope.

Lemma pieces_spec : forall n k l, length l = (n * k)%nat ->
  concat (pieces n k l) = l /\ Forall (fun r => length r = k) (pieces n k l) /\ length (pieces n k l) = n.
Proof.
  induction n as [|n IH]; intros k l H; cbn [pieces concat].
  - destruct l; [|discriminate]. repeat split. constructor.
  - assert (Hs: length (skipn k l) = (n * k)%nat) by (rewrite skipn_length; lia).
    destruct (IH k _ Hs) as (H1 & H2 & H3). rewrite H1, firstn_skipn. repeat split.
    + constructor; [rewrite firstn_length; lia|exact H2].
    + cbn. rewrite H3. reflexivity.
Qed.

Lemma pieces_concat : forall k (rows : list (list Z)),
  Forall (fun r => length r = k) rows -> pieces (length rows) k (concat rows) = rows.
Proof.
  intros k rows; induction rows as [|r rows IH]; intros H; [reflexivity|].
  inversion H as [|? ? Hr Hrows]; subst. cbn [length pieces concat].
  rewrite firstn_app, Nat.sub_diag, firstn_all. cbn [firstn]. rewrite app_nil_r.
  rewrite skipn_app, Nat.sub_diag, skipn_all. cbn [skipn app]. rewrite (IH Hrows). reflexivity.
Qed.

Lemma map_rev_length : forall (l : list (list Z)) k,
  Forall (fun r => length r = k) l -> Forall (fun r => length r = k) (map (@rev Z) l).
Proof.
  intros l k H. induction H as [|r l Hr Hl IH]; cbn; constructor; [rewrite rev_length; exact Hr|exact IH].
Qed.

Lemma map_rev_invol : forall (l : list (list Z)), map (@rev Z) (map (@rev Z) l) = l.
Proof. induction l as [|r l IH]; cbn; [reflexivity|]. rewrite rev_involutive, IH. reflexivity. Qed.

Lemma unit_divides : forall nt, itemsize nt = (itemsize nt / swapunit nt) * swapunit nt /\ 0 < swapunit nt
                                /\ 0 < itemsize nt / swapunit nt.
Proof. intros nt. destruct nt; cbn; repeat split; reflexivity. Qed.

(* converting an element to canonical form and back is the identity *)
Theorem swap_elem_invol : forall nt bo e,
  Z.of_nat (length e) = itemsize nt -> swap_elem nt bo (swap_elem nt bo e) = e.
Proof.
  intros nt bo e He. destruct bo; cbn [swap_elem]; [|reflexivity].
  destruct (unit_divides nt) as (Hd & Hu & Hq).
  set (q := Z.to_nat (itemsize nt / swapunit nt)). set (u := Z.to_nat (swapunit nt)).
  assert (Hl: length e = (q * u)%nat) by (subst q u; nia).
  destruct (pieces_spec q u e Hl) as (P1 & P2 & P3).
  assert (Hm := map_rev_length _ _ P2).
  replace q with (length (map (@rev Z) (pieces q u e))) at 1 by (rewrite map_length; exact P3).
  rewrite (pieces_concat u _ Hm), map_rev_invol. exact P1.
Qed.

Lemma swap_elem_length : forall nt bo e,
  Z.of_nat (length e) = itemsize nt -> length (swap_elem nt bo e) = length e.
Proof.
  intros nt bo e He. destruct bo; cbn [swap_elem]; [|reflexivity].
  destruct (unit_divides nt) as (Hd & Hu & Hq).
  set (q := Z.to_nat (itemsize nt / swapunit nt)). set (u := Z.to_nat (swapunit nt)).
  assert (Hl: length e = (q * u)%nat) by (subst q u; nia).
  destruct (pieces_spec q u e Hl) as (P1 & P2 & P3).
  assert (Hm := map_rev_length _ _ P2).
  apply Nat2Z.inj. rewrite (concat_rows_length _ (Z.of_nat u)).
  - rewrite map_length, P3. lia.
  - eapply Forall_impl; [|exact Hm]. cbn. intros r Hr. lia.
Qed.

(* encode / decode round trip for element lists of ANY length *)
Theorem codec_roundtrip : forall nt bo elems,
  Forall (fun e => Z.of_nat (length e) = itemsize nt) elems ->
  decode nt bo (length elems) (encode nt bo elems) = elems.
Proof.
  intros nt bo elems H. unfold decode, encode.
  assert (Hl: Forall (fun r => length r = Z.to_nat (itemsize nt)) (map (swap_elem nt bo) elems)).
  { induction H as [|e l He Hl IH]; cbn; constructor; [|exact IH].
    rewrite (swap_elem_length nt bo e He). lia. }
  replace (length elems) with (length (map (swap_elem nt bo) elems)) by apply map_length.
  rewrite (pieces_concat _ _ Hl), map_map.
  induction H as [|e l He Hl' IH]; cbn; [reflexivity|].
  rewrite (swap_elem_invol nt bo e He). f_equal. apply IH.
  inversion Hl; assumption.
Qed.

(* every state related to the NumPy model satisfies the disk invariant, and the
   independent reader reconstructs dtype, shape and the stored bytes *)
Theorem rel_inv_disk : forall w s, Rel w s ->
  Inv_disk (snd w) /\
  exists elems, decode_dir (snd w) = Some (s_nt s, s_bo s, s_ord s, s_shape s, elems) /\
                Z.of_nat (length elems) = prodZ (s_shape s) /\
                encode (s_nt s) (s_bo s) elems = concat (s_rows s).
Proof.
  intros [h d] s HR. pose proof HR as (Hdat & Hds & Hrm & Hme & _ & Hrows & Hrb & Htl).
  cbn [fst snd] in *.
  assert (Hlen: Z.of_nat (length (concat (s_rows s))) = prodZ (s_shape s) * itemsize (s_nt s)).
  { rewrite (concat_rows_length _ _ Hrows). unfold s_shape. rewrite prod_shape. reflexivity. }
  assert (Hok := shape_ok_rel s Htl).
  split.
  - exists (descr_of s), (concat (s_rows s)). repeat split; try assumption. eexists; exact Hrm.
  - unfold decode_dir. rewrite Hds, Hdat. cbn [d_shape d_nt d_bo d_ord descr_of].
    rewrite Hok, Hlen, Z.eqb_refl. cbn [andb].
    eexists. split; [reflexivity|].
    assert (Hpos: 0 <= prodZ (s_shape s)).
    { unfold s_shape, prodZ. cbn [fold_right]. fold (prodZ (s_tail s)).
      assert (0 < prodZ (s_tail s)).
      { clear -Htl. induction Htl as [|x l Hx Hl IH]; cbn; [lia|]. unfold prodZ in IH. nia. }
      unfold s_len. nia. }
    assert (Hisz: 0 < itemsize (s_nt s)) by (destruct (s_nt s); reflexivity).
    assert (Hl: length (concat (s_rows s)) = (Z.to_nat (prodZ (s_shape s)) * Z.to_nat (itemsize (s_nt s)))%nat) by nia.
    destruct (pieces_spec _ _ _ Hl) as (P1 & P2 & P3).
    unfold decode. split; [rewrite map_length, P3; lia|].
    unfold encode. rewrite map_map.
    rewrite (map_ext_in _ (fun x => x)).
    + rewrite map_id. exact P1.
    + intros e He. apply swap_elem_invol. rewrite Forall_forall in P2. rewrite (P2 e He). lia.
Qed.
