(* ArrayRefine.v -- forward simulation: every step of the Array model (ArrayModel.step)
   refines the NumPy model (Spec.spec_step); the relation Rel carries the disk
   invariants of C02 and the README facts of C08. *)
From Coq Require Import ZArith List Bool Lia.
From Darr Require Import Base ArrayModel Spec Proofs.ListLemmas.
Import ListNotations.
Open Scope Z_scope.

Definition descr_of (s : sarr) : descr := mkDescr (s_nt s) (s_bo s) (s_shape s) (s_ord s).

Definition Rel (w : world) (s : sarr) : Prop :=
  a_data (snd w) = Some (concat (s_rows s)) /\
  a_descr (snd w) = Val (descr_of s) /\
  a_readme (snd w) = Val (descr_of s, s_meta s) /\
  a_meta (snd w) = s_meta s /\
  (h_mode (fst w) = s_mode s /\ h_nt (fst w) = s_nt s /\ h_bo (fst w) = s_bo s /\
   h_shape (fst w) = s_shape s) /\
  Forall (fun r => Z.of_nat (length r) = s_rb s) (s_rows s) /\
  0 < s_rb s /\ Forall (fun x => 0 < x) (s_tail s).

(* well-formed operations: the rows NumPy delivers for a chunk of the right
   trailing shape have the row size of the array *)
Definition wf_chunk (s : sarr) (c : chunk) : Prop :=
  match c with
  | CGood t rows => t = s_tail s -> Forall (fun r => Z.of_nat (length r) = s_rb s) rows
  | _ => True
  end.
Definition wf_op (s : sarr) (o : aop) : Prop :=
  match o with OpIterAppend cs => Forall (wf_chunk s) cs | _ => True end.

Definition is_ok {A} (r : res A) : bool := match r with Ok _ => true | Err _ => false end.

(* ---------- small facts ---------- *)

Lemma zlist_eqb_eq : forall a b, zlist_eqb a b = true <-> a = b.
Proof.
  unfold zlist_eqb. induction a as [|x a IH]; destruct b as [|y b]; cbn [list_eqb]; split; intros H;
    try reflexivity; try discriminate.
  - apply andb_true_iff in H. destruct H as [H1 H2]. apply Z.eqb_eq in H1. apply IH in H2. congruence.
  - inversion H; subst. rewrite Z.eqb_refl. cbn. apply IH. reflexivity.
Qed.

Lemma tails_eqb_spec : forall a b, tails_eqb a b = true <-> a = b.
Proof. exact zlist_eqb_eq. Qed.

Lemma apply_effs_app : forall a b d, apply_effs (a ++ b) d = apply_effs b (apply_effs a d).
Proof. intros. unfold apply_effs. apply fold_left_app. Qed.

Lemma good_prefix_wf : forall s cs g f,
  Forall (wf_chunk s) cs -> good_prefix (s_tail s) cs = (g, f) ->
  Forall (fun r => Z.of_nat (length r) = s_rb s) g.
Proof.
  intros s cs; induction cs as [|c cs IH]; intros g f Hwf H; cbn [good_prefix] in H.
  - inversion H; subst. constructor.
  - inversion Hwf as [|? ? Hc Hcs]; subst.
    destruct c as [t rows| | |t rows k]; try (inversion H; subst; constructor).
    destruct (tails_eqb t (s_tail s)) eqn:E; [|inversion H; subst; constructor].
    apply tails_eqb_spec in E. destruct (good_prefix (s_tail s) cs) as [g' f'] eqn:G.
    inversion H; subst. apply Forall_app. split; [apply Hc; reflexivity|eapply IH; eauto].
Qed.

(* the loop of iterappend: what is in the data file afterwards *)
Lemma append_loop_spec : forall cs h inc es inc' failed g f d,
  append_loop h cs inc = (es, inc', failed) ->
  good_prefix (tl (h_shape h)) cs = (g, f) ->
  failed = f /\ inc' = inc + Z.of_nat (length g) /\
  exists junk,
    apply_effs es d = mkDir (option_map (fun x => x ++ concat g ++ junk) (a_data d))
                            (a_descr d) (a_readme d) (a_meta d)
    /\ (failed = false -> junk = []).
Proof.
  assert (Hnil: forall d, apply_effs [] d = mkDir (option_map (fun x => x ++ concat [] ++ []) (a_data d))
                            (a_descr d) (a_readme d) (a_meta d)).
  { intros d. cbn. destruct d as [dat ? ? ?]; cbn. destruct dat; cbn; rewrite ?app_nil_r; reflexivity. }
  intros cs; induction cs as [|c cs IH]; intros h inc es inc' failed g f d HL HG;
    cbn [append_loop good_prefix] in HL, HG.
  - inversion HL; inversion HG; subst. repeat split; [cbn; lia|]. exists []. split; [apply Hnil|reflexivity].
  - destruct c as [t rows| | |t rows k]; cbn [append_one] in HL.
    + destruct (tails_eqb t (tl (h_shape h))) eqn:E.
      * destruct (append_loop h cs (inc + Z.of_nat (length rows))) as [[es1 inc1] f1] eqn:L1.
        destruct (good_prefix (tl (h_shape h)) cs) as [g1 f1'] eqn:G1.
        inversion HL; inversion HG; subst; clear HL HG.
        destruct (IH h _ _ _ _ _ _ (apply_eff (EAppendData (chunk_bytes rows)) d) L1 G1)
          as (Hf & Hinc & junk & Hd & Hj).
        repeat split; [exact Hf|rewrite Hinc, app_length; lia|].
        exists junk. split; [|exact Hj].
        change ([EAppendData (chunk_bytes rows)] ++ es1) with (EAppendData (chunk_bytes rows) :: es1).
        unfold apply_effs in *. cbn [fold_left]. rewrite Hd. cbn [apply_eff a_data a_descr a_readme a_meta].
        destruct (a_data d); cbn [option_map]; [|reflexivity].
        unfold chunk_bytes. rewrite concat_app, <- !app_assoc. reflexivity.
      * inversion HL; inversion HG; subst. repeat split; [cbn; lia|]. exists []. split; [apply Hnil|discriminate].
    + inversion HL; inversion HG; subst. repeat split; [cbn; lia|]. exists []. split; [apply Hnil|discriminate].
    + inversion HL; inversion HG; subst. repeat split; [cbn; lia|]. exists []. split; [apply Hnil|discriminate].
    + destruct (tails_eqb t (tl (h_shape h))) eqn:E; inversion HL; inversion HG; subst.
      * repeat split; [cbn; lia|]. exists (firstn (Z.to_nat k) (chunk_bytes rows)). split; [|discriminate].
        cbn. destruct d as [dat ? ? ?]; cbn. destruct dat; cbn; reflexivity.
      * repeat split; [cbn; lia|]. exists []. split; [apply Hnil|discriminate].
Qed.

Lemma prod_shape : forall n tail isz, prodZ (n :: tail) * isz = n * (prodZ tail * isz).
Proof. intros. unfold prodZ. cbn [fold_right]. ring. Qed.

(* the main loop + bookkeeping of iterappend, from a state related to s *)
Lemma iterappend_main_refines : forall h d s cs pre g f,
  Rel (h, d) s -> s_mode s = RW -> Forall (wf_chunk s) cs ->
  good_prefix (s_tail s) cs = (g, f) ->
  let '(r, h', es) := iterappend_main h d cs pre in
  exists es', es = pre ++ es' /\
  is_ok r = negb f /\ Rel (h', apply_effs es' d) (with_rows s (s_rows s ++ g)).
Proof.
  intros h d s cs pre g f HR Hm Hwf HG.
  pose proof HR as (Hdat & Hds & Hrm & Hme & (Hhm & Hhn & Hhb & Hhs) & Hrows & Hrb & Htl). cbn [fst snd] in *.
  unfold iterappend_main.
  destruct (append_loop h cs 0) as [[es inc] failed] eqn:HL.
  assert (Ht: tl (h_shape h) = s_tail s) by (rewrite Hhs; reflexivity).
  rewrite <- Ht in HG.
  destruct (append_loop_spec _ _ _ _ _ _ _ _ d HL HG) as (Hf & Hinc & junk & Hd & Hj).
  rewrite Ht in HG.
  subst failed. rewrite Hd. unfold update_len. cbn [a_descr a_meta]. rewrite Hds.
  assert (Hgw := good_prefix_wf _ _ _ _ Hwf HG).
  set (s' := with_rows s (s_rows s ++ g)).
  assert (Hshape: set_len (h_shape h) (lenof (h_shape h) + inc) = s_shape s').
  { rewrite Hhs. cbn [s_shape set_len lenof hd]. unfold s_shape, s_len. subst s'.
    cbn [s_rows s_tail with_rows]. rewrite app_length, Nat2Z.inj_add. f_equal. lia. }
  rewrite Hshape.
  assert (Hall: Forall (fun r => Z.of_nat (length r) = s_rb s') (s_rows s ++ g)).
  { apply Forall_app; split; assumption. }
  assert (Hlen: Z.of_nat (length (concat (s_rows s ++ g))) = prodZ (s_shape s') * itemsize (s_nt s)).
  { rewrite (concat_rows_length _ _ Hall). unfold s_shape. rewrite prod_shape. reflexivity. }
  destruct f.
  - (* failed: recount, then truncate the partial chunk away *)
    eexists. split; [repeat rewrite <- app_assoc; reflexivity|]. split; [reflexivity|].
    rewrite !apply_effs_app, Hd.
    cbn [apply_effs fold_left apply_eff a_data a_descr a_readme a_meta h_shape h_nt h_mode h_bo].
    rewrite Hdat. cbn [option_map].
    unfold Rel. cbn [fst snd a_data a_descr a_readme a_meta h_shape h_nt h_mode h_bo].
    repeat split; try assumption.
    + f_equal. rewrite Hhn, <- Hlen. rewrite Nat2Z.id.
      subst s'. cbn [s_rows with_rows]. rewrite app_assoc, <- concat_app. apply firstn_app_exact. reflexivity.
    + rewrite Hme. reflexivity.
  - (* no failure *)
    specialize (Hj eq_refl). subst junk.
    eexists. split; [repeat rewrite <- app_assoc; reflexivity|]. split; [reflexivity|].
    rewrite apply_effs_app, Hd.
    cbn [apply_effs fold_left apply_eff a_data a_descr a_readme a_meta h_shape h_nt h_mode h_bo].
    rewrite Hdat. cbn [option_map].
    unfold Rel. cbn [fst snd a_data a_descr a_readme a_meta h_shape h_nt h_mode h_bo].
    repeat split; try assumption.
    + subst s'. cbn [s_rows with_rows]. rewrite app_nil_r, concat_app. reflexivity.
    + rewrite Hme. reflexivity.
Qed.

Lemma unconcat_eq : forall n rb l, unconcat n rb l = unconcat_ n rb l.
Proof. induction n as [|n IH]; intros; cbn; [reflexivity|]. rewrite IH. reflexivity. Qed.

Lemma poke_length : forall off bs data, length (poke off bs data) = length data.
Proof.
  intros off bs data. unfold poke.
  destruct ((0 <=? off) && (off + Z.of_nat (length bs) <=? Z.of_nat (length data))) eqn:E; [|reflexivity].
  apply andb_true_iff in E. destruct E as [E1 E2]. apply Z.leb_le in E1, E2.
  rewrite !app_length, firstn_length, skipn_length. lia.
Qed.

Lemma apply_pokes_length : forall pokes data, length (apply_pokes pokes data) = length data.
Proof.
  unfold apply_pokes. induction pokes as [|p pokes IH]; intros data; cbn [fold_left]; [reflexivity|].
  rewrite IH. apply poke_length.
Qed.

Lemma apply_effs_pokes : forall pokes d,
  apply_effs (map (fun p => EPokeData (fst p) (snd p)) pokes) d =
  mkDir (option_map (apply_pokes pokes) (a_data d)) (a_descr d) (a_readme d) (a_meta d).
Proof.
  unfold apply_effs, apply_pokes. induction pokes as [|p pokes IH]; intros d; cbn [map fold_left].
  - destruct d as [dat ? ? ?]; destruct dat; reflexivity.
  - rewrite IH. cbn [apply_eff a_data a_descr a_readme a_meta]. destruct (a_data d); reflexivity.
Qed.

Lemma Forall_firstn : forall A (P : A -> Prop) n l, Forall P l -> Forall P (firstn n l).
Proof.
  intros A P n; induction n as [|n IH]; intros l H; [constructor|].
  destruct l as [|x l]; [constructor|]. inversion H; subst. cbn. constructor; auto.
Qed.

(* ---------- the simulation theorem ---------- *)

Lemma with_rows_same : forall s, with_rows s (s_rows s ++ []) = s.
Proof. intros s. unfold with_rows. rewrite app_nil_r. destruct s; reflexivity. Qed.

Lemma iterappend_refines : forall h d s cs r h' es,
  Rel (h, d) s -> Forall (wf_chunk s) cs ->
  iterappend h d cs = (r, h', es) ->
  is_ok r = fst (spec_step s (OpIterAppend cs)) /\
  Rel (h', apply_effs es d) (snd (spec_step s (OpIterAppend cs))).
Proof.
  intros h d s cs r h' es HR Hwf Hex.
  pose proof HR as (Hdat & Hds & Hrm & Hme & (Hhm & Hhn & Hhb & Hhs) & Hrows & Hrb & Htl). cbn [fst snd] in *.
  cbn [spec_step]. unfold iterappend in Hex. rewrite Hhm in Hex.
  destruct (s_mode s) eqn:Hm.
  { inversion Hex; subst. cbn. split; [reflexivity|exact HR]. }
  destruct (good_prefix (s_tail s) cs) as [g f] eqn:HG. cbn [fst snd].
  assert (Hprod: prodZ (h_shape h) =? 0 = (s_len s =? 0)).
  { rewrite Hhs. unfold s_shape, prodZ. cbn [fold_right]. fold (prodZ (s_tail s)).
    unfold s_rb in Hrb. destruct (s_len s =? 0) eqn:E; [apply Z.eqb_eq in E; rewrite E; reflexivity|].
    apply Z.eqb_neq in E. apply Z.eqb_neq. intros H0. apply Z.mul_eq_0 in H0.
    destruct H0 as [H0|H0]; [lia|rewrite H0 in Hrb; lia]. }
  rewrite Hprod in Hex. destruct (s_len s =? 0) eqn:Elen.
  2:{ pose proof (iterappend_main_refines h d s cs [] g f HR Hm Hwf HG) as HM.
      rewrite Hex in HM. destruct HM as (es' & Hes & Hok & HRel). cbn [app] in Hes. subst es'.
      split; assumption. }
  (* the array is empty: the first chunk goes through the path *)
  apply Z.eqb_eq in Elen. assert (Hnil: s_rows s = []).
  { unfold s_len in Elen. destruct (s_rows s); [reflexivity|cbn in Elen; lia]. }
  destruct cs as [|c rest].
  { cbn in HG. inversion HG; inversion Hex; subst g f r h' es. cbn. split; [reflexivity|].
    rewrite with_rows_same. exact HR. }
  inversion Hwf as [|c0 rest0 Hc Hrest]; subst c0 rest0.
  assert (Htl': tl (h_shape h) = s_tail s) by (rewrite Hhs; reflexivity).
  destruct c as [t rows| | |t rows k]; cbn [good_prefix] in HG; rewrite ?Htl' in Hex.
  - destruct (tails_eqb t (s_tail s)) eqn:E.
    2:{ inversion HG; inversion Hex; subst g f r h' es. cbn. split; [reflexivity|].
        rewrite with_rows_same. exact HR. }
    apply tails_eqb_spec in E. subst t.
    destruct (good_prefix (s_tail s) rest) as [g1 f1] eqn:G1. inversion HG; subst g f; clear HG.
    unfold update_len in Hex. cbn [apply_effs fold_left apply_eff a_descr a_meta] in Hex.
    rewrite Hds in Hex.
    set (s1 := with_rows s rows).
    assert (Hrows1: Forall (fun r => Z.of_nat (length r) = s_rb s1) rows) by (apply Hc; reflexivity).
    assert (Hsh: set_len (h_shape h) (lenof (h_shape h) + Z.of_nat (length rows)) = s_shape s1).
    { rewrite Hhs. cbn [s_shape set_len lenof hd]. unfold s_shape, s_len. subst s1.
      cbn [s_rows s_tail with_rows]. rewrite Hnil. cbn. f_equal. }
    rewrite Hsh in Hex.
    match type of Hex with iterappend_main ?h1 ?d1 rest ?pre = _ =>
      assert (HR1: Rel (h1, d1) s1) end.
    { unfold Rel. cbn [fst snd apply_effs fold_left app apply_eff a_data a_descr a_readme a_meta
                       h_mode h_nt h_bo h_shape].
      repeat split; try assumption.
      - rewrite Hme. reflexivity.
      - rewrite Hhm. symmetry. exact Hm. }
    match type of Hex with iterappend_main ?h1 ?d1 rest ?pre = _ =>
      pose proof (iterappend_main_refines h1 d1 s1 rest pre g1 f1 HR1 Hm Hrest G1) as HM end.
    rewrite Hex in HM. destruct HM as (es' & Hes & Hok & HRel). split; [exact Hok|].
    rewrite Hes, apply_effs_app.
    replace (with_rows s (s_rows s ++ rows ++ g1)) with (with_rows s1 (s_rows s1 ++ g1)).
    + exact HRel.
    + subst s1. unfold with_rows. cbn. rewrite Hnil. reflexivity.
  - inversion HG; inversion Hex; subst g f r h' es. cbn. split; [reflexivity|]. rewrite with_rows_same. exact HR.
  - inversion HG; inversion Hex; subst g f r h' es. cbn. split; [reflexivity|]. rewrite with_rows_same. exact HR.
  - inversion HG; subst g f. destruct (tails_eqb t (s_tail s)); inversion Hex; subst r h' es; cbn [is_ok negb].
    + split; [reflexivity|]. cbn [apply_effs fold_left apply_eff]. rewrite with_rows_same.
      unfold Rel. cbn [fst snd a_data a_descr a_readme a_meta].
      repeat split; try assumption; try congruence. rewrite Hnil. reflexivity.
    + split; [reflexivity|]. cbn. rewrite with_rows_same. exact HR.
Qed.

Lemma truncate_refines : forall h d s idx r h' es,
  Rel (h, d) s -> truncate h d idx = (r, h', es) ->
  is_ok r = fst (spec_step s (OpTruncate idx)) /\
  Rel (h', apply_effs es d) (snd (spec_step s (OpTruncate idx))).
Proof.
  intros h d s idx r h' es HR Hex.
  pose proof HR as (Hdat & Hds & Hrm & Hme & (Hhm & Hhn & Hhb & Hhs) & Hrows & Hrb & Htl). cbn [fst snd] in *.
  cbn [spec_step]. unfold truncate in Hex. rewrite Hhm in Hex.
  destruct (s_mode s) eqn:Hm.
  { inversion Hex; subst. cbn. split; [reflexivity|exact HR]. }
  destruct idx as [i|]; [|inversion Hex; subst; cbn; split; [reflexivity|exact HR]].
  rewrite Hds in Hex. cbn [d_shape descr_of lenof s_shape hd] in Hex.
  assert (Hl: lenof (h_shape h) = s_len s) by (rewrite Hhs; reflexivity). rewrite Hl in Hex.
  destruct ((0 <=? slice_len i (s_len s)) && (slice_len i (s_len s) <? s_len s)) eqn:E;
    [|inversion Hex; subst; cbn; split; [reflexivity|exact HR]].
  apply andb_true_iff in E. destruct E as [E1 E2]. apply Z.leb_le in E1. apply Z.ltb_lt in E2.
  set (k := slice_len i (s_len s)) in *.
  unfold update_len in Hex. cbn [apply_effs fold_left apply_eff a_descr a_meta] in Hex.
  rewrite Hds, Hl in Hex. inversion Hex; subst r h' es; clear Hex.
  cbn [fst snd is_ok]. split; [reflexivity|].
  set (s' := with_rows s (firstn (Z.to_nat k) (s_rows s))).
  assert (Hlen': s_len s' = k).
  { unfold s_len. subst s'. cbn [s_rows with_rows]. rewrite firstn_length. unfold s_len in E2. lia. }
  assert (Hsh: set_len (h_shape h) (s_len s + (k - s_len s)) = s_shape s').
  { rewrite Hhs. cbn [set_len s_shape]. unfold s_shape. rewrite Hlen'. f_equal. lia. }
  rewrite Hsh.
  unfold Rel. cbn [fst snd apply_effs fold_left app apply_eff a_data a_descr a_readme a_meta
                   h_mode h_nt h_bo h_shape].
  rewrite Hdat. cbn [option_map].
  repeat split; try assumption.
  - f_equal. unfold rowbytes. rewrite Hhs, Hhn. cbn [s_shape tl]. fold (s_rb s).
    assert (Hrn: Forall (fun r => length r = Z.to_nat (s_rb s)) (s_rows s)).
    { eapply Forall_impl; [|exact Hrows]. cbn. intros r0 Hr. lia. }
    replace (Z.to_nat (k * s_rb s)) with (Z.to_nat k * Z.to_nat (s_rb s))%nat by nia.
    subst s'. cbn [s_rows with_rows]. apply firstn_concat_rows. exact Hrn.
  - rewrite Hme. reflexivity.
  - rewrite Hhm. symmetry. exact Hm.
  - apply Forall_firstn. exact Hrows.
Qed.

Lemma setitem_refines : forall h d s wr r h' es,
  Rel (h, d) s -> setitem h d wr = (r, h', es) ->
  is_ok r = fst (spec_step s (OpSetItem wr)) /\
  Rel (h', apply_effs es d) (snd (spec_step s (OpSetItem wr))).
Proof.
  intros h d s wr r h' es HR Hex.
  pose proof HR as (Hdat & Hds & Hrm & Hme & (Hhm & Hhn & Hhb & Hhs) & Hrows & Hrb & Htl). cbn [fst snd] in *.
  cbn [spec_step]. unfold setitem in Hex. rewrite Hhm in Hex.
  destruct (s_mode s) eqn:Hm.
  { inversion Hex; subst. cbn. split; [reflexivity|exact HR]. }
  destruct wr as [pokes|]; inversion Hex; subst r h' es; [|cbn; split; [reflexivity|exact HR]].
  cbn [fst snd is_ok]. split; [reflexivity|].
  rewrite apply_effs_pokes, Hdat. cbn [option_map].
  set (newdata := apply_pokes pokes (concat (s_rows s))).
  assert (Hl: length newdata = (length (s_rows s) * Z.to_nat (s_rb s))%nat).
  { subst newdata. rewrite apply_pokes_length. apply Nat2Z.inj.
    rewrite (concat_rows_length _ _ Hrows). rewrite Nat2Z.inj_mul, Z2Nat.id by lia. reflexivity. }
  rewrite unconcat_eq. destruct (unconcat_spec _ _ _ Hl) as (U1 & U2 & U3).
  unfold Rel. cbn [fst snd a_data a_descr a_readme a_meta s_rows with_rows].
  assert (Hsame: s_shape (with_rows s (unconcat_ (length (s_rows s)) (Z.to_nat (s_rb s)) newdata)) = s_shape s).
  { unfold s_shape, s_len. cbn [s_rows with_rows s_tail]. rewrite U3. reflexivity. }
  unfold descr_of. rewrite Hsame.
  repeat split; try assumption.
  - rewrite U1. reflexivity.
  - rewrite Hhm. symmetry. exact Hm.
  - eapply Forall_impl; [|exact U2]. cbn. intros r0 Hr. unfold s_rb. cbn [s_tail s_nt with_rows].
    fold (s_rb s). lia.
Qed.

Lemma shape_ok_rel : forall s, Forall (fun x => 0 < x) (s_tail s) -> shape_ok (s_shape s) = true.
Proof.
  intros s H. unfold shape_ok, s_shape. cbn [forallb length]. apply andb_true_iff. split; [|reflexivity].
  apply andb_true_iff. split; [apply Z.leb_le; unfold s_len; lia|].
  apply forallb_forall. intros x Hx. rewrite Forall_forall in H. specialize (H x Hx). apply Z.leb_le. lia.
Qed.

Lemma open_rel : forall h d s m, Rel (h, d) s ->
  open_dir d m = Ok (mkHandle m (s_nt s) (s_bo s) (s_shape s)).
Proof.
  intros h d s m (Hdat & Hds & Hrm & Hme & (Hhm & Hhn & Hhb & Hhs) & Hrows & Hrb & Htl). cbn [fst snd] in *.
  unfold open_dir. rewrite Hds, Hdat. cbn [d_shape descr_of d_nt d_bo].
  rewrite (shape_ok_rel _ Htl). cbn [negb].
  rewrite (concat_rows_length _ _ Hrows). unfold s_shape at 1. rewrite prod_shape. fold (s_rb s).
  unfold s_len. rewrite Z.eqb_refl. reflexivity.
Qed.

Theorem step_refines : forall w s o,
  Rel w s -> wf_op s o ->
  is_ok (fst (step w o)) = fst (spec_step s o) /\ Rel (snd (step w o)) (snd (spec_step s o)).
Proof.
  intros [h d] s o HR Hwf. unfold step.
  destruct (exec (h, d) o) as [[r h'] es] eqn:Hex. cbn [fst snd].
  pose proof HR as (Hdat & Hds & Hrm & Hme & (Hhm & Hhn & Hhb & Hhs) & Hrows & Hrb & Htl). cbn [fst snd] in *.
  destruct o as [cs|idx|wr|m|m| | |]; cbn [exec] in Hex.
  - eapply iterappend_refines; eassumption.
  - eapply truncate_refines; eassumption.
  - eapply setitem_refines; eassumption.
  - destruct m as [m|]; [|inversion Hex; subst; cbn; split; [reflexivity|exact HR]].
    inversion Hex; subst r h' es. cbn [spec_step fst snd is_ok apply_effs fold_left]. split; [reflexivity|].
    unfold Rel. cbn [fst snd s_rows s_nt s_bo s_mode s_meta s_tail with_mode h_mode h_nt h_bo h_shape].
    repeat split; try assumption.
  - rewrite (open_rel _ _ _ m HR) in Hex. inversion Hex; subst r h' es.
    cbn [spec_step fst snd is_ok apply_effs fold_left]. split; [reflexivity|].
    unfold Rel. cbn [fst snd h_mode h_nt h_bo h_shape]. repeat split; try assumption.
  - unfold meta_set in Hex. rewrite Hhm in Hex. cbn [spec_step].
    destruct (s_mode s) eqn:Hm; [inversion Hex; subst; cbn; split; [reflexivity|exact HR]|].
    rewrite Hds in Hex. inversion Hex; subst r h' es. cbn [fst snd is_ok]. split; [reflexivity|].
    unfold Rel. cbn [fst snd apply_effs fold_left apply_eff a_data a_descr a_readme a_meta].
    repeat split; try assumption. cbn [s_mode with_meta]. rewrite Hhm. symmetry. exact Hm.
  - unfold meta_clear in Hex. rewrite Hme in Hex. cbn [spec_step].
    destruct (s_meta s) eqn:Hmt; [|inversion Hex; subst; cbn; split; [reflexivity|exact HR]].
    rewrite Hhm in Hex.
    destruct (s_mode s) eqn:Hm; [inversion Hex; subst; cbn; split; [reflexivity|exact HR]|].
    rewrite Hds in Hex. inversion Hex; subst r h' es. cbn [fst snd is_ok]. split; [reflexivity|].
    unfold Rel. cbn [fst snd apply_effs fold_left apply_eff a_data a_descr a_readme a_meta].
    repeat split; try assumption. cbn [s_mode with_meta]. rewrite Hhm. symmetry. exact Hm.
  - unfold meta_pop in Hex. rewrite Hhm, Hme in Hex. cbn [spec_step].
    destruct (s_mode s) eqn:Hm; [inversion Hex; subst; cbn; split; [reflexivity|exact HR]|].
    destruct (s_meta s) eqn:Hmt; [|inversion Hex; subst; cbn; split; [reflexivity|exact HR]].
    rewrite Hds in Hex. inversion Hex; subst r h' es. cbn [fst snd is_ok]. split; [reflexivity|].
    unfold Rel. cbn [fst snd apply_effs fold_left apply_eff a_data a_descr a_readme a_meta].
    repeat split; try assumption. cbn [s_mode with_meta]. rewrite Hhm. symmetry. exact Hm.
Qed.
