(* Proofs about the GENERATED fit_frames / iterindices (Gen_frames.v). *)
From Coq Require Import ZArith List Bool Lia ZifyBool.
From Darr Require Import Base Gen_frames.
Import ListNotations.
Open Scope Z_scope.
Ltac Zify.zify_post_hook ::= Z.to_euclidean_division_equations.

(* ---------- fit_frames ---------- *)

Definition step_of (c : Z) (s : option Z) : Z := match s with None => c | Some v => v end.

Lemma fit_frames_eq : forall t c so, 0 <= t -> 1 <= c -> 1 <= step_of c so ->
  fit_frames t c so =
  if c >? t then Ok (0, 0, t)
  else let s := step_of c so in
       let n := (t - c) / s + 1 in Ok (n, n * s + (c - s), t - (n * s + (c - s))).
Proof.
  intros t c so Ht Hc Hs. unfold fit_frames.
  destruct (negb (t mod 1 =? 0) || (t <? 0)) eqn:E1; [lia|].
  destruct (negb (c mod 1 =? 0) || (c <=? 0)) eqn:E2; [lia|].
  destruct so as [s|]; cbn [step_of] in *.
  - destruct (negb (s mod 1 =? 0) || (s <=? 0)) eqn:E3; [lia|].
    destruct (c >? t); reflexivity.
  - destruct (c >? t); reflexivity.
Qed.

Theorem fit_frames_spec : forall t c so n ns r,
  0 <= t -> 1 <= c -> 1 <= step_of c so ->
  fit_frames t c so = Ok (n, ns, r) ->
  let s := step_of c so in
  0 <= n /\ (forall k, 0 <= k -> (k < n <-> k * s + c <= t)) /\
  ns = (if n =? 0 then 0 else (n - 1) * s + c) /\ r = t - ns /\ 0 <= r.
Proof.
  intros t c so n ns r Ht Hc Hs H s. rewrite fit_frames_eq in H by assumption.
  fold s in H. destruct (c >? t) eqn:E3.
  - inversion H; subst. cbn. repeat split; intros; try nia.
  - cbv zeta in H. inversion H; subst; clear H.
    assert (Hq: 0 <= (t - c) / s) by (apply Z.div_pos; lia).
    assert (Hm := Z.div_mod (t - c) s ltac:(lia)).
    assert (Hr := Z.mod_pos_bound (t - c) s ltac:(lia)).
    set (q := (t - c) / s) in *. set (m := (t - c) mod s) in *.
    destruct (q + 1 =? 0) eqn:Eq; [lia|].
    repeat split; try nia.
Qed.

Theorem fit_frames_rejects : forall t c so,
  t < 0 \/ c < 1 \/ (exists s, so = Some s /\ s < 1) ->
  fit_frames t c so = Err ValueError.
Proof.
  intros t c so H. unfold fit_frames.
  destruct (negb (t mod 1 =? 0) || (t <? 0)) eqn:E1; [reflexivity|].
  destruct (negb (c mod 1 =? 0) || (c <=? 0)) eqn:E2; [reflexivity|].
  destruct so as [s|].
  - destruct (negb (s mod 1 =? 0) || (s <=? 0)) eqn:E3; [reflexivity|].
    exfalso. destruct H as [H|[H|(s' & Hs' & H)]]; try lia. inversion Hs'; subst. lia.
  - exfalso. destruct H as [H|[H|(s' & Hs' & H)]]; try lia. discriminate.
Qed.

(* ---------- iterindices ---------- *)

Definition frames (start c s : Z) (n : nat) : list (Z * Z) :=
  map (fun k => (start + Z.of_nat k * s, start + Z.of_nat k * s + c)) (seq 0 n).

Lemma loop_frames : forall n start c s i0 ys0,
  loop n (fun '(fs, fe, ys) => (fs + s, fs + s + c, ys ++ [(fs, fe)]))
       (start + Z.of_nat i0 * s, start + Z.of_nat i0 * s + c, ys0)
  = (start + Z.of_nat (i0 + n) * s, start + Z.of_nat (i0 + n) * s + c,
     ys0 ++ map (fun k => (start + Z.of_nat k * s, start + Z.of_nat k * s + c)) (seq i0 n)).
Proof.
  induction n as [|n IH]; intros start c s i0 ys0; cbn [loop seq map].
  - rewrite Nat.add_0_r, app_nil_r. reflexivity.
  - replace (start + Z.of_nat i0 * s + s) with (start + Z.of_nat (S i0) * s) by lia.
    rewrite IH. replace (S i0 + n)%nat with (i0 + S n)%nat by lia.
    rewrite <- app_assoc. reflexivity.
Qed.

Definition dflt (d : Z) (o : option Z) : Z := match o with None => d | Some v => v end.

(* the expected result: n full frames, then possibly the partial one *)
Definition expected_frames (st en c s : Z) (flag : bool) (n r : Z) : list (Z * Z) :=
  frames st c s (Z.to_nat n) ++
  (if flag && (r >? 0) && (st + n * s <? en) then [(st + n * s, en)] else []).

Theorem iterindices_spec : forall len0 c so sto eno flag,
  let s := dflt c so in let st := dflt 0 sto in let en := dflt len0 eno in
  0 <= st -> st < en -> en <= len0 -> 1 <= c -> 1 <= s ->
  exists n ns r, fit_frames (en - st) c (Some s) = Ok (n, ns, r) /\
  iterindices len0 c so sto eno flag = Ok (expected_frames st en c s flag n r).
Proof.
  intros len0 c so sto eno flag s st en H0 H1 H2 Hc Hs.
  destruct (fit_frames (en - st) c (Some s)) as [[[n ns] r]|e] eqn:E.
  2:{ exfalso. rewrite fit_frames_eq in E by (cbn [step_of]; lia).
      destruct (c >? en - st); discriminate. }
  exists n, ns, r. split; [reflexivity|].
  assert (Ht: 0 <= en - st) by lia.
  pose proof (fit_frames_spec _ _ (Some s) _ _ _ Ht Hc Hs E) as (Hn & _).
  unfold iterindices. fold (dflt c so) (dflt 0 sto) (dflt len0 eno). fold s st en.
  (* the range guards, in whatever way the source spells them: all false here *)
  repeat match goal with
  | |- context [if ?g then Err ValueError else _] => let G := fresh "G" in destruct g eqn:G; [exfalso; lia|]
  end.
  rewrite E.
  pose proof (loop_frames (Z.to_nat n) st c s 0%nat []) as L.
  cbn [Z.of_nat] in L. rewrite Z.mul_0_l, Z.add_0_r in L.
  match goal with |- context [loop ?k ?f ?x] =>
    replace (loop k f x) with
      (loop k (fun '(fs, fe, ys) => (fs + s, fs + s + c, ys ++ [(fs, fe)])) (st, st + c, @nil (Z*Z)))
  end.
  2:{ f_equal. }
  rewrite L. cbn [app Nat.add]. rewrite Z2Nat.id by lia. unfold expected_frames, frames.
  destruct (flag && (r >? 0) && (st + n * s <? en)); rewrite ?app_nil_r; reflexivity.
Qed.

Theorem iterindices_rejects : forall len0 c so sto eno flag,
  let s := dflt c so in let st := dflt 0 sto in let en := dflt len0 eno in
  st < 0 \/ en <= st \/ len0 < en \/ c < 1 \/ s < 1 ->
  iterindices len0 c so sto eno flag = Err ValueError.
Proof.
  intros len0 c so sto eno flag s st en H.
  unfold iterindices. fold (dflt c so) (dflt 0 sto) (dflt len0 eno). fold s st en.
  repeat match goal with
  | |- context [if ?g then Err ValueError else _] => let G := fresh "G" in destruct g eqn:G; [reflexivity|]
  end.
  rewrite fit_frames_rejects; [reflexivity|].
  right. destruct (Z.lt_ge_cases c 1) as [Hc|Hc]; [left; exact Hc|right].
  exists s. split; [reflexivity|lia].
Qed.

(* ---------- the frames tile [start, end) when step = chunklen ---------- *)

Definition slice {A} (l : list A) (a b : Z) : list A :=
  firstn (Z.to_nat (b - a)) (skipn (Z.to_nat a) l).

Lemma skipn_skipn' : forall A x y (l : list A), skipn x (skipn y l) = skipn (x + y) l.
Proof.
  intros A x y; revert x. induction y as [|y IH]; intros x l.
  - rewrite Nat.add_0_r. reflexivity.
  - destruct l as [|h l]; [rewrite !skipn_nil; reflexivity|].
    replace (x + S y)%nat with (S (x + y)) by lia. cbn [skipn]. apply IH.
Qed.

Lemma firstn_add_skipn : forall A x y (m : list A),
  firstn x m ++ firstn y (skipn x m) = firstn (x + y) m.
Proof.
  intros A x; induction x as [|x IH]; intros y m; [reflexivity|].
  destruct m as [|h m]; cbn [firstn skipn app Nat.add].
  - rewrite firstn_nil. reflexivity.
  - f_equal. apply IH.
Qed.

Lemma slice_split : forall A (l : list A) a b c,
  0 <= a -> a <= b -> b <= c ->
  slice l a b ++ slice l b c = slice l a c.
Proof.
  intros A l a b c Ha Hab Hbc. unfold slice.
  replace (Z.to_nat (c - a)) with (Z.to_nat (b - a) + Z.to_nat (c - b))%nat by lia.
  replace (Z.to_nat b) with (Z.to_nat (b - a) + Z.to_nat a)%nat by lia.
  rewrite <- skipn_skipn'. apply firstn_add_skipn.
Qed.

Lemma slice_nil : forall A (l : list A) a, slice l a a = [].
Proof. intros. unfold slice. rewrite Z.sub_diag. reflexivity. Qed.

Lemma frames_tile : forall A (l : list A) c n st,
  0 <= st -> 1 <= c ->
  concat (map (fun p => slice l (fst p) (snd p)) (frames st c c n))
  = slice l st (st + Z.of_nat n * c).
Proof.
  intros A l c n st Hst Hc. unfold frames.
  induction n as [|n IH].
  - cbn. rewrite Z.add_0_r, slice_nil. reflexivity.
  - rewrite seq_S, !map_app, concat_app, IH. cbn [map concat fst snd Nat.add].
    rewrite app_nil_r.
    replace (st + Z.of_nat n * c + c) with (st + Z.of_nat (S n) * c) by lia.
    apply slice_split; nia.
Qed.

Theorem iterchunks_concat : forall A (l : list A) len0 c sto eno,
  let st := dflt 0 sto in let en := dflt len0 eno in
  0 <= st -> st < en -> en <= len0 -> 1 <= c ->
  exists fr, iterindices len0 c None sto eno true = Ok fr /\
  concat (map (fun p => slice l (fst p) (snd p)) fr) = slice l st en.
Proof.
  intros A l len0 c sto eno st en H0 H1 H2 Hc.
  destruct (iterindices_spec len0 c None sto eno true H0 H1 H2 Hc Hc) as (n & ns & r & E & I).
  cbn [dflt] in *. fold st en in E, I.
  exists (expected_frames st en c c true n r). split; [exact I|].
  assert (Ht: 0 <= en - st) by lia.
  pose proof (fit_frames_spec _ _ (Some c) _ _ _ Ht Hc Hc E) as (Hn & Hk & Hns & Hr & Hr0).
  cbn [step_of] in *.
  unfold expected_frames. rewrite map_app, concat_app, frames_tile by lia.
  rewrite Z2Nat.id by lia.
  assert (Hle: st + n * c <= en).
  { destruct (n =? 0) eqn:En; [lia|]. lia. }
  destruct (true && (r >? 0) && (st + n * c <? en)) eqn:B.
  - cbn [map concat fst snd]. rewrite app_nil_r. apply slice_split; nia.
  - cbn [map concat]. rewrite app_nil_r.
    assert (st + n * c = en).
    { destruct (n =? 0) eqn:En.
      - assert (n = 0) by lia. subst n. specialize (Hk 0 ltac:(lia)). lia.
      - lia. }
    congruence.
Qed.

(* non-vacuity: the hypotheses are met, and the result is what one expects *)
Example iterindices_example :
  iterindices 13 2 None (Some 1) None true
  = Ok [(1,3); (3,5); (5,7); (7,9); (9,11); (11,13)] /\
  iterindices 13 4 (Some 3) None (Some 12) true = Ok [(0,4); (3,7); (6,10); (9,12)] /\
  iterindices 13 4 (Some 3) None (Some 12) false = Ok [(0,4); (3,7); (6,10)] /\
  fit_frames 13 4 (Some 3) = Ok (4, 13, 0) /\ fit_frames 3 5 None = Ok (0, 0, 3).
Proof. vm_compute. repeat split. Qed.
