(* Create.v -- asarray / create_array: the chunk plan covers the input exactly, for
   every length and every chunk length; the created directory is related to the NumPy
   reference.  Uses the GENERATED fit_frames / iterindices. *)
From Coq Require Import ZArith List Bool Lia ZifyBool.
From Darr Require Import Base Gen_frames ArrayModel Spec Proofs.ListLemmas Proofs.Frames
     Proofs.ArrayRefine.
Import ListNotations.
Open Scope Z_scope.

Lemma zslice_slice : forall A (l : list A) a b, zslice l a b = slice l a b.
Proof. reflexivity. Qed.

Lemma slice_from0 : forall A (l : list A) m, slice l 0 m = firstn (Z.to_nat m) l.
Proof. intros. unfold slice. rewrite Z.sub_0_r. reflexivity. Qed.

Lemma tile_seq : forall A (l : list A) c k, 0 <= c ->
  concat (map (fun i => zslice l (Z.of_nat i * c) ((Z.of_nat i + 1) * c)) (seq 0 k))
  = slice l 0 (Z.of_nat k * c).
Proof.
  intros A l c k Hc. induction k as [|k IH].
  - cbn [seq map concat]. change (Z.of_nat 0 * c) with 0. rewrite slice_nil. reflexivity.
  - rewrite seq_S, map_app, concat_app, IH. cbn [map concat Nat.add]. rewrite app_nil_r.
    replace ((Z.of_nat k + 1) * c) with (Z.of_nat (S k) * c) by lia.
    unfold zslice. fold (slice l (Z.of_nat k * c) (Z.of_nat (S k) * c)).
    apply slice_split; nia.
Qed.

Definition uniform (dt : option (numtype * byteorder)) (tail : list Z) (cs : list image) : Prop :=
  Forall (fun c => im_dt c = dt /\ im_tail c = tail) cs.

(* --- sequences / ndarrays: fit_frames cuts [0, n) into chunks that tile it --- *)
Theorem archunks_seq : forall im isnd chunklen,
  exists cs, archunks (SSeq im isnd) chunklen = Ok cs /\ cs <> [] /\
             uniform (im_dt im) (im_tail im) cs /\ concat (map im_rows cs) = im_rows im.
Proof.
  intros im isnd chunklen. cbn [archunks].
  set (cl := Z.max (match chunklen with Some c => c | None => default_chunklen (SSeq im isnd) end) 1).
  assert (Hcl: 1 <= cl) by (subst cl; lia).
  set (rows := im_rows im). set (n := Z.of_nat (length rows)).
  destruct (n =? 0) eqn:En.
  { exists [im]. repeat split; [discriminate|repeat constructor|cbn; apply app_nil_r]. }
  assert (Hn: 0 < n) by lia.
  rewrite (fit_frames_eq n cl None) by (cbn [step_of]; lia). cbn [step_of].
  destruct (cl >? n) eqn:Ebig.
  - (* one chunk: array[-n:] *)
    cbn [Z.to_nat seq map app]. rewrite En.
    eexists. split; [reflexivity|]. split; [discriminate|]. split; [repeat constructor|].
    cbn [map im_rows concat]. rewrite app_nil_r. unfold lastn. fold rows. subst n.
    rewrite Nat2Z.id, Nat.sub_diag. reflexivity.
  - cbv zeta.
    set (q := (n - cl) / cl + 1).
    assert (Hq: 0 <= (n - cl) / cl) by (apply Z.div_pos; lia).
    assert (Hm := Z.div_mod (n - cl) cl ltac:(lia)).
    assert (Hr := Z.mod_pos_bound (n - cl) cl ltac:(lia)).
    replace (n - (q * cl + (cl - cl))) with (n - q * cl) by lia.
    assert (Hqn: q * cl <= n) by (subst q; nia).
    eexists. split; [reflexivity|]. split.
    { subst q. replace (Z.to_nat ((n - cl) / cl + 1)) with (S (Z.to_nat ((n - cl) / cl))) by lia.
      cbn [seq map app]. discriminate. }
    split.
    { apply Forall_app. split.
      - apply Forall_forall. intros c Hc. apply in_map_iff in Hc. destruct Hc as (i & <- & _). split; reflexivity.
      - destruct (n - q * cl =? 0); repeat constructor. }
    rewrite map_app, concat_app, map_map. cbn [im_rows].
    rewrite (tile_seq _ rows cl (Z.to_nat q)) by lia. rewrite Z2Nat.id by lia. rewrite slice_from0.
    destruct (n - q * cl =? 0) eqn:Er.
    + cbn [map concat]. rewrite app_nil_r. apply firstn_all2. subst n. lia.
    + cbn [map concat im_rows]. rewrite app_nil_r. unfold lastn.
      replace (length rows - Z.to_nat (n - q * cl))%nat with (Z.to_nat (q * cl)) by (subst n; lia).
      apply firstn_skipn.
Qed.

(* --- another Darr array: iterchunks (iterindices with step = chunklen) tiles it --- *)
Theorem archunks_darr : forall im chunklen,
  exists cs, archunks (SDarr im) chunklen = Ok cs /\ cs <> [] /\
             uniform (im_dt im) (im_tail im) cs /\ concat (map im_rows cs) = im_rows im.
Proof.
  intros im chunklen. cbn [archunks].
  set (cl := Z.max (match chunklen with Some c => c | None => default_chunklen (SDarr im) end) 1).
  assert (Hcl: 1 <= cl) by (subst cl; lia).
  set (rows := im_rows im). set (n := Z.of_nat (length rows)).
  destruct (n =? 0) eqn:En.
  { exists [im]. repeat split; [discriminate|repeat constructor|cbn; apply app_nil_r]. }
  assert (Hn: 0 < n) by lia.
  destruct (iterchunks_concat _ rows n cl None None) as (fr & Hfr & Hcat); cbn [dflt]; try lia.
  rewrite Hfr. eexists. split; [reflexivity|]. split.
  { destruct fr as [|f fr]; [|discriminate]. exfalso. cbn in Hcat.
    unfold slice in Hcat. rewrite Z.sub_0_r in Hcat. cbn [Z.to_nat skipn] in Hcat.
    subst n. rewrite Nat2Z.id, firstn_all in Hcat. destruct rows; [cbn in Hn; lia|discriminate]. }
  split.
  { apply Forall_forall. intros c Hc. apply in_map_iff in Hc. destruct Hc as (i & <- & _). split; reflexivity. }
  rewrite map_map. cbn [im_rows].
  change (fun x : Z * Z => zslice rows (fst x) (snd x)) with (fun p : Z * Z => slice rows (fst p) (snd p)).
  rewrite Hcat. cbn [dflt]. rewrite slice_from0. subst n. rewrite Nat2Z.id. apply firstn_all.
Qed.

(* --- what asarray makes of any chunk list --- *)
Lemma concat_map_concat : forall (cs : list image),
  concat (map (fun c => concat (im_rows c)) cs) = concat (concat (map im_rows cs)).
Proof.
  induction cs as [|c cs IH]; cbn; [reflexivity|]. rewrite IH, concat_app. reflexivity.
Qed.

Lemma sum_rows_gen : forall (cs : list image) a,
  fold_left (fun a c => a + Z.of_nat (length (im_rows c))) cs a
  = a + Z.of_nat (length (concat (map im_rows cs))).
Proof.
  induction cs as [|c cs IH]; intros a; cbn [fold_left map concat]; [cbn; lia|].
  rewrite IH, app_length. lia.
Qed.

Theorem asarray_from_chunks : forall s chunklen m meta cs nt bo tail rows,
  archunks s chunklen = Ok cs -> cs <> [] ->
  uniform (Some (nt, bo)) tail cs -> concat (map im_rows cs) = rows ->
  Forall (fun x => 0 < x) tail ->
  Forall (fun r => Z.of_nat (length r) = prodZ tail * itemsize nt) rows ->
  exists h d, asarray_m s chunklen m meta = Ok (h, d) /\
              Rel (h, d) (mkSarr nt bo OrdC tail rows m meta).
Proof.
  intros s chunklen m meta cs nt bo tail rows Har Hne Hu Hcat Htl Hrows.
  unfold asarray_m. rewrite Har. destruct cs as [|c0 rest]; [contradiction|].
  inversion Hu as [|c0' rest' [Hdt0 Htail0] Hrest]; subst c0' rest'. rewrite Hdt0. subst tail.
  rewrite concat_map_concat, sum_rows_gen, Z.add_0_l.
  subst rows. set (rows := concat (map im_rows (c0 :: rest))) in *.
  set (s0 := mkSarr nt bo OrdC (im_tail c0) rows m meta).
  assert (Hrb: 0 < s_rb s0).
  { unfold s_rb. cbn [s_tail s_nt s0].
    assert (0 < prodZ (im_tail c0)).
    { clear -Htl. induction Htl as [|x l Hx Hl IH]; cbn; [lia|]. unfold prodZ in IH. nia. }
    assert (0 < itemsize nt) by (destruct nt; reflexivity). nia. }
  assert (HRel: forall h, h = mkHandle m nt bo (s_shape s0) ->
            Rel (h, mkDir (Some (concat rows)) (Val (descr_of s0)) (Val (descr_of s0, meta)) meta) s0).
  { intros h ->. unfold Rel. cbn [fst snd a_data a_descr a_readme a_meta h_mode h_nt h_bo h_shape].
    repeat split; try assumption. }
  pose proof (open_rel _ _ _ m (HRel _ eq_refl)) as Hopen.
  change (mkDescr nt bo (Z.of_nat (length rows) :: im_tail c0) OrdC) with (descr_of s0).
  rewrite Hopen. eexists. eexists. split; [reflexivity|]. apply HRel. reflexivity.
Qed.

(* --- create_array: _fillgenerator produces exactly rows 0..n-1 --- *)
Lemma map_seq_shift : forall (f : Z -> list Z) (base : Z) (len : nat),
  map (fun j => f (base + Z.of_nat j)) (seq 0 len) = map f (map (fun j => base + Z.of_nat j) (seq 0 len)).
Proof. intros. rewrite map_map. reflexivity. Qed.

Lemma seq_from : forall b a, seq a b = map (fun j => (a + j)%nat) (seq 0 b).
Proof.
  induction b as [|b IH]; intros a; cbn [seq map]; [reflexivity|].
  f_equal; [lia|]. rewrite (IH (S a)), (IH 1%nat), map_map. apply map_ext. intros j. lia.
Qed.

Lemma seqZ_split : forall (f : Z -> list Z) a b,
  map (fun j => f (Z.of_nat j)) (seq 0 (a + b)) =
  map (fun j => f (Z.of_nat j)) (seq 0 a) ++ map (fun j => f (Z.of_nat a + Z.of_nat j)) (seq 0 b).
Proof.
  intros f a b. rewrite seq_app, map_app. f_equal. cbn [Nat.add].
  rewrite (seq_from b a), map_map. apply map_ext. intros j. f_equal. lia.
Qed.

Theorem fillchunks_concat : forall n cl f dt tail, 0 <= n -> 1 <= cl ->
  concat (map im_rows (fillchunks n cl f dt tail)) = map (fun j => f (Z.of_nat j)) (seq 0 (Z.to_nat n))
  /\ fillchunks n cl f dt tail <> [] /\ uniform dt tail (fillchunks n cl f dt tail).
Proof.
  intros n cl f dt tail Hn Hcl. unfold fillchunks.
  assert (Hm := Z.div_mod n cl ltac:(lia)). assert (Hr := Z.mod_pos_bound n cl ltac:(lia)).
  assert (Hq: 0 <= n / cl) by (apply Z.div_pos; lia).
  set (q := n / cl) in *. set (r := n mod cl) in *.
  split; [|split].
  - rewrite !map_app, !concat_app.
    assert (Hfull: forall k, concat (map im_rows (map (fun i => mkImage dt tail
                 (map (fun j => f (Z.of_nat i * cl + Z.of_nat j)) (seq 0 (Z.to_nat cl)))) (seq 0 k)))
               = map (fun j => f (Z.of_nat j)) (seq 0 (k * Z.to_nat cl))).
    { induction k as [|k IH]; [reflexivity|].
      rewrite seq_S, !map_app, concat_app, IH. cbn [map concat im_rows Nat.add]. rewrite app_nil_r.
      replace (S k * Z.to_nat cl)%nat with (k * Z.to_nat cl + Z.to_nat cl)%nat by lia.
      rewrite seqZ_split. f_equal. apply map_ext. intros j. f_equal. nia. }
    rewrite Hfull.
    replace (Z.to_nat n) with (Z.to_nat q * Z.to_nat cl + Z.to_nat r)%nat by nia.
    rewrite seqZ_split.
    destruct (n =? 0) eqn:En.
    + assert (q = 0 /\ r = 0) as [-> ->] by nia. cbn. reflexivity.
    + cbn [map concat app]. f_equal. destruct (0 <? r) eqn:Er.
      * cbn [map concat im_rows]. rewrite app_nil_r. apply map_ext. intros j. f_equal. nia.
      * assert (r = 0) by lia. subst r. rewrite H. reflexivity.
  - destruct (n =? 0) eqn:En; [discriminate|].
    destruct (Z.to_nat q) eqn:Eq.
    + assert (q = 0) by lia. destruct (0 <? r) eqn:Er; [cbn; discriminate|]. exfalso. nia.
    + cbn [seq map app]. discriminate.
  - apply Forall_app; split; [destruct (n =? 0); repeat constructor|].
    apply Forall_app; split.
    + apply Forall_forall. intros c Hc. apply in_map_iff in Hc. destruct Hc as (i & <- & _). split; reflexivity.
    + destruct (0 <? r); repeat constructor.
Qed.

(* --- rejection: an element type outside the 13 supported ones --- *)
Theorem asarray_rejects : forall s chunklen m meta c0 rest,
  archunks s chunklen = Ok (c0 :: rest) -> im_dt c0 = None ->
  asarray_m s chunklen m meta = Err TypeError.
Proof. intros s chunklen m meta c0 rest Har Hdt. unfold asarray_m. rewrite Har, Hdt. reflexivity. Qed.

(* a state is determined by the NumPy-model state it is related to *)
Lemma Rel_unique : forall w1 w2 s, Rel w1 s -> Rel w2 s -> w1 = w2.
Proof.
  intros [[m1 n1 b1 sh1] [da1 ds1 rm1 me1]] [[m2 n2 b2 sh2] [da2 ds2 rm2 me2]] s
    (A1 & A2 & A3 & A4 & (A5 & A6 & A7 & A8) & _) (B1 & B2 & B3 & B4 & (B5 & B6 & B7 & B8) & _).
  cbn [fst snd a_data a_descr a_readme a_meta h_mode h_nt h_bo h_shape] in *. congruence.
Qed.
