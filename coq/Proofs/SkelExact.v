(* SkelExact.v -- exactness of the loop-free skeletons: every completed run of the present source's function performs exactly these effects, in this order. *)
From Coq Require Import List String.
From Darr Require Import Base ArrayModel RaggedModel Skel Gen_effects EffectOrder EffectOrderR Proofs.SkelTeeth.
Import ListNotations. Open Scope string_scope. Open Scope list_scope.

Ltac crunch2 :=
  repeat match goal with
  | H : callout ?o = _ |- _ => is_var o; destruct o; simpl in H; try discriminate H; clear H
  | H : callout _ = _ |- _ => simpl in H; discriminate H
  | H : asub _ = None |- _ => vm_compute in H; first [discriminate H | clear H]
  | H : rsub _ = None |- _ => vm_compute in H; first [discriminate H | clear H]
  | H : asub _ = Some _ |- _ => vm_compute in H; first [discriminate H | injection H as <-]
  | H : rsub _ = Some _ |- _ => vm_compute in H; first [discriminate H | injection H as <-]
  | H : ?x <> ?x |- _ => contradiction H; reflexivity
  | H : runs _ _ (Seq _ _) _ _ |- _ => inv H
  | H : runs _ _ (Call _) _ _ |- _ => inv H
  | H : runs _ _ (If _ _) _ _ |- _ => inv H
  | H : runs _ _ (Try _ _) _ _ |- _ => inv H
  | H : runs _ _ Skip _ _ |- _ => inv H
  | H : runs _ _ Raise _ _ |- _ => inv H
  | H : runs _ _ Return _ _ |- _ => inv H
  end.

(* every COMPLETED run of the present _update_len rewrites the description and then the README *)
Theorem update_len_exact : forall o ks, aruns sk_update_len o ks -> o <> Raised -> ks = [KDescr; KReadme].
Proof.
  unfold aruns, sk_update_len; intros o ks H Ho. destruct o; [|contradiction Ho; reflexivity|]; crunch2; reflexivity.
Qed.

Theorem truncate_array_exact : forall o ks, aruns sk_truncate_array o ks -> o <> Raised -> ks = [KTrunc; KDescr; KReadme].
Proof.
  unfold aruns, sk_truncate_array; intros o ks H Ho. destruct o; [|contradiction Ho; reflexivity|]; crunch2; reflexivity.
Qed.

Theorem ragged_update_lens_exact : forall o ks, rruns sk_ragged_update_lens o ks -> o <> Raised ->
  ks = [KV KDescr; KV KReadme; KI KDescr; KI KReadme; KRDescr; KRReadme].
Proof.
  unfold rruns, sk_ragged_update_lens; intros o ks H Ho. destruct o; [|contradiction Ho; reflexivity|]; crunch2; reflexivity.
Qed.

Theorem truncate_raggedarray_exact : forall o ks, rruns sk_truncate_raggedarray o ks -> o <> Raised ->
  ks = map KI [KTrunc; KDescr; KReadme] ++ map KV [KTrunc; KDescr; KReadme] ++ [KRReadme; KRDescr] \/
  ks = map KI [KTrunc; KDescr; KReadme] ++ [KRReadme; KRDescr].
Proof.
  unfold rruns, sk_truncate_raggedarray; intros o ks H Ho. destruct o; [|contradiction Ho; reflexivity|]; crunch2;
    (left; reflexivity) || (right; reflexivity).
Qed.
