(* ReadcodeRaggedProofs.v -- the subarray accessor of every generated ragged program returns
   subarray k; the example names an existing subarray; code is withheld exactly for unsupported
   value / index types. *)
From Coq Require Import ZArith List Bool String Lia.
From Darr Require Import Base ArrayModel Codec Gen_tables Readcode ReadcodeRagged
     Proofs.ListLemmas Proofs.Codec Proofs.ReadcodeProofs.
Import ListNotations.
Open Scope Z_scope.
Notation length := List.length.

Fixpoint flat_rows (rows : list (Z * Z)) : list Z :=
  match rows with [] => [] | (s, e) :: t => s :: e :: flat_rows t end.

Lemma nth_flat_rows : forall rows k s e, nth_error rows k = Some (s, e) ->
  nth_error (flat_rows rows) (2 * k) = Some s /\ nth_error (flat_rows rows) (2 * k + 1) = Some e.
Proof.
  induction rows as [|[a b] rows IH]; intros [|k] s e H; cbn in H; try discriminate.
  - injection H as -> ->. split; reflexivity.
  - replace (2 * S k)%nat with (S (S (2 * k))) by lia. replace (S (S (2 * k)) + 1)%nat with (S (S (2 * k + 1))) by lia.
    cbn [flat_rows nth_error]. apply IH, H.
Qed.

Lemma nth_error_lt : forall A (l : list A) k x, nth_error l k = Some x -> (k < length l)%nat.
Proof. intros A l k x H. apply nth_error_Some. rewrite H. discriminate. Qed.

(* the elements of subarray (s, e): rows s .. e-1 of the values array, each prod(atom) elements *)
Definition sub_elems (atom : list Z) (velems : list (list Z)) (s e : Z) : list (list Z) :=
  let p := Z.to_nat (prodZ atom) in firstn (Z.to_nat (e - s) * p) (skipn (Z.to_nat s * p) velems).

Definition sub_represents (l : string) (nt : numtype) (atom : list Z) (len : Z) (elems : list (list Z))
           (res : sres) : Prop :=
  match res with
  | SArr a => represents (array_lang l) nt (len :: atom) elems (DArr a)
  | SNoDims => len = 0 /\ empty_has_dims l (length atom) = false
  end.

Lemma bounds_at : forall l r ielems rows k s e,
  Z.of_nat (length rows) = ri_n r -> map ival ielems = flat_rows rows ->
  nth_error rows k = Some (s, e) ->
  bounds l (mkA (ri_int r) (lang_dims (array_lang l) (index_shape r)) (lang_order (array_lang l)) ielems)
         (Z.of_nat k + origin l) = Some (s, e).
Proof.
  intros l r ielems rows k s e Hn Hm Hk.
  pose proof (nth_error_lt _ _ _ _ Hk) as Hlt.
  destruct (nth_flat_rows rows k s e Hk) as [Hs He]. rewrite <- Hm, !nth_error_map_opt in Hs, He.
  unfold bounds. replace (Z.of_nat k + origin l - origin l) with (Z.of_nat k) by lia.
  unfold lang_dims, index_shape, aget. destruct (lang_order (array_lang l)); cbn [a_dims a_ord a_flat rev app offset in_range rowmajor_off colmajor_off].
  - replace (Z.leb 0 (Z.of_nat k) && Z.ltb (Z.of_nat k) (ri_n r) && (Z.leb 0 0 && Z.ltb 0 2 && true)) with true
      by (symmetry; rewrite !andb_true_iff; repeat split; try reflexivity; [apply Z.leb_le|apply Z.ltb_lt]; lia).
    replace (Z.leb 0 (Z.of_nat k) && Z.ltb (Z.of_nat k) (ri_n r) && (Z.leb 0 1 && Z.ltb 1 2 && true)) with true
      by (symmetry; rewrite !andb_true_iff; repeat split; try reflexivity; [apply Z.leb_le|apply Z.ltb_lt]; lia).
    replace (Z.to_nat ((0 * ri_n r + Z.of_nat k) * 2 + 0)) with (2 * k)%nat by lia.
    replace (Z.to_nat ((0 * ri_n r + Z.of_nat k) * 2 + 1)) with (2 * k + 1)%nat by lia.
    destruct (nth_error ielems (2 * k)) as [x|]; [|discriminate]. destruct (nth_error ielems (2 * k + 1)) as [y|]; [|discriminate].
    cbn in Hs, He. congruence.
  - replace (Z.leb 0 0 && Z.ltb 0 2 && (Z.leb 0 (Z.of_nat k) && Z.ltb (Z.of_nat k) (ri_n r) && true)) with true
      by (symmetry; rewrite !andb_true_iff; repeat split; try reflexivity; [apply Z.leb_le|apply Z.ltb_lt]; lia).
    replace (Z.leb 0 1 && Z.ltb 1 2 && (Z.leb 0 (Z.of_nat k) && Z.ltb (Z.of_nat k) (ri_n r) && true)) with true
      by (symmetry; rewrite !andb_true_iff; repeat split; try reflexivity; [apply Z.leb_le|apply Z.ltb_lt]; lia).
    replace (Z.to_nat (0 + 2 * (Z.of_nat k + ri_n r * 0))) with (2 * k)%nat by lia.
    replace (Z.to_nat (1 + 2 * (Z.of_nat k + ri_n r * 0))) with (2 * k + 1)%nat by lia.
    destruct (nth_error ielems (2 * k)) as [x|]; [|discriminate]. destruct (nth_error ielems (2 * k + 1)) as [y|]; [|discriminate].
    cbn in Hs, He. congruence.
Qed.

Lemma slice_rep : forall al nt atom vlen velems s e,
  let v := mkA nt (lang_dims al (vlen :: atom)) (lang_order al) velems in
  slice_slowest v s e = mkA nt (lang_dims al ((e - s) :: atom)) (lang_order al) (sub_elems atom velems s e)
  /\ slowest v = vlen /\ length (a_dims v) = S (length atom).
Proof.
  intros al nt atom vlen velems s e. unfold lang_dims, slice_slowest, slowest, inner, sub_elems.
  destruct (lang_order al); cbn [a_dims a_ord a_nt a_flat hd tl rev].
  - repeat split; reflexivity.
  - rewrite removelast_last, last_last, prodZ_rev, app_length, rev_length. cbn [length]. repeat split. lia.
Qed.

Lemma represents_exact : forall l nt shape elems,
  represents l nt shape elems (DArr (mkA nt (lang_dims l shape) (lang_order l) elems)).
Proof.
  intros l nt shape elems. unfold lang_dims. destruct (lang_order l) eqn:E; [apply rep_row|apply rep_col]; exact E.
Qed.

Open Scope string_scope.
Theorem accessor_correct : forall l r ielems velems rows k s e,
  In l ragged_languages ->
  Z.of_nat (length rows) = ri_n r -> map ival ielems = flat_rows rows ->
  nth_error rows k = Some (s, e) -> (0 <= s)%Z -> (s <= e)%Z -> (e <= ri_vlen r)%Z ->
  exists res,
    program_accessor l r
      (mkA (ri_int r) (lang_dims (array_lang l) (index_shape r)) (lang_order (array_lang l)) ielems)
      (mkA (ri_vnt r) (lang_dims (array_lang l) (values_shape r)) (lang_order (array_lang l)) velems)
      (Z.of_nat k + origin l) = Some res
    /\ sub_represents l (ri_vnt r) (ri_atom r) (e - s) (sub_elems (ri_atom r) velems s e) res.
Proof.
  intros l r ielems velems rows k s e Hl Hn Hm Hk H0 Hse Hev.
  unfold program_accessor, accessor. rewrite (bounds_at l r ielems rows k s e Hn Hm Hk).
  unfold values_shape, rank.
  destruct (slice_rep (array_lang l) (ri_vnt r) (ri_atom r) (ri_vlen r) velems s e) as (Hslice & Hslow & Hrank).
  cbv zeta in Hslice, Hslow, Hrank. rewrite Hslice, Hslow, Hrank. rewrite Nat.eqb_refl. cbn [negb]. rewrite andb_false_r.
  replace (Z.ltb e s) with false by (symmetry; apply Z.ltb_ge; lia).
  replace (Z.ltb (ri_vlen r) e) with false by (symmetry; apply Z.ltb_ge; lia).
  replace (Z.ltb s 0) with false by (symmetry; apply Z.ltb_ge; lia). cbn [orb].
  destruct (Z.eqb s e) eqn:Ese.
  - apply Z.eqb_eq in Ese. subst e.
    assert (Hnil: sub_elems (ri_atom r) velems s s = []) by (unfold sub_elems; rewrite Z.sub_diag; reflexivity).
    unfold ragged_languages in Hl. cbn [In] in Hl.
    repeat match type of Hl with _ \/ _ => destruct Hl as [<-|Hl] | False => contradiction end;
      unfold empty_has_dims; eval_streq;
      try (eexists; split; [reflexivity|]; cbn [sub_represents]; apply represents_exact);
      try (eexists; split; [reflexivity|]; cbn [sub_represents]; split; [lia|reflexivity]).
    (* R: the explicit empty branch *)
    destruct (ri_atom r) as [|a0 at_] eqn:Ea.
    + eexists; split; [reflexivity|]. cbn [sub_represents length Nat.eqb negb]. split; [lia|reflexivity].
    + unfold r_emptydims. rewrite Ea. destruct (rev (a0 :: at_) ++ [0%Z])%list as [|z zs] eqn:Er.
      { apply app_eq_nil in Er. destruct Er as [_ Er]. discriminate Er. }
      eexists; split; [reflexivity|]. cbn [sub_represents]. rewrite Hnil, Z.sub_diag, <- Er.
      change (array_lang "R") with "R".
      change (rev (a0 :: at_) ++ [0%Z])%list with (rev (0%Z :: a0 :: at_)). apply (rep_col "R"). reflexivity.
  - assert (Hne: (e - s <> 0)%Z) by (apply Z.eqb_neq in Ese; lia).
    eexists; split; [reflexivity|]. cbn [sub_represents]. apply represents_exact.
Qed.

(* the example statement names an existing subarray, and names it correctly *)
Definition position_word (k0 : Z) : string :=
  if Z.eqb k0 0 then "first" else if Z.eqb k0 1 then "second" else "third".
Theorem example_ok : forall l n, In l ragged_languages -> (1 <= n)%Z ->
  let k0 := fst (example_of l n) - origin l in
  (0 <= k0 < n)%Z /\ k0 = Z.min 2 (n - 1) /\ snd (example_of l n) = position_word k0.
Proof.
  intros l n Hl Hn. unfold example_of, ragged_example, origin.
  unfold ragged_languages in Hl. cbn [In] in Hl.
  repeat match type of Hl with _ \/ _ => destruct Hl as [<-|Hl] | False => contradiction end; eval_streq;
    (destruct (Z.ltb 2 n) eqn:E2; [apply Z.ltb_lt in E2|apply Z.ltb_ge in E2]; cbn [fst snd];
     [|destruct (Z.eqb n 2) eqn:E1; [apply Z.eqb_eq in E1|apply Z.eqb_neq in E1]; cbn [fst snd]]);
    (split; [lia|]); (split; [lia|]); unfold position_word;
    match goal with |- _ = (if Z.eqb ?x 0 then _ else _) =>
      let v := eval vm_compute in x in change x with v end; reflexivity.
Qed.

(* code is withheld exactly when the values type or the index type has no token in the language's
   table (R takes an int64 index array, within the int32 range of sizes) *)
Theorem withheld_iff : forall l r m, In l ragged_languages ->
  is_some (readcode_ragged l r m) =
  (String.eqb l "darr" ||
   (is_some (toks_of (array_lang l) (ri_int r) (ri_ibo r) (String.eqb l "R"))
    && is_some (toks_of (array_lang l) (ri_vnt r) (ri_vbo r) false)
    && (negb (String.eqb l "R") || r_size_ok r))).
Proof.
  intros l r m Hl. unfold readcode_ragged, code_i, code_v.
  destruct (example_of l (ri_n r)) as [k pos].
  unfold ragged_languages in Hl. cbn [In] in Hl.
  repeat match type of Hl with _ \/ _ => destruct Hl as [<-|Hl] | False => contradiction end;
    eval_streq; try reflexivity; unfold plan_of; eval_streq;
    match goal with |- context [toks_of ?a ?b ?c ?d] => destruct (toks_of a b c d) end; cbn [option_map is_some andb];
    try reflexivity;
    match goal with |- context [toks_of ?a ?b ?c ?d] => destruct (toks_of a b c d) end; cbn [option_map is_some andb];
    try reflexivity.
  destruct (r_size_ok r); reflexivity.
Qed.

(* both array programs a ragged program consists of bind exactly the index and values arrays *)
Theorem ragged_arrays : forall l r m ielems velems ci cv,
  In l ragged_languages -> l <> "darr" ->
  Z.of_nat (length ielems) = prodZ (index_shape r) -> sized (ri_int r) ielems ->
  Z.of_nat (length velems) = prodZ (values_shape r) -> sized (ri_vnt r) velems ->
  plan_of (array_lang l) (ri_int r) (index_shape r) (ri_ibo r) (rpath m "indices") "i" (String.eqb l "R") = Some ci ->
  plan_of (array_lang l) (ri_vnt r) (values_shape r) (ri_vbo r) (rpath m "values") "v" false = Some cv ->
  denote ci (ri_int r, ri_ibo r) (encode (ri_int r) (ri_ibo r) ielems)
    = Some (DArr (mkA (ri_int r) (lang_dims (array_lang l) (index_shape r)) (lang_order (array_lang l)) ielems)) /\
  denote cv (ri_vnt r, ri_vbo r) (encode (ri_vnt r) (ri_vbo r) velems)
    = Some (DArr (mkA (ri_vnt r) (lang_dims (array_lang l) (values_shape r)) (lang_order (array_lang l)) velems)) /\
  writes ci = false /\ writes cv = false.
Proof.
  intros l r m ielems velems ci cv Hl Hd Hil His Hvl Hvs Hci Hcv.
  assert (Hal: In (array_lang l) array_languages /\ array_lang l <> "python").
  { unfold ragged_languages in Hl. cbn [In] in Hl.
    repeat match type of Hl with _ \/ _ => destruct Hl as [<-|Hl] | False => contradiction end;
      (split; [cbn; tauto|intros HH; vm_compute in HH; discriminate HH]). }
  destruct Hal as [Hin Hnp].
  assert (Hi0: index_shape r <> []) by (unfold index_shape; discriminate).
  assert (Hv0: values_shape r <> []) by (unfold values_shape; discriminate).
  repeat split.
  - apply (denote_exact _ _ _ _ _ _ _ _ _ Hin Hnp Hi0 Hil His Hci).
  - apply (denote_exact _ _ _ _ _ _ _ _ _ Hin Hnp Hv0 Hvl Hvs Hcv).
  - apply (no_program_writes _ _ _ _ _ _ _ _ Hin Hci).
  - apply (no_program_writes _ _ _ _ _ _ _ _ Hin Hcv).
Qed.

(* ---------- slice_slowest is a subscript range on the slowest axis ---------- *)
Open Scope Z_scope.
Lemma rowmajor_bound : forall dims idx, in_range dims idx = true ->
  0 <= rowmajor_off dims idx 0 < prodZ dims.
Proof.
  induction dims as [|d ds IH]; intros [|i is_] H; cbn in H; try discriminate.
  - cbn. lia.
  - apply andb_true_iff in H. destruct H as [H Hr]. apply andb_true_iff in H. destruct H as [H0 H1].
    apply Z.leb_le in H0. apply Z.ltb_lt in H1. specialize (IH _ Hr).
    cbn [rowmajor_off]. rewrite rowmajor_acc by (apply in_range_length; exact Hr).
    change (prodZ (d :: ds)) with (d * prodZ ds). nia.
Qed.

Lemma colmajor_bound : forall dims idx, in_range dims idx = true ->
  0 <= colmajor_off dims idx < prodZ dims.
Proof.
  induction dims as [|d ds IH]; intros [|i is_] H; cbn in H; try discriminate.
  - cbn. lia.
  - apply andb_true_iff in H. destruct H as [H Hr]. apply andb_true_iff in H. destruct H as [H0 H1].
    apply Z.leb_le in H0. apply Z.ltb_lt in H1. specialize (IH _ Hr).
    cbn [colmajor_off]. change (prodZ (d :: ds)) with (d * prodZ ds). nia.
Qed.

Lemma nth_error_firstn_skipn : forall A (l : list A) s m i, (i < m)%nat ->
  nth_error (firstn m (skipn s l)) i = nth_error l (s + i).
Proof.
  intros A l s m i Hi. revert l. induction s as [|s IH]; intros l.
  - cbn [skipn plus]. revert m Hi l. induction i as [|i IHi]; intros [|m] Hi l; try lia; destruct l; cbn; auto.
    apply IHi. lia.
  - destruct l as [|x l]; [cbn; rewrite firstn_nil; destruct i; reflexivity|]. cbn [skipn plus nth_error]. apply IH.
Qed.

(* row-major: v[lo:hi][j, idx] = v[lo + j, idx] *)
Theorem slice_slowest_row : forall t n inner_ flat lo hi j idx,
  0 <= lo -> hi <= n -> 0 <= j < hi - lo -> in_range inner_ idx = true ->
  aget (slice_slowest (mkA t (n :: inner_) RowMajor flat) lo hi) (j :: idx)
  = aget (mkA t (n :: inner_) RowMajor flat) (lo + j :: idx).
Proof.
  intros t n inner_ flat lo hi j idx Hlo Hhi Hj Hin.
  pose proof (rowmajor_bound inner_ idx Hin) as Hb. pose proof (in_range_length _ _ Hin) as Hl.
  unfold slice_slowest, aget, slowest, inner. cbn [a_dims a_ord a_nt a_flat tl in_range offset rowmajor_off].
  rewrite Hin.
  replace (Z.leb 0 j && Z.ltb j (hi - lo) && true) with true
    by (symmetry; rewrite !andb_true_iff; repeat split; [apply Z.leb_le|apply Z.ltb_lt]; lia).
  replace (Z.leb 0 (lo + j) && Z.ltb (lo + j) n && true) with true
    by (symmetry; rewrite !andb_true_iff; repeat split; [apply Z.leb_le|apply Z.ltb_lt]; lia).
  rewrite (rowmajor_acc inner_ idx (0 * (hi - lo) + j)) by exact Hl.
  rewrite (rowmajor_acc inner_ idx (0 * n + (lo + j))) by exact Hl.
  set (P := prodZ inner_) in *. set (o := rowmajor_off inner_ idx 0) in *.
  rewrite nth_error_firstn_skipn by nia. f_equal. nia.
Qed.

(* column-major: v(idx, lo+1 : hi)(idx, j) = v(idx, lo + j) (0-based j) *)
Theorem slice_slowest_col : forall t n inner_ flat lo hi j idx,
  0 <= lo -> hi <= n -> 0 <= j < hi - lo -> in_range inner_ idx = true ->
  aget (slice_slowest (mkA t (inner_ ++ [n]) ColMajor flat) lo hi) (idx ++ [j])
  = aget (mkA t (inner_ ++ [n]) ColMajor flat) (idx ++ [lo + j]).
Proof.
  intros t n inner_ flat lo hi j idx Hlo Hhi Hj Hin.
  pose proof (colmajor_bound inner_ idx Hin) as Hb. pose proof (in_range_length _ _ Hin) as Hl.
  unfold slice_slowest, aget, slowest, inner. cbn [a_dims a_ord a_nt a_flat offset].
  rewrite removelast_last. rewrite !in_range_app by exact Hl. rewrite Hin. cbn [in_range].
  replace (Z.leb 0 j && Z.ltb j (hi - lo) && true) with true
    by (symmetry; rewrite !andb_true_iff; repeat split; [apply Z.leb_le|apply Z.ltb_lt]; lia).
  replace (Z.leb 0 (lo + j) && Z.ltb (lo + j) n && true) with true
    by (symmetry; rewrite !andb_true_iff; repeat split; [apply Z.leb_le|apply Z.ltb_lt]; lia).
  cbn [andb]. rewrite !colmajor_snoc by exact Hl.
  set (P := prodZ inner_) in *. set (o := colmajor_off inner_ idx) in *.
  rewrite nth_error_firstn_skipn by nia. f_equal. nia.
Qed.
