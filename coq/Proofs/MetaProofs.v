From Coq Require Import ZArith List Bool Lia.
From Darr Require Import Base Meta.
Import ListNotations.
Open Scope Z_scope.

Lemma key_cmp_refl : forall a, key_cmp a a = Eq.
Proof. induction a as [|x a IH]; cbn; [reflexivity|]. rewrite Z.compare_refl. exact IH. Qed.

Lemma key_cmp_eq : forall a b, key_cmp a b = Eq -> a = b.
Proof.
  induction a as [|x a IH]; destruct b as [|y b]; cbn; intros H; try discriminate; [reflexivity|].
  destruct (Z.compare x y) eqn:E; try discriminate. apply Z.compare_eq in E. subst. f_equal. apply IH. exact H.
Qed.

Lemma key_eqb_spec : forall a b, key_eqb a b = true <-> a = b.
Proof.
  intros a b. unfold key_eqb. split.
  - destruct (key_cmp a b) eqn:E; try discriminate. intros _. apply key_cmp_eq. exact E.
  - intros ->. rewrite key_cmp_refl. reflexivity.
Qed.

Lemma key_eqb_false : forall a b, a <> b -> key_eqb a b = false.
Proof. intros a b H. destruct (key_eqb a b) eqn:E; [apply key_eqb_spec in E; contradiction|reflexivity]. Qed.

(* dictionary laws *)
Theorem lookup_insert_same : forall d k v, lookup k (insert k v d) = Some v.
Proof.
  induction d as [|[k' v'] d IH]; intros k v; cbn [insert lookup].
  - replace (key_eqb k k) with true by (symmetry; apply key_eqb_spec; reflexivity). reflexivity.
  - destruct (key_cmp k k') eqn:E; cbn [lookup];
      try (replace (key_eqb k k) with true by (symmetry; apply key_eqb_spec; reflexivity); reflexivity).
    unfold key_eqb at 1. rewrite E. apply IH.
Qed.

Theorem lookup_insert_other : forall d k v k', k <> k' -> lookup k' (insert k v d) = lookup k' d.
Proof.
  induction d as [|[k0 v0] d IH]; intros k v k' Hne; cbn [insert lookup].
  - rewrite (key_eqb_false k' k) by congruence. reflexivity.
  - destruct (key_cmp k k0) eqn:E; cbn [lookup].
    + apply key_cmp_eq in E. subst k0. rewrite (key_eqb_false k' k) by congruence. reflexivity.
    + rewrite (key_eqb_false k' k) by congruence. reflexivity.
    + destruct (key_eqb k' k0); [reflexivity|]. apply IH. exact Hne.
Qed.

Theorem lookup_remove_same : forall d k, lookup k (remove k d) = None.
Proof.
  induction d as [|[k0 v0] d IH]; intros k; cbn [remove filter lookup fst]; [reflexivity|].
  destruct (key_eqb k k0) eqn:E; cbn [negb]; [apply IH|]. cbn [lookup]. rewrite E. apply IH.
Qed.

Theorem lookup_remove_other : forall d k k', k <> k' -> lookup k' (remove k d) = lookup k' d.
Proof.
  induction d as [|[k0 v0] d IH]; intros k k' Hne; cbn [remove filter lookup fst]; [reflexivity|].
  destruct (key_eqb k k0) eqn:E; cbn [negb].
  - apply key_eqb_spec in E. subst k0. rewrite (key_eqb_false k' k) by congruence. apply IH. exact Hne.
  - cbn [lookup]. destruct (key_eqb k' k0); [reflexivity|]. apply IH. exact Hne.
Qed.

Lemma insert_nonempty : forall k v d, insert k v d <> [].
Proof. intros k v [|[k' v'] d]; cbn; [discriminate|]. destruct (key_cmp k k'); discriminate. Qed.

(* ---------- sortedness of what is written ---------- *)
Fixpoint sorted (d : dict) : Prop :=
  match d with
  | [] => True
  | (k, _) :: t => Forall (fun p => key_cmp k (fst p) = Lt) t /\ sorted t
  end.

Lemma key_cmp_antisym : forall a b, key_cmp a b = Gt -> key_cmp b a = Lt.
Proof.
  induction a as [|x a IH]; destruct b as [|y b]; cbn; intros H; try discriminate; try reflexivity.
  destruct (Z.compare x y) eqn:E; try discriminate.
  - apply Z.compare_eq in E. subst. rewrite Z.compare_refl. apply IH. exact H.
  - rewrite Z.compare_antisym, E. reflexivity.
Qed.

Lemma key_cmp_trans : forall a b c, key_cmp a b = Lt -> key_cmp b c = Lt -> key_cmp a c = Lt.
Proof.
  induction a as [|x a IH]; intros b c H1 H2; destruct b as [|y b]; destruct c as [|z c]; cbn in *;
    try discriminate; try reflexivity.
  destruct (Z.compare_spec x y) as [Exy|Exy|Exy]; try discriminate;
    destruct (Z.compare_spec y z) as [Eyz|Eyz|Eyz]; try discriminate; subst.
  - rewrite Z.compare_refl. eapply IH; eassumption.
  - destruct (Z.compare_spec y z); try lia. reflexivity.
  - destruct (Z.compare_spec x z); try lia. reflexivity.
  - destruct (Z.compare_spec x z); try lia. reflexivity.
Qed.

Lemma Forall_insert : forall (P : key * val -> Prop) k v d, Forall P d -> P (k, v) -> Forall P (insert k v d).
Proof.
  intros P k v d. induction d as [|[k0 v0] d IH]; intros Hd Hp; cbn [insert]; [constructor; auto|].
  inversion Hd as [|? ? H0 Ht]; subst.
  destruct (key_cmp k k0); [constructor; assumption|constructor; [assumption|constructor; assumption]|].
  constructor; [assumption|apply IH; assumption].
Qed.

Lemma insert_sorted : forall d k v, sorted d -> sorted (insert k v d).
Proof.
  induction d as [|[k0 v0] d IH]; intros k v Hs; cbn [insert]; [cbn; split; [constructor|exact I]|].
  destruct Hs as [Hh Ht]. destruct (key_cmp k k0) eqn:E.
  - apply key_cmp_eq in E. subst k0. cbn [sorted]. split; assumption.
  - cbn [sorted]. split; [|split; assumption]. constructor; [exact E|].
    eapply Forall_impl; [|exact Hh]. cbn. intros p Hp. eapply key_cmp_trans; eassumption.
  - cbn [sorted]. split; [|apply IH; exact Ht].
    apply Forall_insert; [exact Hh|]. cbn. apply key_cmp_antisym. exact E.
Qed.

Lemma Forall_filter_ : forall A (P : A -> Prop) f l, Forall P l -> Forall P (filter f l).
Proof.
  intros A P f l H. induction H as [|x l Hx Hl IH]; cbn; [constructor|]. destruct (f x); [constructor|]; assumption.
Qed.

Lemma remove_sorted : forall d k, sorted d -> sorted (remove k d).
Proof.
  unfold remove. induction d as [|[k0 v0] d IH]; intros k Hs; [exact I|]. destruct Hs as [Hh Ht].
  cbn [filter]. destruct (negb (key_eqb k (fst (k0, v0)))); [|apply IH; exact Ht].
  cbn [sorted]. split; [apply Forall_filter_; exact Hh|apply IH; exact Ht].
Qed.

Lemma update_all_sorted : forall kvs d, sorted d -> sorted (update_all kvs d).
Proof.
  unfold update_all. induction kvs as [|[k v] kvs IH]; intros d Hs; [exact Hs|].
  cbn [fold_left fst snd]. apply IH. apply insert_sorted. exact Hs.
Qed.

Lemma update_all_nonempty : forall kvs d, d <> [] -> update_all kvs d <> [].
Proof.
  unfold update_all. induction kvs as [|[k v] kvs IH]; intros d Hd; [exact Hd|].
  cbn [fold_left fst snd]. apply IH. apply insert_nonempty.
Qed.

(* in a sorted dictionary the last item has the largest key (popitem) *)
(* ---------- the invariant of the file ---------- *)
Definition MInv (s : mstate) : Prop :=
  match m_file s with Absent => True | Torn => False | Val d => d <> [] /\ sorted d end.
Definition m_abs (s : mstate) : dict := match m_file s with Val d => d | _ => [] end.

Lemma store_inv : forall d old m, sorted d -> MInv (mkM (store d old) m).
Proof. intros d old m Hs. unfold MInv, store. destruct d; cbn; [exact I|]. split; [discriminate|exact Hs]. Qed.

Lemma m_read_abs : forall s, MInv s -> m_read s = Ok (m_abs s) /\ sorted (m_abs s).
Proof.
  intros s H. unfold MInv, m_read, m_abs in *. destruct (m_file s) as [| |d]; [split; [reflexivity|exact I]|contradiction|].
  split; [reflexivity|apply H].
Qed.

(* every operation preserves the invariant: metadata.json exists exactly when the
   metadata are non-empty, and then holds them sorted *)
Theorem m_step_inv : forall s o, MInv s -> MInv (snd (m_step s o)).
Proof.
  intros s o H. destruct (m_read_abs s H) as [Hr Hs]. destruct o as [kvs|k dflt| |k|m|]; cbn [m_step].
  - destruct (m_mode s); [exact H|]. rewrite Hr. destruct kvs as [kvs|]; [|exact H].
    destruct (update_all kvs (m_abs s)) as [|p d'] eqn:E; [exact H|]. cbn [snd]. unfold MInv. cbn [m_file].
    split; [discriminate|]. rewrite <- E. apply update_all_sorted. exact Hs.
  - destruct (m_mode s); [exact H|]. rewrite Hr.
    destruct (lookup k (m_abs s)).
    + cbn [snd]. apply store_inv. apply remove_sorted. exact Hs.
    + destruct dflt; [|exact H]. cbn [snd]. destruct (m_abs s) as [|p d'] eqn:E; [exact H|].
      unfold MInv. cbn [m_file]. split; [discriminate|]. exact Hs.
  - destruct (m_mode s); [exact H|]. rewrite Hr.
    destruct (rev (m_abs s)) as [|[k v] t]; [exact H|]. cbn [snd]. apply store_inv. apply remove_sorted. exact Hs.
  - destruct (m_mode s); [exact H|]. rewrite Hr.
    destruct (lookup k (m_abs s)); [|exact H]. cbn [snd]. apply store_inv. apply remove_sorted. exact Hs.
  - exact H.
  - exact H.
Qed.

Theorem m_run_inv : forall os s, MInv s -> MInv (m_run s os).
Proof.
  unfold m_run. induction os as [|o os IH]; intros s H; [exact H|]. cbn [fold_left]. apply IH. apply m_step_inv. exact H.
Qed.

Theorem file_iff_nonempty : forall s, MInv s -> (m_file s = Absent <-> m_abs s = []).
Proof.
  intros s H. unfold MInv, m_abs in *. destruct (m_file s) as [| |d]; [tauto|contradiction|].
  destruct H as [Hne _]. split; [discriminate|intros E; contradiction].
Qed.

(* what the operations return and do to the dictionary *)
Theorem m_update_spec : forall s kvs, MInv s -> m_mode s = RW ->
  fst (m_step s (MUpdate (Some kvs))) = ONone /\
  m_abs (snd (m_step s (MUpdate (Some kvs)))) = update_all kvs (m_abs s).
Proof.
  intros s kvs H Hm. destruct (m_read_abs s H) as [Hr Hs]. cbn [m_step]. rewrite Hm, Hr.
  destruct (update_all kvs (m_abs s)) as [|p d'] eqn:E; cbn [fst snd]; [|split; reflexivity].
  split; [reflexivity|]. destruct (m_abs s) as [|q d0] eqn:E0; [reflexivity|].
  exfalso. apply (update_all_nonempty kvs (q :: d0)); [discriminate|exact E].
Qed.

Theorem m_update_nonserialisable : forall s, MInv s -> m_mode s = RW ->
  m_step s (MUpdate None) = (OErr TypeError, s).
Proof. intros s H Hm. destruct (m_read_abs s H) as [Hr _]. cbn [m_step]. rewrite Hm, Hr. reflexivity. Qed.

Theorem m_pop_spec : forall s k dflt, MInv s -> m_mode s = RW ->
  match lookup k (m_abs s) with
  | Some v => fst (m_step s (MPop k dflt)) = OVal v /\
              m_abs (snd (m_step s (MPop k dflt))) = remove k (m_abs s)
  | None => fst (m_step s (MPop k dflt)) = (if dflt then ODefault else OErr KeyError) /\
            m_abs (snd (m_step s (MPop k dflt))) = m_abs s
  end.
Proof.
  intros s k dflt H Hm. destruct (m_read_abs s H) as [Hr Hs]. cbn [m_step]. rewrite Hm, Hr.
  destruct (lookup k (m_abs s)) as [v|]; cbn [fst snd].
  - split; [reflexivity|]. unfold m_abs at 1. cbn [m_file]. unfold store. destruct (remove k (m_abs s)); reflexivity.
  - destruct dflt; cbn [fst snd]; (split; [reflexivity|]); [|reflexivity].
    destruct (m_abs s) as [|p d0] eqn:E; [exact E|]. reflexivity.
Qed.

Theorem m_readonly : forall s o, m_mode s = R ->
  (exists kvs, o = MUpdate kvs) \/ (exists k d, o = MPop k d) \/ o = MPopItem \/ (exists k, o = MDel k) ->
  m_step s o = (OErr OSError, s).
Proof.
  intros s o Hm [[kvs ->]|[[k [d ->]]|[->|[k ->]]]]; cbn [m_step]; rewrite Hm; reflexivity.
Qed.

(* C17 for metadata: whatever the crash point of a metadata change, reading the file
   raises or gives the dictionary before or after *)
Theorem m_crash_safe : forall s o f, MInv s -> In f (m_crash_states s o) ->
  m_read (mkM f R) = Err ValueError \/ f = m_file s \/ f = m_file (snd (m_step s o)).
Proof.
  intros s o f H Hin. unfold m_crash_states in Hin.
  destruct (m_file (snd (m_step s o))) as [| |d'] eqn:E; cbn [In] in Hin.
  - destruct Hin as [<-|[<-|[]]]; [right; left; reflexivity|right; right; reflexivity].
  - destruct Hin as [<-|[<-|[]]]; [right; left; reflexivity|right; right; reflexivity].
  - destruct Hin as [<-|[<-|[<-|[]]]]; [right; left; reflexivity|left; reflexivity|right; right; reflexivity].
Qed.
