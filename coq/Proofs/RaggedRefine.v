(* RaggedRefine.v -- every step of the RaggedArray model refines the list-of-arrays
   model; the relation RRel carries the structural invariant of C05 (index chain),
   the top-level descriptor and the README facts of C08. *)
From Coq Require Import ZArith List Bool Lia.
From Darr Require Import Base ArrayModel RaggedModel Spec Proofs.ListLemmas Proofs.ArrayRefine
     Proofs.RaggedBase.
Import ListNotations.
Open Scope Z_scope.

Definition sv_of (g : srag) : sarr :=
  mkSarr (g_nt g) (g_bo g) OrdC (g_atom g) (concat (g_subs g)) (g_mode g) false.
Definition idx_of (g : srag) : list (Z * Z) := chain_from 0 (g_lens g).
Definition si_of (g : srag) : sarr :=
  mkSarr (g_ity g) Little OrdC [2] (map (enc_row (g_ity g)) (idx_of g)) (g_mode g) false.
Definition info_of (g : srag) : rdescr :=
  mkRDescr (Z.of_nat (length (g_subs g))) (g_nrows g * prodZ (g_atom g)) (g_atom g) (g_nt g).
Definition facts_of (g : srag) : rfacts :=
  let n := Z.of_nat (length (g_subs g)) in
  mkRFacts n (Z.of_nat (length (g_atom g)) + 1) (g_nt g)
           (firstn (Z.to_nat (Z.min n 5)) (g_lens g)) (5 + 1 <? n)
           (if 5 <? n then match rev (g_lens g) with l :: _ => Some l | [] => None end else None).

Definition RRel (w : rworld) (g : srag) : Prop :=
  Rel (rh_v (fst w), r_values (snd w)) (sv_of g) /\
  Rel (rh_i (fst w), r_indices (snd w)) (si_of g) /\
  r_descr (snd w) = Val (info_of g) /\ rh_info (fst w) = info_of g /\
  r_readme (snd w) = Val (facts_of g) /\
  r_meta (snd w) = g_meta g /\ rh_mode (fst w) = g_mode g /\
  index_type (g_ity g) = true /\ g_nrows g <= index_max (g_ity g).

(* ---------- projections of ragged effects onto the two sub-arrays ---------- *)

Fixpoint vproj (es : list reff) : list eff :=
  match es with [] => [] | RV e :: t => e :: vproj t | _ :: t => vproj t end.
Fixpoint iproj (es : list reff) : list eff :=
  match es with [] => [] | RI e :: t => e :: iproj t | _ :: t => iproj t end.

Lemma apply_reffs_app : forall a b d, apply_reffs (a ++ b) d = apply_reffs b (apply_reffs a d).
Proof. intros. unfold apply_reffs. apply fold_left_app. Qed.

Lemma r_values_apply : forall es d, r_values (apply_reffs es d) = apply_effs (vproj es) (r_values d).
Proof.
  unfold apply_reffs, apply_effs. induction es as [|e es IH]; intros d; [reflexivity|].
  cbn [fold_left]. rewrite IH. destruct e; reflexivity.
Qed.
Lemma r_indices_apply : forall es d, r_indices (apply_reffs es d) = apply_effs (iproj es) (r_indices d).
Proof.
  unfold apply_reffs, apply_effs. induction es as [|e es IH]; intros d; [reflexivity|].
  cbn [fold_left]. rewrite IH. destruct e; reflexivity.
Qed.
Lemma vproj_app : forall a b, vproj (a ++ b) = vproj a ++ vproj b.
Proof. induction a as [|e a IH]; intros b; [reflexivity|]. destruct e; cbn; rewrite IH; reflexivity. Qed.
Lemma iproj_app : forall a b, iproj (a ++ b) = iproj a ++ iproj b.
Proof. induction a as [|e a IH]; intros b; [reflexivity|]. destruct e; cbn; rewrite IH; reflexivity. Qed.
Lemma vproj_RV : forall es, vproj (map RV es) = es.
Proof. induction es; cbn; congruence. Qed.
Lemma vproj_RI : forall es, vproj (map RI es) = [].
Proof. induction es; cbn; congruence. Qed.
Lemma iproj_RI : forall es, iproj (map RI es) = es.
Proof. induction es; cbn; congruence. Qed.
Lemma iproj_RV : forall es, iproj (map RV es) = [].
Proof. induction es; cbn; congruence. Qed.

(* only RV / RI effects: the top-level files are untouched *)
Definition sub_only (es : list reff) : Prop :=
  Forall (fun e => match e with RV _ | RI _ => True | _ => False end) es.
Lemma sub_only_top : forall es d, sub_only es ->
  r_descr (apply_reffs es d) = r_descr d /\ r_readme (apply_reffs es d) = r_readme d /\
  r_meta (apply_reffs es d) = r_meta d.
Proof.
  unfold apply_reffs. induction es as [|e es IH]; intros d H; [repeat split|].
  inversion H as [|? ? He Hes]; subst. cbn [fold_left]. destruct (IH (apply_reff e d) Hes) as (A & B & C).
  rewrite A, B, C. destruct e; try contradiction; repeat split.
Qed.

(* ---------- sequences of data appends ---------- *)

Definition payload (es : list eff) : list Z :=
  concat (map (fun e => match e with EAppendData x => x | _ => [] end) es).
Definition all_appends (es : list eff) : Prop :=
  Forall (fun e => match e with EAppendData _ => True | _ => False end) es.

Lemma apply_appends : forall es d, all_appends es ->
  apply_effs es d = mkDir (option_map (fun x => x ++ payload es) (a_data d)) (a_descr d) (a_readme d) (a_meta d).
Proof.
  unfold apply_effs, payload. induction es as [|e es IH]; intros d H.
  - cbn. destruct d as [dat ? ? ?]; destruct dat; cbn; rewrite ?app_nil_r; reflexivity.
  - inversion H as [|? ? He Hes]; subst. destruct e; try contradiction.
    cbn [fold_left map concat]. rewrite (IH _ Hes). cbn [apply_eff a_data a_descr a_readme a_meta].
    destruct (a_data d); cbn [option_map]; [|reflexivity]. rewrite <- app_assoc. reflexivity.
Qed.

(* ---------- one sub-array: data grew by g (+ junk of a failed write); after the
   optional truncation and _update_len it is related to rows ++ g ---------- *)
Lemma sub_grow : forall h d s g junk (failed : bool),
  Rel (h, d) s -> Forall (fun r => Z.of_nat (length r) = s_rb s) g ->
  (failed = false -> junk = []) ->
  let d1 := mkDir (Some (concat (s_rows s) ++ concat g ++ junk)) (a_descr d) (a_readme d) (a_meta d) in
  let tr := if failed
            then [ETruncData ((lenof (h_shape h) + Z.of_nat (length g)) * rowbytes (h_nt h) (h_shape h))]
            else [] in
  exists h' es, update_len h (apply_effs tr d1) (Z.of_nat (length g)) = Ok (h', es) /\
    Rel (h', apply_effs es (apply_effs tr d1)) (with_rows s (s_rows s ++ g)).
Proof.
  intros h d s g junk failed HR Hg Hj d1 tr.
  pose proof HR as (Hdat & Hds & Hrm & Hme & (Hhm & Hhn & Hhb & Hhs) & Hrows & Hrb & Htl). cbn [fst snd] in *.
  set (s' := with_rows s (s_rows s ++ g)).
  assert (Hall: Forall (fun r => Z.of_nat (length r) = s_rb s') (s_rows s ++ g)).
  { apply Forall_app; split; assumption. }
  assert (Hlen: Z.of_nat (length (concat (s_rows s ++ g))) = s_len s' * s_rb s').
  { rewrite (concat_rows_length _ _ Hall). reflexivity. }
  assert (Hd2: apply_effs tr d1 = mkDir (Some (concat (s_rows s ++ g))) (a_descr d) (a_readme d) (a_meta d)).
  { subst tr d1. destruct failed.
    - cbn [apply_effs fold_left apply_eff a_data a_descr a_readme a_meta option_map]. f_equal. f_equal.
      rewrite app_assoc, <- concat_app. apply firstn_app_exact.
      apply Nat2Z.inj. rewrite Hlen. unfold rowbytes. rewrite Hhs, Hhn. cbn [s_shape tl lenof hd].
      fold (s_rb s). unfold s_len, s_rb. subst s'. cbn [s_rows s_tail s_nt with_rows].
      rewrite app_length, Nat2Z.inj_add. rewrite Z2Nat.id; [reflexivity|].
      unfold s_rb in Hrb. unfold s_len. nia.
    - rewrite (Hj eq_refl), app_nil_r, <- concat_app. reflexivity. }
  rewrite Hd2. unfold update_len. cbn [a_descr a_meta]. rewrite Hds.
  assert (Hshape: set_len (h_shape h) (lenof (h_shape h) + Z.of_nat (length g)) = s_shape s').
  { rewrite Hhs. cbn [s_shape set_len lenof hd]. unfold s_shape, s_len. subst s'.
    cbn [s_rows s_tail with_rows]. rewrite app_length, Nat2Z.inj_add. reflexivity. }
  rewrite Hshape. eexists. eexists. split; [reflexivity|].
  unfold Rel. cbn [fst snd apply_effs fold_left apply_eff a_data a_descr a_readme a_meta
                   h_mode h_nt h_bo h_shape].
  repeat split; try assumption. rewrite Hme. reflexivity.
Qed.

(* ---------- the loop of RaggedArray.iterappend ---------- *)

Definition wf_ritem (g : srag) (it : ritem) : Prop :=
  match it with
  | RGood t rows => t = g_atom g -> Forall (fun r => Z.of_nat (length r) = s_rb (sv_of g)) rows
  | _ => True
  end.

Lemma rgood_prefix_wf : forall g its v good f,
  Forall (wf_ritem g) its -> rgood_prefix (g_atom g) (index_max (g_ity g)) v its = (good, f) ->
  Forall (fun r => Z.of_nat (length r) = s_rb (sv_of g)) (concat good) /\
  (v <= index_max (g_ity g) -> v + Z.of_nat (length (concat good)) <= index_max (g_ity g)).
Proof.
  intros g its; induction its as [|it its IH]; intros v good f Hwf H; cbn [rgood_prefix] in H.
  - inversion H; subst. cbn. split; [constructor|lia].
  - inversion Hwf as [|? ? Hit Hits]; subst.
    destruct it as [t rows| | |t rows k|t rows k]; try (inversion H; subst; cbn; split; [constructor|lia]).
    destruct (tails_eqb t (g_atom g) && (v + Z.of_nat (length rows) <=? index_max (g_ity g))) eqn:E;
      [|inversion H; subst; cbn; split; [constructor|lia]].
    apply andb_true_iff in E. destruct E as [E1 E2]. apply tails_eqb_spec in E1. apply Z.leb_le in E2.
    destruct (rgood_prefix (g_atom g) (index_max (g_ity g)) (v + Z.of_nat (length rows)) its) as [g1 f1] eqn:G1.
    inversion H; subst. destruct (IH _ _ _ Hits G1) as [W B]. cbn [concat]. split.
    + apply Forall_app. split; [apply Hit; reflexivity|exact W].
    + intros _. rewrite app_length, Nat2Z.inj_add. specialize (B E2). lia.
Qed.

Lemma rappend_loop_spec : forall its h vlen vinc iinc es vinc' iinc' failed good f,
  rappend_loop h its vlen vinc iinc = (es, vinc', iinc', failed) ->
  rgood_prefix (tl (h_shape (rh_v h))) (index_max (h_nt (rh_i h))) (vlen + vinc) its = (good, f) ->
  failed = f /\ vinc' = vinc + Z.of_nat (length (concat good)) /\
  iinc' = iinc + Z.of_nat (length good) /\ sub_only es /\
  all_appends (vproj es) /\ all_appends (iproj es) /\
  exists vj ij,
    payload (vproj es) = concat (concat good) ++ vj /\
    payload (iproj es) = concat (map (enc_row (h_nt (rh_i h)))
                                    (chain_from (vlen + vinc) (map (fun s => Z.of_nat (length s)) good))) ++ ij /\
    (failed = false -> vj = [] /\ ij = []).
Proof.
  intros its h vlen; induction its as [|it its IH]; intros vinc iinc es vinc' iinc' failed good f HL HG;
    cbn [rappend_loop rgood_prefix] in HL, HG.
  - inversion HL; inversion HG; subst. cbn. repeat split; try lia; try constructor.
    exists [], []. repeat split.
  - assert (Hstop: forall es0, es0 = [] \/ (exists x, es0 = [RV (EAppendData x)]) \/
                               (exists x y, es0 = [RV (EAppendData x); RI (EAppendData y)]) ->
              (es0, vinc, iinc, true) = (es, vinc', iinc', failed) -> ([], true) = (good, f) ->
              failed = f /\ vinc' = vinc + Z.of_nat (length (concat good)) /\
              iinc' = iinc + Z.of_nat (length good) /\ sub_only es /\
              all_appends (vproj es) /\ all_appends (iproj es) /\
              exists vj ij, payload (vproj es) = concat (concat good) ++ vj /\
                payload (iproj es) = concat (map (enc_row (h_nt (rh_i h)))
                   (chain_from (vlen + vinc) (map (fun s => Z.of_nat (length s)) good))) ++ ij /\
                (failed = false -> vj = [] /\ ij = [])).
    { intros es0 Hes A B. inversion A; inversion B; subst. cbn [concat length map chain_from app].
      split; [reflexivity|]. split; [lia|]. split; [lia|].
      destruct Hes as [->|[(x & ->)|(x & y & ->)]]; cbn.
      - repeat split; try constructor. exists [], []. repeat split; discriminate.
      - repeat split; repeat constructor. exists x, []. cbn. rewrite app_nil_r. repeat split; discriminate.
      - repeat split; repeat constructor. exists x, y. cbn. rewrite !app_nil_r. repeat split; discriminate. }
    destruct it as [t rows| | |t rows k|t rows k]; cbn [rappend_one] in HL.
    + destruct (tails_eqb t (tl (h_shape (rh_v h)))) eqn:E1; cbn [andb] in HG.
      2:{ apply (Hstop []); [left; reflexivity|exact HL|exact HG]. }
      destruct (vlen + vinc + Z.of_nat (length rows) <=? index_max (h_nt (rh_i h))) eqn:E2.
      2:{ apply (Hstop [RV (EAppendData (chunk_bytes rows))]); [right; left; eexists; reflexivity|exact HL|exact HG]. }
      destruct (rappend_loop h its vlen (vinc + Z.of_nat (length rows)) (iinc + 1)) as [[[es1 v1] i1] f1] eqn:L1.
      destruct (rgood_prefix (tl (h_shape (rh_v h))) (index_max (h_nt (rh_i h)))
                  (vlen + vinc + Z.of_nat (length rows)) its) as [g1 f1'] eqn:G1.
      inversion HL; inversion HG; subst; clear HL HG.
      rewrite <- Z.add_assoc in G1.
      destruct (IH _ _ _ _ _ _ _ _ L1 G1) as (Hf & Hv & Hi & Hso & Hav & Hai & vj & ij & Pv & Pi & Hj).
      split; [exact Hf|]. split; [cbn [concat]; rewrite app_length; lia|]. split; [cbn [length]; lia|].
      split; [repeat constructor; exact Hso|]. cbn [app vproj iproj].
      split; [constructor; [exact I|exact Hav]|]. split; [constructor; [exact I|exact Hai]|].
      exists vj, ij. split; [|split; [|exact Hj]].
      * unfold payload in *. cbn [map concat]. rewrite Pv. unfold chunk_bytes. rewrite concat_app, <- app_assoc. reflexivity.
      * unfold payload in *. cbn [map concat chain_from]. rewrite Pi, <- app_assoc.
        rewrite Z.add_assoc. reflexivity.
    + apply (Hstop []); [left; reflexivity|exact HL|exact HG].
    + apply (Hstop []); [left; reflexivity|exact HL|exact HG].
    + destruct (tails_eqb t (tl (h_shape (rh_v h)))).
      * apply (Hstop [RV (EAppendData (firstn (Z.to_nat k) (chunk_bytes rows)))]);
          [right; left; eexists; reflexivity|exact HL|exact HG].
      * apply (Hstop []); [left; reflexivity|exact HL|exact HG].
    + destruct (tails_eqb t (tl (h_shape (rh_v h)))).
      * destruct (vlen + vinc + Z.of_nat (length rows) <=? index_max (h_nt (rh_i h))).
        -- apply (Hstop [RV (EAppendData (chunk_bytes rows));
                         RI (EAppendData (firstn (Z.to_nat k) (enc_row (h_nt (rh_i h)) (vlen + vinc, vlen + vinc + Z.of_nat (length rows)))))]);
             [right; right; eexists; eexists; reflexivity|exact HL|exact HG].
        -- apply (Hstop [RV (EAppendData (chunk_bytes rows))]); [right; left; eexists; reflexivity|exact HL|exact HG].
      * apply (Hstop []); [left; reflexivity|exact HL|exact HG].
Qed.

(* ---------- the README facts computed from the handle and the index file ---------- *)

Lemma idx_bounds : forall g, g_nrows g <= index_max (g_ity g) ->
  Forall (fun r => 0 <= fst r <= index_max (g_ity g) /\ 0 <= snd r <= index_max (g_ity g)) (idx_of g).
Proof.
  intros g H. unfold idx_of. apply chain_from_bounds; [lia|apply lens_nonneg|].
  unfold g_lens. rewrite sum_lens_concat. exact H.
Qed.

Lemma rev_chain_head : forall l s,
  match rev (chain_from s l) with r :: _ => Some (snd r - fst r) | [] => None end
  = match rev l with x :: _ => Some x | [] => None end.
Proof.
  intros l. induction l as [|x l IH] using rev_ind; intros s; [reflexivity|].
  rewrite chain_from_app. cbn [chain_from]. rewrite !rev_app_distr. cbn [rev app fst snd]. f_equal. lia.
Qed.

Lemma readme_facts_rel : forall h d g,
  Rel (rh_v h, r_values d) (sv_of g) -> Rel (rh_i h, r_indices d) (si_of g) ->
  index_type (g_ity g) = true -> g_nrows g <= index_max (g_ity g) ->
  readme_facts h d = Some (facts_of g).
Proof.
  intros h d g HV HI Hty Hb.
  pose proof (index_rows_rel _ _ _ _ _ Hty HI (idx_bounds g Hb)) as Hrows.
  destruct HV as (_ & _ & _ & _ & (_ & Hvn & _ & Hvs) & _).
  destruct HI as (_ & _ & _ & _ & (_ & _ & _ & His) & _). cbn [fst snd] in *.
  unfold readme_facts. rewrite Hrows, His, Hvs, Hvn.
  cbn [s_shape si_of sv_of s_tail s_nt lenof hd tl]. unfold s_len. cbn [s_rows].
  assert (Hn: length (s_rows (si_of g)) = length (g_subs g)).
  { cbn [si_of s_rows]. unfold idx_of, g_lens. rewrite map_length, chain_from_length, map_length. reflexivity. }
  rewrite Hn. unfold facts_of. f_equal. f_equal.
  - unfold idx_of. rewrite chain_from_firstn, diffs_chain. reflexivity.
  - destruct (5 <? Z.of_nat (length (g_subs g))); [|reflexivity]. unfold idx_of. apply rev_chain_head.
Qed.

Lemma update_lens_rel : forall h d g' vinc iinc,
  (exists hv' ev, update_len (rh_v h) (r_values d) vinc = Ok (hv', ev) /\
                  Rel (hv', apply_effs ev (r_values d)) (sv_of g')) ->
  (exists hi' ei, update_len (rh_i h) (r_indices d) iinc = Ok (hi', ei) /\
                  Rel (hi', apply_effs ei (r_indices d)) (si_of g')) ->
  rd_atom (rh_info h) = g_atom g' -> rd_nt (rh_info h) = g_nt g' ->
  rh_mode h = g_mode g' -> r_meta d = g_meta g' ->
  index_type (g_ity g') = true -> g_nrows g' <= index_max (g_ity g') ->
  exists h' es, update_lens h d vinc iinc = Ok (h', es) /\ RRel (h', apply_reffs es d) g'.
Proof.
  intros h d g' vinc iinc (hv' & ev & Uv & RV') (hi' & ei & Ui & RI') Hat Hnt Hm Hme Hty Hb.
  unfold update_lens. rewrite Uv, Ui.
  set (info := mkRDescr (lenof (h_shape hi')) (prodZ (h_shape hv')) (rd_atom (rh_info h)) (rd_nt (rh_info h))).
  assert (Hinfo: info = info_of g').
  { pose proof RV' as (_ & _ & _ & _ & (_ & _ & _ & Hvs) & _).
    pose proof RI' as (_ & _ & _ & _ & (_ & _ & _ & His) & _). cbn [fst snd] in *.
    subst info. rewrite Hvs, His, Hat, Hnt. unfold info_of. f_equal.
    - cbn [s_shape si_of lenof hd]. unfold s_len. cbn [s_rows si_of]. unfold idx_of, g_lens.
      rewrite map_length, chain_from_length, map_length. reflexivity. }
  set (es0 := map RV ev ++ map RI ei ++ [RWriteDescr info]).
  set (h' := mkRHandle (rh_mode h) hv' hi' info).
  assert (Hv: r_values (apply_reffs es0 d) = apply_effs ev (r_values d)).
  { subst es0. rewrite r_values_apply, !vproj_app, vproj_RV, vproj_RI. cbn [vproj app]. rewrite app_nil_r. reflexivity. }
  assert (Hi: r_indices (apply_reffs es0 d) = apply_effs ei (r_indices d)).
  { subst es0. rewrite r_indices_apply, !iproj_app, iproj_RV, iproj_RI. cbn [iproj app]. rewrite app_nil_r. reflexivity. }
  assert (HF: readme_facts h' (apply_reffs es0 d) = Some (facts_of g')).
  { apply readme_facts_rel; try assumption; subst h'; cbn [rh_v rh_i]; [rewrite Hv|rewrite Hi]; assumption. }
  rewrite HF. eexists. eexists. split; [reflexivity|].
  rewrite apply_reffs_app. cbn [apply_reffs fold_left apply_reff].
  fold (apply_reffs es0 d).
  assert (Hso: sub_only (map RV ev ++ map RI ei)).
  { apply Forall_app; split; apply Forall_forall; intros e He; apply in_map_iff in He;
      destruct He as (x & <- & _); exact I. }
  assert (Hdm: r_descr (apply_reffs es0 d) = Val info /\ r_meta (apply_reffs es0 d) = r_meta d).
  { subst es0. rewrite app_assoc, apply_reffs_app. cbn [apply_reffs fold_left apply_reff r_descr r_meta].
    fold (apply_reffs (map RV ev ++ map RI ei) d).
    destruct (sub_only_top _ d Hso) as (_ & _ & C). rewrite C. split; reflexivity. }
  destruct Hdm as [Hd1 Hm1].
  unfold RRel. subst h'. cbn [fst snd r_values r_indices r_descr r_readme r_meta rh_v rh_i rh_info rh_mode].
  rewrite Hv, Hi, Hd1, Hm1, Hinfo.
  split; [exact RV'|]. split; [exact RI'|]. repeat split; assumption.
Qed.

(* ---------- RaggedArray.iterappend / append ---------- *)

Definition wf_rop (g : srag) (o : rop) : Prop :=
  match o with ROpIterAppend its => Forall (wf_ritem g) its | _ => True end.

Lemma g_same_subs : forall g, g_with_subs g (g_subs g ++ []) = g.
Proof. intros g. unfold g_with_subs. rewrite app_nil_r. destruct g; reflexivity. Qed.

Lemma riterappend_refines : forall h d g its r h' es,
  RRel (h, d) g -> Forall (wf_ritem g) its ->
  riterappend h d its = (r, h', es) ->
  is_ok r = fst (rspec_step g (ROpIterAppend its)) /\
  RRel (h', apply_reffs es d) (snd (rspec_step g (ROpIterAppend its))).
Proof.
  intros h d g its r h' es HRR Hwf Hex.
  pose proof HRR as (HV & HI & Hd & Hinfo & Hrm & Hme & Hmode & Hty & Hb). cbn [fst snd] in *.
  cbn [rspec_step]. unfold riterappend in Hex. rewrite Hmode in Hex.
  destruct (g_mode g) eqn:Hm.
  { inversion Hex; subst. cbn. split; [reflexivity|exact HRR]. }
  pose proof HV as (Hvdat & Hvds & Hvrm & Hvme & (Hvm & Hvn & Hvb & Hvs) & Hvrows & Hvrb & Hvtl).
  pose proof HI as (Hidat & Hids & Hirm & Hime & (Him & Hin & Hib & His) & Hirows & Hirb & Hitl).
  cbn [fst snd] in *.
  assert (Hvlen: lenof (h_shape (rh_v h)) = g_nrows g) by (rewrite Hvs; reflexivity).
  assert (Hvtail: tl (h_shape (rh_v h)) = g_atom g) by (rewrite Hvs; reflexivity).
  assert (Hity: h_nt (rh_i h) = g_ity g) by (rewrite Hin; reflexivity).
  destruct (rgood_prefix (g_atom g) (index_max (g_ity g)) (g_nrows g) its) as [good f] eqn:HG.
  cbn [fst snd].
  destruct (rappend_loop h its (lenof (h_shape (rh_v h))) 0 0) as [[[es0 vinc] iinc] failed] eqn:HL.
  assert (HG': rgood_prefix (tl (h_shape (rh_v h))) (index_max (h_nt (rh_i h)))
                 (lenof (h_shape (rh_v h)) + 0) its = (good, f)).
  { rewrite Hvtail, Hity, Hvlen, Z.add_0_r. exact HG. }
  destruct (rappend_loop_spec _ _ _ _ _ _ _ _ _ _ _ HL HG')
    as (Hf & Hvinc & Hiinc & Hso & Hav & Hai & vj & ij & Pv & Pi & Hj).
  subst failed. rewrite Z.add_0_l in Hvinc, Hiinc. rewrite Hvlen, Z.add_0_r, Hity in Pi.
  destruct (rgood_prefix_wf g its _ _ _ Hwf HG) as [Hgw Hgb]. specialize (Hgb Hb).
  set (g' := g_with_subs g (g_subs g ++ good)).
  set (tr := if f
             then [RV (ETruncData ((lenof (h_shape (rh_v h)) + vinc) * rowbytes (h_nt (rh_v h)) (h_shape (rh_v h))));
                   RI (ETruncData ((lenof (h_shape (rh_i h)) + iinc) * rowbytes (h_nt (rh_i h)) (h_shape (rh_i h))))]
             else []) in *.
  set (d2 := apply_reffs (es0 ++ tr) d) in *.
  assert (Htrso: sub_only (es0 ++ tr)).
  { apply Forall_app. split; [exact Hso|]. subst tr. destruct f; repeat constructor. }
  (* values *)
  assert (UV: exists hv' ev, update_len (rh_v h) (r_values d2) vinc = Ok (hv', ev) /\
                             Rel (hv', apply_effs ev (r_values d2)) (sv_of g')).
  { pose proof (sub_grow (rh_v h) (r_values d) (sv_of g) (concat good) vj f HV Hgw
                  (fun E => proj1 (Hj E))) as SG.
    cbv zeta in SG. destruct SG as (hv' & ev & U & RR). exists hv', ev.
    assert (Hd2v: r_values d2 =
              apply_effs (if f then [ETruncData ((lenof (h_shape (rh_v h)) + Z.of_nat (length (concat good))) *
                                                 rowbytes (h_nt (rh_v h)) (h_shape (rh_v h)))] else [])
                (mkDir (Some (concat (s_rows (sv_of g)) ++ concat (concat good) ++ vj))
                       (a_descr (r_values d)) (a_readme (r_values d)) (a_meta (r_values d)))).
    { subst d2. rewrite r_values_apply, vproj_app, apply_effs_app, (apply_appends _ _ Hav), Pv, Hvdat.
      cbn [option_map]. subst tr. rewrite Hvinc. destruct f; reflexivity. }
    rewrite Hd2v, Hvinc. split; [exact U|].
    replace (sv_of g') with (with_rows (sv_of g) (s_rows (sv_of g) ++ concat good)); [exact RR|].
    subst g'. unfold sv_of, with_rows, g_with_subs. cbn. rewrite concat_app. reflexivity. }
  (* indices *)
  set (newidx := chain_from (g_nrows g) (map (fun s => Z.of_nat (length s)) good)) in *.
  assert (Hiw: Forall (fun r => Z.of_nat (length r) = s_rb (si_of g)) (map (enc_row (g_ity g)) newidx)).
  { apply Forall_forall. intros r0 Hr. apply in_map_iff in Hr. destruct Hr as (x & <- & _).
    rewrite enc_row_length. unfold s_rb. cbn. destruct (itemsize (g_ity g)); reflexivity. }
  assert (UI: exists hi' ei, update_len (rh_i h) (r_indices d2) iinc = Ok (hi', ei) /\
                             Rel (hi', apply_effs ei (r_indices d2)) (si_of g')).
  { pose proof (sub_grow (rh_i h) (r_indices d) (si_of g) (map (enc_row (g_ity g)) newidx) ij f HI Hiw
                  (fun E => proj2 (Hj E))) as SG.
    cbv zeta in SG. destruct SG as (hi' & ei & U & RR). exists hi', ei.
    assert (Hlen: Z.of_nat (length (map (enc_row (g_ity g)) newidx)) = iinc).
    { subst newidx. rewrite map_length, chain_from_length, map_length. lia. }
    assert (Hd2i: r_indices d2 =
              apply_effs (if f then [ETruncData ((lenof (h_shape (rh_i h)) + iinc) *
                                                 rowbytes (h_nt (rh_i h)) (h_shape (rh_i h)))] else [])
                (mkDir (Some (concat (s_rows (si_of g)) ++ concat (map (enc_row (g_ity g)) newidx) ++ ij))
                       (a_descr (r_indices d)) (a_readme (r_indices d)) (a_meta (r_indices d)))).
    { subst d2. rewrite r_indices_apply, iproj_app, apply_effs_app, (apply_appends _ _ Hai), Pi, Hidat.
      cbn [option_map]. subst tr. destruct f; reflexivity. }
    rewrite Hd2i. rewrite Hlen in U, RR. split; [exact U|].
    replace (si_of g') with (with_rows (si_of g) (s_rows (si_of g) ++ map (enc_row (g_ity g)) newidx)); [exact RR|].
    subst g' newidx. unfold si_of, with_rows, g_with_subs, idx_of, g_lens. cbn.
    rewrite map_app, chain_from_app, map_app. rewrite sum_lens_concat. reflexivity. }
  destruct (sub_only_top _ d Htrso) as (T1 & T2 & T3). fold d2 in T1, T2, T3.
  assert (UL: exists h2 es2, update_lens h d2 vinc iinc = Ok (h2, es2) /\ RRel (h2, apply_reffs es2 d2) g').
  { apply update_lens_rel; try assumption.
    - rewrite Hinfo. reflexivity.
    - rewrite Hinfo. reflexivity.
    - rewrite Hmode. subst g'. cbn. symmetry. exact Hm.
    - rewrite T3. exact Hme.
    - subst g'. unfold g_nrows. cbn [g_subs g_with_subs g_ity]. rewrite concat_app, app_length, Nat2Z.inj_add.
      unfold g_nrows in Hgb. exact Hgb. }
  destruct UL as (h2 & es2 & UL & RR2). rewrite UL in Hex. inversion Hex; subst r h' es; clear Hex.
  split; [destruct f; reflexivity|].
  rewrite app_assoc, apply_reffs_app. exact RR2.
Qed.

(* ---------- truncate_raggedarray ---------- *)

Lemma firstn_map_ : forall A B (f : A -> B) k l, firstn k (map f l) = map f (firstn k l).
Proof. induction k as [|k IH]; intros l; [reflexivity|]. destruct l; [reflexivity|]. cbn. rewrite IH. reflexivity. Qed.

Lemma concat_firstn_prefix : forall (l : list (list (list Z))) k,
  firstn (length (concat (firstn k l))) (concat l) = concat (firstn k l).
Proof.
  intros l k. rewrite <- (firstn_skipn k l) at 2. rewrite concat_app.
  apply firstn_app_exact. reflexivity.
Qed.

Lemma concat_firstn_same : forall (l : list (list (list Z))) k,
  (length (concat l) <= length (concat (firstn k l)))%nat -> concat (firstn k l) = concat l.
Proof.
  intros l k H. rewrite <- (firstn_skipn k l) at 2. rewrite concat_app.
  rewrite <- (firstn_skipn k l), concat_app, app_length in H at 1.
  destruct (concat (skipn k l)); [rewrite app_nil_r; reflexivity|cbn in H; lia].
Qed.

Lemma slice_len_id : forall k n, 0 <= k <= n -> slice_len k n = k.
Proof. intros k n H. unfold slice_len. destruct (k <? 0) eqn:E; [apply Z.ltb_lt in E; lia|lia]. Qed.

Lemma rtruncate_refines : forall h d g idx r h' es,
  RRel (h, d) g -> rtruncate h d idx = (r, h', es) ->
  is_ok r = fst (rspec_step g (ROpTruncate idx)) /\
  RRel (h', apply_reffs es d) (snd (rspec_step g (ROpTruncate idx))).
Proof.
  intros h d g idx r h' es HRR Hex.
  pose proof HRR as (HV & HI & Hd & Hinfo & Hrm & Hme & Hmode & Hty & Hb). cbn [fst snd] in *.
  cbn [rspec_step]. unfold rtruncate in Hex.
  destruct idx as [i|]; [|inversion Hex; subst; cbn; split; [reflexivity|exact HRR]].
  pose proof HV as (Hvdat & Hvds & Hvrm & Hvme & (Hvm & Hvn & Hvb & Hvs) & Hvrows & Hvrb & Hvtl).
  pose proof HI as (Hidat & Hids & Hirm & Hime & (Him & Hin & Hib & His) & Hirows & Hirb & Hitl).
  cbn [fst snd] in *.
  set (n := Z.of_nat (length (g_subs g))) in *.
  assert (Hilen: s_len (si_of g) = n).
  { unfold s_len. cbn [s_rows si_of]. unfold idx_of, g_lens.
    rewrite map_length, chain_from_length, map_length. reflexivity. }
  rewrite Hids in Hex. cbn [d_shape descr_of s_shape lenof hd] in Hex. rewrite Hilen, Hmode in Hex.
  destruct (g_mode g) eqn:Hm; [inversion Hex; subst; cbn; split; [reflexivity|exact HRR]|].
  assert (Hcur: lenof (h_shape (rh_i h)) = n) by (rewrite His; cbn [s_shape lenof hd]; exact Hilen).
  rewrite Hcur in Hex.
  destruct ((0 <=? slice_len i n) && (slice_len i n <? n)) eqn:E;
    [|inversion Hex; subst; cbn; split; [reflexivity|exact HRR]].
  apply andb_true_iff in E. destruct E as [E1 E2]. apply Z.leb_le in E1. apply Z.ltb_lt in E2.
  set (k := slice_len i n) in *.
  set (g' := g_with_subs g (firstn (Z.to_nat k) (g_subs g))).
  (* the index array *)
  destruct (truncate (rh_i h) (r_indices d) (Some k)) as [[ri hi'] ei] eqn:TI.
  destruct (truncate_refines _ _ _ _ _ _ _ HI TI) as [Hoki HRI]. cbn [spec_step] in Hoki, HRI.
  cbn [s_mode si_of] in Hoki, HRI. rewrite Hm, Hilen, (slice_len_id k n ltac:(lia)) in Hoki, HRI.
  assert (Ek: (0 <=? k) && (k <? n) = true) by (apply andb_true_iff; split; [apply Z.leb_le|apply Z.ltb_lt]; lia).
  rewrite Ek in Hoki, HRI. cbn [fst snd] in Hoki, HRI.
  destruct ri as [[]|e]; [|discriminate]. clear Hoki.
  assert (Hsi': with_rows (si_of g) (firstn (Z.to_nat k) (s_rows (si_of g))) = si_of g').
  { unfold si_of, with_rows, idx_of, g_lens. subst g'. cbn.
    rewrite firstn_map_, chain_from_firstn, firstn_map_. reflexivity. }
  rewrite Hsi' in HRI.
  set (d1 := apply_reffs (lift_i ei) d) in *.
  assert (Hd1i: r_indices d1 = apply_effs ei (r_indices d)).
  { subst d1. unfold lift_i. rewrite r_indices_apply, iproj_RI. reflexivity. }
  assert (Hd1v: r_values d1 = r_values d).
  { subst d1. unfold lift_i. rewrite r_values_apply, vproj_RI. reflexivity. }
  assert (Hnr': g_nrows g' <= g_nrows g).
  { unfold g_nrows. subst g'. cbn [g_subs g_with_subs].
    rewrite <- (firstn_skipn (Z.to_nat k) (g_subs g)) at 2. rewrite concat_app, app_length. lia. }
  assert (Hb': g_nrows g' <= index_max (g_ity g')) by (subst g'; cbn [g_ity g_with_subs]; unfold g_nrows in *; cbn [g_subs g_with_subs] in *; lia).
  assert (Hvi: (if k =? 0 then 0
                else match index_rows (r_indices d1) with
                     | Some rows => match rev rows with r0 :: _ => snd r0 | [] => 0 end
                     | None => 0 end) = g_nrows g').
  { destruct (k =? 0) eqn:Ek0.
    - apply Z.eqb_eq in Ek0. unfold g_nrows. subst g'. rewrite Ek0. reflexivity.
    - rewrite Hd1i. rewrite (index_rows_rel _ _ _ _ _ Hty HRI (idx_bounds g' Hb')).
      unfold idx_of. rewrite chain_from_last.
      + unfold g_lens. rewrite sum_lens_concat. reflexivity.
      + unfold g_lens. subst g'. cbn [g_subs g_with_subs]. apply Z.eqb_neq in Ek0.
        destruct (g_subs g) as [|s0 l0] eqn:Es; [subst n; cbn in E2; lia|].
        destruct (Z.to_nat k) eqn:Ekn; [lia|]. cbn. discriminate. }
  rewrite Hvi in Hex.
  assert (Hvcur: lenof (h_shape (rh_v h)) = g_nrows g) by (rewrite Hvs; reflexivity).
  rewrite Hvcur in Hex.
  (* the values array: truncated to g_nrows g' rows, or left alone *)
  assert (HVal: exists hv' ev,
            (if g_nrows g' <? g_nrows g then truncate (rh_v h) (r_values d1) (Some (g_nrows g'))
             else (Ok tt, rh_v h, [])) = (Ok tt, hv', ev) /\
            Rel (hv', apply_effs ev (r_values d)) (sv_of g')).
  { destruct (g_nrows g' <? g_nrows g) eqn:Elt.
    - apply Z.ltb_lt in Elt. rewrite Hd1v.
      destruct (truncate (rh_v h) (r_values d) (Some (g_nrows g'))) as [[rv hv'] ev] eqn:TV.
      destruct (truncate_refines _ _ _ _ _ _ _ HV TV) as [Hokv HRV]. cbn [spec_step] in Hokv, HRV.
      cbn [s_mode sv_of] in Hokv, HRV. rewrite Hm in Hokv, HRV.
      assert (Hsl: s_len (sv_of g) = g_nrows g) by reflexivity.
      assert (0 <= g_nrows g') by (unfold g_nrows; lia).
      rewrite Hsl, (slice_len_id (g_nrows g') (g_nrows g) ltac:(lia)) in Hokv, HRV.
      assert (Ev: (0 <=? g_nrows g') && (g_nrows g' <? g_nrows g) = true)
        by (apply andb_true_iff; split; [apply Z.leb_le|apply Z.ltb_lt]; lia).
      rewrite Ev in Hokv, HRV. cbn [fst snd] in Hokv, HRV. destruct rv as [[]|e]; [|discriminate].
      exists hv', ev. split; [reflexivity|].
      replace (sv_of g') with (with_rows (sv_of g) (firstn (Z.to_nat (g_nrows g')) (s_rows (sv_of g)))); [exact HRV|].
      unfold sv_of, with_rows. subst g'. cbn. unfold g_nrows. cbn [g_subs g_with_subs].
      rewrite Nat2Z.id, concat_firstn_prefix. reflexivity.
    - apply Z.ltb_ge in Elt. exists (rh_v h), []. split; [reflexivity|]. cbn [apply_effs fold_left].
      replace (sv_of g') with (sv_of g); [exact HV|].
      unfold sv_of. subst g'. cbn. f_equal. symmetry. apply concat_firstn_same.
      unfold g_nrows in Elt. cbn [g_subs g_with_subs] in Elt. lia. }
  destruct HVal as (hv' & ev & HT & HRV). rewrite HT in Hex.
  set (h1 := mkRHandle RW hv' hi' (rh_info h)) in *.
  set (d2 := apply_reffs (lift_v ev) d1) in *.
  assert (Hd2v: r_values d2 = apply_effs ev (r_values d)).
  { subst d2. unfold lift_v. rewrite r_values_apply, vproj_RV, Hd1v. reflexivity. }
  assert (Hd2i: r_indices d2 = apply_effs ei (r_indices d)).
  { subst d2. unfold lift_v. rewrite r_indices_apply, iproj_RV, Hd1i. reflexivity. }
  assert (HF: readme_facts h1 d2 = Some (facts_of g')).
  { apply readme_facts_rel; subst h1; cbn [rh_v rh_i]; try assumption.
    - rewrite Hd2v. exact HRV.
    - rewrite Hd2i. exact HRI. }
  rewrite HF in Hex. inversion Hex; subst r h' es; clear Hex.
  cbn [fst snd is_ok]. split; [reflexivity|].
  assert (Hso: sub_only (lift_i ei ++ lift_v ev)).
  { apply Forall_app; split; apply Forall_forall; intros e He; apply in_map_iff in He;
      destruct He as (x & <- & _); exact I. }
  destruct (sub_only_top _ d Hso) as (_ & _ & C).
  assert (Hd2eq: apply_reffs (lift_i ei ++ lift_v ev) d = d2).
  { subst d2 d1. rewrite apply_reffs_app. reflexivity. }
  rewrite app_assoc, apply_reffs_app, Hd2eq. rewrite Hd2eq in C.
  cbn [apply_reffs fold_left apply_reff].
  unfold RRel. cbn [fst snd r_values r_indices r_descr r_readme r_meta rh_v rh_i rh_info rh_mode].
  rewrite Hd2v, Hd2i, C.
  assert (Hinfo': mkRDescr (lenof (h_shape hi')) (prodZ (h_shape hv')) (rd_atom (rh_info h)) (rd_nt (rh_info h))
                  = info_of g').
  { pose proof HRV as (_ & _ & _ & _ & (_ & _ & _ & Hvs') & _).
    pose proof HRI as (_ & _ & _ & _ & (_ & _ & _ & His') & _). cbn [fst snd] in *.
    rewrite Hvs', His', Hinfo. unfold info_of. f_equal.
    cbn [s_shape si_of lenof hd]. unfold s_len. cbn [s_rows si_of]. unfold idx_of, g_lens.
    rewrite map_length, chain_from_length, map_length. reflexivity. }
  rewrite Hinfo'.
  split; [exact HRV|]. split; [exact HRI|]. repeat split; try assumption.
  subst g'. cbn. symmetry. exact Hm.
Qed.

(* ---------- mode changes, reopening, metadata ---------- *)

Lemma Rel_mode : forall h d s m, Rel (h, d) s ->
  Rel (mkHandle m (h_nt h) (h_bo h) (h_shape h), d) (with_mode s m).
Proof.
  intros h d s m (A1 & A2 & A3 & A4 & (A5 & A6 & A7 & A8) & A9 & A10 & A11). cbn [fst snd] in *.
  unfold Rel. cbn [fst snd h_mode h_nt h_bo h_shape]. repeat split; assumption.
Qed.

Lemma sv_mode : forall g m, sv_of (g_with_mode g m) = with_mode (sv_of g) m.
Proof. reflexivity. Qed.
Lemma si_mode : forall g m, si_of (g_with_mode g m) = with_mode (si_of g) m.
Proof. reflexivity. Qed.

Lemma info_of_handles : forall hv hi vd idr g,
  Rel (hv, vd) (sv_of g) -> Rel (hi, idr) (si_of g) ->
  mkRDescr (lenof (h_shape hi)) (prodZ (h_shape hv)) (tl (h_shape hv)) (h_nt hv) = info_of g.
Proof.
  intros hv hi vd idr g (_ & _ & _ & _ & (_ & Hvn & _ & Hvs) & _) (_ & _ & _ & _ & (_ & _ & _ & His) & _).
  cbn [fst snd] in *. rewrite Hvs, His, Hvn. unfold info_of. f_equal.
  cbn [s_shape si_of lenof hd]. unfold s_len. cbn [s_rows si_of]. unfold idx_of, g_lens.
  rewrite map_length, chain_from_length, map_length. reflexivity.
Qed.

Theorem rstep_refines : forall w g o,
  RRel w g -> wf_rop g o ->
  is_ok (fst (rstep w o)) = fst (rspec_step g o) /\ RRel (snd (rstep w o)) (snd (rspec_step g o)).
Proof.
  intros [h d] g o HRR Hwf. unfold rstep.
  destruct (rexec (h, d) o) as [[r h'] es] eqn:Hex. cbn [fst snd].
  pose proof HRR as (HV & HI & Hd & Hinfo & Hrm & Hme & Hmode & Hty & Hb). cbn [fst snd] in *.
  destruct o as [its|idx|m|m| | |]; cbn [rexec] in Hex.
  - eapply riterappend_refines; eassumption.
  - eapply rtruncate_refines; eassumption.
  - inversion Hex; subst r h' es. cbn [rspec_step fst snd is_ok apply_reffs fold_left]. split; [reflexivity|].
    unfold RRel. cbn [fst snd rh_v rh_i rh_info rh_mode]. rewrite sv_mode, si_mode.
    split; [apply Rel_mode; exact HV|]. split; [apply Rel_mode; exact HI|]. repeat split; assumption.
  - unfold ropen in Hex. rewrite (open_rel _ _ _ m HV), (open_rel _ _ _ m HI) in Hex.
    inversion Hex; subst r h' es. cbn [rspec_step fst snd is_ok apply_reffs fold_left]. split; [reflexivity|].
    pose proof (Rel_mode _ _ _ m HV) as HV'. pose proof (Rel_mode _ _ _ m HI) as HI'.
    destruct HV as (_ & _ & _ & _ & (_ & Hvn & Hvb & Hvs) & _).
    destruct HI as (_ & _ & _ & _ & (_ & Hin & Hib & His) & _). cbn [fst snd] in *.
    rewrite Hvn, Hvb, Hvs in HV'. rewrite Hin, Hib, His in HI'.
    unfold RRel. cbn [fst snd rh_v rh_i rh_info rh_mode h_shape h_nt]. rewrite sv_mode, si_mode.
    split; [exact HV'|]. split; [exact HI'|]. repeat split; try assumption.
    rewrite <- sv_mode, <- si_mode in *.
    exact (info_of_handles _ _ _ _ (g_with_mode g m) HV' HI').
  - rewrite Hmode in Hex. cbn [rspec_step].
    destruct (g_mode g) eqn:Hm; inversion Hex; subst r h' es; cbn; (split; [reflexivity|]); [exact HRR|].
    unfold RRel. cbn [fst snd apply_reffs fold_left apply_reff r_values r_indices r_descr r_readme r_meta].
    split; [exact HV|]. split; [exact HI|]. repeat split; try assumption.
    cbn. rewrite Hmode. symmetry; exact Hm.
  - rewrite Hme in Hex. cbn [rspec_step].
    destruct (g_meta g) eqn:Hmt; [|inversion Hex; subst; cbn; split; [reflexivity|exact HRR]].
    rewrite Hmode in Hex.
    destruct (g_mode g) eqn:Hm; inversion Hex; subst r h' es; cbn; (split; [reflexivity|]); [exact HRR|].
    unfold RRel. cbn [fst snd apply_reffs fold_left apply_reff r_values r_indices r_descr r_readme r_meta].
    split; [exact HV|]. split; [exact HI|]. repeat split; try assumption.
    cbn. rewrite Hmode. symmetry; exact Hm.
  - rewrite Hmode, Hme in Hex. cbn [rspec_step].
    destruct (g_mode g) eqn:Hm; [inversion Hex; subst; cbn; split; [reflexivity|exact HRR]|].
    destruct (g_meta g) eqn:Hmt; inversion Hex; subst r h' es; cbn; (split; [reflexivity|]); [|exact HRR].
    unfold RRel. cbn [fst snd apply_reffs fold_left apply_reff r_values r_indices r_descr r_readme r_meta].
    split; [exact HV|]. split; [exact HI|]. repeat split; try assumption.
    cbn. rewrite Hmode. symmetry; exact Hm.
Qed.

(* ---------- histories ---------- *)

Fixpoint wf_rops (g : srag) (os : list rop) : Prop :=
  match os with [] => True | o :: os' => wf_rop g o /\ wf_rops (snd (rspec_step g o)) os' end.
Fixpoint rrun_outs (w : rworld) (os : list rop) : list bool :=
  match os with [] => [] | o :: os' => is_ok (fst (rstep w o)) :: rrun_outs (snd (rstep w o)) os' end.
Fixpoint rspec_outs (g : srag) (os : list rop) : list bool :=
  match os with [] => [] | o :: os' => fst (rspec_step g o) :: rspec_outs (snd (rspec_step g o)) os' end.

Theorem rrun_refines : forall os w g,
  RRel w g -> wf_rops g os ->
  rrun_outs w os = rspec_outs g os /\ RRel (rrun w os) (rspec_run g os).
Proof.
  induction os as [|o os IH]; intros w g HR Hwf; cbn [rrun_outs rspec_outs rrun rspec_run fold_left].
  - split; [reflexivity|exact HR].
  - destruct Hwf as [Hwo Hwos]. destruct (rstep_refines w g o HR Hwo) as [Hok HR'].
    destruct (IH _ _ HR' Hwos) as [Houts HRf]. split; [rewrite Hok, Houts; reflexivity|exact HRf].
Qed.

(* a fresh handle is related to the same model state as the live one *)
Theorem rfresh_agrees : forall w g m, RRel w g ->
  exists h', ropen (snd w) m = Ok h' /\ RRel (h', snd w) (g_with_mode g m).
Proof.
  intros [h d] g m HRR. pose proof (rstep_refines (h, d) g (ROpReopen m) HRR I) as [_ HR'].
  pose proof HRR as (HV & HI & _). cbn [fst snd] in *.
  unfold rstep in HR'. cbn [rexec] in HR'. unfold ropen in *.
  rewrite (open_rel _ _ _ m HV), (open_rel _ _ _ m HI) in *. cbn [fst snd apply_reffs fold_left rspec_step] in HR'.
  eexists. split; [reflexivity|exact HR'].
Qed.
