(* RaggedBase.v -- integer codec of the index file, chains of (start,end) rows,
   reading the index array back. *)
From Coq Require Import ZArith List Bool Lia.
From Darr Require Import Base ArrayModel RaggedModel Spec Proofs.ListLemmas Proofs.ArrayRefine.
Import ListNotations.
Open Scope Z_scope.

Lemma enc_le_length : forall n v, length (enc_le n v) = n.
Proof. induction n as [|n IH]; intros v; cbn; [reflexivity|]. rewrite IH. reflexivity. Qed.

Lemma dec_enc_le : forall n v, 0 <= v < 256 ^ Z.of_nat n -> dec_le (enc_le n v) = v.
Proof.
  induction n as [|n IH]; intros v Hv; cbn [enc_le dec_le].
  - cbn in Hv. lia.
  - rewrite Nat2Z.inj_succ, Z.pow_succ_r in Hv by lia.
    rewrite IH.
    + pose proof (Z.div_mod v 256 ltac:(lia)). lia.
    + split; [apply Z.div_pos; lia|]. apply Z.div_lt_upper_bound; lia.
Qed.

Definition index_type (t : numtype) : bool :=
  match t with Int8 | UInt8 | Int16 | UInt16 | Int32 | UInt32 | Int64 => true | _ => false end.

Lemma index_max_bound : forall t, index_type t = true ->
  0 <= index_max t /\ index_max t < 256 ^ Z.of_nat (Z.to_nat (itemsize t)) /\ 0 < itemsize t.
Proof. intros t H. destruct t; try discriminate; vm_compute; repeat split; discriminate. Qed.

Lemma dec_enc_row : forall t a b, index_type t = true ->
  0 <= a <= index_max t -> 0 <= b <= index_max t -> dec_row t (enc_row t (a, b)) = (a, b).
Proof.
  intros t a b Ht Ha Hb. destruct (index_max_bound t Ht) as (H0 & H1 & H2).
  unfold dec_row, enc_row. cbn [fst snd].
  rewrite firstn_app, enc_le_length, Nat.sub_diag, firstn_all2 by (rewrite enc_le_length; lia).
  cbn [firstn]. rewrite app_nil_r.
  rewrite skipn_app, enc_le_length, Nat.sub_diag, skipn_all2 by (rewrite enc_le_length; lia).
  cbn [skipn app]. rewrite !dec_enc_le by lia. reflexivity.
Qed.

Lemma enc_row_length : forall t r, Z.of_nat (length (enc_row t r)) = 2 * itemsize t.
Proof.
  intros t r. unfold enc_row. rewrite app_length, !enc_le_length.
  assert (0 <= itemsize t) by (destruct t; cbn; lia). lia.
Qed.

Lemma cut_concat : forall k (rows : list (list Z)),
  Forall (fun r => length r = k) rows -> cut (length rows) k (concat rows) = rows.
Proof.
  intros k rows; induction rows as [|r rows IH]; intros H; [reflexivity|].
  inversion H as [|? ? Hr Hrows]; subst. cbn [length cut concat].
  rewrite firstn_app, Nat.sub_diag, firstn_all. cbn [firstn]. rewrite app_nil_r.
  rewrite skipn_app, Nat.sub_diag, skipn_all. cbn [skipn app]. rewrite (IH Hrows). reflexivity.
Qed.

(* ---------- chains ---------- *)

Definition sumZ (l : list Z) : Z := fold_right Z.add 0 l.

Lemma chain_from_app : forall l1 l2 s,
  chain_from s (l1 ++ l2) = chain_from s l1 ++ chain_from (s + sumZ l1) l2.
Proof.
  induction l1 as [|x l1 IH]; intros l2 s; cbn [chain_from app sumZ fold_right].
  - rewrite Z.add_0_r. reflexivity.
  - rewrite IH. f_equal. f_equal. f_equal. unfold sumZ. lia.
Qed.

Lemma chain_from_length : forall l s, length (chain_from s l) = length l.
Proof. induction l as [|x l IH]; intros s; cbn; [reflexivity|]. rewrite IH. reflexivity. Qed.

Lemma chain_from_firstn : forall k l s, firstn k (chain_from s l) = chain_from s (firstn k l).
Proof.
  induction k as [|k IH]; intros l s; [reflexivity|]. destruct l as [|x l]; [reflexivity|].
  cbn [chain_from firstn]. rewrite IH. reflexivity.
Qed.

Lemma chain_from_last : forall l s, l <> [] ->
  match rev (chain_from s l) with r :: _ => snd r | [] => 0 end = s + sumZ l.
Proof.
  intros l. induction l as [|x l IH] using rev_ind; intros s Hne; [contradiction|].
  rewrite chain_from_app. cbn [chain_from]. rewrite rev_app_distr. cbn [rev app snd].
  unfold sumZ. rewrite fold_right_app. cbn [fold_right].
  clear. assert (H: forall a, fold_right Z.add a l = fold_right Z.add 0 l + a).
  { induction l as [|y l IH]; intros a; cbn [fold_right]; [lia|]. rewrite IH. lia. }
  rewrite (H (x + 0)). lia.
Qed.

Lemma chain_from_bounds : forall l s m, 0 <= s -> Forall (fun x => 0 <= x) l -> s + sumZ l <= m ->
  Forall (fun r => 0 <= fst r <= m /\ 0 <= snd r <= m) (chain_from s l).
Proof.
  induction l as [|x l IH]; intros s m Hs Hl Hm; cbn [chain_from]; [constructor|].
  inversion Hl as [|? ? Hx Hl']; subst. cbn [sumZ fold_right] in Hm. fold (sumZ l) in Hm.
  assert (0 <= sumZ l).
  { clear -Hl'. induction Hl' as [|y l Hy Hl IH]; cbn; [lia|]. unfold sumZ in IH. lia. }
  constructor; [cbn; lia|]. apply IH; try assumption; lia.
Qed.

Lemma diffs_chain : forall l s, diffs (chain_from s l) = l.
Proof.
  unfold diffs. induction l as [|x l IH]; intros s; cbn [chain_from map]; [reflexivity|].
  rewrite IH. cbn. f_equal. lia.
Qed.

Lemma sum_lens_concat : forall (subs : list (list (list Z))),
  sumZ (map (fun s => Z.of_nat (length s)) subs) = Z.of_nat (length (concat subs)).
Proof.
  induction subs as [|s subs IH]; cbn; [reflexivity|]. rewrite app_length, Nat2Z.inj_add.
  unfold sumZ in IH. rewrite IH. reflexivity.
Qed.

Lemma lens_nonneg : forall (subs : list (list (list Z))),
  Forall (fun x => 0 <= x) (map (fun s => Z.of_nat (length s)) subs).
Proof. induction subs; cbn; constructor; [lia|assumption]. Qed.

(* ---------- reading the index array back ---------- *)

Lemma index_rows_rel : forall hi idir ity idx m,
  index_type ity = true ->
  Rel (hi, idir) (mkSarr ity Little OrdC [2] (map (enc_row ity) idx) m false) ->
  Forall (fun r => 0 <= fst r <= index_max ity /\ 0 <= snd r <= index_max ity) idx ->
  index_rows idir = Some idx.
Proof.
  intros hi idir ity idx m Hty HR Hb.
  pose proof (open_rel _ _ _ R HR) as Ho. destruct HR as (Hdat & _). cbn [fst snd s_rows] in *.
  unfold index_rows. rewrite Ho, Hdat. cbn [h_nt h_shape s_nt s_shape s_rows s_tail lenof hd].
  unfold s_len. cbn [s_rows]. rewrite map_length, Nat2Z.id.
  rewrite <- (map_length (enc_row ity) idx) at 1.
  rewrite cut_concat.
  - rewrite map_map. f_equal. rewrite <- (map_id idx) at 2. apply map_ext_in. intros [a b] Hin.
    rewrite Forall_forall in Hb. specialize (Hb _ Hin). cbn in Hb. apply dec_enc_row; tauto.
  - apply Forall_forall. intros r Hr. apply in_map_iff in Hr. destruct Hr as (x & <- & _).
    pose proof (enc_row_length ity x). lia.
Qed.
