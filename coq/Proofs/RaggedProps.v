(* RaggedProps.v -- creation, structural well-formedness, reading subarrays back,
   failed appends and read-only mode for the RaggedArray model. *)
From Coq Require Import ZArith List Bool Lia.
From Darr Require Import Base ArrayModel Codec RaggedModel Spec Proofs.ListLemmas Proofs.ArrayRefine
     Proofs.Codec Proofs.RaggedBase Proofs.RaggedRefine.
Import ListNotations.
Open Scope Z_scope.

Definition wf_srag (g : srag) : Prop :=
  Forall (fun x => 0 < x) (g_atom g) /\
  Forall (fun r => Z.of_nat (length r) = prodZ (g_atom g) * itemsize (g_nt g)) (concat (g_subs g)) /\
  index_type (g_ity g) = true /\ g_nrows g <= index_max (g_ity g).

Lemma prodZ_pos : forall l, Forall (fun x => 0 < x) l -> 0 < prodZ l.
Proof. intros l H. induction H as [|x l Hx Hl IH]; cbn; [lia|]. unfold prodZ in IH. nia. Qed.

(* ---------- creation establishes the relation ---------- *)
Theorem rcreate_rel : forall g,
  wf_srag g ->
  exists w, rcreate (g_nt g) (g_bo g) (g_atom g) (g_ity g) (g_subs g) (g_mode g) (g_meta g) = Ok w /\
            RRel w g.
Proof.
  intros g (Hat & Hrows & Hty & Hb). unfold rcreate.
  fold (g_lens g). unfold chain_rows. fold (idx_of g).
  assert (Hbnd := idx_bounds g Hb).
  assert (Hfb: forallb (fun r => snd r <=? index_max (g_ity g)) (idx_of g) = true).
  { apply forallb_forall. intros r Hr. rewrite Forall_forall in Hbnd. specialize (Hbnd r Hr). apply Z.leb_le. lia. }
  rewrite Hfb. cbn [negb].
  destruct (index_max_bound _ Hty) as (_ & _ & Hisz).
  set (vd := mkDir (Some (concat (concat (g_subs g))))
                   (Val (mkDescr (g_nt g) (g_bo g) (Z.of_nat (length (concat (g_subs g))) :: g_atom g) OrdC))
                   (Val (mkDescr (g_nt g) (g_bo g) (Z.of_nat (length (concat (g_subs g))) :: g_atom g) OrdC, false)) false).
  set (idr := mkDir (Some (concat (map (enc_row (g_ity g)) (idx_of g))))
                    (Val (mkDescr (g_ity g) Little [Z.of_nat (length (idx_of g)); 2] OrdC))
                    (Val (mkDescr (g_ity g) Little [Z.of_nat (length (idx_of g)); 2] OrdC, false)) false).
  assert (HV: forall hv, hv = mkHandle (g_mode g) (g_nt g) (g_bo g) (s_shape (sv_of g)) -> Rel (hv, vd) (sv_of g)).
  { intros hv ->. unfold Rel. cbn [fst snd a_data a_descr a_readme a_meta h_mode h_nt h_bo h_shape vd].
    repeat split; try assumption. unfold s_rb. cbn [s_tail s_nt sv_of].
    assert (0 < itemsize (g_nt g)) by (destruct (g_nt g); reflexivity). pose proof (prodZ_pos _ Hat). nia. }
  assert (HI: forall hi, hi = mkHandle (g_mode g) (g_ity g) Little (s_shape (si_of g)) -> Rel (hi, idr) (si_of g)).
  { intros hi ->. unfold Rel. cbn [fst snd a_data a_descr a_readme a_meta h_mode h_nt h_bo h_shape idr].
    assert (Hl: Z.of_nat (length (idx_of g)) = s_len (si_of g)).
    { unfold s_len. cbn [s_rows si_of]. rewrite map_length. reflexivity. }
    unfold descr_of. cbn [s_nt s_bo s_ord si_of]. unfold s_shape. cbn [s_tail si_of]. rewrite <- Hl.
    repeat split; try reflexivity.
    - apply Forall_forall. intros r Hr. apply in_map_iff in Hr. destruct Hr as (x & <- & _).
      rewrite enc_row_length. unfold s_rb. cbn. destruct (itemsize (g_ity g)); reflexivity.
    - unfold s_rb. cbn. destruct (itemsize (g_ity g)); try discriminate; reflexivity.
    - repeat constructor. }
  unfold ropen. cbn [r_values r_indices]. fold vd idr.
  rewrite (open_rel _ _ _ (g_mode g) (HV _ eq_refl)), (open_rel _ _ _ (g_mode g) (HI _ eq_refl)).
  set (h := mkRHandle (g_mode g) _ _ _).
  assert (HF: readme_facts h (mkRDir vd idr Absent Absent (g_meta g)) = Some (facts_of g)).
  { apply readme_facts_rel; try assumption; subst h; cbn [rh_v rh_i r_values r_indices];
      [apply HV|apply HI]; reflexivity. }
  rewrite HF. eexists. split; [reflexivity|].
  unfold RRel. subst h. cbn [fst snd r_values r_indices r_descr r_readme r_meta rh_v rh_i rh_info rh_mode].
  split; [apply HV; reflexivity|]. split; [apply HI; reflexivity|].
  assert (Hinfo := info_of_handles _ _ _ _ g (HV _ eq_refl) (HI _ eq_refl)).
  split; [f_equal; exact Hinfo|]. split; [exact Hinfo|]. repeat split; assumption.
Qed.

(* ---------- C05: structural well-formedness, read off the files only ---------- *)

Definition wf_ragged (d : rdir) : Prop :=
  exists nt bo atom ity idx N,
    Inv_disk (r_values d) /\ Inv_disk (r_indices d) /\
    a_descr (r_values d) = Val (mkDescr nt bo (N :: atom) OrdC) /\
    a_descr (r_indices d) = Val (mkDescr ity Little [Z.of_nat (length idx); 2] OrdC) /\
    index_type ity = true /\
    index_rows (r_indices d) = Some idx /\          (* what a reader of indices/ obtains *)
    chain_ok 0 idx = Some N /\                      (* first start 0, start <= end, contiguous, last end N *)
    r_descr d = Val (mkRDescr (Z.of_nat (length idx)) (N * prodZ atom) atom nt) /\
    (exists f, r_readme d = Val f).

Lemma chain_ok_chain : forall lens s, Forall (fun x => 0 <= x) lens ->
  chain_ok s (chain_from s lens) = Some (s + sumZ lens).
Proof.
  induction lens as [|x lens IH]; intros s H; cbn [chain_from chain_ok sumZ fold_right].
  - f_equal. lia.
  - inversion H as [|? ? Hx Hl]; subst. rewrite Z.eqb_refl.
    assert (E: (s <=? s + x) = true) by (apply Z.leb_le; lia). rewrite E. cbn [andb].
    rewrite (IH _ Hl). f_equal. unfold sumZ. lia.
Qed.

Theorem rrel_wf_ragged : forall w g, RRel w g -> wf_ragged (snd w).
Proof.
  intros [h d] g (HV & HI & Hd & Hinfo & Hrm & Hme & Hmode & Hty & Hb). cbn [fst snd] in *.
  exists (g_nt g), (g_bo g), (g_atom g), (g_ity g), (idx_of g), (g_nrows g).
  destruct (rel_inv_disk _ _ HV) as [IV _]. destruct (rel_inv_disk _ _ HI) as [II _]. cbn [snd] in *.
  pose proof HV as (_ & Hvds & _). pose proof HI as (_ & Hids & _). cbn [fst snd] in *.
  split; [exact IV|]. split; [exact II|]. split; [exact Hvds|].
  split.
  { rewrite Hids. unfold descr_of, s_shape, s_len. cbn [s_nt s_bo s_ord s_tail s_rows si_of].
    rewrite map_length. reflexivity. }
  split; [exact Hty|].
  split; [exact (index_rows_rel _ _ _ _ _ Hty HI (idx_bounds g Hb))|].
  split.
  { unfold idx_of. rewrite chain_ok_chain by apply lens_nonneg. unfold g_lens. rewrite sum_lens_concat. reflexivity. }
  split.
  { rewrite Hd. unfold info_of, idx_of, g_lens. rewrite chain_from_length, map_length. reflexivity. }
  eexists; exact Hrm.
Qed.

(* ---------- C10: a failed append ---------- *)
Theorem rfailed_append : forall w g its good,
  RRel w g -> g_mode g = RW -> wf_rop g (ROpIterAppend its) ->
  rgood_prefix (g_atom g) (index_max (g_ity g)) (g_nrows g) its = (good, true) ->
  let w' := snd (rstep w (ROpIterAppend its)) in
  is_ok (fst (rstep w (ROpIterAppend its))) = false /\
  RRel w' (g_with_subs g (g_subs g ++ good)) /\ wf_ragged (snd w') /\
  (forall m, exists h', ropen (snd w') m = Ok h').
Proof.
  intros w g its good HR Hm Hwf HG w'.
  destruct (rstep_refines w g _ HR Hwf) as [Hok HR']. cbn [rspec_step] in Hok, HR'.
  rewrite Hm, HG in Hok, HR'. cbn [fst snd negb] in Hok, HR'. fold w' in HR'.
  split; [exact Hok|]. split; [exact HR'|]. split; [exact (rrel_wf_ragged _ _ HR')|].
  intros m. destruct (rfresh_agrees _ _ m HR') as (h' & Ho & _). exists h'. exact Ho.
Qed.

(* ---------- C11: read-only ragged arrays ---------- *)
Definition rmutating (d : rdir) (o : rop) : bool :=
  match o with
  | ROpIterAppend _ | ROpMetaSet | ROpMetaPop => true
  | ROpTruncate (Some _) => true
  | ROpTruncate None => false        (* rejected as TypeError before the mode is looked at *)
  | ROpMetaClear => r_meta d
  | ROpSetMode _ | ROpReopen _ => false
  end.

Theorem rreadonly_refuses : forall w g o,
  RRel w g -> g_mode g = R -> rmutating (snd w) o = true ->
  rstep w o = (Err OSError, w).
Proof.
  intros [h d] g o HRR Hm Hmut.
  pose proof HRR as (HV & HI & Hd & Hinfo & Hrm & Hme & Hmode & Hty & Hb). cbn [fst snd] in *.
  rewrite Hm in Hmode. unfold rstep.
  destruct o as [its|[i|]|m|m| | |]; cbn [rexec rmutating] in *; try discriminate.
  - unfold riterappend. rewrite Hmode. reflexivity.
  - unfold rtruncate. pose proof HI as (_ & Hids & _). cbn [snd] in Hids. rewrite Hids, Hmode. reflexivity.
  - rewrite Hmode. reflexivity.
  - rewrite Hmut, Hmode. reflexivity.
  - rewrite Hmode. reflexivity.
Qed.

(* ---------- reading subarrays back: ra[k] ---------- *)

Lemma skipn_concat_rows : forall (rows : list (list Z)) rb k,
  Forall (fun r => length r = rb) rows ->
  skipn (k * rb) (concat rows) = concat (skipn k rows).
Proof.
  induction rows as [|r rows IH]; intros rb k H.
  - rewrite !skipn_nil. reflexivity.
  - inversion H as [|? ? Hr Hrows]; subst. destruct k as [|k]; [reflexivity|].
    cbn [concat skipn Nat.mul]. rewrite skipn_app.
    replace (length r + k * length r - length r)%nat with (k * length r)%nat by lia.
    rewrite (IH _ _ Hrows). rewrite skipn_all2 by lia. reflexivity.
Qed.

Lemma nth_chain : forall lens j s, (j < length lens)%nat ->
  nth j (chain_from s lens) (0, 0) =
  (s + sumZ (firstn j lens), s + sumZ (firstn j lens) + nth j lens 0).
Proof.
  induction lens as [|x lens IH]; intros j s Hj; [cbn in Hj; lia|].
  destruct j as [|j]; cbn [chain_from nth firstn sumZ fold_right].
  - f_equal; lia.
  - rewrite IH by (cbn in Hj; lia). unfold sumZ. f_equal; lia.
Qed.

Lemma concat_skipn_prefix : forall (l : list (list (list Z))) j,
  skipn (length (concat (firstn j l))) (concat l) = concat (skipn j l).
Proof.
  intros l j. rewrite <- (firstn_skipn j l) at 2. rewrite concat_app, skipn_app, Nat.sub_diag.
  rewrite skipn_all. reflexivity.
Qed.

Lemma nth_error_skipn : forall A (l : list A) j x, nth_error l j = Some x ->
  exists rest, skipn j l = x :: rest.
Proof.
  intros A l; induction l as [|a l IH]; intros j x H; destruct j; cbn in *; try discriminate.
  - inversion H; subst. eexists; reflexivity.
  - apply IH. exact H.
Qed.

Theorem rgetitem_spec : forall w g, RRel w g ->
  rgetitem (fst w) (snd w) None = Err TypeError /\
  forall k, rgetitem (fst w) (snd w) (Some k) =
            match g_getitem g k with Some sub => Ok (concat sub) | None => Err IndexError end.
Proof.
  intros [h d] g (HV & HI & Hd & Hinfo & Hrm & Hme & Hmode & Hty & Hb). cbn [fst snd] in *.
  split; [reflexivity|]. intros k. unfold rgetitem, g_getitem.
  rewrite (index_rows_rel _ _ _ _ _ Hty HI (idx_bounds g Hb)).
  pose proof HV as (Hvdat & _ & _ & _ & (_ & Hvn & _ & Hvs) & Hvrows & Hvrb & _). cbn [fst snd] in *.
  assert (Hlen: length (idx_of g) = length (g_subs g)).
  { unfold idx_of, g_lens. rewrite chain_from_length, map_length. reflexivity. }
  rewrite Hvdat, Hlen.
  set (n := Z.of_nat (length (g_subs g))).
  destruct ((- n <=? k) && (k <? n)) eqn:E; [|reflexivity].
  apply andb_true_iff in E. destruct E as [E1 E2]. apply Z.leb_le in E1. apply Z.ltb_lt in E2.
  set (j := Z.to_nat (if k <? 0 then k + n else k)).
  assert (Hj: (j < length (g_subs g))%nat) by (subst j n; destruct (k <? 0) eqn:E; lia).
  destruct (nth_error (g_subs g) j) as [sub|] eqn:En; [|apply nth_error_None in En; lia].
  f_equal. unfold idx_of. rewrite nth_chain by (unfold g_lens; rewrite map_length; exact Hj).
  cbn [fst snd]. unfold zslice_bytes.
  unfold g_lens. rewrite firstn_map_, sum_lens_concat.
  replace (nth j (map (fun s : list (list Z) => Z.of_nat (length s)) (g_subs g)) 0)
    with (Z.of_nat (length (nth j (g_subs g) [])))
    by (symmetry; apply (map_nth (fun s : list (list Z) => Z.of_nat (length s)) (g_subs g) [] j)).
  rewrite (nth_error_nth _ _ _ En).
  replace (0 + Z.of_nat (length (concat (firstn j (g_subs g)))) + Z.of_nat (length sub) -
           (0 + Z.of_nat (length (concat (firstn j (g_subs g)))))) with (Z.of_nat (length sub)) by lia.
  unfold rowbytes. rewrite Hvs, Hvn. cbn [s_shape tl].
  change (prodZ (s_tail (sv_of g)) * itemsize (s_nt (sv_of g))) with (s_rb (sv_of g)).
  set (rb := Z.to_nat (s_rb (sv_of g))).
  assert (Hrn: Forall (fun r => length r = rb) (concat (g_subs g))).
  { eapply Forall_impl; [|exact Hvrows]. cbn. intros r0 Hr. subst rb. lia. }
  replace (Z.to_nat ((0 + Z.of_nat (length (concat (firstn j (g_subs g))))) * s_rb (sv_of g)))
    with (length (concat (firstn j (g_subs g))) * rb)%nat by (subst rb; nia).
  replace (Z.to_nat (Z.of_nat (length sub) * s_rb (sv_of g))) with (length sub * rb)%nat by (subst rb; nia).
  cbn [s_rows sv_of].
  rewrite (skipn_concat_rows _ _ _ Hrn), concat_skipn_prefix.
  destruct (nth_error_skipn _ _ _ _ En) as (rest & Hsk). rewrite Hsk. cbn [concat].
  assert (Hsub: Forall (fun r => length r = rb) (sub ++ concat rest)).
  { rewrite <- (firstn_skipn j (g_subs g)), concat_app, Hsk in Hrn. apply Forall_app in Hrn.
    destruct Hrn as [_ Hrn]. exact Hrn. }
  rewrite (firstn_concat_rows _ _ _ Hsub). rewrite firstn_app, Nat.sub_diag, firstn_all. cbn [firstn].
  rewrite app_nil_r. reflexivity.
Qed.

(* iter_arrays for ANY start / end / step: the items of the model at range(start, end or len, step),
   IndexError at the first index outside -len .. len-1, ValueError for step 0 *)
Theorem riter_arrays_spec : forall w g start stop step, RRel w g ->
  riter_arrays (fst w) (snd w) start stop step =
  if step =? 0 then Err ValueError
  else collect (map (fun i => match g_getitem g i with Some sub => Ok (concat sub) | None => Err IndexError end)
                    (py_range start (match stop with Some e => e | None => Z.of_nat (length (g_subs g)) end) step)).
Proof.
  intros w g start stop step HR. destruct (rgetitem_spec w g HR) as [_ Hget].
  unfold riter_arrays. destruct (step =? 0); [reflexivity|].
  destruct w as [h d]. pose proof HR as (HV & HI & Hd & Hinfo & Hrm & Hme & Hmode & Hty & Hb). cbn [fst snd] in *.
  rewrite (index_rows_rel _ _ _ _ _ Hty HI (idx_bounds g Hb)).
  assert (Hlen: length (idx_of g) = length (g_subs g)).
  { unfold idx_of, g_lens. rewrite chain_from_length, map_length. reflexivity. }
  rewrite Hlen. f_equal. apply map_ext. intros i. apply Hget.
Qed.
