(* SkelTeeth.v -- the skeleton semantics Skel.runs discriminates: orders the present source does not have are not admitted. *)
From Coq Require Import List String.
From Darr Require Import Base ArrayModel RaggedModel Skel Gen_effects EffectOrder EffectOrderR.
Import ListNotations. Open Scope string_scope. Open Scope list_scope.

Ltac inv H := inversion H; subst; clear H.
Ltac crunch :=
  repeat match goal with
  | H : callout ?o = _ |- _ => is_var o; destruct o; simpl in H; try discriminate H; clear H
  | H : callout _ = _ |- _ => simpl in H; discriminate H
  | H : asub _ = None |- _ => vm_compute in H; first [discriminate H | clear H]
  | H : rsub _ = None |- _ => vm_compute in H; first [discriminate H | clear H]
  | H : rsub _ = Some _ |- _ => vm_compute in H; first [discriminate H | injection H as <-]
  | H : asub _ = Some _ |- _ => vm_compute in H; first [discriminate H | injection H as <-]
  | H : ?x <> ?x |- _ => contradiction H; reflexivity
  | H : runs _ _ (Seq _ _) _ _ |- _ => inv H
  | H : runs _ _ (Call _) _ _ |- _ => inv H
  | H : runs _ _ (If _ _) _ _ |- _ => inv H
  | H : runs _ _ Skip _ _ |- _ => inv H
  end.
Ltac lists :=
  simpl in *;
  repeat match goal with
  | H : _ :: _ = ?l ++ _ |- _ => is_var l; destruct l; simpl in H
  | H : ?l ++ _ = _ :: _ |- _ => is_var l; destruct l; simpl in H
  | H : [] = ?l ++ _ |- _ => is_var l; destruct l; simpl in H
  | H : ?l ++ _ = [] |- _ => is_var l; destruct l; simpl in H
  | H : _ :: _ = _ :: _ |- _ => injection H as ? H
  | H : _ = _ |- _ => discriminate H
  | H : (?l ++ _) ++ _ = _ |- _ => is_var l; destruct l; simpl in H
  end.

(* the semantics is not vacuous: had truncate_array updated the description before
   cutting the file, its skeleton would not admit the log of the model *)
Definition sk_swapped_truncate : sk := Seq (Call "_update_len") (Call "truncate").
Definition sk_values_first : sk := Seq (Call "truncate_array@_values") (Call "truncate_array@_indices").

Example swapped_truncate_not_admitted :
  ~ aruns sk_swapped_truncate Normal [KTrunc; KDescr; KReadme].
Proof.
  unfold aruns, sk_swapped_truncate; intro H. crunch; lists.
Qed.

(* ... nor had it left the README as it was *)
Example no_readme_not_admitted :
  ~ aruns (Seq (Call "truncate") (Call "_update_arrayinfo")) Normal [KTrunc; KDescr; KReadme].
Proof.
  unfold aruns; intro H. crunch; lists.
Qed.

(* ... nor does a truncate_raggedarray that cuts values/ before indices/ (seeded change
   C17-m27) admit the log of the model *)
Example ragged_values_first_not_admitted :
  ~ rruns sk_values_first Normal
          (map KI [KTrunc; KDescr; KReadme] ++ map KV [KTrunc; KDescr; KReadme]).
Proof.
  unfold rruns, sk_values_first; intro H. crunch; lists.
Qed.

(* and the skeletons of the present source do admit them (non-vacuity of the positive side) *)
Example present_truncate_admitted :
  aruns sk_truncate_array Normal [KTrunc; KDescr; KReadme].
Proof.
  unfold sk_truncate_array.
  apply (R_seq _ _ _ _ [] Normal); [apply R_try_ok; [discriminate | apply R_if_t, R_skip]|].
  apply (R_seq _ _ _ _ [] Normal); [apply R_if_e, R_skip|]. apply R_if_t.
  apply (R_seq _ _ _ _ [KTrunc] Normal [KDescr; KReadme]); [apply (R_prim aprim asub "truncate"); reflexivity|].
  apply (R_sub aprim asub "_update_len" sk_update_len Normal); [reflexivity|]. unfold sk_update_len.
  apply (R_seq _ _ _ _ [KDescr] Normal [KReadme]).
  - apply (R_sub aprim asub "_update_arrayinfo" sk_update_arrayinfo Normal); [reflexivity|].
    apply (R_prim aprim asub "_write_jsondict"); reflexivity.
  - apply (R_seq _ _ _ _ [KReadme] Normal []); [apply (R_prim aprim asub "_update_readmetxt"); reflexivity|].
    apply R_if_t, R_skip.
Qed.
