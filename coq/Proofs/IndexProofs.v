From Coq Require Import ZArith List Bool Lia.
From Darr Require Import Base Index Sched Proofs.SchedProofs.
Import ListNotations.
Open Scope Z_scope.

Lemma in_map_seq : forall (f : nat -> Z) c i, In i (map f (seq 0 c)) <-> exists k, (k < c)%nat /\ i = f k.
Proof.
  intros f c i. rewrite in_map_iff. split.
  - intros (k & Hk & Hin). apply in_seq in Hin. exists k. split; [lia|congruence].
  - intros (k & Hk & ->). exists k. split; [reflexivity|apply in_seq; lia].
Qed.

(* positive step: exactly the positions lo, lo+st, ... below hi *)
Theorem slice_idx_pos : forall lo hi st i, 0 < st ->
  In i (slice_idx lo hi st) <-> lo <= i < hi /\ (i - lo) mod st = 0.
Proof.
  intros lo hi st i Hst. unfold slice_idx, slice_count.
  destruct (0 <? st) eqn:E; [|lia]. rewrite in_map_seq. destruct (lo <? hi) eqn:Elh.
  - assert (Hq: 0 <= (hi - lo - 1) / st) by (apply Z.div_pos; lia).
    assert (Hm := Z.div_mod (hi - lo - 1) st ltac:(lia)). assert (Hr := Z.mod_pos_bound (hi - lo - 1) st ltac:(lia)).
    split.
    + intros (k & Hk & ->). split; [nia|]. replace (lo + Z.of_nat k * st - lo) with (Z.of_nat k * st) by lia.
      apply Z.mod_mul. lia.
    + intros (Hr1 & Hr2). apply Z.mod_divide in Hr2; [|lia]. destruct Hr2 as (q & Hq2).
      assert (0 <= q) by nia. exists (Z.to_nat q). split; [|lia]. 
      assert (q <= (hi - lo - 1) / st) by (apply Z.div_le_lower_bound; lia). lia.
  - cbn. split; [intros (k & Hk & _); lia|intros (H1 & _); lia].
Qed.

(* negative step: lo, lo+st, ... above hi *)
Theorem slice_idx_neg : forall lo hi st i, st < 0 ->
  In i (slice_idx lo hi st) <-> hi < i <= lo /\ (lo - i) mod (- st) = 0.
Proof.
  intros lo hi st i Hst. unfold slice_idx, slice_count.
  destruct (0 <? st) eqn:E; [lia|]. destruct (st <? 0) eqn:E2; [|lia]. rewrite in_map_seq.
  set (t := - st) in *. assert (Ht: 0 < t) by lia.
  destruct (hi <? lo) eqn:Elh.
  - assert (Hq: 0 <= (lo - hi - 1) / t) by (apply Z.div_pos; lia).
    assert (Hm := Z.div_mod (lo - hi - 1) t ltac:(lia)). assert (Hr := Z.mod_pos_bound (lo - hi - 1) t ltac:(lia)).
    split.
    + intros (k & Hk & ->). split; [nia|]. replace (lo - (lo + Z.of_nat k * st)) with (Z.of_nat k * t) by lia.
      apply Z.mod_mul. lia.
    + intros (Hr1 & Hr2). apply Z.mod_divide in Hr2; [|lia]. destruct Hr2 as (q & Hq2).
      assert (0 <= q) by nia. exists (Z.to_nat q). split; [|nia].
      assert (q <= (lo - hi - 1) / t) by (apply Z.div_le_lower_bound; lia). lia.
  - cbn. split; [intros (k & Hk & _); lia|intros (H1 & _); lia].
Qed.

(* Python's normalisation keeps every selected position inside the axis *)
Theorem slice_in_range : forall a b c n i, 0 <= n -> c <> Some 0 ->
  let '(lo, hi, st) := slice_norm a b c n in
  In i (slice_idx lo hi st) -> 0 <= i < n.
Proof.
  intros a b c n i Hn Hc. unfold slice_norm.
  set (st := match c with None => 1 | Some s => s end).
  assert (Hst: st <> 0) by (subst st; destruct c as [s|]; [intros ->; apply Hc; reflexivity|lia]).
  destruct (0 <? st) eqn:E; cbv zeta.
  - intros Hin. apply slice_idx_pos in Hin; [|lia]. destruct Hin as [Hr _].
    destruct a as [x|]; destruct b as [y|]; try destruct (x <? 0) eqn:Ex; try destruct (y <? 0) eqn:Ey; lia.
  - intros Hin. apply slice_idx_neg in Hin; [|lia]. destruct Hin as [Hr _].
    destruct a as [x|]; destruct b as [y|]; try destruct (x <? 0) eqn:Ex; try destruct (y <? 0) eqn:Ey; lia.
Qed.

Theorem slice_idx_length : forall lo hi st, Z.of_nat (length (slice_idx lo hi st)) = Z.max 0 (slice_count lo hi st).
Proof. intros. unfold slice_idx. rewrite map_length, seq_length. lia. Qed.

(* the number of selected elements is the product of the result shape *)
Theorem offsets_count : forall sel str base, length str = length (filter (fun s => match s with SelNew => false | _ => true end) sel) ->
  Z.of_nat (length (offsets sel str base)) = prodZ (rshape sel).
Proof.
  induction sel as [|s sel IH]; intros str base Hl; [reflexivity|].
  destruct s as [i|l|]; cbn [offsets rshape filter] in *.
  - destruct str as [|s0 str]; [discriminate|]. apply IH. cbn in Hl. lia.
  - destruct str as [|s0 str]; [discriminate|]. cbn in Hl.
    assert (Hall: forall j, Z.of_nat (length (offsets sel str (base + j * s0))) = prodZ (rshape sel)) by (intros; apply IH; lia).
    unfold prodZ. cbn [fold_right]. fold (prodZ (rshape sel)).
    clear - Hall. induction l as [|x l IHl]; [cbn; lia|]. cbn [map concat length]. rewrite app_length, Nat2Z.inj_add, Hall.
    cbn [length] in *. lia.
  - unfold prodZ. cbn [fold_right]. fold (prodZ (rshape sel)). rewrite (IH str base Hl). lia.
Qed.

(* ---------- write-through and handle discipline (on the Sched model) ---------- *)
Theorem cget_cset_same : forall c i v, cget (cset c i v) i = v.
Proof. intros. unfold cset. cbn. rewrite Z.eqb_refl. reflexivity. Qed.
Theorem cget_cset_other : forall c i j v, i <> j -> cget (cset c i v) j = cget c j.
Proof. intros c i j v H. unfold cset. cbn. destruct (i =? j) eqn:E; [apply Z.eqb_eq in E; contradiction|reflexivity]. Qed.

Lemma release_same : forall s, sc_data (release s) = sc_data s /\ sc_gens (release s) = sc_gens s /\
                                sc_ctx (release s) = sc_ctx s.
Proof.
  intros s. unfold release. destruct (sc_users s) as [|[|u]]; [repeat split| |repeat split].
  destruct (sc_cache s); repeat split.
Qed.

(* a read returns the current value whatever contexts / generators are open: results are
   the same inside and outside an open_array() context *)
Theorem read_value : forall s i, SInv s -> fst (sched_step s (ARead i)) = OValue (cget (sc_data s) i).
Proof.
  intros s i HI. cbn [sched_step]. destruct (acquire_spec s HI) as (G1 & X1 & D1 & M1).
  destruct (acquire s) as [m s1]. cbn [fst snd] in *. rewrite M1, D1. reflexivity.
Qed.

Theorem write_then_read : forall s i v, SInv s ->
  let s' := snd (sched_step s (AWrite i v)) in
  SInv s' /\ fst (sched_step s' (ARead i)) = OValue v /\
  forall j, j <> i -> fst (sched_step s' (ARead j)) = fst (sched_step s (ARead j)).
Proof.
  intros s i v HI s'. destruct (sched_step_safe s (AWrite i v) HI) as [HI' _]. fold s' in HI'.
  assert (Hd: sc_data s' = cset (sc_data s) i v).
  { subst s'. cbn [sched_step]. destruct (acquire_spec s HI) as (G1 & X1 & D1 & M1).
    destruct (acquire s) as [m s1]. cbn [fst snd] in *. rewrite M1. cbn [snd].
    rewrite (proj1 (release_same _)). cbn [set_data sc_data]. rewrite D1. reflexivity. }
  split; [exact HI'|]. split.
  - rewrite (read_value s' i HI'), Hd. f_equal. apply cget_cset_same.
  - intros j Hj. rewrite (read_value s' j HI'), (read_value s j HI), Hd. f_equal. apply cget_cset_other. congruence.
Qed.

(* after ANY access outside contexts and generators -- successful or raising -- nothing
   stays open *)
Theorem access_discipline : forall s a, SInv s -> count_active (sc_gens s) = 0%nat -> sc_ctx s = [] ->
  (exists i, a = ARead i) \/ (exists i v, a = AWrite i v) \/ a = AAccessErr ->
  let s' := snd (sched_step s a) in
  sc_cache s' = None /\ sc_open s' = [] /\ sc_users s' = 0%nat.
Proof.
  intros s a HI Hg Hx Ha s'. destruct (sched_step_safe s a HI) as [HI' _]. fold s' in HI'.
  apply no_leak; [exact HI'| |].
  - subst s'. destruct Ha as [[i ->]|[[i [v ->]]| ->]]; cbn [sched_step];
      destruct (acquire_spec s HI) as (G1 & X1 & D1 & M1); destruct (acquire s) as [m s1]; cbn [fst snd] in *;
      rewrite ?M1; cbn [snd];
      rewrite (proj1 (proj2 (release_same _))); cbn [set_data sc_gens]; rewrite G1; exact Hg.
  - subst s'. destruct Ha as [[i ->]|[[i [v ->]]| ->]]; cbn [sched_step];
      destruct (acquire_spec s HI) as (G1 & X1 & D1 & M1); destruct (acquire s) as [m s1]; cbn [fst snd] in *;
      rewrite ?M1; cbn [snd];
      rewrite (proj2 (proj2 (release_same _))); cbn [set_data sc_ctx]; rewrite X1; exact Hx.
Qed.

(* the length may change while the array is open (append / truncate_array inside a context) *)
Lemma cget_ctrunc : forall c n i, cget (ctrunc c n) i = if i <? n then cget c i else i.
Proof.
  induction c as [|[j v] c IH]; intros n i; cbn [ctrunc filter cget fst]; [destruct (i <? n); reflexivity|].
  fold (ctrunc c n). destruct (j <? n) eqn:Ej; cbn [cget]; destruct (j =? i) eqn:Eji.
  - apply Z.eqb_eq in Eji. subst j. rewrite Ej. reflexivity.
  - apply IH.
  - apply Z.eqb_eq in Eji. subst j. rewrite IH, Ej. reflexivity.
  - apply IH.
Qed.

Theorem resize_step : forall s n, SInv s ->
  let s' := snd (sched_step s (AResize n)) in
  SInv s' /\ sc_len s' = n /\ sc_data s' = ctrunc (sc_data s) n /\ sc_users s' = sc_users s /\
  sc_gens s' = sc_gens s /\ sc_ctx s' = sc_ctx s.
Proof.
  intros s n HI s'. destruct (sched_step_safe s (AResize n) HI) as [HI' _]. fold s' in HI'.
  split; [exact HI'|]. subst s'. cbn [sched_step]. destruct (sc_cache s); cbn [snd sc_len sc_data sc_users sc_gens sc_ctx];
    repeat split; reflexivity.
Qed.
