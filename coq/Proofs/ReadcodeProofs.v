(* ReadcodeProofs.v -- proofs about coq/Readcode.v: axis reversal for any rank, reading back
   an encoded file (directly, strided, as interleaved floats), the token tables (finite,
   exhaustive), and the denotation theorem for every language. *)
From Coq Require Import ZArith List Bool String Lia.
From Darr Require Import Base ArrayModel Codec Gen_tables Readcode Proofs.ListLemmas Proofs.Codec.
Import ListNotations.
Open Scope Z_scope.
Notation length := List.length.

(* ---------- offsets: column-major over reversed axes = row-major ---------- *)
Lemma in_range_length : forall dims idx, in_range dims idx = true -> length dims = length idx.
Proof.
  induction dims as [|d ds IH]; intros [|i is_] H; cbn in H; try discriminate; [reflexivity|].
  apply andb_true_iff in H. destruct H as [_ H]. cbn. f_equal. apply IH, H.
Qed.

Lemma in_range_app : forall d1 i1 d2 i2, length d1 = length i1 ->
  in_range (d1 ++ d2) (i1 ++ i2) = in_range d1 i1 && in_range d2 i2.
Proof.
  induction d1 as [|d ds IH]; intros [|i is_] d2 i2 H; cbn in H; try discriminate; [reflexivity|].
  cbn [app in_range]. rewrite IH by lia. rewrite andb_assoc. reflexivity.
Qed.

Lemma in_range_rev : forall dims idx, length dims = length idx ->
  in_range (rev dims) (rev idx) = in_range dims idx.
Proof.
  induction dims as [|d ds IH]; intros [|i is_] H; cbn in H; try discriminate; [reflexivity|].
  cbn [rev]. rewrite in_range_app by (rewrite !rev_length; lia). rewrite IH by lia.
  cbn [in_range]. rewrite andb_true_r. apply andb_comm.
Qed.

Lemma rowmajor_acc : forall dims idx acc, length dims = length idx ->
  rowmajor_off dims idx acc = acc * prodZ dims + rowmajor_off dims idx 0.
Proof.
  induction dims as [|d ds IH]; intros [|i is_] acc H; cbn in H; try discriminate.
  - cbn. lia.
  - cbn [rowmajor_off]. rewrite IH by lia. rewrite (IH is_ (0 * d + i)) by lia.
    change (prodZ (d :: ds)) with (d * prodZ ds). ring.
Qed.

Lemma prodZ_app : forall a b, prodZ (a ++ b) = prodZ a * prodZ b.
Proof.
  induction a as [|x a IH]; intros b; [cbn [app]; change (prodZ []) with 1; lia|].
  change (prodZ ((x :: a) ++ b)) with (x * prodZ (a ++ b)). rewrite IH.
  change (prodZ (x :: a)) with (x * prodZ a). ring.
Qed.

Lemma prodZ_rev : forall l, prodZ (rev l) = prodZ l.
Proof.
  induction l as [|x l IH]; [reflexivity|]. cbn [rev]. rewrite prodZ_app, IH.
  change (prodZ [x]) with (x * 1). change (prodZ (x :: l)) with (x * prodZ l). ring.
Qed.

Lemma colmajor_snoc : forall d1 i1 d i, length d1 = length i1 ->
  colmajor_off (d1 ++ [d]) (i1 ++ [i]) = colmajor_off d1 i1 + prodZ d1 * i.
Proof.
  induction d1 as [|x ds IH]; intros [|y is_] d i H; cbn in H; try discriminate.
  - cbn [app colmajor_off]. change (prodZ []) with 1. ring.
  - cbn [app colmajor_off]. rewrite IH by lia. change (prodZ (x :: ds)) with (x * prodZ ds). ring.
Qed.

Theorem rev_axes : forall dims idx, length dims = length idx ->
  colmajor_off (rev dims) (rev idx) = rowmajor_off dims idx 0.
Proof.
  induction dims as [|d ds IH]; intros [|i is_] H; cbn in H; try discriminate; [reflexivity|].
  cbn [rev rowmajor_off]. rewrite colmajor_snoc by (rewrite !rev_length; lia).
  rewrite IH by lia. rewrite prodZ_rev. rewrite (rowmajor_acc ds is_ (0 * d + i)) by lia. ring.
Qed.

(* the element the stored (row-major) array holds at an index *)
Definition stored_at (shape : list Z) (elems : list (list Z)) (idx : list Z) : option (list Z) :=
  nth_error elems (Z.to_nat (rowmajor_off shape idx 0)).

Lemma aget_row : forall t shape elems idx, in_range shape idx = true ->
  aget (mkA t shape RowMajor elems) idx = stored_at shape elems idx.
Proof. intros t shape elems idx H. unfold aget, stored_at. cbn. rewrite H. reflexivity. Qed.

Lemma aget_col_rev : forall t shape elems idx, in_range shape idx = true ->
  aget (mkA t (rev shape) ColMajor elems) (rev idx) = stored_at shape elems idx.
Proof.
  intros t shape elems idx H. unfold aget, stored_at. cbn [a_dims a_ord a_flat offset].
  pose proof (in_range_length _ _ H) as Hl.
  rewrite in_range_rev, H, rev_axes by exact Hl. reflexivity.
Qed.

(* ---------- reading back an encoded file ---------- *)
Definition sized (nt : numtype) (elems : list (list Z)) : Prop :=
  Forall (fun e => Z.of_nat (length e) = itemsize nt) elems.

Lemma itemsize_pos : forall nt, 0 < itemsize nt.
Proof. destruct nt; reflexivity. Qed.

Lemma encode_length : forall nt bo elems, sized nt elems ->
  Z.of_nat (length (encode nt bo elems)) = Z.of_nat (length elems) * itemsize nt.
Proof.
  intros nt bo elems H. unfold encode.
  rewrite (concat_rows_length _ (itemsize nt)); [rewrite map_length; reflexivity|].
  induction H as [|e l He Hl IH]; cbn [map]; constructor; [|exact IH].
  rewrite (swap_elem_length nt bo e He). exact He.
Qed.

Lemma read_n_encode : forall nt bo elems n, sized nt elems -> n = Z.of_nat (length elems) ->
  read_n nt bo n (encode nt bo elems) = Some elems.
Proof.
  intros nt bo elems n H ->. unfold read_n. rewrite (encode_length nt bo elems H).
  rewrite Nat2Z.id, (codec_roundtrip nt bo elems H).
  replace (0 <=? Z.of_nat (length elems)) with true by (symmetry; apply Z.leb_le; lia).
  rewrite Z.leb_refl. reflexivity.
Qed.

Lemma read_all_encode : forall nt bo elems, sized nt elems ->
  read_all nt bo (encode nt bo elems) = Some elems.
Proof.
  intros nt bo elems H. unfold read_all. rewrite (encode_length nt bo elems H).
  rewrite Z.div_mul by (pose proof (itemsize_pos nt); lia).
  apply read_n_encode; [exact H|reflexivity].
Qed.

(* ---------- a complex file read as interleaved floats ---------- *)
Definition hsize (c : numtype) : nat := Z.to_nat (itemsize (float_of_complex c)).
Definition halves (h : nat) (e : list Z) : list (list Z) := [firstn h e; skipn h e].
Definition flat_pairs (h : nat) (elems : list (list Z)) : list (list Z) := flat_map (halves h) elems.

Lemma swap_complex : forall c bo e, is_complex c = true -> Z.of_nat (length e) = itemsize c ->
  swap_elem c bo e = swap_elem (float_of_complex c) bo (firstn (hsize c) e)
                     ++ swap_elem (float_of_complex c) bo (skipn (hsize c) e).
Proof.
  intros c bo e Hc He. destruct bo.
  - destruct c; try discriminate; unfold swap_elem, hsize; cbn [float_of_complex itemsize swapunit].
    + change (Z.to_nat (8 / 4)) with 2%nat. change (Z.to_nat (4 / 4)) with 1%nat. change (Z.to_nat 4) with 4%nat.
      cbn [pieces map List.concat]. rewrite !app_nil_r. rewrite firstn_firstn. reflexivity.
    + change (Z.to_nat (16 / 8)) with 2%nat. change (Z.to_nat (8 / 8)) with 1%nat. change (Z.to_nat 8) with 8%nat.
      cbn [pieces map List.concat]. rewrite !app_nil_r. rewrite firstn_firstn. reflexivity.
  - cbn [swap_elem]. symmetry. apply firstn_skipn.
Qed.

Lemma complex_sizes : forall c, is_complex c = true ->
  itemsize c = 2 * itemsize (float_of_complex c) /\ 0 < itemsize (float_of_complex c).
Proof. destruct c; intros H; try discriminate; split; reflexivity. Qed.

Lemma encode_complex_flat : forall c bo elems, is_complex c = true -> sized c elems ->
  encode c bo elems = encode (float_of_complex c) bo (flat_pairs (hsize c) elems).
Proof.
  intros c bo elems Hc H. unfold encode. induction H as [|e l He Hl IH]; [reflexivity|].
  cbn [map List.concat flat_pairs flat_map halves app]. rewrite IH, (swap_complex c bo e Hc He).
  rewrite <- app_assoc. reflexivity.
Qed.

Lemma flat_pairs_sized : forall c elems, is_complex c = true -> sized c elems ->
  sized (float_of_complex c) (flat_pairs (hsize c) elems).
Proof.
  intros c elems Hc H. destruct (complex_sizes c Hc) as [H2 Hp].
  induction H as [|e l He Hl IH]; [constructor|].
  cbn [flat_pairs flat_map halves app]. unfold hsize in *.
  constructor; [rewrite firstn_length; lia|]. constructor; [rewrite skipn_length; lia|exact IH].
Qed.

Lemma flat_pairs_length : forall h elems, length (flat_pairs h elems) = (2 * length elems)%nat.
Proof.
  induction elems as [|e l IH]; [reflexivity|].
  change (flat_pairs h (e :: l)) with (firstn h e :: skipn h e :: flat_pairs h l).
  cbn [length]. rewrite IH. lia.
Qed.

Lemma evens_flat_pairs : forall h elems, evens (flat_pairs h elems) = map (firstn h) elems.
Proof.
  induction elems as [|e l IH]; [reflexivity|].
  change (flat_pairs h (e :: l)) with (firstn h e :: skipn h e :: flat_pairs h l).
  cbn [evens map]. rewrite IH. reflexivity.
Qed.

Lemma odds_flat_pairs : forall h elems, odds (flat_pairs h elems) = map (skipn h) elems.
Proof.
  induction elems as [|e l IH]; [reflexivity|].
  change (flat_pairs h (e :: l)) with (firstn h e :: skipn h e :: flat_pairs h l).
  cbn [odds map]. rewrite IH. reflexivity.
Qed.

Lemma zip_app_halves : forall h (elems : list (list Z)),
  zip_app (map (firstn h) elems) (map (skipn h) elems) = elems.
Proof. induction elems as [|e l IH]; [reflexivity|]. cbn [map zip_app]. rewrite IH, firstn_skipn. reflexivity. Qed.

(* Matlab's two strided passes over a complex file *)
Lemma skipn_add : forall A (l : list A) a b, skipn (a + b) l = skipn b (skipn a l).
Proof. intros A l a b. revert l. induction a as [|a IH]; intros l; [reflexivity|]. destruct l; [cbn; destruct b; reflexivity|]. cbn. apply IH. Qed.

Lemma skipn_app_exact : forall A (a b : list A) n, n = length a -> skipn n (a ++ b) = b.
Proof. intros A a b n ->. rewrite skipn_app, Nat.sub_diag, skipn_all. reflexivity. Qed.

Lemma read_skip_re : forall c bo elems, is_complex c = true -> sized c elems ->
  read_skip (float_of_complex c) bo (itemsize (float_of_complex c)) (length elems) (encode c bo elems)
  = Some (map (firstn (hsize c)) elems).
Proof.
  intros c bo elems Hc H. destruct (complex_sizes c Hc) as [H2 Hp].
  set (f := float_of_complex c) in *. unfold encode.
  induction H as [|e l He Hl IH]; [reflexivity|].
  cbn [length read_skip map List.concat].
  rewrite (swap_complex c bo e Hc He). fold f. fold (hsize c).
  assert (L1: Z.of_nat (length (firstn (hsize c) e)) = itemsize f) by (unfold hsize; fold f; rewrite firstn_length; lia).
  assert (L2: Z.of_nat (length (skipn (hsize c) e)) = itemsize f) by (unfold hsize; fold f; rewrite skipn_length; lia).
  pose proof (swap_elem_length f bo _ L1) as S1. pose proof (swap_elem_length f bo _ L2) as S2.
  set (A := swap_elem f bo (firstn (hsize c) e)) in *. set (B := swap_elem f bo (skipn (hsize c) e)) in *.
  assert (LA: length A = Z.to_nat (itemsize f)) by lia. assert (LB: length B = Z.to_nat (itemsize f)) by lia.
  destruct (Nat.ltb_spec (length ((A ++ B) ++ List.concat (map (swap_elem c bo) l))) (Z.to_nat (itemsize f))) as [Hlt|_];
    [rewrite !app_length in Hlt; lia|].
  rewrite <- app_assoc. rewrite skipn_add.
  rewrite (skipn_app_exact _ A) by lia. rewrite (skipn_app_exact _ B) by lia.
  rewrite IH. rewrite (firstn_app_exact _ A) by lia.
  subst A. rewrite (swap_elem_invol f bo _ L1). reflexivity.
Qed.

Lemma read_skip_im : forall c bo elems, is_complex c = true -> sized c elems ->
  read_skip (float_of_complex c) bo (itemsize (float_of_complex c)) (length elems)
            (skipn (Z.to_nat (itemsize (float_of_complex c))) (encode c bo elems))
  = Some (map (skipn (hsize c)) elems).
Proof.
  intros c bo elems Hc H. destruct (complex_sizes c Hc) as [H2 Hp].
  set (f := float_of_complex c) in *. unfold encode.
  induction H as [|e l He Hl IH]; [reflexivity|].
  cbn [length read_skip map List.concat].
  rewrite (swap_complex c bo e Hc He). fold f. fold (hsize c).
  assert (L1: Z.of_nat (length (firstn (hsize c) e)) = itemsize f) by (unfold hsize; fold f; rewrite firstn_length; lia).
  assert (L2: Z.of_nat (length (skipn (hsize c) e)) = itemsize f) by (unfold hsize; fold f; rewrite skipn_length; lia).
  pose proof (swap_elem_length f bo _ L1) as S1. pose proof (swap_elem_length f bo _ L2) as S2.
  set (A := swap_elem f bo (firstn (hsize c) e)) in *. set (B := swap_elem f bo (skipn (hsize c) e)) in *.
  assert (LA: length A = Z.to_nat (itemsize f)) by lia. assert (LB: length B = Z.to_nat (itemsize f)) by lia.
  rewrite <- app_assoc. rewrite (skipn_app_exact _ A) by lia.
  destruct (Nat.ltb_spec (length (B ++ List.concat (map (swap_elem c bo) l))) (Z.to_nat (itemsize f))) as [Hlt|_];
    [rewrite !app_length in Hlt; lia|].
  rewrite skipn_add. rewrite (skipn_app_exact _ B) by lia.
  rewrite IH. rewrite (firstn_app_exact _ B) by lia.
  subst B. rewrite (swap_elem_invol f bo _ L2). reflexivity.
Qed.

(* ---------- the token tables (finite, exhaustive over 12 languages x 13 types x 2 orders) ---------- *)
Open Scope string_scope.
Definition workaround (l : string) (nt : numtype) : bool :=
  (String.eqb l "matlab" || String.eqb l "scilab" || String.eqb l "python") && is_complex nt.
(* the type a program's read construct must read for the stored values to come out *)
Definition read_type (l : string) (nt : numtype) : numtype :=
  if workaround l nt then float_of_complex nt
  else if String.eqb l "matlab" && numtype_eqb nt Float16 then UInt16 else nt.

Definition toks_ok (l : string) (nt : numtype) (bo : byteorder) (t : toks) : bool :=
  match lookup (t_type t) (sem_table l), lookup (t_end t) (sem_endian l) with
  | Some ty, Some b => numtype_eqb ty (read_type l nt) && byteorder_eqb b bo
  | _, _ => false
  end
  && Bool.eqb (t_cplx t) (workaround l nt)
  && Bool.eqb (t_half t) (String.eqb l "matlab" && numtype_eqb nt Float16)
  && (if String.eqb l "matlab" && is_complex nt then Z.eqb (t_skip t) (itemsize (float_of_complex nt)) else true)
  && (if String.eqb l "scilab" then scilab_fn_ok (t_fn t) (read_type l nt) else true).

Definition all_toks_ok (ignoreint64 : bool) : bool :=
  forallb (fun l => String.eqb l "darr" ||
     forallb (fun nt => forallb (fun bo =>
        match toks_of l nt bo ignoreint64 with Some t => toks_ok l nt bo t | None => true end) [Little; Big])
       all_numtypes) array_languages.

Lemma all_toks_ok_true : all_toks_ok false = true /\ all_toks_ok true = true.
Proof. split; vm_compute; reflexivity. Qed.

Lemma in_all_numtypes : forall nt, In nt all_numtypes.
Proof. destruct nt; cbn; tauto. Qed.

Lemma toks_of_ok : forall l nt bo ig t, In l array_languages -> l <> "darr" ->
  toks_of l nt bo ig = Some t -> toks_ok l nt bo t = true.
Proof.
  intros l nt bo ig t Hl Hd Ht.
  assert (H: all_toks_ok ig = true) by (destruct ig; apply all_toks_ok_true).
  unfold all_toks_ok in H. rewrite forallb_forall in H. specialize (H l Hl).
  apply orb_true_iff in H. destruct H as [H|H]; [apply String.eqb_eq in H; contradiction|].
  rewrite forallb_forall in H. specialize (H nt (in_all_numtypes nt)).
  rewrite forallb_forall in H. specialize (H bo ltac:(destruct bo; cbn; tauto)).
  rewrite Ht in H. exact H.
Qed.

(* offered exactly as documented *)
Definition is_some {A} (o : option A) : bool := match o with Some _ => true | None => false end.
Definition doc_type_cell (l : string) (nt : numtype) : bool :=
  String.eqb l "darr" || doc_cell doc_array doc_array_columns (numtype_name nt) (doc_column l).
Definition doc_rank_cell (l : string) (row : string) : bool :=
  String.eqb l "darr" || doc_cell doc_ragged doc_ragged_columns row (doc_column l).

Definition all_offered_ok : bool :=
  forallb (fun l =>
     forallb (fun nt => forallb (fun bo => Bool.eqb (is_some (toks_of l nt bo false)) (doc_type_cell l nt)) [Little; Big])
             all_numtypes
     && doc_rank_cell l "1-D array"
     && Bool.eqb (doc_rank_cell l "N-D array") (negb (String.eqb l "python"))) array_languages.
Lemma all_offered_ok_true : all_offered_ok = true.
Proof. vm_compute. reflexivity. Qed.

Lemma plan_some : forall l nt shape bo fp v ig,
  is_some (plan_of l nt shape bo fp v ig) = is_some (toks_of l nt bo ig) && negb (String.eqb l "python" && multi shape).
Proof. intros. unfold plan_of. destruct (toks_of l nt bo ig); [|reflexivity]. destruct (String.eqb l "python" && multi shape); reflexivity. Qed.

Theorem offered_as_documented : forall l nt shape bo fp v, In l array_languages -> shape <> [] ->
  is_some (plan_of l nt shape bo fp v false) = doc_offered l nt (len shape).
Proof.
  intros l nt shape bo fp v Hl Hne. rewrite plan_some.
  pose proof all_offered_ok_true as H. unfold all_offered_ok in H. rewrite forallb_forall in H.
  specialize (H l Hl). apply andb_true_iff in H. destruct H as [H H3]. apply andb_true_iff in H. destruct H as [H1 H2].
  rewrite forallb_forall in H1. specialize (H1 nt (in_all_numtypes nt)).
  rewrite forallb_forall in H1. specialize (H1 bo ltac:(destruct bo; cbn; tauto)).
  apply eqb_prop in H1. apply eqb_prop in H3. rewrite H1.
  unfold doc_offered, doc_type_cell, doc_rank_cell, multi in *.
  destruct (String.eqb l "darr") eqn:Ed.
  - apply String.eqb_eq in Ed. subst l. reflexivity.
  - cbn [orb] in *. destruct (Z.eqb (len shape) 1) eqn:E1.
    + rewrite H2. replace (Z.ltb 1 (len shape)) with false by (symmetry; apply Z.ltb_ge; lia).
      rewrite andb_false_r. cbn. rewrite andb_true_r. reflexivity.
    + rewrite H3. destruct (String.eqb l "python") eqn:Ep; cbn.
      * unfold len in *. assert (Z.of_nat (length shape) <> 1%Z) by (apply Z.eqb_neq; exact E1).
        destruct (Z.ltb 1 (Z.of_nat (length shape))) eqn:E2; cbn; [rewrite andb_false_r; reflexivity|].
        apply Z.ltb_ge in E2. destruct shape; [contradiction|]. cbn [length] in *. lia.
      * rewrite andb_true_r. reflexivity.
Qed.

(* ---------- what a program's result must be ---------- *)
Definition lang_dims (l : string) (shape : list Z) : list Z :=
  match lang_order l with RowMajor => shape | ColMajor => rev shape end.
Definition lang_idx (l : string) (idx : list Z) : list Z :=
  match lang_order l with RowMajor => idx | ColMajor => rev idx end.

(* the value bound to the variable holds, at every index (reversed for a column-major language),
   the stored element; its type is the stored numeric type; its dimensions are the stored ones
   (reversed).  Pure Python has no complex array type: two float arrays, real and imaginary parts. *)
Definition represents (l : string) (nt : numtype) (shape : list Z) (elems : list (list Z)) (r : dres) : Prop :=
  match r with
  | DArr a => a_nt a = nt /\ a_dims a = lang_dims l shape /\
              forall idx, in_range shape idx = true -> aget a (lang_idx l idx) = stored_at shape elems idx
  | DPair re im =>
      is_complex nt = true /\ a_nt re = float_of_complex nt /\ a_nt im = float_of_complex nt /\
      a_dims re = shape /\ a_dims im = shape /\
      forall idx, in_range shape idx = true ->
        aget re idx = option_map (firstn (hsize nt)) (stored_at shape elems idx) /\
        aget im idx = option_map (skipn (hsize nt)) (stored_at shape elems idx)
  end.

Lemma rep_row : forall l nt shape elems, lang_order l = RowMajor ->
  represents l nt shape elems (DArr (mkA nt shape RowMajor elems)).
Proof.
  intros l nt shape elems Ho. cbn. unfold lang_dims, lang_idx. rewrite Ho. repeat split.
  intros idx Hi. apply aget_row, Hi.
Qed.

Lemma rep_col : forall l nt shape elems, lang_order l = ColMajor ->
  represents l nt shape elems (DArr (mkA nt (rev shape) ColMajor elems)).
Proof.
  intros l nt shape elems Ho. cbn. unfold lang_dims, lang_idx. rewrite Ho. repeat split.
  intros idx Hi. apply aget_col_rev, Hi.
Qed.

Lemma numtype_eqb_eq : forall a b, numtype_eqb a b = true -> a = b.
Proof. intros a b H. destruct a, b; try reflexivity; discriminate H. Qed.
Lemma byteorder_eqb_eq : forall a b, byteorder_eqb a b = true -> a = b.
Proof. intros a b H. destruct a, b; try reflexivity; discriminate H. Qed.

Lemma not_multi_single : forall shape, shape <> [] -> multi shape = false -> exists d, shape = [d].
Proof.
  intros [|d [|d2 r]] Hne Hm; [contradiction|exists d; reflexivity|].
  unfold multi, len in Hm. cbn [length] in Hm. apply Z.ltb_ge in Hm. lia.
Qed.
Lemma prodZ_single : forall d, prodZ [d] = d.
Proof. intros d. change (prodZ [d]) with (d * 1). lia. Qed.

Ltac eval_streq :=
  repeat match goal with
  | |- context [String.eqb ?a ?b] =>
      let r := eval vm_compute in (String.eqb a b) in
      match r with true => idtac | false => idtac end;
      change (String.eqb a b) with r
  | H : context [String.eqb ?a ?b] |- _ =>
      let r := eval vm_compute in (String.eqb a b) in
      match r with true => idtac | false => idtac end;
      change (String.eqb a b) with r in H
  end; cbn [orb andb negb] in *.

Lemma toks_facts : forall l nt bo t, toks_ok l nt bo t = true ->
  lookup (t_type t) (sem_table l) = Some (read_type l nt) /\ lookup (t_end t) (sem_endian l) = Some bo /\
  t_cplx t = workaround l nt /\ t_half t = (String.eqb l "matlab" && numtype_eqb nt Float16) /\
  (String.eqb l "matlab" && is_complex nt = true -> t_skip t = itemsize (float_of_complex nt)) /\
  (String.eqb l "scilab" = true -> scilab_fn_ok (t_fn t) (read_type l nt) = true).
Proof.
  intros l nt bo t H. unfold toks_ok in H.
  repeat (apply andb_true_iff in H; let H' := fresh "K" in destruct H as [H H']).
  destruct (lookup (t_type t) (sem_table l)) as [ty|]; [|discriminate].
  destruct (lookup (t_end t) (sem_endian l)) as [b|]; [|discriminate].
  apply andb_true_iff in H. destruct H as [Ha Hb].
  apply numtype_eqb_eq in Ha. apply byteorder_eqb_eq in Hb. subst ty b.
  repeat split.
  - apply eqb_prop. assumption.
  - apply eqb_prop. assumption.
  - intros E. rewrite E in *. apply Z.eqb_eq. assumption.
  - intros E. rewrite E in *. assumption.
Qed.

Lemma complex_of_float : forall c, is_complex c = true -> complex_of (float_of_complex c) = Some c.
Proof. destruct c; intros H; try discriminate; reflexivity. Qed.

Lemma read_n_complex_flat : forall c bo elems n, is_complex c = true -> sized c elems ->
  n = 2 * Z.of_nat (length elems) ->
  read_n (float_of_complex c) bo n (encode c bo elems) = Some (flat_pairs (hsize c) elems).
Proof.
  intros c bo elems n Hc Hsz ->. rewrite (encode_complex_flat c bo elems Hc Hsz).
  apply read_n_encode; [apply flat_pairs_sized; assumption|]. rewrite flat_pairs_length. lia.
Qed.

Lemma nth_error_map_opt : forall A B (f : A -> B) l n, nth_error (map f l) n = option_map f (nth_error l n).
Proof. intros A B f l. induction l as [|x l IH]; intros [|n]; cbn; auto. Qed.

(* ---------- the denotation theorem ---------- *)
Theorem denote_correct : forall l nt bo shape elems fp v p,
  In l array_languages -> shape <> [] ->
  Z.of_nat (length elems) = prodZ shape -> sized nt elems ->
  plan_of l nt shape bo fp v false = Some p ->
  exists r, denote p (nt, bo) (encode nt bo elems) = Some r /\ represents l nt shape elems r.
Proof.
  intros l nt bo shape elems fp v p Hl Hne Hlen Hsz Hp.
  unfold plan_of in Hp. destruct (toks_of l nt bo false) as [t|] eqn:Ht; [|discriminate].
  destruct (String.eqb l "python" && multi shape) eqn:Hpy; [discriminate|].
  injection Hp as <-.
  destruct (String.eqb l "darr") eqn:Ed.
  { apply String.eqb_eq in Ed. subst l. unfold denote. cbn [p_lang p_toks p_shape fst snd].
    eval_streq. unfold denote_darr. rewrite (read_n_encode nt bo elems _ Hsz (eq_sym Hlen)).
    eexists; split; [reflexivity|]. apply rep_row. reflexivity. }
  assert (Hd: l <> "darr") by (intros ->; discriminate Ed).
  destruct (toks_facts l nt bo t (toks_of_ok l nt bo false t Hl Hd Ht)) as (Fty & Fen & Fc & Fh & Fs & Ff).
  unfold denote. cbn [p_lang p_toks p_shape fst snd]. rewrite Ed, Fty, Fen. clear Ht.
  unfold array_languages in Hl. cbn [In] in Hl.
  repeat match type of Hl with _ \/ _ => destruct Hl as [<-|Hl] | False => contradiction end;
    try (exfalso; apply Hd; reflexivity);
    unfold read_type, workaround in *; eval_streq.
  - (* R *) rewrite prodZ_rev, (read_n_encode nt bo elems _ Hsz (eq_sym Hlen)).
    eexists; split; [reflexivity|]. apply rep_col. reflexivity.
  - (* idl *) rewrite prodZ_rev, (read_n_encode nt bo elems _ Hsz (eq_sym Hlen)).
    eexists; split; [reflexivity|]. apply rep_col. reflexivity.
  - (* julia_ver0 *) rewrite prodZ_rev, (read_n_encode nt bo elems _ Hsz (eq_sym Hlen)).
    eexists; split; [reflexivity|]. apply rep_col. reflexivity.
  - (* julia_ver1 *) rewrite prodZ_rev, (read_n_encode nt bo elems _ Hsz (eq_sym Hlen)).
    eexists; split; [reflexivity|]. apply rep_col. reflexivity.
  - (* maple *) rewrite (read_all_encode nt bo elems Hsz).
    destruct (multi shape) eqn:Hm.
    + rewrite Hlen, Z.eqb_refl. eexists; split; [reflexivity|]. apply rep_col. reflexivity.
    + destruct (not_multi_single shape Hne Hm) as [d ->]. rewrite prodZ_single in Hlen. rewrite Hlen.
      eexists; split; [reflexivity|]. apply (rep_col "maple" nt [d]). reflexivity.
  - (* mathematica *) rewrite (read_all_encode nt bo elems Hsz), Hlen, Z.eqb_refl.
    eexists; split; [reflexivity|]. apply rep_row. reflexivity.
  - (* matlab *)
    destruct (is_complex nt) eqn:Hc.
    + rewrite Fc, (complex_of_float nt Hc), (Fs eq_refl), prodZ_rev, <- Hlen, Nat2Z.id.
      rewrite (read_skip_re nt bo elems Hc Hsz), (read_skip_im nt bo elems Hc Hsz), zip_app_halves.
      eexists; split; [reflexivity|]. apply rep_col. reflexivity.
    + rewrite Fc, Fh. destruct (numtype_eqb nt Float16) eqn:E16.
      * apply numtype_eqb_eq in E16. subst nt. change (encode Float16 bo elems) with (encode UInt16 bo elems).
        rewrite prodZ_rev, (read_n_encode UInt16 bo elems _ Hsz (eq_sym Hlen)). cbn [numtype_eqb numtype_code Z.eqb].
        eexists; split; [reflexivity|]. apply rep_col. reflexivity.
      * rewrite prodZ_rev, (read_n_encode nt bo elems _ Hsz (eq_sym Hlen)).
        eexists; split; [reflexivity|]. apply rep_col. reflexivity.
  - (* numpy *) rewrite (read_all_encode nt bo elems Hsz).
    destruct (multi shape) eqn:Hm.
    + rewrite Hlen, Z.eqb_refl. eexists; split; [reflexivity|]. apply rep_row. reflexivity.
    + destruct (not_multi_single shape Hne Hm) as [d ->]. rewrite prodZ_single in Hlen. rewrite Hlen.
      eexists; split; [reflexivity|]. apply rep_row. reflexivity.
  - (* numpymemmap *) rewrite (read_n_encode nt bo elems _ Hsz (eq_sym Hlen)).
    eexists; split; [reflexivity|]. apply rep_row. reflexivity.
  - (* python *)
    destruct (not_multi_single shape Hne Hpy) as [d ->]. rewrite prodZ_single in Hlen. cbn [hd].
    rewrite Fc. destruct (is_complex nt) eqn:Hc.
    + destruct (complex_sizes nt Hc) as [H2 Hpos].
      rewrite (encode_length nt bo elems Hsz), Hlen.
      replace (d * 2 * itemsize (float_of_complex nt) =? d * itemsize nt)%Z with true by (symmetry; apply Z.eqb_eq; lia).
      cbn [negb]. rewrite (read_n_complex_flat nt bo elems _ Hc Hsz) by lia.
      rewrite evens_flat_pairs, odds_flat_pairs, !map_length, Hlen.
      eexists; split; [reflexivity|]. cbn [represents a_nt a_dims]. split; [exact Hc|]. repeat (split; [reflexivity|]).
      intros idx Hi. unfold aget, stored_at. cbn [a_dims a_ord a_flat offset]. rewrite Hi.
      split; apply nth_error_map_opt.
    + rewrite (encode_length nt bo elems Hsz), Hlen, Z.mul_1_r, Z.eqb_refl. cbn [negb].
      rewrite (read_n_encode nt bo elems _ Hsz (eq_sym Hlen)).
      eexists; split; [reflexivity|]. apply rep_row. reflexivity.
  - (* scilab *)
    rewrite (Ff eq_refl). cbn [negb]. rewrite Fc. destruct (is_complex nt) eqn:Hc.
    + rewrite (complex_of_float nt Hc), prodZ_rev, prodZ_app, prodZ_single, <- Hlen.
      rewrite (read_n_complex_flat nt bo elems _ Hc Hsz) by lia.
      rewrite evens_flat_pairs, odds_flat_pairs, zip_app_halves.
      eexists; split; [reflexivity|]. apply rep_col. reflexivity.
    + rewrite prodZ_rev, (read_n_encode nt bo elems _ Hsz (eq_sym Hlen)).
      eexists; split; [reflexivity|]. apply rep_col. reflexivity.
Qed.

(* the exact value, for every language that has an array type for the stored numeric type *)
Theorem denote_exact : forall l nt bo shape elems fp v ig p,
  In l array_languages -> l <> "python" -> shape <> [] ->
  Z.of_nat (length elems) = prodZ shape -> sized nt elems ->
  plan_of l nt shape bo fp v ig = Some p ->
  denote p (nt, bo) (encode nt bo elems) = Some (DArr (mkA nt (lang_dims l shape) (lang_order l) elems)).
Proof.
  intros l nt bo shape elems fp v ig p Hl Hnp Hne Hlen Hsz Hp.
  unfold plan_of in Hp. destruct (toks_of l nt bo ig) as [t|] eqn:Ht; [|discriminate].
  destruct (String.eqb l "python" && multi shape) eqn:Hpy; [discriminate|].
  injection Hp as <-.
  destruct (String.eqb l "darr") eqn:Ed.
  { apply String.eqb_eq in Ed. subst l. unfold denote. cbn [p_lang p_toks p_shape fst snd].
    eval_streq. unfold denote_darr. rewrite (read_n_encode nt bo elems _ Hsz (eq_sym Hlen)).
    reflexivity. }
  assert (Hd: l <> "darr") by (intros ->; discriminate Ed).
  destruct (toks_facts l nt bo t (toks_of_ok l nt bo ig t Hl Hd Ht)) as (Fty & Fen & Fc & Fh & Fs & Ff).
  unfold denote. cbn [p_lang p_toks p_shape fst snd]. rewrite Ed, Fty, Fen. clear Ht.
  unfold array_languages in Hl. cbn [In] in Hl.
  repeat match type of Hl with _ \/ _ => destruct Hl as [<-|Hl] | False => contradiction end;
    try (exfalso; apply Hd; reflexivity);
    unfold read_type, workaround in *; eval_streq.
  - (* R *) rewrite prodZ_rev, (read_n_encode nt bo elems _ Hsz (eq_sym Hlen)).
    reflexivity.
  - (* idl *) rewrite prodZ_rev, (read_n_encode nt bo elems _ Hsz (eq_sym Hlen)).
    reflexivity.
  - (* julia_ver0 *) rewrite prodZ_rev, (read_n_encode nt bo elems _ Hsz (eq_sym Hlen)).
    reflexivity.
  - (* julia_ver1 *) rewrite prodZ_rev, (read_n_encode nt bo elems _ Hsz (eq_sym Hlen)).
    reflexivity.
  - (* maple *) rewrite (read_all_encode nt bo elems Hsz).
    destruct (multi shape) eqn:Hm.
    + rewrite Hlen, Z.eqb_refl. reflexivity.
    + destruct (not_multi_single shape Hne Hm) as [d ->]. rewrite prodZ_single in Hlen. rewrite Hlen.
      reflexivity.
  - (* mathematica *) rewrite (read_all_encode nt bo elems Hsz), Hlen, Z.eqb_refl.
    reflexivity.
  - (* matlab *)
    destruct (is_complex nt) eqn:Hc.
    + rewrite Fc, (complex_of_float nt Hc), (Fs eq_refl), prodZ_rev, <- Hlen, Nat2Z.id.
      rewrite (read_skip_re nt bo elems Hc Hsz), (read_skip_im nt bo elems Hc Hsz), zip_app_halves.
      reflexivity.
    + rewrite Fc, Fh. destruct (numtype_eqb nt Float16) eqn:E16.
      * apply numtype_eqb_eq in E16. subst nt. change (encode Float16 bo elems) with (encode UInt16 bo elems).
        rewrite prodZ_rev, (read_n_encode UInt16 bo elems _ Hsz (eq_sym Hlen)). cbn [numtype_eqb numtype_code Z.eqb].
        reflexivity.
      * rewrite prodZ_rev, (read_n_encode nt bo elems _ Hsz (eq_sym Hlen)).
        reflexivity.
  - (* numpy *) rewrite (read_all_encode nt bo elems Hsz).
    destruct (multi shape) eqn:Hm.
    + rewrite Hlen, Z.eqb_refl. reflexivity.
    + destruct (not_multi_single shape Hne Hm) as [d ->]. rewrite prodZ_single in Hlen. rewrite Hlen.
      reflexivity.
  - (* numpymemmap *) rewrite (read_n_encode nt bo elems _ Hsz (eq_sym Hlen)).
    reflexivity.
  - (* python *) exfalso. apply Hnp. reflexivity.
  - (* scilab *)
    rewrite (Ff eq_refl). cbn [negb]. rewrite Fc. destruct (is_complex nt) eqn:Hc.
    + rewrite (complex_of_float nt Hc), prodZ_rev, prodZ_app, prodZ_single, <- Hlen.
      rewrite (read_n_complex_flat nt bo elems _ Hc Hsz) by lia.
      rewrite evens_flat_pairs, odds_flat_pairs, zip_app_halves.
      reflexivity.
    + rewrite prodZ_rev, (read_n_encode nt bo elems _ Hsz (eq_sym Hlen)).
      reflexivity.
Qed.

(* ---------- path, read-only, language list ---------- *)
Lemma plan_path : forall l nt shape bo fp v ig p, plan_of l nt shape bo fp v ig = Some p -> p_path p = fp /\ p_var p = v.
Proof.
  intros l nt shape bo fp v ig p H. unfold plan_of in H. destruct (toks_of l nt bo ig); [|discriminate].
  destruct (String.eqb l "python" && multi shape); [discriminate|]. injection H as <-. split; reflexivity.
Qed.

Lemma no_program_writes : forall l nt shape bo fp v ig p, In l array_languages ->
  plan_of l nt shape bo fp v ig = Some p -> writes p = false.
Proof.
  intros l nt shape bo fp v ig p Hl H. unfold plan_of in H. destruct (toks_of l nt bo ig); [|discriminate].
  destruct (String.eqb l "python" && multi shape); [discriminate|]. injection H as <-.
  unfold writes. cbn [p_lang]. unfold array_languages in Hl. cbn [In] in Hl.
  repeat match type of Hl with _ \/ _ => destruct Hl as [<-|Hl] | False => contradiction end; reflexivity.
Qed.

Lemma readcodelanguages_spec : forall nt shape bo l, shape <> [] ->
  (In l (readcodelanguages nt shape bo) <-> In l array_languages /\ doc_offered l nt (len shape) = true).
Proof.
  intros nt shape bo l Hne. unfold readcodelanguages. rewrite filter_In. split; intros [Hl H]; split; try exact Hl.
  - rewrite <- (offered_as_documented l nt shape bo "arrayvalues.bin" "a" Hl Hne).
    destruct (plan_of l nt shape bo "arrayvalues.bin" "a" false); [reflexivity|discriminate].
  - rewrite <- (offered_as_documented l nt shape bo "arrayvalues.bin" "a" Hl Hne) in H.
    destruct (plan_of l nt shape bo "arrayvalues.bin" "a" false); [reflexivity|discriminate].
Qed.

(* Scilab's a(1,:,..,:) / a(2,:,..,:) on an array whose first (fastest) axis has length 2 are the
   even / odd positions of the flat data: the shortcut used in Readcode.denote *)
Lemma nth_error_evens : forall (l : list (list Z)) n, nth_error (evens l) n = nth_error l (2 * n).
Proof.
  fix IH 1. intros [|x [|y l]] [|n]; try reflexivity.
  - replace (2 * S n)%nat with (S (S (2 * n))) by lia. cbn. destruct n; reflexivity.
  - cbn [evens]. replace (2 * S n)%nat with (S (S (2 * n))) by lia. cbn [nth_error]. apply IH.
Qed.
Lemma nth_error_odds : forall (l : list (list Z)) n, nth_error (odds l) n = nth_error l (2 * n + 1).
Proof.
  fix IH 1. intros [|x [|y l]] [|n]; try reflexivity.
  - replace (2 * S n + 1)%nat with (S (S (2 * n + 1))) by lia. reflexivity.
  - cbn [odds]. replace (2 * S n + 1)%nat with (S (S (2 * n + 1))) by lia. cbn [nth_error]. apply IH.
Qed.

Lemma colmajor_nonneg : forall dims idx, in_range dims idx = true -> 0 <= colmajor_off dims idx.
Proof.
  induction dims as [|d ds IH]; intros [|i is_] H; cbn in H; try discriminate.
  apply andb_true_iff in H. destruct H as [H Hr]. apply andb_true_iff in H. destruct H as [H0 H1].
  apply Z.leb_le in H0. apply Z.ltb_lt in H1. cbn [colmajor_off]. specialize (IH _ Hr). nia.
Qed.

Lemma scilab_pair_axis : forall t dims fl idx, in_range dims idx = true ->
  aget (mkA t (2 :: dims) ColMajor fl) (0 :: idx) = aget (mkA t dims ColMajor (evens fl)) idx /\
  aget (mkA t (2 :: dims) ColMajor fl) (1 :: idx) = aget (mkA t dims ColMajor (odds fl)) idx.
Proof.
  intros t dims fl idx H. pose proof (colmajor_nonneg dims idx H) as Hn.
  unfold aget. cbn [a_dims a_ord a_flat offset in_range colmajor_off]. rewrite H.
  change (Z.leb 0 0 && Z.ltb 0 2 && true) with true. change (Z.leb 0 1 && Z.ltb 1 2 && true) with true. cbn iota.
  rewrite nth_error_evens, nth_error_odds. split; f_equal; lia.
Qed.
