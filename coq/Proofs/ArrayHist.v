(* ArrayHist.v -- lifting the one-step simulation to every history, and the
   corollaries the properties need. *)
From Coq Require Import ZArith List Bool Lia.
From Darr Require Import Base ArrayModel Spec Proofs.ListLemmas Proofs.ArrayRefine.
Import ListNotations.
Open Scope Z_scope.

Fixpoint wf_ops (s : sarr) (os : list aop) : Prop :=
  match os with [] => True | o :: os' => wf_op s o /\ wf_ops (snd (spec_step s o)) os' end.

(* outcomes of a history, step by step *)
Fixpoint run_outs (w : world) (os : list aop) : list bool :=
  match os with [] => [] | o :: os' => is_ok (fst (step w o)) :: run_outs (snd (step w o)) os' end.
Fixpoint spec_outs (s : sarr) (os : list aop) : list bool :=
  match os with [] => [] | o :: os' => fst (spec_step s o) :: spec_outs (snd (spec_step s o)) os' end.

Theorem run_refines : forall os w s,
  Rel w s -> wf_ops s os ->
  run_outs w os = spec_outs s os /\ Rel (run w os) (spec_run s os).
Proof.
  induction os as [|o os IH]; intros w s HR Hwf; cbn [run_outs spec_outs run spec_run fold_left].
  - split; [reflexivity|exact HR].
  - destruct Hwf as [Hwo Hwos]. destruct (step_refines w s o HR Hwo) as [Hok HR'].
    destruct (IH _ _ HR' Hwos) as [Houts HRf]. split; [rewrite Hok, Houts; reflexivity|exact HRf].
Qed.

(* a freshly opened handle shows what the live one shows *)
Theorem fresh_agrees : forall w s m, Rel w s ->
  open_dir (snd w) m = Ok (mkHandle m (h_nt (fst w)) (h_bo (fst w)) (h_shape (fst w))) /\
  view_of (snd w) = Some (s_nt s, s_bo s, s_shape s, concat (s_rows s)).
Proof.
  intros [h d] s m HR. pose proof HR as (Hdat & Hds & Hrm & Hme & (Hhm & Hhn & Hhb & Hhs) & _).
  cbn [fst snd] in *. split.
  - rewrite (open_rel h d s m HR), Hhn, Hhb, Hhs. reflexivity.
  - unfold view_of. rewrite (open_rel h d s R HR), Hdat. reflexivity.
Qed.

(* append never changes stored bytes; truncate keeps exactly a prefix *)
Lemma spec_append_prefix : forall s cs, exists g,
  s_rows (snd (spec_step s (OpIterAppend cs))) = s_rows s ++ g.
Proof.
  intros s cs. cbn [spec_step]. destruct (s_mode s); [exists []; rewrite app_nil_r; reflexivity|].
  destruct (good_prefix (s_tail s) cs) as [g f]. exists g. reflexivity.
Qed.

Lemma spec_truncate_prefix : forall s idx, exists k,
  s_rows (snd (spec_step s (OpTruncate idx))) = firstn k (s_rows s).
Proof.
  intros s idx. cbn [spec_step]. destruct (s_mode s); [exists (length (s_rows s)); rewrite firstn_all; reflexivity|].
  destruct idx as [i|]; [|exists (length (s_rows s)); rewrite firstn_all; reflexivity].
  destruct ((0 <=? slice_len i (s_len s)) && (slice_len i (s_len s) <? s_len s)).
  - eexists. reflexivity.
  - exists (length (s_rows s)). rewrite firstn_all. reflexivity.
Qed.

Theorem append_prefix_stable : forall w s cs, Rel w s -> wf_op s (OpIterAppend cs) ->
  exists old tail_, a_data (snd w) = Some old /\
                    a_data (snd (snd (step w (OpIterAppend cs)))) = Some (old ++ tail_).
Proof.
  intros w s cs HR Hwf. destruct (step_refines w s _ HR Hwf) as [_ HR'].
  destruct HR as (Hdat & _). destruct HR' as (Hdat' & _).
  destruct (spec_append_prefix s cs) as [g Hg]. rewrite Hg, concat_app in Hdat'.
  exists (concat (s_rows s)), (concat g). split; assumption.
Qed.

Lemma firstn_concat_prefix : forall (rows : list (list Z)) k, exists n,
  concat (firstn k rows) = firstn n (concat rows).
Proof.
  induction rows as [|r rows IH]; intros k.
  - exists 0%nat. rewrite firstn_nil. reflexivity.
  - destruct k as [|k]; [exists 0%nat; reflexivity|]. destruct (IH k) as [n Hn].
    exists (length r + n)%nat. cbn [firstn concat]. rewrite Hn, firstn_app.
    rewrite (@firstn_all2 Z (length r + n) r) by lia. replace (length r + n - length r)%nat with n by lia. reflexivity.
Qed.

Theorem truncate_keeps_prefix : forall w s idx, Rel w s ->
  exists old n, a_data (snd w) = Some old /\
                a_data (snd (snd (step w (OpTruncate idx)))) = Some (firstn n old).
Proof.
  intros w s idx HR. destruct (step_refines w s (OpTruncate idx) HR I) as [_ HR'].
  destruct HR as (Hdat & _). destruct HR' as (Hdat' & _).
  destruct (spec_truncate_prefix s idx) as [k Hk]. rewrite Hk in Hdat'.
  destruct (firstn_concat_prefix (s_rows s) k) as [n Hn]. rewrite Hn in Hdat'.
  exists (concat (s_rows s)), n. split; assumption.
Qed.

(* rejected calls leave the state unchanged (truncate, assignment, single append) *)
Definition single_append (c : chunk) := OpIterAppend [c].

Lemma spec_rejected_unchanged : forall s o,
  (exists i, o = OpTruncate i) \/ (exists x, o = OpSetItem x) \/ (exists c, o = single_append c) ->
  fst (spec_step s o) = false -> snd (spec_step s o) = s.
Proof.
  intros s o [[i ->]|[[x ->]|[c ->]]]; cbn [spec_step single_append].
  - destruct (s_mode s); [reflexivity|]. destruct i as [i|]; [|reflexivity].
    destruct ((0 <=? slice_len i (s_len s)) && (slice_len i (s_len s) <? s_len s)); [discriminate|reflexivity].
  - destruct (s_mode s); [reflexivity|]. destruct x; [discriminate|reflexivity].
  - destruct (s_mode s); [reflexivity|].
    destruct c as [t rows| | |t rows k]; cbn [good_prefix]; try (intros _; apply with_rows_same).
    destruct (tails_eqb t (s_tail s)); [cbn; discriminate|intros _; apply with_rows_same].
Qed.

Theorem rejected_unchanged : forall w s o, Rel w s -> wf_op s o ->
  (exists i, o = OpTruncate i) \/ (exists x, o = OpSetItem x) \/ (exists c, o = single_append c) ->
  is_ok (fst (step w o)) = false -> Rel (snd (step w o)) s.
Proof.
  intros w s o HR Hwf Ho Hfail. destruct (step_refines w s o HR Hwf) as [Hok HR'].
  rewrite Hok in Hfail. rewrite (spec_rejected_unchanged s o Ho Hfail) in HR'. exact HR'.
Qed.

(* what the property calls rejected: wrong trailing shape / rank, non-int index,
   an index for which a[:index] is not strictly shorter *)
Theorem rejections : forall s,
  s_mode s = RW ->
  (forall t rows, t <> s_tail s -> fst (spec_step s (single_append (CGood t rows))) = false) /\
  fst (spec_step s (OpTruncate None)) = false /\
  (forall i, ~ (0 <= slice_len i (s_len s) < s_len s) -> fst (spec_step s (OpTruncate (Some i))) = false) /\
  (forall i, 0 <= slice_len i (s_len s) < s_len s -> fst (spec_step s (OpTruncate (Some i))) = true).
Proof.
  intros s Hm. cbn [spec_step single_append]. rewrite Hm. repeat split.
  - intros t rows Ht. cbn [good_prefix]. destruct (tails_eqb t (s_tail s)) eqn:E; [|reflexivity].
    apply tails_eqb_spec in E. contradiction.
  - intros i Hi. destruct ((0 <=? slice_len i (s_len s)) && (slice_len i (s_len s) <? s_len s)) eqn:E; [|reflexivity].
    apply andb_true_iff in E. destruct E as [E1 E2]. apply Z.leb_le in E1. apply Z.ltb_lt in E2. lia.
  - intros i Hi. destruct ((0 <=? slice_len i (s_len s)) && (slice_len i (s_len s) <? s_len s)) eqn:E; [reflexivity|].
    apply andb_false_iff in E. destruct E as [E|E]; [apply Z.leb_gt in E|apply Z.ltb_ge in E]; lia.
Qed.

(* C09: a failed append leaves original ++ completely appended chunks, and opens *)
Theorem failed_append : forall w s cs g,
  Rel w s -> s_mode s = RW -> wf_op s (OpIterAppend cs) ->
  good_prefix (s_tail s) cs = (g, true) ->
  let w' := snd (step w (OpIterAppend cs)) in
  is_ok (fst (step w (OpIterAppend cs))) = false /\
  Rel w' (with_rows s (s_rows s ++ g)) /\
  (forall m, is_ok (open_dir (snd w') m) = true).
Proof.
  intros w s cs g HR Hm Hwf HG w'.
  destruct (step_refines w s _ HR Hwf) as [Hok HR']. cbn [spec_step] in Hok, HR'.
  rewrite Hm, HG in Hok, HR'. cbn [fst snd negb] in Hok, HR'. fold w' in HR'.
  split; [exact Hok|split; [exact HR'|]].
  intros m. clearbody w'. destruct w' as [h' d']. cbn [snd]. rewrite (open_rel _ _ _ m HR'). reflexivity.
Qed.

(* read-only: every mutating operation raises OSError and leaves every file alone *)
Definition mutating (d : adir) (o : aop) : bool :=
  match o with
  | OpIterAppend _ | OpTruncate _ | OpSetItem _ | OpMetaSet | OpMetaPop => true
  | OpMetaClear => a_meta d
  | OpSetMode _ | OpReopen _ => false
  end.

Theorem readonly_refuses : forall h d o,
  h_mode h = R -> mutating d o = true -> exec (h, d) o = (Err OSError, h, []).
Proof.
  intros h d o Hm Hmut. destruct o; cbn [exec mutating] in *; try discriminate.
  - unfold iterappend. rewrite Hm. reflexivity.
  - unfold truncate. rewrite Hm. reflexivity.
  - unfold setitem. rewrite Hm. reflexivity.
  - unfold meta_set. rewrite Hm. reflexivity.
  - unfold meta_clear. rewrite Hmut, Hm. reflexivity.
  - unfold meta_pop. rewrite Hm. reflexivity.
Qed.

Corollary readonly_unchanged : forall h d o,
  h_mode h = R -> mutating d o = true -> step (h, d) o = (Err OSError, (h, d)).
Proof. intros h d o Hm Hmut. unfold step. rewrite (readonly_refuses h d o Hm Hmut). reflexivity. Qed.
