(* General list facts used by the Array/Ragged proofs. *)
From Coq Require Import ZArith List Bool Lia.
Import ListNotations.
Open Scope Z_scope.

Lemma concat_rows_length : forall (rows : list (list Z)) rb,
  Forall (fun r => Z.of_nat (length r) = rb) rows ->
  Z.of_nat (length (concat rows)) = Z.of_nat (length rows) * rb.
Proof.
  induction rows as [|r rows IH]; intros rb H; cbn [concat length]; [lia|].
  inversion H as [|? ? Hr Hrows]; subst. rewrite app_length, Nat2Z.inj_add, (IH _ Hrows). lia.
Qed.

Lemma firstn_app_exact : forall A (a b : list A) n, n = length a -> firstn n (a ++ b) = a.
Proof.
  intros A a b n ->. rewrite firstn_app, Nat.sub_diag, firstn_all. cbn. apply app_nil_r.
Qed.

Lemma firstn_concat_rows : forall (rows : list (list Z)) rb k,
  Forall (fun r => length r = rb) rows ->
  firstn (k * rb) (concat rows) = concat (firstn k rows).
Proof.
  induction rows as [|r rows IH]; intros rb k H.
  - rewrite firstn_nil. cbn. rewrite firstn_nil. reflexivity.
  - inversion H as [|? ? Hr Hrows]; subst. destruct k as [|k]; [reflexivity|].
    cbn [concat firstn Nat.mul]. rewrite firstn_app.
    replace (length r + k * length r - length r)%nat with (k * length r)%nat by lia.
    rewrite (IH _ _ Hrows). rewrite firstn_all2 by lia. reflexivity.
Qed.

Fixpoint unconcat_ (n rb : nat) (l : list Z) : list (list Z) :=
  match n with O => [] | S n' => firstn rb l :: unconcat_ n' rb (skipn rb l) end.

Lemma unconcat_spec : forall n rb l, length l = (n * rb)%nat ->
  concat (unconcat_ n rb l) = l /\ Forall (fun r => length r = rb) (unconcat_ n rb l)
  /\ length (unconcat_ n rb l) = n.
Proof.
  induction n as [|n IH]; intros rb l H; cbn [unconcat_ concat].
  - destruct l; [|discriminate]. repeat split. constructor.
  - assert (Hs: length (skipn rb l) = (n * rb)%nat) by (rewrite skipn_length; lia).
    destruct (IH rb _ Hs) as (H1 & H2 & H3). rewrite H1, firstn_skipn. repeat split.
    + constructor; [rewrite firstn_length; lia|exact H2].
    + cbn. rewrite H3. reflexivity.
Qed.

Lemma fold_left_app_eff : forall A B (f : A -> B -> A) l1 l2 a,
  fold_left f (l1 ++ l2) a = fold_left f l2 (fold_left f l1 a).
Proof. intros. apply fold_left_app. Qed.
