(* RCrashSafe.v -- crash safety of RaggedArray.iterappend/append (incl. recovery) and
   truncate_raggedarray. *)
From Coq Require Import ZArith List Bool Lia.
From Darr Require Import Base ArrayModel RaggedModel Spec Crash Proofs.ListLemmas Proofs.ArrayRefine
     Proofs.ArrayHist Proofs.CrashSafe Proofs.RaggedBase Proofs.RaggedRefine Proofs.RaggedProps.
Import ListNotations.
Open Scope Z_scope.

(* ---------- what a related directory shows ---------- *)

Lemma slices_chain : forall (subs : list (list (list Z))) (pre : list (list Z)) rb (rest : list Z),
  Forall (fun r => length r = rb) pre -> Forall (fun r => length r = rb) (concat subs) ->
  map (fun r => zslice_bytes (concat pre ++ concat (concat subs) ++ rest) (fst r) (snd r) (Z.of_nat rb))
      (chain_from (Z.of_nat (length pre)) (map (fun s => Z.of_nat (length s)) subs))
  = map (@concat Z) subs.
Proof.
  induction subs as [|sub subs IH]; intros pre rb rest Hpre Hsubs; [reflexivity|].
  cbn [map chain_from concat] in *. apply Forall_app in Hsubs. destruct Hsubs as [Hsub Hsubs].
  f_equal.
  - cbn [fst snd]. unfold zslice_bytes.
    replace (Z.to_nat (Z.of_nat (length pre) * Z.of_nat rb)) with (length pre * rb)%nat by lia.
    replace (Z.to_nat ((Z.of_nat (length pre) + Z.of_nat (length sub) - Z.of_nat (length pre)) * Z.of_nat rb))
      with (length sub * rb)%nat by nia.
    assert (Hl: length (concat pre) = (length pre * rb)%nat).
    { apply Nat2Z.inj. rewrite (concat_rows_length _ (Z.of_nat rb)); [lia|].
      eapply Forall_impl; [|exact Hpre]. cbn. intros; lia. }
    rewrite skipn_app, <- Hl, skipn_all, Nat.sub_diag. cbn [skipn app].
    rewrite concat_app, <- app_assoc. apply firstn_app_exact.
    apply Nat2Z.inj. rewrite (concat_rows_length _ (Z.of_nat rb)); [lia|].
    eapply Forall_impl; [|exact Hsub]. cbn. intros; lia.
  - specialize (IH (pre ++ sub) rb rest).
    rewrite app_length, Nat2Z.inj_add in IH. rewrite concat_app in IH |- *.
    rewrite <- !app_assoc in IH |- *. apply IH; [apply Forall_app; split; assumption|exact Hsubs].
Qed.

Lemma rview_rel : forall h d g, RRel (h, d) g ->
  rview_of d = Some (g_nt g, g_bo g, g_atom g, map (@concat Z) (g_subs g)).
Proof.
  intros h d g (HV & HI & _ & _ & _ & _ & _ & Hty & Hb). cbn [fst snd] in *.
  unfold rview_of. rewrite (view_rel _ _ _ HV), (view_rel _ _ _ HI).
  rewrite (index_rows_rel _ _ _ _ _ Hty HI (idx_bounds g Hb)).
  unfold view_rows. cbn [s_nt s_bo s_tail sv_of tl]. f_equal. f_equal.
  destruct HV as (_ & _ & _ & _ & _ & Hrows & Hrb & _). cbn [s_rows sv_of] in Hrows.
  change (prodZ (g_atom g) * itemsize (g_nt g)) with (s_rb (sv_of g)). unfold idx_of, g_lens.
  set (rb := Z.to_nat (s_rb (sv_of g))).
  replace (s_rb (sv_of g)) with (Z.of_nat rb) by (subst rb; lia).
  pose proof (slices_chain (g_subs g) [] rb []) as S. cbn [concat length app] in S.
  rewrite app_nil_r in S. apply S; [constructor|].
  eapply Forall_impl; [|exact Hrows]. cbn. intros r0 Hr. subst rb. lia.
Qed.

(* ---------- views depend on description and data only ---------- *)
Definition same_core (a b : adir) : Prop := a_descr a = a_descr b /\ a_data a = a_data b.

Lemma view_of_ext : forall a b, same_core a b -> view_of a = view_of b.
Proof. intros a b [H1 H2]. unfold view_of, open_dir. rewrite H1, H2. reflexivity. Qed.
Lemma index_rows_ext : forall a b, same_core a b -> index_rows a = index_rows b.
Proof. intros a b [H1 H2]. unfold index_rows, open_dir. rewrite H1, H2. reflexivity. Qed.
Lemma rview_ext : forall s1 s2,
  same_core (r_values s1) (r_values s2) -> same_core (r_indices s1) (r_indices s2) ->
  rview_of s1 = rview_of s2.
Proof.
  intros s1 s2 Hv Hi. unfold rview_of.
  rewrite (view_of_ext _ _ Hv), (view_of_ext _ _ Hi), (index_rows_ext _ _ Hi). reflexivity.
Qed.
Lemma rview_none_v : forall st, view_of (r_values st) = None -> rview_of st = None.
Proof. intros st H. unfold rview_of. rewrite H. reflexivity. Qed.
Lemma rview_none_i : forall st, view_of (r_indices st) = None -> rview_of st = None.
Proof.
  intros st H. unfold rview_of. rewrite H. destruct (view_of (r_values st)) as [[[[? ?] ?] ?]|]; reflexivity.
Qed.

(* old description, data = the described rows plus extra bytes z: opens only if z = [] *)
Lemma view_extra_z : forall st s z,
  Forall (fun r => Z.of_nat (length r) = s_rb s) (s_rows s) ->
  a_descr st = Val (descr_of s) -> a_data st = Some (concat (s_rows s) ++ z) ->
  view_of st = None \/ z = [].
Proof.
  intros st s z Hrows Hds Hdat. unfold view_of, open_dir. rewrite Hds, Hdat. cbn [d_shape d_nt d_bo descr_of].
  destruct (shape_ok (s_shape s)); cbn [negb]; [|left; reflexivity].
  unfold s_shape at 1. rewrite prod_shape. fold (s_rb s).
  rewrite app_length, Nat2Z.inj_add, (concat_rows_length _ _ Hrows). unfold s_len.
  destruct (Z.of_nat (length (s_rows s)) * s_rb s + Z.of_nat (length z) =? Z.of_nat (length (s_rows s)) * s_rb s) eqn:E;
    [|left; reflexivity].
  apply Z.eqb_eq in E. right. destruct z; [reflexivity|cbn in E; lia].
Qed.

(* ---------- the phase in which both descriptions are still the old ones ---------- *)
Definition okeff (lv li : nat) (e : reff) : Prop :=
  match e with
  | RV (EAppendData _) | RI (EAppendData _) => True
  | RV (ETruncData n) => (lv <= Z.to_nat n)%nat
  | RI (ETruncData n) => (li <= Z.to_nat n)%nat
  | _ => False
  end.

Definition old_form (d : rdir) (oldv oldi zv zi : list Z) : rdir :=
  mkRDir (set_data (r_values d) (Some (oldv ++ zv))) (set_data (r_indices d) (Some (oldi ++ zi)))
         (r_descr d) (r_readme d) (r_meta d).

Lemma old_form_same : forall d oldv oldi zv zi,
  a_data (r_values d) = Some (oldv ++ zv) -> a_data (r_indices d) = Some (oldi ++ zi) ->
  old_form d oldv oldi zv zi = d.
Proof.
  intros [[dv ? ? ?] [di ? ? ?] ? ? ?] oldv oldi zv zi Hv Hi. cbn in *. subst. reflexivity.
Qed.

Lemma firstn_keep_prefix : forall (old z : list Z) n, (length old <= n)%nat ->
  firstn n (old ++ z) = old ++ firstn (n - length old) z.
Proof. intros old z n H. rewrite firstn_app, firstn_all2 by lia. reflexivity. Qed.

Lemma rphase_old : forall es d oldv oldi zv zi rest st,
  Forall (okeff (length oldv) (length oldi)) es ->
  a_data (r_values d) = Some (oldv ++ zv) -> a_data (r_indices d) = Some (oldi ++ zi) ->
  rcrash d (es ++ rest) st ->
  (exists zv' zi', st = old_form d oldv oldi zv' zi') \/ rcrash (apply_reffs es d) rest st.
Proof.
  induction es as [|e es IH]; intros d oldv oldi zv zi rest st Hok Hv Hi H; [right; exact H|].
  inversion Hok as [|? ? He Hes]; subst. cbn [app] in H.
  inversion H as [ | ? ? ? ? Ht | ? ? ? ? Hc ]; subst.
  - left. exists zv, zi. symmetry. apply old_form_same; assumption.
  - left. destruct e as [x|x| | | |]; try contradiction; destruct x; try contradiction;
      inversion Ht as [? ? ? Ht'| ? ? ? Ht'| |]; subst; inversion Ht'; subst.
    + exists (zv ++ p), zi. unfold old_form. rewrite Hv. cbn [option_map]. rewrite <- app_assoc.
      f_equal. destruct d as [dv di ? ? ?]. cbn in *. destruct di; cbn in *. subst. reflexivity.
    + exists zv, (zi ++ p). unfold old_form. rewrite Hi. cbn [option_map]. rewrite <- app_assoc.
      f_equal. destruct d as [dv di ? ? ?]. cbn in *. destruct dv; cbn in *. subst. reflexivity.
  - assert (Hstep: exists zv1 zi1,
              a_data (r_values (apply_reff e d)) = Some (oldv ++ zv1) /\
              a_data (r_indices (apply_reff e d)) = Some (oldi ++ zi1) /\
              forall a b, old_form (apply_reff e d) oldv oldi a b = old_form d oldv oldi a b).
    { destruct e as [x|x| | | |]; try contradiction; destruct x; try contradiction; cbn [okeff] in He;
        cbn [apply_reff apply_eff r_values r_indices a_data].
      - exists (zv ++ bs), zi. rewrite Hv. cbn [option_map]. rewrite <- app_assoc. repeat split; try assumption.
      - exists (firstn (Z.to_nat n - length oldv) zv), zi. rewrite Hv. cbn [option_map].
        rewrite firstn_keep_prefix by exact He. repeat split; try assumption.
      - exists zv, (zi ++ bs). rewrite Hi. cbn [option_map]. rewrite <- app_assoc. repeat split; try assumption.
      - exists zv, (firstn (Z.to_nat n - length oldi) zi). rewrite Hi. cbn [option_map].
        rewrite firstn_keep_prefix by exact He. repeat split; try assumption. }
    destruct Hstep as (zv1 & zi1 & Hv1 & Hi1 & Hof).
    destruct (IH _ _ _ _ _ _ _ Hes Hv1 Hi1 Hc) as [(a & b & ->)|Hr].
    + left. exists a, b. apply Hof.
    + right. exact Hr.
Qed.

(* the component state after the appends and the optional truncation *)
Lemma sub_state : forall h d s g junk (failed : bool),
  Rel (h, d) s -> Forall (fun r => Z.of_nat (length r) = s_rb s) g ->
  (failed = false -> junk = []) ->
  apply_effs (if failed
              then [ETruncData ((lenof (h_shape h) + Z.of_nat (length g)) * rowbytes (h_nt h) (h_shape h))]
              else [])
             (mkDir (Some (concat (s_rows s) ++ concat g ++ junk)) (a_descr d) (a_readme d) (a_meta d))
  = mkDir (Some (concat (s_rows s ++ g))) (a_descr d) (a_readme d) (a_meta d).
Proof.
  intros h d s g junk failed HR Hg Hj.
  pose proof HR as (Hdat & Hds & Hrm & Hme & (Hhm & Hhn & Hhb & Hhs) & Hrows & Hrb & Htl). cbn [fst snd] in *.
  assert (Hall: Forall (fun r => Z.of_nat (length r) = s_rb s) (s_rows s ++ g)) by (apply Forall_app; split; assumption).
  destruct failed.
  - cbn [apply_effs fold_left apply_eff a_data a_descr a_readme a_meta option_map]. f_equal. f_equal.
    rewrite app_assoc, <- concat_app. apply firstn_app_exact.
    apply Nat2Z.inj. rewrite (concat_rows_length _ _ Hall). unfold rowbytes. rewrite Hhs, Hhn. cbn [s_shape tl lenof hd].
    fold (s_rb s). rewrite app_length, Nat2Z.inj_add. rewrite Z2Nat.id; [unfold s_len; reflexivity|].
    unfold s_len. nia.
  - rewrite (Hj eq_refl), app_nil_r, <- concat_app. reflexivity.
Qed.

Lemma sub_update : forall h d s g,
  Rel (h, d) s -> Forall (fun r => Z.of_nat (length r) = s_rb s) g ->
  let d2 := mkDir (Some (concat (s_rows s ++ g))) (a_descr d) (a_readme d) (a_meta d) in
  let s' := with_rows s (s_rows s ++ g) in
  exists h', update_len h d2 (Z.of_nat (length g)) =
               Ok (h', [EWriteDescr (descr_of s'); EWriteReadme (descr_of s', a_meta d)]) /\
             Rel (h', apply_effs [EWriteDescr (descr_of s'); EWriteReadme (descr_of s', a_meta d)] d2) s'.
Proof.
  intros h d s g HR Hg d2 s'.
  pose proof HR as (Hdat & Hds & Hrm & Hme & (Hhm & Hhn & Hhb & Hhs) & Hrows & Hrb & Htl). cbn [fst snd] in *.
  unfold update_len. subst d2. cbn [a_descr a_meta]. rewrite Hds.
  assert (Hshape: set_len (h_shape h) (lenof (h_shape h) + Z.of_nat (length g)) = s_shape s').
  { rewrite Hhs. cbn [s_shape set_len lenof hd]. unfold s_shape, s_len. subst s'.
    cbn [s_rows s_tail with_rows]. rewrite app_length, Nat2Z.inj_add. reflexivity. }
  rewrite Hshape. eexists. split; [reflexivity|].
  unfold Rel. cbn [fst snd apply_effs fold_left apply_eff a_data a_descr a_readme a_meta h_mode h_nt h_bo h_shape].
  repeat split; try assumption.
  - rewrite Hme. reflexivity.
  - apply Forall_app; split; assumption.
Qed.

Definition after_append (g : srag) (its : list ritem) : srag :=
  g_with_subs g (g_subs g ++ fst (rgood_prefix (g_atom g) (index_max (g_ity g)) (g_nrows g) its)).

(* the shape of the effect list of RaggedArray.iterappend *)
Lemma riterappend_struct : forall h d g its r h' es,
  RRel (h, d) g -> g_mode g = RW -> Forall (wf_ritem g) its ->
  riterappend h d its = (r, h', es) ->
  let g' := after_append g its in
  exists pre info f,
    es = pre ++ [RV (EWriteDescr (descr_of (sv_of g'))); RV (EWriteReadme (descr_of (sv_of g'), false));
                 RI (EWriteDescr (descr_of (si_of g'))); RI (EWriteReadme (descr_of (si_of g'), false));
                 RWriteDescr info; RWriteReadme f] /\
    Forall (okeff (length (concat (s_rows (sv_of g)))) (length (concat (s_rows (si_of g))))) pre /\
    r_values (apply_reffs pre d) = mkDir (Some (concat (s_rows (sv_of g')))) (Val (descr_of (sv_of g)))
                                         (Val (descr_of (sv_of g), false)) false /\
    r_indices (apply_reffs pre d) = mkDir (Some (concat (s_rows (si_of g')))) (Val (descr_of (si_of g)))
                                          (Val (descr_of (si_of g), false)) false /\
    r_descr (apply_reffs pre d) = r_descr d /\ r_readme (apply_reffs pre d) = r_readme d /\
    r_meta (apply_reffs pre d) = r_meta d.
Proof.
  intros h d g its r h' es HRR Hm Hwf Hex g'.
  pose proof HRR as (HV & HI & Hd & Hinfo & Hrm & Hme & Hmode & Hty & Hb). cbn [fst snd] in *.
  unfold riterappend in Hex. rewrite Hmode, Hm in Hex.
  pose proof HV as (Hvdat & Hvds & Hvrm & Hvme & (Hvm & Hvn & Hvb & Hvs) & Hvrows & Hvrb & Hvtl).
  pose proof HI as (Hidat & Hids & Hirm & Hime & (Him & Hin & Hib & His) & Hirows & Hirb & Hitl).
  cbn [fst snd] in *.
  assert (Hvlen: lenof (h_shape (rh_v h)) = g_nrows g) by (rewrite Hvs; reflexivity).
  assert (Hvtail: tl (h_shape (rh_v h)) = g_atom g) by (rewrite Hvs; reflexivity).
  assert (Hity: h_nt (rh_i h) = g_ity g) by (rewrite Hin; reflexivity).
  unfold after_append in g'.
  destruct (rgood_prefix (g_atom g) (index_max (g_ity g)) (g_nrows g) its) as [good f] eqn:HG.
  cbn [fst] in g'.
  destruct (rappend_loop h its (lenof (h_shape (rh_v h))) 0 0) as [[[es0 vinc] iinc] failed] eqn:HL.
  assert (HG': rgood_prefix (tl (h_shape (rh_v h))) (index_max (h_nt (rh_i h)))
                 (lenof (h_shape (rh_v h)) + 0) its = (good, f)).
  { rewrite Hvtail, Hity, Hvlen, Z.add_0_r. exact HG. }
  destruct (rappend_loop_spec _ _ _ _ _ _ _ _ _ _ _ HL HG')
    as (Hf & Hvinc & Hiinc & Hso & Hav & Hai & vj & ij & Pv & Pi & Hj).
  subst failed. rewrite Z.add_0_l in Hvinc, Hiinc. rewrite Hvlen, Z.add_0_r, Hity in Pi.
  destruct (rgood_prefix_wf g its _ _ _ Hwf HG) as [Hgw Hgb]. specialize (Hgb Hb).
  set (tr := if f
             then [RV (ETruncData ((lenof (h_shape (rh_v h)) + vinc) * rowbytes (h_nt (rh_v h)) (h_shape (rh_v h))));
                   RI (ETruncData ((lenof (h_shape (rh_i h)) + iinc) * rowbytes (h_nt (rh_i h)) (h_shape (rh_i h))))]
             else []) in *.
  set (d2 := apply_reffs (es0 ++ tr) d) in *.
  set (newidx := chain_from (g_nrows g) (map (fun s => Z.of_nat (length s)) good)) in *.
  assert (Hiw: Forall (fun r0 => Z.of_nat (length r0) = s_rb (si_of g)) (map (enc_row (g_ity g)) newidx)).
  { apply Forall_forall. intros r0 Hr. apply in_map_iff in Hr. destruct Hr as (x & <- & _).
    rewrite enc_row_length. unfold s_rb. cbn. destruct (itemsize (g_ity g)); reflexivity. }
  assert (Hlen: Z.of_nat (length (map (enc_row (g_ity g)) newidx)) = iinc).
  { subst newidx. rewrite map_length, chain_from_length, map_length. lia. }
  assert (Hsv': s_rows (sv_of g') = s_rows (sv_of g) ++ concat good).
  { subst g'. cbn. rewrite concat_app. reflexivity. }
  assert (Hsi': s_rows (si_of g') = s_rows (si_of g) ++ map (enc_row (g_ity g)) newidx).
  { subst g' newidx. unfold si_of, idx_of, g_lens. cbn. rewrite map_app, chain_from_app, map_app, sum_lens_concat. reflexivity. }
  assert (Hd2v: r_values d2 = mkDir (Some (concat (s_rows (sv_of g')))) (a_descr (r_values d)) (a_readme (r_values d)) (a_meta (r_values d))).
  { subst d2. rewrite r_values_apply, vproj_app, apply_effs_app, (apply_appends _ _ Hav), Pv, Hvdat.
    cbn [option_map]. rewrite Hsv'. rewrite <- (sub_state (rh_v h) (r_values d) (sv_of g) (concat good) vj f HV Hgw (fun E => proj1 (Hj E))).
    subst tr. rewrite Hvinc. destruct f; reflexivity. }
  assert (Hd2i: r_indices d2 = mkDir (Some (concat (s_rows (si_of g')))) (a_descr (r_indices d)) (a_readme (r_indices d)) (a_meta (r_indices d))).
  { subst d2. rewrite r_indices_apply, iproj_app, apply_effs_app, (apply_appends _ _ Hai), Pi, Hidat.
    cbn [option_map]. rewrite Hsi'.
    rewrite <- (sub_state (rh_i h) (r_indices d) (si_of g) (map (enc_row (g_ity g)) newidx) ij f HI Hiw (fun E => proj2 (Hj E))).
    subst tr. rewrite Hlen. destruct f; reflexivity. }
  assert (Htrso: sub_only (es0 ++ tr)).
  { apply Forall_app. split; [exact Hso|]. subst tr. destruct f; repeat constructor. }
  destruct (sub_only_top _ d Htrso) as (T1 & T2 & T3). fold d2 in T1, T2, T3.
  (* update_lens succeeds (as in riterappend_refines) *)
  assert (Hrel': sv_of g' = with_rows (sv_of g) (s_rows (sv_of g) ++ concat good) /\
                 si_of g' = with_rows (si_of g) (s_rows (si_of g) ++ map (enc_row (g_ity g)) newidx)).
  { split; unfold with_rows; [rewrite <- Hsv'|rewrite <- Hsi']; reflexivity. }
  destruct Hrel' as [Ev Ei].
  destruct (sub_update _ _ _ _ HV Hgw) as (hv' & Uv & RVn). cbv zeta in Uv, RVn.
  destruct (sub_update _ _ _ _ HI Hiw) as (hi' & Ui & RIn). cbv zeta in Ui, RIn.
  rewrite <- Ev in Uv, RVn. rewrite <- Ei in Ui, RIn. rewrite <- Hsv' in Uv, RVn. rewrite <- Hsi' in Ui, RIn.
  rewrite <- Hd2v in Uv, RVn. rewrite <- Hd2i in Ui, RIn. rewrite <- Hvinc in Uv. rewrite Hlen in Ui.
  assert (UL: exists h2 es2, update_lens h d2 vinc iinc = Ok (h2, es2) /\ RRel (h2, apply_reffs es2 d2) g').
  { apply update_lens_rel.
    - eexists. eexists. split; [exact Uv|exact RVn].
    - eexists. eexists. split; [exact Ui|exact RIn].
    - rewrite Hinfo. reflexivity.
    - rewrite Hinfo. reflexivity.
    - rewrite Hmode. reflexivity.
    - rewrite T3. exact Hme.
    - exact Hty.
    - subst g'. unfold g_nrows. cbn [g_subs g_with_subs g_ity]. rewrite concat_app, app_length, Nat2Z.inj_add.
      unfold g_nrows in Hgb. exact Hgb. }
  destruct UL as (h2 & es2 & UL & _).
  unfold update_lens in Hex, UL. rewrite Uv, Ui in Hex, UL.
  match type of Hex with context [readme_facts ?hh ?dd] => destruct (readme_facts hh dd) as [ff|] eqn:HF end;
    [|discriminate].
  rewrite Hvme, Hime in Hex. cbn [s_meta sv_of si_of] in Hex.
  exists (es0 ++ tr), (mkRDescr (lenof (h_shape hi')) (prodZ (h_shape hv')) (rd_atom (rh_info h)) (rd_nt (rh_info h))), ff.
  split.
  { destruct f; inversion Hex; subst r h' es; subst tr; cbn [map app]; rewrite <- ?app_assoc; reflexivity. }
  split.
  { apply Forall_app. split.
    - clear - Hso Hav Hai. induction es0 as [|e es0 IH]; [constructor|].
      inversion Hso as [|? ? He Hes]; subst. destruct e as [x|x| | | |]; try contradiction.
      + cbn [vproj iproj] in *. inversion Hav; subst. constructor; [|apply IH; assumption].
        destruct x; try contradiction; exact I.
      + cbn [vproj iproj] in *. inversion Hai; subst. constructor; [|apply IH; assumption].
        destruct x; try contradiction; exact I.
    - subst tr. destruct f; [|constructor]. repeat constructor; cbn [okeff].
      + rewrite Hvlen, Hvinc. unfold rowbytes. rewrite Hvs, Hvn. cbn [s_shape tl]. fold (s_rb (sv_of g)).
        apply Nat2Z.inj_le. rewrite (concat_rows_length _ _ Hvrows). cbn [s_rows sv_of]. unfold g_nrows.
        rewrite Z2Nat.id; nia.
      + assert (Hil: lenof (h_shape (rh_i h)) = s_len (si_of g)) by (rewrite His; reflexivity).
        rewrite Hil. unfold rowbytes. rewrite His, Hin. cbn [s_shape tl]. fold (s_rb (si_of g)).
        apply Nat2Z.inj_le. rewrite (concat_rows_length _ _ Hirows). unfold s_len.
        rewrite Z2Nat.id; nia. }
  fold d2. rewrite Hd2v, Hd2i, Hvds, Hids, Hvrm, Hirm, Hvme, Hime. cbn [s_meta sv_of si_of].
  repeat split; assumption.
Qed.

(* ---------- the theorem for RaggedArray.iterappend / append ---------- *)
Definition rview_g (g : srag) := Some (g_nt g, g_bo g, g_atom g, map (@concat Z) (g_subs g)).

Ltac rcrash_cases :=
  repeat match goal with
  | H : rcrash _ (_ :: _) _ |- _ => inversion H; subst; clear H
  | H : rcrash _ [] _ |- _ => inversion H; subst; clear H
  | H : rtorn _ _ _ |- _ => inversion H; subst; clear H
  | H : torn _ _ _ |- _ => inversion H; subst; clear H
  end.

Lemma rcrash_app : forall a b d st,
  rcrash d (a ++ b) st -> rcrash d a st \/ rcrash (apply_reffs a d) b st.
Proof.
  induction a as [|e a IH]; intros b d st H; [right; exact H|].
  cbn [app] in H. inversion H as [ | ? ? ? ? Ht | ? ? ? ? Hc ]; subst.
  - left. apply rcrash_here.
  - left. apply rcrash_torn. exact Ht.
  - destruct (IH _ _ _ Hc) as [L|Rr]; [left; apply rcrash_later; exact L|right; exact Rr].
Qed.

Lemma concat_nonempty_rows : forall (rows : list (list Z)) rb,
  Forall (fun r => Z.of_nat (length r) = rb) rows -> 0 < rb -> concat rows = [] -> rows = [].
Proof.
  intros rows rb H Hrb Hc. destruct rows as [|r rows]; [reflexivity|].
  inversion H; subst. cbn in Hc. destruct r; [cbn in *; lia|discriminate].
Qed.

Theorem riterappend_crash : forall h d g its r h' es st,
  RRel (h, d) g -> Forall (wf_ritem g) its ->
  riterappend h d its = (r, h', es) -> rcrash d es st ->
  rview_of st = None \/ rview_of st = rview_g g \/ rview_of st = rview_g (after_append g its).
Proof.
  intros h d g its r h' es st HRR Hwf Hex Hc.
  pose proof (rview_rel _ _ _ HRR) as Vbefore. fold (rview_g g) in Vbefore.
  destruct (g_mode g) eqn:Hm.
  { pose proof HRR as (_ & _ & _ & _ & _ & _ & Hmode & _). cbn [fst] in Hmode.
    unfold riterappend in Hex. rewrite Hmode, Hm in Hex. inversion Hex; subst. rcrash_cases.
    right; left; exact Vbefore. }
  destruct (riterappend_struct _ _ _ _ _ _ _ HRR Hm Hwf Hex)
    as (pre & info & ff & Hes & Hok & Hd2v & Hd2i & T1 & T2 & T3).
  destruct (riterappend_refines _ _ _ _ _ _ _ HRR Hwf Hex) as [_ HRf].
  cbn [rspec_step] in HRf. rewrite Hm in HRf.
  fold (after_append g its) in *.
  assert (HRf': RRel (h', apply_reffs es d) (after_append g its)).
  { unfold after_append. destruct (rgood_prefix (g_atom g) (index_max (g_ity g)) (g_nrows g) its); exact HRf. }
  clear HRf. set (g' := after_append g its) in *.
  pose proof (rview_rel _ _ _ HRf') as Vafter. fold (rview_g g') in Vafter.
  pose proof HRR as (HV & HI & _ & _ & _ & _ & _ & Hty & Hb). cbn [fst snd] in *.
  pose proof HV as (Hvdat & Hvds & _ & _ & _ & Hvrows & Hvrb & _).
  pose proof HI as (Hidat & Hids & _ & _ & _ & Hirows & Hirb & _). cbn [fst snd] in *.
  subst es.
  assert (Hv0: a_data (r_values d) = Some (concat (s_rows (sv_of g)) ++ [])) by (rewrite app_nil_r; exact Hvdat).
  assert (Hi0: a_data (r_indices d) = Some (concat (s_rows (si_of g)) ++ [])) by (rewrite app_nil_r; exact Hidat).
  destruct (rphase_old _ _ _ _ _ _ _ _ Hok Hv0 Hi0 Hc) as [(zv & zi & ->)|HcU].
  - (* both descriptions still old *)
    unfold old_form.
    destruct (view_extra_z (set_data (r_values d) (Some (concat (s_rows (sv_of g)) ++ zv))) (sv_of g) zv Hvrows)
      as [N | ->]; [exact Hvds|reflexivity|left; apply rview_none_v; exact N|].
    destruct (view_extra_z (set_data (r_indices d) (Some (concat (s_rows (si_of g)) ++ zi))) (si_of g) zi Hirows)
      as [N | ->]; [exact Hids|reflexivity|left; apply rview_none_i; exact N|].
    right; left. fold (old_form d (concat (s_rows (sv_of g))) (concat (s_rows (si_of g))) [] []).
    rewrite (old_form_same _ _ _ _ _ Hv0 Hi0). exact Vbefore.
  - (* the six bookkeeping writes *)
    set (d2 := apply_reffs pre d) in *.
    (* the final state's sub-array cores *)
    assert (Hfv: same_core (mkDir (Some (concat (s_rows (sv_of g')))) (Val (descr_of (sv_of g'))) Absent false)
                           (r_values (apply_reffs (pre ++ [RV (EWriteDescr (descr_of (sv_of g')));
                              RV (EWriteReadme (descr_of (sv_of g'), false)); RI (EWriteDescr (descr_of (si_of g')));
                              RI (EWriteReadme (descr_of (si_of g'), false)); RWriteDescr info; RWriteReadme ff]) d))).
    { rewrite apply_reffs_app. fold d2. cbn [apply_reffs fold_left apply_reff apply_eff r_values].
      rewrite Hd2v. split; reflexivity. }
    assert (Hfi: same_core (mkDir (Some (concat (s_rows (si_of g')))) (Val (descr_of (si_of g'))) Absent false)
                           (r_indices (apply_reffs (pre ++ [RV (EWriteDescr (descr_of (sv_of g')));
                              RV (EWriteReadme (descr_of (sv_of g'), false)); RI (EWriteDescr (descr_of (si_of g')));
                              RI (EWriteReadme (descr_of (si_of g'), false)); RWriteDescr info; RWriteReadme ff]) d))).
    { rewrite apply_reffs_app. fold d2. cbn [apply_reffs fold_left apply_reff apply_eff r_indices].
      rewrite Hd2i. split; reflexivity. }
    assert (After: forall st0, a_descr (r_values st0) = Val (descr_of (sv_of g')) ->
                               a_data (r_values st0) = Some (concat (s_rows (sv_of g'))) ->
                               a_descr (r_indices st0) = Val (descr_of (si_of g')) ->
                               a_data (r_indices st0) = Some (concat (s_rows (si_of g'))) ->
                               rview_of st0 = rview_g g').
    { intros st0 A1 A2 A3 A4. rewrite <- Vafter. apply rview_ext.
      - destruct Hfv as [F1 F2]. split; [rewrite A1; exact F1|rewrite A2; exact F2].
      - destruct Hfi as [F1 F2]. split; [rewrite A3; exact F1|rewrite A4; exact F2]. }
    clearbody d2.
    (* was anything appended at all? *)
    destruct (fst (rgood_prefix (g_atom g) (index_max (g_ity g)) (g_nrows g) its)) as [|item0 good0] eqn:Egood.
    + (* nothing: every state that opens has the cores of d *)
      assert (Eg: g' = g) by (subst g'; unfold after_append; rewrite Egood; apply g_same_subs).
      clearbody g'. subst g'.
      assert (Same: forall st0, a_descr (r_values st0) = Val (descr_of (sv_of g)) ->
                                a_data (r_values st0) = Some (concat (s_rows (sv_of g))) ->
                                a_descr (r_indices st0) = Val (descr_of (si_of g)) ->
                                a_data (r_indices st0) = Some (concat (s_rows (si_of g))) ->
                                rview_of st0 = rview_g g).
      { intros st0 A1 A2 A3 A4. rewrite <- Vbefore. apply rview_ext; split; congruence. }
      rcrash_cases;
        cbn [apply_reff apply_eff set_descr set_readme r_values r_indices];
        try (left; apply rview_none_v; apply view_torn_descr; cbn; reflexivity);
        try (left; apply rview_none_i; apply view_torn_descr; cbn; reflexivity);
        right; left; apply Same; cbn [r_values r_indices a_descr a_data]; rewrite ?Hd2v, ?Hd2i; reflexivity.
    + (* something was appended: the index file is longer than its old description says *)
      assert (Hnew: exists newi, s_rows (si_of g') = s_rows (si_of g) ++ newi /\ newi <> [] /\
                                 Forall (fun r0 => Z.of_nat (length r0) = s_rb (si_of g)) newi).
      { subst g'. unfold after_append. rewrite Egood. unfold si_of, idx_of, g_lens. cbn [s_rows g_subs g_with_subs g_ity].
        rewrite map_app, chain_from_app, map_app. eexists. split; [reflexivity|]. split.
        - cbn. discriminate.
        - apply Forall_forall. intros r0 Hr. apply in_map_iff in Hr. destruct Hr as (x & <- & _).
          rewrite enc_row_length. unfold s_rb. cbn. destruct (itemsize (g_ity g)); reflexivity. }
      destruct Hnew as (newi & Hni & Hne & Hnw). clearbody g'.
      assert (OldI: forall st0, a_descr st0 = Val (descr_of (si_of g)) ->
                                a_data st0 = Some (concat (s_rows (si_of g'))) -> view_of st0 = None).
      { intros st0 A1 A2. rewrite Hni, concat_app in A2.
        destruct (view_extra_z st0 (si_of g) (concat newi) Hirows A1 A2) as [N|E]; [exact N|].
        exfalso. apply Hne. exact (concat_nonempty_rows _ _ Hnw Hirb E). }
      rcrash_cases;
        cbn [apply_reff apply_eff set_descr set_readme r_values r_indices];
        try (left; apply rview_none_v; apply view_torn_descr; cbn; reflexivity);
        try (left; apply rview_none_i; apply view_torn_descr; cbn; reflexivity);
        try (left; apply rview_none_i; apply OldI; cbn [r_indices a_descr a_data]; rewrite ?Hd2i; reflexivity);
        right; right; apply After; cbn [r_values r_indices a_descr a_data]; rewrite ?Hd2v, ?Hd2i; reflexivity.
Qed.

(* ---------- truncate_raggedarray ---------- *)

(* what the ragged view is, as a function of the two sub-array views *)
Definition rv_fun (v i : option view) : option (numtype * byteorder * list Z * list (list Z)) :=
  match v, i with
  | Some (nt, bo, sh, bytes), Some (nti, _, shi, bytesi) =>
      Some (nt, bo, tl sh,
            map (fun r => zslice_bytes bytes (fst r) (snd r) (prodZ (tl sh) * itemsize nt))
                (map (dec_row nti) (cut (Z.to_nat (lenof shi)) (Z.to_nat (2 * itemsize nti)) bytesi)))
  | _, _ => None
  end.

Lemma rview_fun : forall st, rview_of st = rv_fun (view_of (r_values st)) (view_of (r_indices st)).
Proof.
  intros st. unfold rview_of, rv_fun, index_rows, view_of.
  destruct (open_dir (r_values st) R) as [hv|]; [|reflexivity].
  destruct (a_data (r_values st)) as [bv|]; [|reflexivity].
  destruct (open_dir (r_indices st) R) as [hi|]; [|reflexivity].
  destruct (a_data (r_indices st)) as [bi|]; reflexivity.
Qed.

Lemma rcrash_ri : forall ei d rest st,
  rcrash d (map RI ei ++ rest) st ->
  (exists a, crash (r_indices d) ei a /\ r_values st = r_values d /\ r_indices st = a) \/
  rcrash (apply_reffs (map RI ei) d) rest st.
Proof.
  induction ei as [|e ei IH]; intros d rest st H; [right; exact H|].
  cbn [map app] in H. inversion H as [ | ? ? ? ? Ht | ? ? ? ? Hc ]; subst.
  - left. eexists. split; [apply crash_here|]. split; reflexivity.
  - inversion Ht; subst. left. eexists. split; [apply crash_torn; eassumption|]. split; reflexivity.
  - destruct (IH _ _ _ Hc) as [(a & Ca & Hv & Hi)|Hr].
    + left. exists a. split; [apply crash_later; exact Ca|]. split; assumption.
    + right. exact Hr.
Qed.

Lemma rcrash_rv : forall ev d rest st,
  rcrash d (map RV ev ++ rest) st ->
  (exists a, crash (r_values d) ev a /\ r_indices st = r_indices d /\ r_values st = a) \/
  rcrash (apply_reffs (map RV ev) d) rest st.
Proof.
  induction ev as [|e ev IH]; intros d rest st H; [right; exact H|].
  cbn [map app] in H. inversion H as [ | ? ? ? ? Ht | ? ? ? ? Hc ]; subst.
  - left. eexists. split; [apply crash_here|]. split; reflexivity.
  - inversion Ht; subst. left. eexists. split; [apply crash_torn; eassumption|]. split; reflexivity.
  - destruct (IH _ _ _ Hc) as [(a & Ca & Hv & Hi)|Hr].
    + left. exists a. split; [apply crash_later; exact Ca|]. split; assumption.
    + right. exact Hr.
Qed.

Lemma rcrash_top : forall f info d st,
  rcrash d [RWriteReadme f; RWriteDescr info] st ->
  r_values st = r_values d /\ r_indices st = r_indices d.
Proof. intros f info d st H. rcrash_cases; split; reflexivity. Qed.

Theorem rtruncate_crash : forall h d g idx r h' es st,
  RRel (h, d) g -> rtruncate h d idx = (r, h', es) -> rcrash d es st ->
  rview_of st = None \/ rview_of st = rview_g g \/
  rview_of st = rview_g (snd (rspec_step g (ROpTruncate idx))).
Proof.
  intros h d g idx r h' es st HRR Hex Hc.
  pose proof (rview_rel _ _ _ HRR) as Vbefore. fold (rview_g g) in Vbefore.
  pose proof HRR as (HV & HI & Hd & Hinfo & Hrm & Hme & Hmode & Hty & Hb). cbn [fst snd] in *.
  cbn [rspec_step]. unfold rtruncate in Hex.
  destruct idx as [i|]; [|inversion Hex; subst; rcrash_cases; right; left; exact Vbefore].
  pose proof HV as (Hvdat & Hvds & Hvrm & Hvme & (Hvm & Hvn & Hvb & Hvs) & Hvrows & Hvrb & Hvtl).
  pose proof HI as (Hidat & Hids & Hirm & Hime & (Him & Hin & Hib & His) & Hirows & Hirb & Hitl).
  cbn [fst snd] in *.
  set (n := Z.of_nat (length (g_subs g))) in *.
  assert (Hilen: s_len (si_of g) = n).
  { unfold s_len. cbn [s_rows si_of]. unfold idx_of, g_lens.
    rewrite map_length, chain_from_length, map_length. reflexivity. }
  rewrite Hids in Hex. cbn [d_shape descr_of s_shape lenof hd] in Hex. rewrite Hilen, Hmode in Hex.
  destruct (g_mode g) eqn:Hm; [inversion Hex; subst; rcrash_cases; right; left; exact Vbefore|].
  assert (Hcur: lenof (h_shape (rh_i h)) = n) by (rewrite His; cbn [s_shape lenof hd]; exact Hilen).
  rewrite Hcur in Hex.
  destruct ((0 <=? slice_len i n) && (slice_len i n <? n)) eqn:E;
    [|inversion Hex; subst; rcrash_cases; right; left; exact Vbefore].
  apply andb_true_iff in E. destruct E as [E1 E2]. apply Z.leb_le in E1. apply Z.ltb_lt in E2.
  set (k := slice_len i n) in *.
  set (g' := g_with_subs g (firstn (Z.to_nat k) (g_subs g))) in *.
  destruct (truncate (rh_i h) (r_indices d) (Some k)) as [[ri hi'] ei] eqn:TI.
  destruct (truncate_refines _ _ _ _ _ _ _ HI TI) as [Hoki HRI]. cbn [spec_step] in Hoki, HRI.
  cbn [s_mode si_of] in Hoki, HRI. rewrite Hm, Hilen, (slice_len_id k n ltac:(lia)) in Hoki, HRI.
  assert (Ek: (0 <=? k) && (k <? n) = true) by (apply andb_true_iff; split; [apply Z.leb_le|apply Z.ltb_lt]; lia).
  rewrite Ek in Hoki, HRI. cbn [fst snd] in Hoki, HRI.
  destruct ri as [[]|e]; [|discriminate]. clear Hoki.
  assert (Hsi': with_rows (si_of g) (firstn (Z.to_nat k) (s_rows (si_of g))) = si_of g').
  { unfold si_of, with_rows, idx_of, g_lens. subst g'. cbn.
    rewrite firstn_map_, chain_from_firstn, firstn_map_. reflexivity. }
  rewrite Hsi' in HRI.
  assert (Hview_i: view_rows (si_of g) (firstn (Z.to_nat k) (s_rows (si_of g))) = view_rows (si_of g') (s_rows (si_of g')))
    by (rewrite <- Hsi'; reflexivity).
  set (d1 := apply_reffs (lift_i ei) d) in *.
  assert (Hd1i: r_indices d1 = apply_effs ei (r_indices d)).
  { subst d1. unfold lift_i. rewrite r_indices_apply, iproj_RI. reflexivity. }
  assert (Hd1v: r_values d1 = r_values d).
  { subst d1. unfold lift_i. rewrite r_values_apply, vproj_RI. reflexivity. }
  assert (Hnr': g_nrows g' <= g_nrows g).
  { unfold g_nrows. subst g'. cbn [g_subs g_with_subs].
    rewrite <- (firstn_skipn (Z.to_nat k) (g_subs g)) at 2. rewrite concat_app, app_length. lia. }
  assert (Hb': g_nrows g' <= index_max (g_ity g')) by (subst g'; cbn [g_ity g_with_subs]; unfold g_nrows in *; cbn [g_subs g_with_subs] in *; lia).
  assert (Hvi: (if k =? 0 then 0
                else match index_rows (r_indices d1) with
                     | Some rows => match rev rows with r0 :: _ => snd r0 | [] => 0 end
                     | None => 0 end) = g_nrows g').
  { destruct (k =? 0) eqn:Ek0.
    - apply Z.eqb_eq in Ek0. unfold g_nrows. subst g'. rewrite Ek0. reflexivity.
    - rewrite Hd1i. rewrite (index_rows_rel _ _ _ _ _ Hty HRI (idx_bounds g' Hb')).
      unfold idx_of. rewrite chain_from_last.
      + unfold g_lens. rewrite sum_lens_concat. reflexivity.
      + unfold g_lens. subst g'. cbn [g_subs g_with_subs]. apply Z.eqb_neq in Ek0.
        destruct (g_subs g) as [|s0 l0] eqn:Es; [subst n; cbn in E2; lia|].
        destruct (Z.to_nat k) eqn:Ekn; [lia|]. cbn. discriminate. }
  rewrite Hvi in Hex.
  assert (Hvcur: lenof (h_shape (rh_v h)) = g_nrows g) by (rewrite Hvs; reflexivity).
  rewrite Hvcur, Hd1v in Hex.
  (* the views of the sub-arrays before / after *)
  pose proof (view_rel _ _ _ HV) as VVb. pose proof (view_rel _ _ _ HI) as VIb.
  pose proof (view_rel _ _ _ HRI) as VIa.
  (* the mid state: indices already truncated, values not yet: shows the after-state *)
  assert (Hmid: rv_fun (view_of (r_values d)) (view_of (apply_effs ei (r_indices d))) = rview_g g').
  { rewrite VVb, VIa. unfold rv_fun, view_rows. cbn [s_nt s_bo s_tail sv_of si_of tl s_rows lenof hd].
    unfold rview_g. f_equal. f_equal.
    rewrite Nat2Z.id. rewrite cut_concat.
    2:{ apply Forall_forall. intros r0 Hr. apply in_map_iff in Hr. destruct Hr as (x & <- & _).
        pose proof (enc_row_length (g_ity g') x). lia. }
    rewrite !map_map.
    rewrite (map_ext_in _ (fun r => zslice_bytes (concat (concat (g_subs g))) (fst r) (snd r)
                                       (prodZ (g_atom g) * itemsize (g_nt g)))).
    2:{ intros [a b] Hab. pose proof (idx_bounds g' Hb') as Hbd. rewrite Forall_forall in Hbd.
        specialize (Hbd _ Hab). cbn in Hbd. rewrite dec_enc_row; try tauto. }
    change (prodZ (g_atom g) * itemsize (g_nt g)) with (s_rb (sv_of g)).
    set (rb := Z.to_nat (s_rb (sv_of g))).
    replace (s_rb (sv_of g)) with (Z.of_nat rb) by (subst rb; lia).
    unfold idx_of, g_lens. subst g'. cbn [g_subs g_with_subs g_nt g_bo g_atom].
    replace (concat (concat (g_subs g))) with (concat (concat (firstn (Z.to_nat k) (g_subs g))) ++
                                                concat (concat (skipn (Z.to_nat k) (g_subs g))))
      by (rewrite <- concat_app, <- concat_app, firstn_skipn; reflexivity).
    pose proof (slices_chain (firstn (Z.to_nat k) (g_subs g)) [] rb (concat (concat (skipn (Z.to_nat k) (g_subs g))))) as S.
    cbn [concat length app] in S. apply S; [constructor|].
    assert (Hrn: Forall (fun r0 => length r0 = rb) (concat (g_subs g))).
    { eapply Forall_impl; [|exact Hvrows]. cbn. intros r0 Hr. subst rb. lia. }
    rewrite <- (firstn_skipn (Z.to_nat k) (g_subs g)), concat_app in Hrn. apply Forall_app in Hrn. tauto. }
  destruct (g_nrows g' <? g_nrows g) eqn:Elt.
  - (* the values array is truncated too *)
    apply Z.ltb_lt in Elt.
    destruct (truncate (rh_v h) (r_values d) (Some (g_nrows g'))) as [[rv hv'] ev] eqn:TV.
    destruct (truncate_refines _ _ _ _ _ _ _ HV TV) as [Hokv HRV]. cbn [spec_step] in Hokv, HRV.
    cbn [s_mode sv_of] in Hokv, HRV. rewrite Hm in Hokv, HRV.
    assert (Hsl: s_len (sv_of g) = g_nrows g) by reflexivity.
    assert (0 <= g_nrows g') by (unfold g_nrows; lia).
    rewrite Hsl, (slice_len_id (g_nrows g') (g_nrows g) ltac:(lia)) in Hokv, HRV.
    assert (Ev: (0 <=? g_nrows g') && (g_nrows g' <? g_nrows g) = true)
      by (apply andb_true_iff; split; [apply Z.leb_le|apply Z.ltb_lt]; lia).
    rewrite Ev in Hokv, HRV. cbn [fst snd] in Hokv, HRV. destruct rv as [[]|e]; [|discriminate].
    assert (Hsv': with_rows (sv_of g) (firstn (Z.to_nat (g_nrows g')) (s_rows (sv_of g))) = sv_of g').
    { unfold sv_of, with_rows. subst g'. cbn. unfold g_nrows. cbn [g_subs g_with_subs].
      rewrite Nat2Z.id, concat_firstn_prefix. reflexivity. }
    rewrite Hsv' in HRV. pose proof (view_rel _ _ _ HRV) as VVa.
    assert (Hview_v: view_rows (sv_of g) (firstn (Z.to_nat (g_nrows g')) (s_rows (sv_of g))) = view_rows (sv_of g') (s_rows (sv_of g')))
      by (rewrite <- Hsv'; reflexivity).
    assert (Hfinal: rv_fun (view_of (apply_effs ev (r_values d))) (view_of (apply_effs ei (r_indices d))) = rview_g g').
    { assert (HRRf: RRel (mkRHandle RW hv' hi' (info_of g'),
                          mkRDir (apply_effs ev (r_values d)) (apply_effs ei (r_indices d))
                                 (Val (info_of g')) (Val (facts_of g')) (g_meta g)) g').
      { unfold RRel. cbn [fst snd rh_v rh_i rh_info rh_mode r_values r_indices r_descr r_readme r_meta].
        split; [exact HRV|]. split; [exact HRI|]. repeat split; try assumption. subst g'. cbn. symmetry; exact Hm. }
      pose proof (rview_rel _ _ _ HRRf) as Vf. rewrite rview_fun in Vf. exact Vf. }
    destruct (readme_facts (mkRHandle RW hv' hi' (rh_info h)) (apply_reffs (lift_v ev) d1)) as [ff|] eqn:HF;
      inversion Hex; subst r h' es; clear Hex.
    + unfold lift_i in Hc. apply rcrash_ri in Hc. destruct Hc as [(a & Ca & Hv & Hi)|Hc].
      * rewrite rview_fun, Hv, Hi.
        destruct (truncate_crash _ _ _ _ _ _ _ _ HI TI Ca) as [N|[V|V]].
        -- left. rewrite N. destruct (view_of (r_values d)) as [[[[? ?] ?] ?]|]; reflexivity.
        -- right; left. rewrite V, <- VIb, <- rview_fun. exact Vbefore.
        -- right; right. cbn [spec_step s_mode si_of] in V. rewrite Hm, Hilen, (slice_len_id k n ltac:(lia)), Ek in V.
           cbn [snd with_rows s_rows] in V. rewrite Hview_i in V. cbn [snd]. rewrite V, <- VIa. exact Hmid.
      * fold (lift_i ei) in Hc. fold d1 in Hc. unfold lift_v in Hc. apply rcrash_rv in Hc.
        destruct Hc as [(a & Ca & Hi & Hv)|Hc].
        -- rewrite rview_fun, Hv, Hi, Hd1i. rewrite Hd1v in Ca.
           destruct (truncate_crash _ _ _ _ _ _ _ _ HV TV Ca) as [N|[V|V]].
           ++ left. rewrite N. reflexivity.
           ++ right; right. cbn [snd]. rewrite V, <- VVb. exact Hmid.
           ++ right; right. cbn [spec_step s_mode sv_of] in V.
              rewrite Hm, Hsl, (slice_len_id (g_nrows g') (g_nrows g) ltac:(lia)), Ev in V.
              cbn [snd with_rows s_rows] in V. rewrite Hview_v in V. cbn [snd]. rewrite V, <- VVa. exact Hfinal.
        -- apply rcrash_top in Hc. destruct Hc as [Hv Hi]. right; right. cbn [snd].
           rewrite rview_fun, Hv, Hi. fold (lift_v ev).
           assert (Hxv: r_values (apply_reffs (lift_v ev) d1) = apply_effs ev (r_values d)).
           { unfold lift_v. rewrite r_values_apply, vproj_RV, Hd1v. reflexivity. }
           assert (Hxi: r_indices (apply_reffs (lift_v ev) d1) = apply_effs ei (r_indices d)).
           { unfold lift_v. rewrite r_indices_apply, iproj_RV, Hd1i. reflexivity. }
           rewrite Hxv, Hxi. exact Hfinal.
    + (* readme_facts failed: only the sub-array effects happened *)
      unfold lift_i in Hc. apply rcrash_ri in Hc. destruct Hc as [(a & Ca & Hv & Hi)|Hc].
      * rewrite rview_fun, Hv, Hi.
        destruct (truncate_crash _ _ _ _ _ _ _ _ HI TI Ca) as [N|[V|V]].
        -- left. rewrite N. destruct (view_of (r_values d)) as [[[[? ?] ?] ?]|]; reflexivity.
        -- right; left. rewrite V, <- VIb, <- rview_fun. exact Vbefore.
        -- right; right. cbn [spec_step s_mode si_of] in V. rewrite Hm, Hilen, (slice_len_id k n ltac:(lia)), Ek in V.
           cbn [snd with_rows s_rows] in V. rewrite Hview_i in V. cbn [snd]. rewrite V, <- VIa. exact Hmid.
      * fold (lift_i ei) in Hc. fold d1 in Hc. unfold lift_v in Hc.
        rewrite <- (app_nil_r (map RV ev)) in Hc. apply rcrash_rv in Hc.
        destruct Hc as [(a & Ca & Hi & Hv)|Hc].
        -- rewrite rview_fun, Hv, Hi, Hd1i. rewrite Hd1v in Ca.
           destruct (truncate_crash _ _ _ _ _ _ _ _ HV TV Ca) as [N|[V|V]].
           ++ left. rewrite N. reflexivity.
           ++ right; right. cbn [snd]. rewrite V, <- VVb. exact Hmid.
           ++ right; right. cbn [spec_step s_mode sv_of] in V.
              rewrite Hm, Hsl, (slice_len_id (g_nrows g') (g_nrows g) ltac:(lia)), Ev in V.
              cbn [snd with_rows s_rows] in V. rewrite Hview_v in V. cbn [snd]. rewrite V, <- VVa. exact Hfinal.
        -- inversion Hc; subst. right; right. cbn [snd]. rewrite rview_fun. fold (lift_v ev).
           assert (Hxv: r_values (apply_reffs (lift_v ev) d1) = apply_effs ev (r_values d)).
           { unfold lift_v. rewrite r_values_apply, vproj_RV, Hd1v. reflexivity. }
           assert (Hxi: r_indices (apply_reffs (lift_v ev) d1) = apply_effs ei (r_indices d)).
           { unfold lift_v. rewrite r_indices_apply, iproj_RV, Hd1i. reflexivity. }
           rewrite Hxv, Hxi. exact Hfinal.
  - (* only empty subarrays are removed: the values array is left alone *)
    cbn [lift_v map app apply_reffs fold_left] in Hex.
    assert (Hlast: forall st0, r_values st0 = r_values d1 -> r_indices st0 = r_indices d1 ->
                     rview_of st0 = rview_g g').
    { intros st0 A B. rewrite rview_fun, A, B, Hd1v, Hd1i. exact Hmid. }
    destruct (readme_facts (mkRHandle RW (rh_v h) hi' (rh_info h)) d1) as [ff|] eqn:HF;
      inversion Hex; subst r h' es; clear Hex.
    + unfold lift_i in Hc. apply rcrash_ri in Hc. destruct Hc as [(a & Ca & Hv & Hi)|Hc].
      * rewrite rview_fun, Hv, Hi.
        destruct (truncate_crash _ _ _ _ _ _ _ _ HI TI Ca) as [N|[V|V]].
        -- left. rewrite N. destruct (view_of (r_values d)) as [[[[? ?] ?] ?]|]; reflexivity.
        -- right; left. rewrite V, <- VIb, <- rview_fun. exact Vbefore.
        -- right; right. cbn [spec_step s_mode si_of] in V. rewrite Hm, Hilen, (slice_len_id k n ltac:(lia)), Ek in V.
           cbn [snd with_rows s_rows] in V. rewrite Hview_i in V. cbn [snd]. rewrite V, <- VIa. exact Hmid.
      * fold (lift_i ei) in Hc. fold d1 in Hc. apply rcrash_top in Hc. destruct Hc as [Hv Hi].
        right; right. cbn [snd]. apply Hlast; assumption.
    + unfold lift_i in Hc.
      apply rcrash_ri in Hc. destruct Hc as [(a & Ca & Hv & Hi)|Hc].
      * rewrite rview_fun, Hv, Hi.
        destruct (truncate_crash _ _ _ _ _ _ _ _ HI TI Ca) as [N|[V|V]].
        -- left. rewrite N. destruct (view_of (r_values d)) as [[[[? ?] ?] ?]|]; reflexivity.
        -- right; left. rewrite V, <- VIb, <- rview_fun. exact Vbefore.
        -- right; right. cbn [spec_step s_mode si_of] in V. rewrite Hm, Hilen, (slice_len_id k n ltac:(lia)), Ek in V.
           cbn [snd with_rows s_rows] in V. rewrite Hview_i in V. cbn [snd]. rewrite V, <- VIa. exact Hmid.
      * inversion Hc; subst. right; right. cbn [snd]. fold (lift_i ei). fold d1. apply Hlast; reflexivity.
Qed.
