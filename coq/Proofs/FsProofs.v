From Coq Require Import ZArith List Bool String Lia.
From Darr Require Import Base Fs.
Import ListNotations.
Open Scope Z_scope.

(* ---------- C20: the guard ---------- *)
Definition mentions (o : ddop) (s : spelling) : Prop :=
  match o with
  | DWriteTxt s' _ _ | DWriteJson s' _ _ _ | DUpdateJson s' _ => s' = s
  | DDelete ss => In s ss
  | DOpen s' plain_r _ _ => s' = s /\ plain_r = false
  end.

Theorem protected_refused : forall f base prot o s,
  mentions o s -> guard f base prot s false = true ->
  dd_step f base prot o = (Err OSError, f).
Proof.
  intros f base prot o s Hm Hg. destruct o as [s' t ow|s' isd t ow|s' nt|ss|s' pr cr nc]; cbn [mentions dd_step] in *.
  - subst s'. rewrite Hg. reflexivity.
  - subst s'. rewrite Hg. reflexivity.
  - subst s'. rewrite Hg. reflexivity.
  - assert (E: existsb (fun s0 => guard f base prot s0 false) ss = true).
    { apply existsb_exists. exists s. split; assumption. }
    rewrite E. reflexivity.
  - destruct Hm as [-> ->]. rewrite Hg. reflexivity.
Qed.

Theorem guard_complete : forall f base prot s,
  under_protected base prot (walk f (if sp_abs s then [] else base) (sp_comps s)) = true ->
  guard f base prot s false = true.
Proof. intros f base prot s H. unfold guard, resolve. exact H. Qed.

(* spellings: './' prefixes, empty components and 'x/..' detours do not change where a
   name lands -- for ANY number of them *)
Lemma walk_dots : forall f cur n r, walk f cur (repeat CDot n ++ r) = walk f cur r.
Proof. intros f cur n r. induction n as [|n IH]; [reflexivity|]. cbn. exact IH. Qed.

Lemma removelast_snoc : forall (cur : path) x, removelast (cur ++ [x]) = cur.
Proof. intros. apply removelast_last. Qed.

Lemma walk_detour : forall f cur x r,
  (forall t, fs_get (cur ++ [x]) f <> Some (FLink t)) ->
  walk f cur (CName x :: CUp :: r) = walk f cur r.
Proof.
  intros f cur x r H. cbn [walk]. destruct (fs_get (cur ++ [x]) f) as [[c| |tg]|] eqn:E.
  - rewrite removelast_snoc; reflexivity.
  - rewrite removelast_snoc; reflexivity.
  - exfalso. exact (H tg eq_refl).
  - rewrite removelast_snoc; reflexivity.
Qed.

Fixpoint detours (xs : list string) : list comp :=
  match xs with [] => [] | x :: t => CName x :: CUp :: detours t end.

Lemma walk_detours : forall f cur xs r,
  (forall x t, In x xs -> fs_get (cur ++ [x]) f <> Some (FLink t)) ->
  walk f cur (detours xs ++ r) = walk f cur r.
Proof.
  intros f cur xs r. induction xs as [|x xs IH]; intros H; [reflexivity|].
  cbn [detours app]. rewrite walk_detour; [apply IH; intros; apply H; right; assumption|].
  intros t. apply H. left. reflexivity.
Qed.

Lemma is_prefix_refl : forall a, is_prefix a a = true.
Proof. induction a as [|x a IH]; cbn; [reflexivity|]. rewrite String.eqb_refl. exact IH. Qed.
Lemma is_prefix_app : forall a b, is_prefix a (a ++ b) = true.
Proof. induction a as [|x a IH]; intros b; cbn; [reflexivity|]. rewrite String.eqb_refl. apply IH. Qed.

(* every spelling  ./ ... ./ x1/../ ... xn/../ NAME [ / more ]  of a protected name (or of
   something below a protected directory) is refused by every public mutator and leaves
   the file system unchanged *)
Theorem protected_spellings_refused : forall f base prot name n xs below o,
  In name prot ->
  (forall t, fs_get (base ++ [name]) f <> Some (FLink t)) ->
  (forall x t, In x xs -> fs_get (base ++ [x]) f <> Some (FLink t)) ->
  (forall q c, fs_get q f = Some c -> is_prefix (base ++ [name]) q = true -> forall t, c <> FLink t) ->
  let s := mkSp false (repeat CDot n ++ detours xs ++ CName name :: map CName below) in
  mentions o s ->
  dd_step f base prot o = (Err OSError, f).
Proof.
  intros f base prot name n xs below o Hin Hnl Hxs Hbelow s Hm.
  apply (protected_refused f base prot o s Hm). apply guard_complete. cbn [sp_abs sp_comps s].
  rewrite walk_dots, walk_detours by exact Hxs. cbn [walk].
  assert (Hp: fs_get (base ++ [name]) f = fs_get (base ++ [name]) f) by reflexivity.
  assert (Hw: forall l cur, is_prefix (base ++ [name]) cur = true ->
                is_prefix (base ++ [name]) (walk f cur (map CName l)) = true).
  { clear Hm s. intros l. induction l as [|b l IH]; intros cur Hc; [exact Hc|]. cbn [map walk].
    assert (Hc': is_prefix (base ++ [name]) (cur ++ [b]) = true).
    { clear - Hc. revert cur Hc. generalize (base ++ [name]) as a. induction a as [|x a IH]; intros cur Hc; [reflexivity|].
      destruct cur as [|y cur]; [discriminate|]. cbn in *. apply andb_true_iff in Hc. destruct Hc as [H1 H2].
      rewrite H1. cbn. apply IH. exact H2. }
    destruct (fs_get (cur ++ [b]) f) as [[c| |tg]|] eqn:E.
    - apply IH; exact Hc'.
    - apply IH; exact Hc'.
    - exfalso. exact (Hbelow _ _ E Hc' tg eq_refl).
    - apply IH; exact Hc'. }
  unfold under_protected. apply existsb_exists. exists name. split; [exact Hin|].
  destruct (fs_get (base ++ [name]) f) as [[c| |tg]|] eqn:E.
  - apply Hw; apply is_prefix_refl.
  - apply Hw; apply is_prefix_refl.
  - exfalso. exact (Hnl tg eq_refl).
  - apply Hw; apply is_prefix_refl.
Qed.

(* ---------- user files: write / read round trip, overwrite gate, delete ---------- *)
Lemma path_eqb_refl : forall p, path_eqb p p = true.
Proof. induction p as [|x p IH]; cbn; [reflexivity|]. rewrite String.eqb_refl. exact IH. Qed.
Lemma path_eqb_eq : forall p q, path_eqb p q = true -> p = q.
Proof.
  induction p as [|x p IH]; destruct q as [|y q]; cbn; intros H; try discriminate; [reflexivity|].
  apply andb_true_iff in H. destruct H as [H1 H2]. apply String.eqb_eq in H1. subst. f_equal. apply IH. exact H2.
Qed.

Theorem get_set_same : forall p n f, fs_get p (fs_set p n f) = Some n.
Proof. intros. unfold fs_set. cbn. rewrite path_eqb_refl. reflexivity. Qed.

Lemma get_filter_other : forall p q f, path_eqb p q = false ->
  fs_get q (filter (fun e => negb (path_eqb p (fst e))) f) = fs_get q f.
Proof.
  intros p q f H. induction f as [|[r n] f IH]; [reflexivity|]. cbn [filter fst].
  destruct (path_eqb p r) eqn:E; cbn [negb fs_get].
  - apply path_eqb_eq in E. subst r. destruct (path_eqb q p) eqn:E2; [|exact IH].
    apply path_eqb_eq in E2. subst q. rewrite path_eqb_refl in H. discriminate.
  - destruct (path_eqb q r); [reflexivity|exact IH].
Qed.

Theorem get_set_other : forall p q n f, path_eqb p q = false -> fs_get q (fs_set p n f) = fs_get q f.
Proof.
  intros p q n f H. unfold fs_set. cbn [fs_get].
  destruct (path_eqb q p) eqn:E; [apply path_eqb_eq in E; subst; rewrite path_eqb_refl in H; discriminate|].
  apply get_filter_other. exact H.
Qed.

Theorem get_del_same : forall p f, fs_get p (fs_del p f) = None.
Proof.
  intros p f. unfold fs_del. induction f as [|[r n] f IH]; [reflexivity|]. cbn [filter fst].
  destruct (path_eqb p r) eqn:E; cbn [negb]; [exact IH|]. cbn [fs_get]. rewrite E. exact IH.
Qed.

Theorem get_del_other : forall p q f, path_eqb p q = false -> fs_get q (fs_del p f) = fs_get q f.
Proof. intros. unfold fs_del. apply get_filter_other. assumption. Qed.

(* write_txt on an unprotected name: afterwards the file holds the text; an existing file
   is only replaced with overwrite=True; every other path is untouched *)
Theorem write_txt_roundtrip : forall f base prot s text ow,
  guard f base prot s false = false ->
  let t := target_of f base s in
  match fs_get t f with
  | None => dd_step f base prot (DWriteTxt s text ow) = (Ok tt, fs_set t (FFile text) f)
  | Some (FFile _) => dd_step f base prot (DWriteTxt s text ow) =
                      if ow then (Ok tt, fs_set t (FFile text) f) else (Err OSError, f)
  | Some _ => dd_step f base prot (DWriteTxt s text ow) = (Err OSError, f)
  end.
Proof.
  intros f base prot s text ow Hg t. cbn [dd_step]. rewrite Hg. fold t.
  destruct (fs_get t f) as [[c| |l]|]; reflexivity.
Qed.

(* ---------- C16: deleting an array directory ---------- *)
Lemma fold_del_keeps : forall files f base q n,
  (forall x, In x files -> path_eqb (base ++ [x]) q = false) ->
  fs_get q f = Some n ->
  fs_get q (fold_left (fun f x => match fs_get (base ++ [x]) f with
                                  | Some (FFile _) | Some (FLink _) => fs_del (base ++ [x]) f
                                  | _ => f end) files f) = Some n.
Proof.
  induction files as [|x files IH]; intros f base q n Hne Hq; [exact Hq|]. cbn [fold_left].
  apply IH; [intros; apply Hne; right; assumption|].
  assert (E: path_eqb (base ++ [x]) q = false) by (apply Hne; left; reflexivity).
  destruct (fs_get (base ++ [x]) f) as [[c| |l]|]; try exact Hq; rewrite get_del_other; assumption.
Qed.

(* a foreign entry (any path that is not one of Darr's own file names directly in the
   directory) survives delete_array unmodified -- same bytes, same link target *)
Theorem delete_keeps_foreign : forall f base files opens writable q n,
  fs_get q f = Some n ->
  (forall x, In x files -> path_eqb (base ++ [x]) q = false) ->
  path_eqb base q = false ->
  fs_get q (snd (delete_dir f base files opens writable)) = Some n.
Proof.
  intros f base files opens writable q n Hq Hne Hb. unfold delete_dir.
  destruct opens; [|exact Hq]. destruct writable; [|exact Hq]. cbn [negb].
  set (f1 := fold_left _ files f).
  assert (H1: fs_get q f1 = Some n) by (apply fold_del_keeps; assumption).
  destruct (fs_children base f1); cbn [snd]; [|exact H1]. rewrite get_del_other; assumption.
Qed.

(* ... and, being inside the directory, it makes the call raise OSError *)
Theorem delete_foreign_raises : forall f base files q n,
  fs_get q f = Some n -> is_prefix base q = true -> path_eqb base q = false ->
  (forall x, In x files -> path_eqb (base ++ [x]) q = false) ->
  (forall p m, In (p, m) f -> fs_get p f = Some m) ->       (* no shadowed entries *)
  fst (delete_dir f base files true true) = Err OSError.
Proof.
  intros f base files q n Hq Hpre Hb Hne Hnd. unfold delete_dir. cbn [negb].
  set (f1 := fold_left _ files f).
  assert (H1: fs_get q f1 = Some n) by (apply fold_del_keeps; assumption).
  destruct (fs_children base f1) as [|c cs] eqn:E; [|reflexivity]. exfalso.
  unfold fs_children in E.
  assert (Hin: exists m, In (q, m) f1).
  { clear - H1. induction f1 as [|[r m] f1 IH]; [discriminate|]. cbn [fs_get] in H1.
    destruct (path_eqb q r) eqn:E; [apply path_eqb_eq in E; subst; eexists; left; reflexivity|].
    destruct (IH H1) as (m' & Hm). exists m'. right. exact Hm. }
  destruct Hin as (m & Hin).
  assert (In q (map fst (filter (fun e => is_prefix base (fst e) && negb (path_eqb base (fst e))) f1))).
  { apply in_map_iff. exists (q, m). split; [reflexivity|]. apply filter_In. split; [exact Hin|].
    cbn [fst]. rewrite Hpre, Hb. reflexivity. }
  rewrite E in H. contradiction.
Qed.

Theorem delete_not_array : forall f base files writable,
  delete_dir f base files false writable = (Err TypeError, f).
Proof. reflexivity. Qed.

Theorem delete_readonly : forall f base files, delete_dir f base files true false = (Err OSError, f).
Proof. reflexivity. Qed.

Theorem create_no_overwrite : forall f p n, fs_get p f = Some n -> create_gate f p false = Err OSError.
Proof. intros f p n H. unfold create_gate. rewrite H. destruct n; reflexivity. Qed.

Theorem create_never_over_file : forall f p ow c, fs_get p f = Some (FFile c) -> create_gate f p ow = Err OSError.
Proof. intros f p ow c H. unfold create_gate. rewrite H. reflexivity. Qed.

(* ---------- C16: deleting a ragged array directory ---------- *)
Lemma delete_dir_result : forall f base files, exists f',
  delete_dir f base files true true = (Ok tt, f') \/ delete_dir f base files true true = (Err OSError, f').
Proof.
  intros f base files. unfold delete_dir. cbn [negb].
  destruct (fs_children base _); eexists; [left|right]; reflexivity.
Qed.

Lemma get_in : forall q n (f : fs), fs_get q f = Some n -> exists m, In (q, m) f.
Proof.
  intros q n f. induction f as [|[r m] f IH]; intros H; [discriminate|]. cbn [fs_get] in H.
  destruct (path_eqb q r) eqn:E; [apply path_eqb_eq in E; subst; eexists; left; reflexivity|].
  destruct (IH H) as (m' & Hm). exists m'. right. exact Hm.
Qed.

Section RaggedDelete.
  Variables (f : fs) (base : path) (topfiles afiles : list string) (q : path) (n : fnode).
  (* q is foreign: present, not the array directory or its two sub-directories, not one of Darr's own files *)
  Hypothesis Hq : fs_get q f = Some n.
  Hypothesis Hbase : path_eqb base q = false.
  Hypothesis Hv : path_eqb (base ++ ["values"%string]) q = false.
  Hypothesis Hi : path_eqb (base ++ ["indices"%string]) q = false.
  Hypothesis Htop : forall x, In x topfiles -> path_eqb (base ++ [x]) q = false.
  Hypothesis Hva : forall x, In x afiles -> path_eqb ((base ++ ["values"%string]) ++ [x]) q = false.
  Hypothesis Hia : forall x, In x afiles -> path_eqb ((base ++ ["indices"%string]) ++ [x]) q = false.

  Theorem ragged_delete_keeps_foreign : forall opens writable,
    fs_get q (snd (delete_ragged f base topfiles afiles opens writable)) = Some n.
  Proof.
    intros opens writable. unfold delete_ragged. destruct opens; [|exact Hq]. destruct writable; [|exact Hq]. cbn [negb].
    set (f1 := fold_left _ topfiles f).
    assert (H1: fs_get q f1 = Some n) by (apply fold_del_keeps; assumption).
    pose proof (delete_keeps_foreign f1 (base ++ ["values"%string]) afiles true true q n H1 Hva Hv) as H2.
    destruct (delete_dir f1 (base ++ ["values"%string]) afiles true true) as [[u|e] f2]; cbn [snd] in *; [|exact H2].
    pose proof (delete_keeps_foreign f2 (base ++ ["indices"%string]) afiles true true q n H2 Hia Hi) as H3.
    destruct (delete_dir f2 (base ++ ["indices"%string]) afiles true true) as [[u'|e] f3]; cbn [snd] in *; [|exact H3].
    destruct (fs_children base f3); cbn [snd]; [|exact H3]. rewrite get_del_other; assumption.
  Qed.

  (* ... and, being inside the directory, it makes the call raise OSError *)
  Theorem ragged_delete_foreign_raises : is_prefix base q = true ->
    fst (delete_ragged f base topfiles afiles true true) = Err OSError.
  Proof.
    intros Hpre. unfold delete_ragged. cbn [negb].
    set (f1 := fold_left _ topfiles f).
    assert (H1: fs_get q f1 = Some n) by (apply fold_del_keeps; assumption).
    pose proof (delete_keeps_foreign f1 (base ++ ["values"%string]) afiles true true q n H1 Hva Hv) as H2.
    destruct (delete_dir_result f1 (base ++ ["values"%string]) afiles) as (f2 & [E2|E2]); rewrite E2 in *; cbn [fst snd] in *; [|reflexivity].
    pose proof (delete_keeps_foreign f2 (base ++ ["indices"%string]) afiles true true q n H2 Hia Hi) as H3.
    destruct (delete_dir_result f2 (base ++ ["indices"%string]) afiles) as (f3 & [E3|E3]); rewrite E3 in *; cbn [fst snd] in *; [|reflexivity].
    destruct (fs_children base f3) as [|c cs] eqn:E; [|reflexivity]. exfalso.
    destruct (get_in q n f3 H3) as (m & Hin). unfold fs_children in E.
    assert (In q (map fst (filter (fun e => is_prefix base (fst e) && negb (path_eqb base (fst e))) f3))).
    { apply in_map_iff. exists (q, m). split; [reflexivity|]. apply filter_In. split; [exact Hin|].
      cbn [fst]. rewrite Hpre, Hbase. reflexivity. }
    rewrite E in H. contradiction.
  Qed.
End RaggedDelete.

Theorem ragged_delete_not_array : forall f base tf af writable,
  delete_ragged f base tf af false writable = (Err TypeError, f).
Proof. reflexivity. Qed.
Theorem ragged_delete_readonly : forall f base tf af, delete_ragged f base tf af true false = (Err OSError, f).
Proof. reflexivity. Qed.
