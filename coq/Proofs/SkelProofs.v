(* SkelProofs.v -- the effect log of every model operation is, kind by kind and in
   order, a run that the control skeleton GENERATED from the Python source admits. *)
From Coq Require Import ZArith List Bool String.
From Darr Require Import Base ArrayModel Skel Gen_effects EffectOrder.
Import ListNotations.
Open Scope string_scope. Open Scope list_scope.

Lemma aruns_eq : forall s o k k', aruns s o k -> k = k' -> aruns s o k'.
Proof. intros s o k k' H E; subst; exact H. Qed.

(* ---------- _update_arrayinfo, _update_len ---------- *)

Lemma call_update_arrayinfo_ok : aruns (Call "_update_arrayinfo") Normal [KDescr].
Proof.
  apply (R_sub aprim asub "_update_arrayinfo" sk_update_arrayinfo Normal [KDescr]); [reflexivity|].
  unfold sk_update_arrayinfo. apply (R_prim aprim asub "_write_jsondict"). reflexivity.
Qed.

Lemma sk_update_len_ok : aruns sk_update_len Normal [KDescr; KReadme].
Proof.
  unfold sk_update_len.
  apply (R_seq _ _ _ _ [KDescr] Normal [KReadme]); [apply call_update_arrayinfo_ok|].
  apply (R_seq _ _ _ _ [KReadme] Normal []);
    [apply (R_prim aprim asub "_update_readmetxt"); reflexivity|].
  apply R_if_t, R_skip.
Qed.

Lemma call_update_len_ok : aruns (Call "_update_len") Normal [KDescr; KReadme].
Proof.
  apply (R_sub aprim asub "_update_len" sk_update_len Normal); [reflexivity | apply sk_update_len_ok].
Qed.

Lemma update_len_kinds : forall h d inc h' es,
  update_len h d inc = Ok (h', es) -> map kind_of es = [KDescr; KReadme].
Proof.
  unfold update_len; intros h d inc h' es H.
  destruct (a_descr d); try discriminate. inversion H; reflexivity.
Qed.

Theorem update_len_runs : forall h d inc h' es,
  update_len h d inc = Ok (h', es) -> aruns sk_update_len Normal (map kind_of es).
Proof. intros h d inc h' es H. rewrite (update_len_kinds _ _ _ _ _ H). apply sk_update_len_ok. Qed.

Lemma call_truncate_ok : aruns (Call "truncate") Normal [KTrunc].
Proof. apply (R_prim aprim asub "truncate"). reflexivity. Qed.

(* ---------- truncate_array ---------- *)

Definition trunc_body : sk := If (Seq (Call "truncate") (Call "_update_len")) Raise.

Lemma sk_truncate_array_shape :
  sk_truncate_array = Seq (Try (If Skip Skip) Raise) (Seq (If Raise Skip) trunc_body).
Proof. reflexivity. Qed.

Lemma trunc_prefix : forall o ks, aruns trunc_body o ks -> aruns sk_truncate_array o ks.
Proof.
  intros o ks H. rewrite sk_truncate_array_shape.
  apply (R_seq _ _ _ _ [] o ks); [apply R_try_ok; [discriminate | apply R_if_t, R_skip]|].
  apply (R_seq _ _ _ _ [] o ks); [apply R_if_e, R_skip | exact H].
Qed.

Ltac raised_nil H :=
  inversion H; subst; exists Raised; split; [exact eq_refl | apply R_any_raise].

Theorem truncate_runs : forall h d idx r h' es,
  truncate h d idx = (r, h', es) ->
  exists o, oc_match r o /\ aruns sk_truncate_array o (map kind_of es).
Proof.
  unfold truncate; intros h d idx r h' es H.
  destruct (h_mode h); [raised_nil H|].
  destruct idx as [i|]; [|raised_nil H].
  destruct (a_descr d) as [| |]; try (raised_nil H; fail).
  match type of H with (if ?c then _ else _) = _ => destruct c end; [|raised_nil H].
  match type of H with (match ?u with _ => _ end) = _ => destruct u as [[h1 ues]|e] eqn:Hu end.
  - inversion H; subst. exists Normal; split; [left; exact eq_refl|].
    cbn [map app kind_of]. rewrite (update_len_kinds _ _ _ _ _ Hu). apply trunc_prefix. unfold trunc_body.
    apply R_if_t. apply (R_seq _ _ _ _ [KTrunc] Normal [KDescr; KReadme]);
      [apply call_truncate_ok | apply call_update_len_ok].
  - inversion H; subst. exists Raised; split; [exact eq_refl|]. apply trunc_prefix. unfold trunc_body.
    apply R_if_t. apply (R_seq _ _ _ _ [KTrunc] Raised []); [apply call_truncate_ok | apply R_any_raise].
Qed.

(* ---------- Array._append (one chunk through the open descriptor) ---------- *)

Theorem append_one_runs : forall h c es r,
  append_one h c = (es, r) ->
  runs fdprim nosub sk_append (match r with Some _ => Returned | None => Raised end) (map kind_of es).
Proof.
  unfold append_one, sk_append; intros h c es r H.
  destruct c as [tail rows| | |tail rows k].
  - destruct (tails_eqb tail (tl (h_shape h))); inversion H; subst; [|apply R_any_raise].
    apply (R_seq _ _ _ _ [KAppend] Returned []); [apply (R_prim fdprim nosub "tofile"); reflexivity|].
    apply (R_seq _ _ _ _ [] Returned []); [apply R_if_e, R_skip | apply R_return].
  - inversion H; subst; apply R_any_raise.
  - inversion H; subst; apply R_any_raise.
  - destruct (tails_eqb tail (tl (h_shape h))); inversion H; subst; [|apply R_any_raise].
    apply R_seq_stop; [discriminate|].
    apply (R_prim_fail fdprim nosub "tofile" [KAppend] []); reflexivity.
Qed.

Lemma append_one_call : forall h c es r,
  append_one h c = (es, r) ->
  aruns (Call "_append") (match r with Some _ => Normal | None => Raised end) (map kind_of es).
Proof.
  unfold append_one; intros h c es r H.
  destruct c as [tail rows| | |tail rows k].
  - destruct (tails_eqb tail (tl (h_shape h))); inversion H; subst; [|apply R_any_raise].
    apply (R_prim aprim asub "_append"). reflexivity.
  - inversion H; subst; apply R_any_raise.
  - inversion H; subst; apply R_any_raise.
  - destruct (tails_eqb tail (tl (h_shape h))); inversion H; subst; [|apply R_any_raise].
    apply (R_prim_fail aprim asub "_append" [KAppend] []); reflexivity.
Qed.

(* ---------- iterappend ---------- *)

Definition ia_handler : sk :=
  Seq (If Skip Skip) (Seq (Call "_update_len") (Seq (Call "truncate") Raise)).
Definition ia_tail : sk := Seq (Try (For (Call "_append")) ia_handler) (Call "_update_len").
Definition ia_first : sk :=
  Seq (Try Skip Return)
      (Seq (Try (Seq (Call "tofile") (If Raise Skip)) (Seq (Call "truncate") Raise)) (Call "_update_len")).

Lemma sk_iterappend_shape :
  sk_iterappend = Seq (If Raise Skip) (Seq (If Raise Skip) (Seq (If ia_first Skip) ia_tail)).
Proof. reflexivity. Qed.

Lemma loop_runs : forall cs h inc es inc' failed,
  append_loop h cs inc = (es, inc', failed) ->
  aruns (For (Call "_append")) (if failed then Raised else Normal) (map kind_of es).
Proof.
  induction cs as [|c cs IH]; intros h inc es inc' failed H; cbn [append_loop] in H.
  - inversion H; subst. apply R_for_0.
  - destruct (append_one h c) as [e1 [n|]] eqn:Ha.
    + destruct (append_loop h cs (inc + n)%Z) as [[es' inc''] f'] eqn:Hl.
      inversion H; subst. rewrite map_app.
      apply R_for_s; [exact (append_one_call _ _ _ _ Ha) | exact (IH _ _ _ _ _ Hl)].
    + inversion H; subst. apply R_for_stop; [discriminate | exact (append_one_call _ _ _ _ Ha)].
Qed.

Lemma handler_ok : aruns ia_handler Raised [KDescr; KReadme; KTrunc].
Proof.
  unfold ia_handler.
  apply (R_seq _ _ _ _ [] Raised [KDescr; KReadme; KTrunc]); [apply R_if_t, R_skip|].
  apply (R_seq _ _ _ _ [KDescr; KReadme] Raised [KTrunc]); [apply call_update_len_ok|].
  apply (R_seq _ _ _ _ [KTrunc] Raised []); [apply call_truncate_ok | apply R_any_raise].
Qed.

Lemma main_runs : forall h d cs pre r h' es,
  iterappend_main h d cs pre = (r, h', es) ->
  exists ks o, map kind_of es = map kind_of pre ++ ks /\ oc_match r o /\ aruns ia_tail o ks.
Proof.
  unfold iterappend_main; intros h d cs pre r h' es H.
  destruct (append_loop h cs 0) as [[es0 inc] failed] eqn:Hl. apply loop_runs in Hl.
  match type of H with (match ?u with _ => _ end) = _ => destruct u as [[h1 ues]|e] eqn:Hu end.
  - destruct failed; inversion H; subst.
    + exists (map kind_of es0 ++ [KDescr; KReadme; KTrunc]), Raised. split; [|split; [exact eq_refl|]].
      * rewrite !map_app, (update_len_kinds _ _ _ _ _ Hu). reflexivity.
      * unfold ia_tail. apply R_seq_stop; [discriminate|].
        apply R_try_h; [exact Hl | apply handler_ok].
    + exists (map kind_of es0 ++ [KDescr; KReadme]), Normal. split; [|split; [left; exact eq_refl|]].
      * rewrite !map_app, (update_len_kinds _ _ _ _ _ Hu). reflexivity.
      * unfold ia_tail. apply R_seq; [|apply call_update_len_ok].
        apply R_try_ok; [discriminate | exact Hl].
  - inversion H; subst. exists (map kind_of es0), Raised. split; [|split; [exact eq_refl|]].
    + rewrite map_app. reflexivity.
    + unfold ia_tail. destruct failed.
      * apply R_seq_stop; [discriminate|].
        apply (aruns_eq _ _ (map kind_of es0 ++ [])); [|apply app_nil_r].
        apply R_try_h; [exact Hl | apply R_any_raise].
      * apply (aruns_eq _ _ (map kind_of es0 ++ [])); [|apply app_nil_r].
        apply R_seq; [apply R_try_ok; [discriminate | exact Hl] | apply R_any_raise].
Qed.

Lemma ia_wrap_nonempty : forall o ks, aruns ia_tail o ks -> aruns sk_iterappend o ks.
Proof.
  intros o ks H. rewrite sk_iterappend_shape.
  apply (R_seq _ _ _ _ [] o ks); [apply R_if_e, R_skip|].
  apply (R_seq _ _ _ _ [] o ks); [apply R_if_e, R_skip|].
  apply (R_seq _ _ _ _ [] o ks); [apply R_if_e, R_skip | exact H].
Qed.

Lemma ia_wrap_first_stop : forall o ks, o <> Normal -> aruns ia_first o ks -> aruns sk_iterappend o ks.
Proof.
  intros o ks Ho H. rewrite sk_iterappend_shape.
  apply (R_seq _ _ _ _ [] o ks); [apply R_if_e, R_skip|].
  apply (R_seq _ _ _ _ [] o ks); [apply R_if_e, R_skip|].
  apply R_seq_stop; [exact Ho | apply R_if_t; exact H].
Qed.

Lemma ia_wrap_first : forall k1 o ks,
  aruns ia_first Normal k1 -> aruns ia_tail o ks -> aruns sk_iterappend o (k1 ++ ks).
Proof.
  intros k1 o ks H1 H. rewrite sk_iterappend_shape.
  apply (R_seq _ _ _ _ [] o (k1 ++ ks)); [apply R_if_e, R_skip|].
  apply (R_seq _ _ _ _ [] o (k1 ++ ks)); [apply R_if_e, R_skip|].
  apply R_seq; [apply R_if_t; exact H1 | exact H].
Qed.

Lemma first_written : forall o k, aruns (Call "_update_len") o k -> aruns ia_first o (KWrite :: k).
Proof.
  intros o k H. unfold ia_first.
  apply (R_seq _ _ _ _ [] o (KWrite :: k)); [apply R_try_ok; [discriminate | apply R_skip]|].
  apply (R_seq _ _ _ _ [KWrite] o k); [|exact H].
  apply R_try_ok; [discriminate|].
  apply (R_seq _ _ _ _ [KWrite] Normal []); [apply (R_prim aprim asub "tofile"); reflexivity | apply R_if_e, R_skip].
Qed.

Theorem iterappend_runs : forall h d cs r h' es,
  iterappend h d cs = (r, h', es) ->
  exists o, oc_match r o /\ aruns sk_iterappend o (map kind_of es).
Proof.
  unfold iterappend; intros h d cs r h' es H.
  destruct (h_mode h); [raised_nil H|].
  destruct (Z.eqb (prodZ (h_shape h)) 0).
  - destruct cs as [|c rest].
    + inversion H; subst. exists Returned; split; [right; exact eq_refl|].
      apply ia_wrap_first_stop; [discriminate|]. unfold ia_first.
      apply R_seq_stop; [discriminate|].
      apply (R_try_h _ _ _ _ [] Returned []); [apply R_any_raise | apply R_return].
    + destruct c as [tail rows| | |tail rows k]; [| raised_nil H | raised_nil H |].
      * destruct (tails_eqb tail (tl (h_shape h))); [|raised_nil H].
        match type of H with (match ?u with _ => _ end) = _ => destruct u as [[h1 ues]|e] eqn:Hu end.
        -- apply main_runs in H. destruct H as [ks [o [Hk [Hm Hr]]]].
           exists o; split; [exact Hm|]. rewrite Hk, map_app, (update_len_kinds _ _ _ _ _ Hu).
           apply (ia_wrap_first [KWrite; KDescr; KReadme]); [|exact Hr].
           apply first_written, call_update_len_ok.
        -- inversion H; subst. exists Raised; split; [exact eq_refl|].
           apply ia_wrap_first_stop; [discriminate|]. apply first_written, R_any_raise.
      * destruct (tails_eqb tail (tl (h_shape h))); [|raised_nil H].
        inversion H; subst. exists Raised; split; [exact eq_refl|].
        apply ia_wrap_first_stop; [discriminate|]. unfold ia_first.
        apply (R_seq _ _ _ _ [] Raised [KWrite; KTrunc]); [apply R_try_ok; [discriminate | apply R_skip]|].
        apply R_seq_stop; [discriminate|].
        apply (R_try_h _ _ _ _ [KWrite] Raised [KTrunc]).
        -- apply R_seq_stop; [discriminate|].
           apply (R_prim_fail aprim asub "tofile" [KWrite] []); reflexivity.
        -- apply (R_seq _ _ _ _ [KTrunc] Raised []); [apply call_truncate_ok | apply R_any_raise].
  - apply main_runs in H. destruct H as [ks [o [Hk [Hm Hr]]]].
    exists o; split; [exact Hm|]. rewrite Hk. apply ia_wrap_nonempty. exact Hr.
Qed.
