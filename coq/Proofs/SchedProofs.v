From Coq Require Import ZArith List Bool Lia.
From Darr Require Import Base Gen_frames Sched.
Import ListNotations.
Open Scope Z_scope.

Definition active (g : gstate) : nat := match g with GActive _ => 1 | _ => 0 end.
Fixpoint count_active (l : list gstate) : nat :=
  match l with [] => 0 | g :: t => active g + count_active t end.

(* The protocol invariant, with `k` users that are in the middle of an access:
   - the user count is exact;
   - the cached map exists only while it has users; it is then the ONLY open map and is mapped
     at exactly the present length of the file (so nothing read through it lies beyond the file);
   - without a cached map nothing is open (no leak). *)
Definition SInvX (k : nat) (s : sched) : Prop :=
  sc_users s = (k + count_active (sc_gens s) + length (sc_ctx s))%nat /\
  match sc_cache s with
  | Some m => (0 < sc_users s)%nat /\ sc_open s = [(m, sc_len s)]
  | None => sc_users s = 0%nat /\ sc_open s = []
  end.
Definition SInv (s : sched) : Prop := SInvX 0 s.

(* ---------- list facts ---------- *)
Lemma count_replace : forall l g x old, nth_error l g = Some old ->
  (count_active (replace_nth g x l) + active old = count_active l + active x)%nat.
Proof.
  induction l as [|y l IH]; intros g x old H; destruct g; cbn in *; try discriminate.
  - injection H as <-. lia.
  - specialize (IH _ x _ H). lia.
Qed.

Lemma count_app : forall a b, count_active (a ++ b) = (count_active a + count_active b)%nat.
Proof. induction a as [|x a IH]; intros b; cbn; [reflexivity|rewrite IH; lia]. Qed.

Lemma nth_active_pos : forall l g r, nth_error l g = Some (GActive r) -> (0 < count_active l)%nat.
Proof.
  induction l as [|y l IH]; intros g r H; destruct g; cbn in *; try discriminate.
  - injection H as ->. cbn. lia.
  - specialize (IH _ _ H). lia.
Qed.

Lemma nth_replace_same : forall (l : list gstate) g x old, nth_error l g = Some old ->
  nth_error (replace_nth g x l) g = Some x.
Proof.
  induction l as [|y l IH]; intros g x old H; destruct g; cbn in *; try discriminate; [reflexivity|].
  exact (IH _ _ _ H).
Qed.

Lemma map_len_hd : forall m n t, map_len m ((m, n) :: t) = Some n.
Proof. intros. cbn. rewrite Nat.eqb_refl. reflexivity. Qed.

Lemma remove_single : forall m n, remove_nat m [(m, n)] = [].
Proof. intros. cbn. rewrite Nat.eqb_refl. reflexivity. Qed.

(* ---------- the protocol steps ---------- *)
Lemma acquire_inv : forall s k, SInvX k s ->
  SInvX (S k) (snd (acquire s)) /\ sc_cache (snd (acquire s)) = Some (fst (acquire s)) /\
  sc_gens (snd (acquire s)) = sc_gens s /\ sc_ctx (snd (acquire s)) = sc_ctx s /\
  sc_data (snd (acquire s)) = sc_data s /\ sc_len (snd (acquire s)) = sc_len s.
Proof.
  intros s k (Hu & Hc). unfold acquire. destruct (sc_cache s) as [m|] eqn:Ec; cbn [fst snd].
  - destruct Hc as [Hp Ho]. unfold SInvX. cbn [sc_users sc_gens sc_ctx sc_open sc_cache sc_len sc_data].
    repeat split; try reflexivity; try lia. exact Ho.
  - destruct Hc as [H0 Ho]. unfold SInvX. cbn [sc_users sc_gens sc_ctx sc_open sc_cache sc_len sc_data].
    repeat split; try reflexivity; try lia. rewrite Ho. reflexivity.
Qed.

Lemma release_inv : forall s k, SInvX (S k) s -> SInvX k (release s).
Proof.
  intros s k (Hu & Hc). unfold release. destruct (sc_users s) as [|[|u]] eqn:Eu; [lia| |].
  - (* the last user: close *)
    destruct (sc_cache s) as [m|] eqn:Ec.
    + destruct Hc as [_ Ho]. unfold SInvX. cbn [sc_users sc_gens sc_ctx sc_open sc_cache sc_len].
      split; [lia|]. split; [reflexivity|]. rewrite Ho. apply remove_single.
    + destruct Hc as [H0 _]. lia.
  - destruct (sc_cache s) as [m|] eqn:Ec.
    + destruct Hc as [_ Ho]. unfold SInvX. cbn [sc_users sc_gens sc_ctx sc_open sc_cache sc_len].
      split; [lia|]. split; [lia|exact Ho].
    + destruct Hc as [H0 _]. lia.
Qed.

Lemma read_ok_inv : forall s k hi, SInvX k s -> sc_cache s <> None -> read_ok s hi = true.
Proof.
  intros s k hi (Hu & Hc) Hn. unfold read_ok, cur_maplen. destruct (sc_cache s) as [m|]; [|congruence].
  destruct Hc as [_ Ho]. rewrite Ho, map_len_hd. apply Z.leb_le. lia.
Qed.

Lemma cur_maplen_inv : forall s k, SInvX k s -> sc_cache s <> None -> cur_maplen s = Some (sc_len s).
Proof.
  intros s k (Hu & Hc) Hn. unfold cur_maplen. destruct (sc_cache s) as [m|]; [|congruence].
  destruct Hc as [_ Ho]. rewrite Ho. apply map_len_hd.
Qed.

Lemma gens_inv : forall s k g x old, SInvX k s -> nth_error (sc_gens s) g = Some old -> active x = active old ->
  SInvX k (set_gens s (replace_nth g x (sc_gens s))).
Proof.
  intros s k g x old (Hu & Hc) Hn Ha. unfold SInvX, set_gens. cbn [sc_users sc_gens sc_ctx sc_open sc_cache sc_len].
  pose proof (count_replace _ _ x _ Hn). split; [lia|exact Hc].
Qed.

(* an active generator finishes (it is still counted as a user: one more pending release) *)
Lemma done_inv : forall s k g rest, SInvX k s -> nth_error (sc_gens s) g = Some (GActive rest) ->
  SInvX (S k) (set_gens s (replace_nth g GDone (sc_gens s))).
Proof.
  intros s k g rest (Hu & Hc) Hn. unfold SInvX, set_gens. cbn [sc_users sc_gens sc_ctx sc_open sc_cache sc_len].
  pose proof (count_replace _ _ GDone _ Hn). cbn [active] in *. split; [lia|exact Hc].
Qed.

(* a generator that has just entered the context becomes active: the pending user is now its own *)
Lemma activate_inv : forall s k g fr frames, SInvX (S k) s -> nth_error (sc_gens s) g = Some (GNew fr) ->
  SInvX k (set_gens s (replace_nth g (GActive frames) (sc_gens s))).
Proof.
  intros s k g fr frames (Hu & Hc) Hn. unfold SInvX, set_gens. cbn [sc_users sc_gens sc_ctx sc_open sc_cache sc_len].
  pose proof (count_replace _ _ (GActive frames) _ Hn). cbn [active] in *. split; [lia|exact Hc].
Qed.

Lemma newdone_inv : forall s k g fr, SInvX k s -> nth_error (sc_gens s) g = Some (GNew fr) ->
  SInvX k (set_gens s (replace_nth g GDone (sc_gens s))).
Proof. intros s k g fr HI Hn. exact (gens_inv s k g GDone _ HI Hn eq_refl). Qed.

Lemma start_inv : forall s k fr, SInvX k s -> SInvX k (set_gens s (sc_gens s ++ [GNew fr])).
Proof.
  intros s k fr (Hu & Hc). unfold SInvX, set_gens. cbn [sc_users sc_gens sc_ctx sc_open sc_cache sc_len].
  rewrite count_app. cbn. split; [lia|exact Hc].
Qed.

Lemma data_inv : forall s k c, SInvX k s -> SInvX k (set_data s c).
Proof. intros s k c H. exact H. Qed.

Lemma ctx_push : forall s k m, SInvX (S k) s -> SInvX k (set_ctx s (m :: sc_ctx s)).
Proof.
  intros s k m (Hu & Hc). unfold SInvX, set_ctx. cbn [sc_users sc_gens sc_ctx sc_open sc_cache sc_len length].
  split; [lia|exact Hc].
Qed.

Lemma ctx_pop : forall s k m rest, SInvX k s -> sc_ctx s = m :: rest -> SInvX (S k) (set_ctx s rest).
Proof.
  intros s k m rest (Hu & Hc) E. unfold SInvX, set_ctx. cbn [sc_users sc_gens sc_ctx sc_open sc_cache sc_len].
  rewrite E in Hu. cbn [length] in Hu. split; [lia|exact Hc].
Qed.

Lemma active_cached : forall s g rest, SInv s -> nth_error (sc_gens s) g = Some (GActive rest) -> sc_cache s <> None.
Proof.
  intros s g rest (Hu & Hc) Hn E. rewrite E in Hc. destruct Hc as [H0 _].
  pose proof (nth_active_pos _ _ _ Hn). lia.
Qed.

Lemma finish_inv : forall s g rest, SInv s -> nth_error (sc_gens s) g = Some (GActive rest) ->
  SInv (release (set_gens s (replace_nth g GDone (sc_gens s)))).
Proof. intros s g rest HI Hn. apply release_inv. exact (done_inv s 0 g rest HI Hn). Qed.

(* what an active generator's step returns: the frame clipped to the present length, read now *)
Lemma advance_chunk : forall s g a b rest, SInv s -> nth_error (sc_gens s) g = Some (GActive ((a, b) :: rest)) ->
  fst (advance_active s g ((a, b) :: rest)) =
    OChunk (Z.min a (sc_len s)) (Z.min b (sc_len s)) (chunk_obs (sc_data s) (Z.min a (sc_len s)) (Z.min b (sc_len s))).
Proof.
  intros s g a b rest HI Hn. pose proof (active_cached s g _ HI Hn) as Hc. unfold advance_active.
  rewrite (read_ok_inv s 0 b HI Hc), (cur_maplen_inv s 0 HI Hc). reflexivity.
Qed.

Lemma advance_safe : forall s g rest, SInv s -> nth_error (sc_gens s) g = Some (GActive rest) ->
  SInv (snd (advance_active s g rest)) /\ fst (advance_active s g rest) <> OCrash.
Proof.
  intros s g rest HI Hn. destruct rest as [|[a b] rest'].
  - cbn [advance_active fst snd]. split; [exact (finish_inv s g [] HI Hn)|discriminate].
  - pose proof (active_cached s g _ HI Hn) as Hc. unfold advance_active.
    rewrite (read_ok_inv s 0 b HI Hc). cbn [fst snd]. split; [|discriminate].
    exact (gens_inv s 0 g (GActive rest') _ HI Hn eq_refl).
Qed.

Lemma acquired_cached : forall s k, SInvX k s -> sc_cache (snd (acquire s)) <> None.
Proof. intros s k HI. destruct (acquire_inv s k HI) as (_ & C & _). rewrite C. discriminate. Qed.

Theorem sched_step_safe : forall s a, SInv s ->
  SInv (snd (sched_step s a)) /\ fst (sched_step s a) <> OCrash.
Proof.
  intros s a HI.
  destruct a as [c so sto eno fl|g|g| | |i|i v| |n|]; cbn [sched_step].
  - (* start: a new generator object, nothing runs *)
    cbn [fst snd]. split; [|discriminate]. apply start_inv; exact HI.
  - (* advance *)
    destruct (nth_error (sc_gens s) g) as [gs|] eqn:En; [|split; [exact HI|discriminate]].
    destruct gs as [[[[[c so] sto] eno] fl]|rest|].
    + (* first next(): enter the context, compute the frames for the CURRENT length *)
      destruct (acquire_inv s 0 HI) as (I1 & C1 & G1 & X1 & D1 & L1).
      destruct (acquire s) as [m s1]. cbn [fst snd] in *.
      assert (N1: nth_error (sc_gens s1) g = Some (GNew (c, so, sto, eno, fl))) by (rewrite G1; exact En).
      destruct (iterindices (sc_len s1) c so sto eno fl) as [frames|e].
      * apply advance_safe.
        -- exact (activate_inv s1 0 g _ frames I1 N1).
        -- cbn [set_gens sc_gens]. exact (nth_replace_same _ _ _ _ N1).
      * cbn [fst snd]. split; [|discriminate]. apply release_inv. exact (newdone_inv s1 1 g _ I1 N1).
    + exact (advance_safe s g rest HI En).
    + cbn [fst snd]. split; [exact HI|discriminate].
  - (* close *)
    destruct (nth_error (sc_gens s) g) as [[pr|rest|]|] eqn:En; cbn [fst snd]; (split; [|discriminate]); try exact HI.
    + exact (newdone_inv s 0 g pr HI En).
    + exact (finish_inv s g rest HI En).
  - (* enter a context *)
    destruct (acquire_inv s 0 HI) as (I1 & C1 & G1 & X1 & D1 & L1).
    destruct (acquire s) as [m s1]. cbn [fst snd] in *. split; [|discriminate]. exact (ctx_push s1 0 m I1).
  - (* exit *)
    destruct (sc_ctx s) as [|m rest] eqn:Ectx; cbn [fst snd]; (split; [|discriminate]); [exact HI|].
    apply release_inv. exact (ctx_pop s 0 m rest HI Ectx).
  - (* read an element *)
    pose proof (acquired_cached s 0 HI) as Hc. destruct (acquire_inv s 0 HI) as (I1 & C1 & G1 & X1 & D1 & L1).
    destruct (acquire s) as [m s1]. cbn [fst snd] in *. rewrite (read_ok_inv s1 1 _ I1 Hc). cbn [fst snd].
    split; [|discriminate]. apply release_inv. exact I1.
  - (* write an element *)
    pose proof (acquired_cached s 0 HI) as Hc. destruct (acquire_inv s 0 HI) as (I1 & C1 & G1 & X1 & D1 & L1).
    destruct (acquire s) as [m s1]. cbn [fst snd] in *. rewrite (read_ok_inv s1 1 _ I1 Hc). cbn [fst snd].
    split; [|discriminate]. apply release_inv. apply data_inv. exact I1.
  - (* an access for which NumPy raises *)
    destruct (acquire_inv s 0 HI) as (I1 & C1 & G1 & X1 & D1 & L1).
    destruct (acquire s) as [m s1]. cbn [fst snd] in *. split; [|discriminate]. apply release_inv. exact I1.
  - (* the length changes: the shared map is renewed at the new length, the old one is closed *)
    destruct HI as (Hu & Hc). destruct (sc_cache s) as [m|] eqn:Ec; cbn [fst snd]; (split; [|discriminate]).
    + destruct Hc as [Hp Ho]. unfold SInv, SInvX. cbn [sc_users sc_gens sc_ctx sc_open sc_cache sc_len].
      split; [exact Hu|]. split; [exact Hp|]. rewrite Ho, remove_single. reflexivity.
    + unfold SInv, SInvX. cbn [sc_users sc_gens sc_ctx sc_open sc_cache sc_len]. split; assumption.
  - (* the data file cannot be opened *)
    destruct (sc_cache s) as [c|] eqn:Ec; [|cbn [fst snd]; split; [exact HI|discriminate]].
    pose proof (acquired_cached s 0 HI) as Hc. destruct (acquire_inv s 0 HI) as (I1 & C1 & G1 & X1 & D1 & L1).
    destruct (acquire s) as [m s1]. cbn [fst snd] in *. rewrite (read_ok_inv s1 1 _ I1 Hc). cbn [fst snd].
    split; [|discriminate]. apply release_inv. exact I1.
Qed.

Theorem sched_run_safe : forall acts s, SInv s ->
  SInv (snd (sched_run s acts)) /\ ~ In OCrash (fst (sched_run s acts)).
Proof.
  induction acts as [|a acts IH]; intros s HI; cbn [sched_run]; [split; [exact HI|intros []]|].
  destruct (sched_step_safe s a HI) as [H1 H2]. destruct (sched_step s a) as [o s1]. cbn [fst snd] in *.
  destruct (IH s1 H1) as [H3 H4]. destruct (sched_run s1 acts) as [os s2]. cbn [fst snd] in *.
  split; [exact H3|]. intros [E|E]; [congruence|exact (H4 E)].
Qed.

Lemma sinv_init : forall n k, SInv (sched_init n k).
Proof. intros. unfold SInv, SInvX, sched_init. cbn. repeat split. Qed.

(* when all generators and contexts are finished no map / file handle remains open *)
Theorem no_leak : forall s, SInv s -> count_active (sc_gens s) = 0%nat -> sc_ctx s = [] ->
  sc_cache s = None /\ sc_open s = [] /\ sc_users s = 0%nat.
Proof.
  intros s (Hu & Hc) Hcnt Hx. rewrite Hcnt, Hx in Hu. cbn in Hu.
  destruct (sc_cache s) as [m|] eqn:Ec; [destruct Hc; lia|]. destruct Hc. repeat split; assumption.
Qed.

(* the element / chunk accesses used by the property files *)
Lemma acquire_spec : forall s, SInv s ->
  sc_gens (snd (acquire s)) = sc_gens s /\ sc_ctx (snd (acquire s)) = sc_ctx s /\
  sc_data (snd (acquire s)) = sc_data s /\ forall hi, read_ok (snd (acquire s)) hi = true.
Proof.
  intros s HI. pose proof (acquired_cached s 0 HI) as Hc. destruct (acquire_inv s 0 HI) as (I1 & C1 & G1 & X1 & D1 & L1).
  repeat split; try assumption. intros hi. exact (read_ok_inv _ 1 hi I1 Hc).
Qed.
