From Coq Require Import ZArith List Bool Lia.
From Darr Require Import Base Gen_frames Sched.
Import ListNotations.
Open Scope Z_scope.

Definition active (g : gstate) : nat := match g with GActive _ _ => 1 | _ => 0 end.
Fixpoint count_active (l : list gstate) : nat :=
  match l with [] => 0 | g :: t => active g + count_active t end.
Definition holds (m : nat) (g : gstate) : Prop := match g with GActive m' _ => m' = m | _ => True end.

(* the protocol invariant: the cached map exists exactly while somebody uses it, it is
   the only open one, and every user holds that very map *)
Definition SInv (s : sched) : Prop :=
  sc_users s = (count_active (sc_gens s) + length (sc_ctx s))%nat /\
  match sc_cache s with
  | Some m => (0 < sc_users s)%nat /\ sc_open s = [m] /\ Forall (holds m) (sc_gens s) /\
              Forall (fun x => x = m) (sc_ctx s)
  | None => sc_users s = 0%nat /\ sc_open s = []
  end.

Lemma count_replace : forall l g x old, nth_error l g = Some old ->
  (count_active (replace_nth g x l) + active old = count_active l + active x)%nat.
Proof.
  induction l as [|y l IH]; intros g x old H; destruct g; cbn in *; try discriminate.
  - inversion H; subst. lia.
  - specialize (IH _ x _ H). lia.
Qed.

Lemma Forall_replace : forall (P : gstate -> Prop) l g x, Forall P l -> P x -> Forall P (replace_nth g x l).
Proof.
  intros P l. induction l as [|y l IH]; intros g x Hl Hx; destruct g; cbn; try constructor;
    inversion Hl; subst; try assumption. apply IH; assumption.
Qed.

Lemma count_app : forall a b, count_active (a ++ b) = (count_active a + count_active b)%nat.
Proof. induction a as [|x a IH]; intros b; cbn; [reflexivity|]. rewrite IH. lia. Qed.

Lemma mem_nat_refl : forall m l, mem_nat m (m :: l) = true.
Proof. intros. cbn. rewrite Nat.eqb_refl. reflexivity. Qed.

Lemma remove_self : forall m, remove_nat m [m] = [].
Proof. intros. cbn. rewrite Nat.eqb_refl. reflexivity. Qed.

Lemma active_none : forall l, count_active l = 0%nat -> Forall (fun g => forall m r, g <> GActive m r) l.
Proof.
  induction l as [|g l IH]; intros H; constructor.
  - destruct g; cbn in H; try discriminate; intros; discriminate.
  - apply IH. destruct g; cbn in H; lia.
Qed.

(* acquire / release preserve the shape that the invariant needs *)
Lemma acquire_spec : forall s, SInv s ->
  let '(m, s1) := acquire s in
  sc_cache s1 = Some m /\ sc_open s1 = [m] /\ sc_users s1 = S (sc_users s) /\
  sc_gens s1 = sc_gens s /\ sc_ctx s1 = sc_ctx s /\ sc_data s1 = sc_data s /\ sc_len s1 = sc_len s /\
  Forall (holds m) (sc_gens s) /\ Forall (fun x => x = m) (sc_ctx s) /\ mem_nat m (sc_open s1) = true.
Proof.
  intros s [Hu Hc]. unfold acquire. destruct (sc_cache s) as [m|] eqn:E.
  - destruct Hc as (Hpos & Hop & Hg & Hx). cbn. rewrite Hop. repeat split; try assumption; try reflexivity.
    cbn. rewrite Nat.eqb_refl. reflexivity.
  - destruct Hc as (H0 & Hop). cbn. rewrite Hop. repeat split; try reflexivity.
    + assert (count_active (sc_gens s) = 0%nat) by lia.
      pose proof (active_none _ H) as Hn. eapply Forall_impl; [|exact Hn]. cbn. intros g Hg.
      destruct g; cbn; try exact I. exfalso. eapply Hg. reflexivity.
    + assert (length (sc_ctx s) = 0%nat) by lia. destruct (sc_ctx s); [constructor|discriminate].
    + cbn. rewrite Nat.eqb_refl. reflexivity.
Qed.

(* a state with one user too many (someone just finished) becomes invariant again by release *)
Lemma release_inv : forall s m,
  sc_cache s = Some m -> sc_open s = [m] ->
  sc_users s = S (count_active (sc_gens s) + length (sc_ctx s)) ->
  Forall (holds m) (sc_gens s) -> Forall (fun x => x = m) (sc_ctx s) ->
  SInv (release s).
Proof.
  intros s m Hc Hop Hu Hg Hx. unfold release. rewrite Hu.
  destruct (count_active (sc_gens s) + length (sc_ctx s))%nat eqn:E.
  - rewrite Hc. unfold SInv. cbn. rewrite Hop, remove_self. split; [lia|]. split; reflexivity.
  - unfold SInv. cbn. rewrite Hc. split; [lia|]. repeat split; try assumption. lia.
Qed.

Lemma start_inv : forall s fr, SInv s -> SInv (set_gens s (sc_gens s ++ [GNew fr])).
Proof.
  intros s fr [Hu Hc]. unfold SInv, set_gens. cbn [sc_users sc_gens sc_ctx sc_cache sc_open].
  rewrite count_app. cbn [count_active active]. split; [lia|].
  destruct (sc_cache s) as [m|]; [|exact Hc]. destruct Hc as (A & B & C & D).
  split; [exact A|]. split; [exact B|]. split; [|exact D].
  apply Forall_app. split; [exact C|]. constructor; [exact I|constructor].
Qed.

Theorem sched_step_safe : forall s a, SInv s ->
  SInv (snd (sched_step s a)) /\ fst (sched_step s a) <> OCrash.
Proof.
  intros s a HI. pose proof HI as [Hu Hc].
  destruct a as [c so sto eno fl|g|g| | |i|i v|]; cbn [sched_step].
  - (* start: a new generator object, nothing runs *)
    destruct (iterindices (sc_len s) c so sto eno fl) as [frames|e]; cbn [fst snd]; (split; [|discriminate]);
      apply start_inv; exact HI.
  - (* advance *)
    destruct (nth_error (sc_gens s) g) as [gs|] eqn:En; [|split; [exact HI|discriminate]].
    assert (Adv: forall s0 m rest,
              sc_cache s0 = Some m -> sc_open s0 = [m] ->
              nth_error (sc_gens s0) g = Some (GActive m rest) ->
              sc_users s0 = (count_active (sc_gens s0) + length (sc_ctx s0))%nat ->
              Forall (holds m) (sc_gens s0) -> Forall (fun x => x = m) (sc_ctx s0) ->
              SInv (snd (advance_active s0 g m rest)) /\ fst (advance_active s0 g m rest) <> OCrash).
    { intros s0 m rest C0 O0 N0 U0 G0 X0. unfold advance_active. destruct rest as [|[a b] rest'].
      - cbn [fst snd]. split; [|discriminate]. apply (release_inv _ m); cbn [set_gens sc_cache sc_open sc_users sc_gens sc_ctx]; try assumption.
        + pose proof (count_replace _ g GDone _ N0) as Hc0. cbn [active] in Hc0. lia.
        + apply Forall_replace; [assumption|exact I].
      - rewrite O0, mem_nat_refl. cbn [fst snd]. split; [|discriminate].
        unfold SInv, set_gens. cbn [sc_users sc_gens sc_ctx sc_cache sc_open]. rewrite C0.
        pose proof (count_replace _ g (GActive m rest') _ N0) as Hc0. cbn [active] in Hc0.
        split; [lia|]. repeat split; try assumption.
        + assert (Hp: (0 < count_active (sc_gens s0))%nat).
          { clear - N0. revert g N0. induction (sc_gens s0) as [|y l IH]; intros g N0; destruct g; cbn in *; try discriminate.
            - inversion N0; subst. cbn. lia.
            - specialize (IH _ N0). lia. }
          lia.
        + apply Forall_replace; [assumption|reflexivity]. }
    destruct gs as [frames|m rest|].
    + (* first next(): enter the context *)
      pose proof (acquire_spec s HI) as AS. destruct (acquire s) as [m s1].
      destruct AS as (C1 & O1 & U1 & G1 & X1 & D1 & L1 & Hg & Hx & M1).
      assert (N1: nth_error (sc_gens s1) g = Some (GNew frames)) by (rewrite G1; exact En).
      assert (Raise: SInv (release (set_gens s1 (replace_nth g GDone (sc_gens s1))))).
      { apply (release_inv _ m); cbn [set_gens sc_cache sc_open sc_users sc_gens sc_ctx]; try assumption.
        - pose proof (count_replace _ g GDone _ N1) as Hc0. cbn [active] in Hc0. rewrite U1, Hu, G1, X1 in *. lia.
        - rewrite G1. apply Forall_replace; [assumption|exact I].
        - rewrite X1. exact Hx. }
      assert (Go: SInv (snd (advance_active (set_gens s1 (replace_nth g (GActive m frames) (sc_gens s1))) g m frames)) /\
                  fst (advance_active (set_gens s1 (replace_nth g (GActive m frames) (sc_gens s1))) g m frames) <> OCrash).
      { apply Adv; cbn [set_gens sc_cache sc_open sc_users sc_gens sc_ctx]; try assumption.
        - clear - N1. revert g N1. induction (sc_gens s1) as [|y l IH]; intros g N1; destruct g; cbn in *; try discriminate; [reflexivity|].
          apply IH. exact N1.
        - pose proof (count_replace _ g (GActive m frames) _ N1) as Hc0. cbn [active] in Hc0. rewrite U1, Hu, G1, X1 in *. lia.
        - rewrite G1. apply Forall_replace; [assumption|reflexivity].
        - rewrite X1. exact Hx. }
      destruct frames as [|[a b] fr]; [exact Go|].
      destruct ((a =? -1) && (b =? -1) && match fr with [] => true | _ => false end) eqn:Emark.
      * (* the marker of invalid parameters *)
        apply andb_true_iff in Emark. destruct Emark as [Eab Efr]. apply andb_true_iff in Eab. destruct Eab as [Ea Eb].
        apply Z.eqb_eq in Ea, Eb. subst a b. destruct fr; [|discriminate]. cbn [fst snd]. split; [exact Raise|discriminate].
      * destruct a as [|pa|pa]; try exact Go. destruct pa; try exact Go. destruct b as [|pb|pb]; try exact Go.
        destruct pb; try exact Go. destruct fr; [cbn in Emark; discriminate|exact Go].
    + destruct (sc_cache s) as [m0|] eqn:Ecache.
      * destruct Hc as (Hpos & Hop & Hg & Hx).
        assert (m = m0). { rewrite Forall_forall in Hg. apply nth_error_In in En. exact (Hg _ En). }
        subst m0. apply Adv; assumption.
      * exfalso. destruct Hc as (H0 & _).
        assert ((0 < count_active (sc_gens s))%nat).
        { clear - En. revert g En. induction (sc_gens s) as [|y l IH]; intros g En; destruct g; cbn in *; try discriminate.
          - inversion En; subst. cbn. lia.
          - specialize (IH _ En). lia. }
        lia.
    + cbn [fst snd]. split; [exact HI|discriminate].
  - (* close *)
    destruct (nth_error (sc_gens s) g) as [[frames|m rest|]|] eqn:En; cbn [fst snd]; (split; [|discriminate]); try exact HI.
    + unfold SInv, set_gens. cbn [sc_users sc_gens sc_ctx sc_cache sc_open].
      pose proof (count_replace _ g GDone _ En) as Hc0. cbn [active] in Hc0. split; [lia|].
      destruct (sc_cache s) as [m0|]; [|exact Hc]. destruct Hc as (A & B & C & D).
      repeat split; try assumption. apply Forall_replace; [assumption|exact I].
    + destruct (sc_cache s) as [m0|] eqn:Ecache.
      * destruct Hc as (Hpos & Hop & Hg & Hx).
        assert (m = m0). { rewrite Forall_forall in Hg. apply nth_error_In in En. exact (Hg _ En). }
        subst m0. apply (release_inv _ m); cbn [set_gens sc_cache sc_open sc_users sc_gens sc_ctx]; try assumption.
        -- pose proof (count_replace _ g GDone _ En) as Hc0. cbn [active] in Hc0. lia.
        -- apply Forall_replace; [assumption|exact I].
      * exfalso. destruct Hc as (H0 & _).
        assert ((0 < count_active (sc_gens s))%nat).
        { clear - En. revert g En. induction (sc_gens s) as [|y l IH]; intros g En; destruct g; cbn in *; try discriminate.
          - inversion En; subst. cbn. lia.
          - specialize (IH _ En). lia. }
        lia.
  - (* enter a context *)
    pose proof (acquire_spec s HI) as AS. destruct (acquire s) as [m s1].
    destruct AS as (C1 & O1 & U1 & G1 & X1 & D1 & L1 & Hg & Hx & M1). cbn [fst snd]. split; [|discriminate].
    unfold SInv, set_ctx. cbn [sc_users sc_gens sc_ctx sc_cache sc_open length]. rewrite C1, U1, G1, X1.
    split; [lia|]. repeat split; try assumption; try lia. constructor; [reflexivity|exact Hx].
  - (* exit *)
    destruct (sc_ctx s) as [|m rest] eqn:Ectx; cbn [fst snd]; (split; [|discriminate]); [exact HI|].
    destruct (sc_cache s) as [m0|] eqn:Ecache.
    + destruct Hc as (Hpos & Hop & Hg & Hx). inversion Hx as [|? ? Hm Hrest]; subst.
      apply (release_inv _ m0); cbn [set_ctx sc_cache sc_open sc_users sc_gens sc_ctx]; try assumption.
      cbn [length] in Hu. lia.
    + exfalso. destruct Hc as (H0 & _). cbn [length] in Hu. lia.
  - (* read an element *)
    pose proof (acquire_spec s HI) as AS. destruct (acquire s) as [m s1].
    destruct AS as (C1 & O1 & U1 & G1 & X1 & D1 & L1 & Hg & Hx & M1). rewrite M1. cbn [fst snd]. split; [|discriminate].
    apply (release_inv _ m); try assumption; [rewrite U1, Hu, G1, X1; reflexivity|rewrite G1; exact Hg|rewrite X1; exact Hx].
  - (* write an element *)
    pose proof (acquire_spec s HI) as AS. destruct (acquire s) as [m s1].
    destruct AS as (C1 & O1 & U1 & G1 & X1 & D1 & L1 & Hg & Hx & M1). rewrite M1. cbn [fst snd]. split; [|discriminate].
    apply (release_inv _ m); cbn [set_data sc_cache sc_open sc_users sc_gens sc_ctx]; try assumption;
      [rewrite U1, Hu, G1, X1; reflexivity|rewrite G1; exact Hg|rewrite X1; exact Hx].
  - (* an access for which NumPy raises *)
    pose proof (acquire_spec s HI) as AS. destruct (acquire s) as [m s1].
    destruct AS as (C1 & O1 & U1 & G1 & X1 & D1 & L1 & Hg & Hx & M1). cbn [fst snd]. split; [|discriminate].
    apply (release_inv _ m); try assumption; [rewrite U1, Hu, G1, X1; reflexivity|rewrite G1; exact Hg|rewrite X1; exact Hx].
Qed.

Theorem sched_run_safe : forall acts s, SInv s ->
  SInv (snd (sched_run s acts)) /\ ~ In OCrash (fst (sched_run s acts)).
Proof.
  induction acts as [|a acts IH]; intros s HI; cbn [sched_run]; [split; [exact HI|intros []]|].
  destruct (sched_step_safe s a HI) as [H1 H2]. destruct (sched_step s a) as [o s1]. cbn [fst snd] in *.
  destruct (IH s1 H1) as [H3 H4]. destruct (sched_run s1 acts) as [os s2]. cbn [fst snd] in *.
  split; [exact H3|]. intros [E|E]; [congruence|exact (H4 E)].
Qed.

Lemma sinv_init : forall n k, SInv (sched_init n k).
Proof. intros. unfold SInv, sched_init. cbn. split; [reflexivity|split; reflexivity]. Qed.

(* when all generators and contexts are finished no map / file handle remains open *)
Theorem no_leak : forall s, SInv s -> count_active (sc_gens s) = 0%nat -> sc_ctx s = [] ->
  sc_cache s = None /\ sc_open s = [] /\ sc_users s = 0%nat.
Proof.
  intros s [Hu Hc] Hg Hx. rewrite Hg, Hx in Hu. cbn in Hu. destruct (sc_cache s) as [m|].
  - destruct Hc as (Hpos & _). lia.
  - destruct Hc as (_ & Hop). repeat split; assumption.
Qed.
