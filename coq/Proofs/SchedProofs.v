From Coq Require Import ZArith List Bool Lia.
From Darr Require Import Base Gen_frames Sched.
Import ListNotations.
Open Scope Z_scope.

Definition active (g : gstate) : nat := match g with GActive _ _ => 1 | _ => 0 end.
Fixpoint count_active (l : list gstate) : nat :=
  match l with [] => 0 | g :: t => active g + count_active t end.
(* the map a generator reads from is open *)
Definition gmap_open (open : list nat) (g : gstate) : Prop :=
  match g with GActive m _ => In m open | _ => True end.

(* The protocol invariant, with `k` users that are in the middle of an access and one map `ex`
   whose last holder may just have finished:
   - the user count is exact;
   - every active generator's map is open (memory safety);
   - the cached map exists only while it has users, and is open;
   - every open map is the cached one or is still held by a generator (no leak). *)
Definition SInvX (k : nat) (ex : option nat) (s : sched) : Prop :=
  sc_users s = (k + count_active (sc_gens s) + length (sc_ctx s))%nat /\
  Forall (gmap_open (sc_open s)) (sc_gens s) /\
  match sc_cache s with
  | Some m => (0 < sc_users s)%nat /\ In m (sc_open s)
  | None => sc_users s = 0%nat
  end /\
  (forall m, In m (sc_open s) -> ex = Some m \/ sc_cache s = Some m \/ held m (sc_gens s) = true).
Definition SInv (s : sched) : Prop := SInvX 0 None s.

(* ---------- list facts ---------- *)
Lemma count_replace : forall l g x old, nth_error l g = Some old ->
  (count_active (replace_nth g x l) + active old = count_active l + active x)%nat.
Proof.
  induction l as [|y l IH]; intros g x old H; destruct g; cbn in *; try discriminate.
  - inversion H; subst. lia.
  - specialize (IH _ x _ H). lia.
Qed.

Lemma Forall_replace : forall (P : gstate -> Prop) l g x, Forall P l -> P x -> Forall P (replace_nth g x l).
Proof.
  intros P l. induction l as [|y l IH]; intros g x Hl Hx; destruct g; cbn; try constructor;
    inversion Hl; subst; try assumption. apply IH; assumption.
Qed.

Lemma count_app : forall a b, count_active (a ++ b) = (count_active a + count_active b)%nat.
Proof. induction a as [|x a IH]; intros b; cbn; [reflexivity|]. rewrite IH. lia. Qed.

Lemma mem_in : forall m l, In m l -> mem_nat m l = true.
Proof.
  induction l as [|y l IH]; intros H; [destruct H|]. cbn. destruct H as [->|H].
  - rewrite Nat.eqb_refl. reflexivity.
  - rewrite (IH H). apply orb_true_r.
Qed.

Lemma in_remove : forall x m l, In x (remove_nat m l) <-> In x l /\ x <> m.
Proof.
  induction l as [|y l IH]; cbn; [tauto|]. destruct (Nat.eqb m y) eqn:E.
  - apply Nat.eqb_eq in E. subst y. rewrite IH. split; [tauto|]. intros [[->|H] Hn]; [contradiction|tauto].
  - apply Nat.eqb_neq in E. cbn. rewrite IH. split; [intros [->|[H Hn]]; [split; [tauto|congruence]|tauto]|tauto].
Qed.

Lemma held_count : forall m l, held m l = true -> (0 < count_active l)%nat.
Proof.
  unfold held. induction l as [|g l IH]; cbn; [discriminate|]. intros H. apply orb_true_iff in H. destruct H as [H|H].
  - destruct g; cbn in *; try discriminate. lia.
  - specialize (IH H). lia.
Qed.

Lemma held_app : forall m a b, held m (a ++ b) = held m a || held m b.
Proof. intros. unfold held. apply existsb_app. Qed.

(* replacing a generator state: who holds what *)
Lemma held_replace : forall m l g x old, nth_error l g = Some old ->
  held m (replace_nth g x l) = true -> holds_b m x = true \/ held m l = true.
Proof.
  unfold held. induction l as [|y l IH]; intros g x old H Hh; destruct g; cbn in *; try discriminate.
  - apply orb_true_iff in Hh. destruct Hh as [Hh|Hh]; [left; exact Hh|right]. rewrite Hh. apply orb_true_r.
  - apply orb_true_iff in Hh. destruct Hh as [Hh|Hh]; [right; rewrite Hh; reflexivity|].
    destruct (IH _ _ _ H Hh) as [A|A]; [left; exact A|right; rewrite A; apply orb_true_r].
Qed.
Lemma held_replace_keep : forall m l g x old, nth_error l g = Some old ->
  held m l = true -> holds_b m old = false \/ holds_b m x = true -> held m (replace_nth g x l) = true.
Proof.
  unfold held. induction l as [|y l IH]; intros g x old H Hh Hk; destruct g; cbn in *; try discriminate.
  - inversion H; subst y. apply orb_true_iff in Hh. destruct Hk as [Hk|Hk].
    + rewrite Hk in Hh. destruct Hh as [Hh|Hh]; [discriminate|]. rewrite Hh. apply orb_true_r.
    + rewrite Hk. reflexivity.
  - apply orb_true_iff in Hh. destruct Hh as [Hh|Hh]; [rewrite Hh; reflexivity|].
    rewrite (IH _ _ _ H Hh Hk). apply orb_true_r.
Qed.
Lemma held_replace_self : forall m l g old r, nth_error l g = Some old -> held m (replace_nth g (GActive m r) l) = true.
Proof.
  unfold held. induction l as [|y l IH]; intros g old r H; destruct g; cbn in *; try discriminate.
  - rewrite Nat.eqb_refl. reflexivity.
  - rewrite (IH _ _ r H). apply orb_true_r.
Qed.

Lemma nth_active_pos : forall l g m r, nth_error l g = Some (GActive m r) -> (0 < count_active l)%nat.
Proof.
  induction l as [|y l IH]; intros g m r H; destruct g; cbn in *; try discriminate.
  - inversion H; subst. cbn. lia.
  - specialize (IH _ _ _ H). lia.
Qed.

Lemma gmap_open_mono : forall o1 o2 l, (forall m, In m o1 -> In m o2) ->
  Forall (gmap_open o1) l -> Forall (gmap_open o2) l.
Proof.
  intros o1 o2 l Hs H. eapply Forall_impl; [|exact H]. intros g Hg. destruct g; cbn in *; auto.
Qed.

Lemma inactive_gmap : forall o l, count_active l = 0%nat -> Forall (gmap_open o) l.
Proof.
  induction l as [|g l IH]; intros H; constructor.
  - destruct g; cbn in *; try exact I. lia.
  - apply IH. destruct g; cbn in H; lia.
Qed.

(* ---------- acquire / release / finishing ---------- *)
Lemma acquire_inv : forall s k ex, SInvX k ex s ->
  SInvX (S k) ex (snd (acquire s)) /\
  sc_cache (snd (acquire s)) = Some (fst (acquire s)) /\ In (fst (acquire s)) (sc_open (snd (acquire s))) /\
  sc_gens (snd (acquire s)) = sc_gens s /\ sc_ctx (snd (acquire s)) = sc_ctx s /\
  sc_data (snd (acquire s)) = sc_data s /\ sc_len (snd (acquire s)) = sc_len s.
Proof.
  intros s k ex (Hu & Hg & Hc & Hl). unfold acquire. destruct (sc_cache s) as [m|] eqn:E; cbn [fst snd].
  - destruct Hc as [Hp Hin]. unfold SInvX. cbn [sc_users sc_gens sc_ctx sc_open sc_cache sc_data sc_len].
    repeat split; try assumption; try reflexivity; try lia.
  - unfold SInvX. cbn [sc_users sc_gens sc_ctx sc_open sc_cache sc_data sc_len].
    repeat split; try reflexivity; try lia; try (left; reflexivity).
    + eapply gmap_open_mono; [|exact Hg]. intros x Hx. right. exact Hx.
    + intros x [<-|Hx]; [right; left; reflexivity|].
      destruct (Hl x Hx) as [A|[A|A]]; [left; exact A|discriminate|right; right; exact A].
Qed.

Lemma release_inv : forall s k ex, SInvX (S k) ex s -> SInvX k ex (release s).
Proof.
  intros s k ex (Hu & Hg & Hc & Hl). unfold release. destruct (sc_users s) as [|[|u]] eqn:Eu; [lia| |].
  - (* the last user: close *)
    assert (k = 0%nat /\ count_active (sc_gens s) = 0%nat /\ length (sc_ctx s) = 0%nat) as (-> & Hcnt & Hlen) by lia.
    destruct (sc_cache s) as [m|] eqn:E; [|lia].
    unfold SInvX. cbn [sc_users sc_gens sc_ctx sc_open sc_cache]. repeat split; try lia.
    + apply inactive_gmap. exact Hcnt.
    + intros x Hx. apply in_remove in Hx. destruct Hx as [Hx Hn].
      destruct (Hl x Hx) as [A|[A|A]]; [left; exact A|congruence|right; right; exact A].
  - unfold SInvX. cbn [sc_users sc_gens sc_ctx sc_open sc_cache]. repeat split; try assumption; try lia.
    destruct (sc_cache s); [destruct Hc; split; [lia|assumption]|lia].
Qed.

Lemma held_in : forall m r l, In (GActive m r) l -> held m l = true.
Proof.
  unfold held. intros m r l H. apply existsb_exists. exists (GActive m r). split; [exact H|]. cbn. apply Nat.eqb_refl.
Qed.

Lemma drop_ref_inv : forall s k m, SInvX k (Some m) s -> SInvX k None (drop_ref s m).
Proof.
  intros s k m (Hu & Hg & Hc & Hl). unfold drop_ref.
  destruct ((match sc_cache s with Some c => Nat.eqb c m | None => false end) || held m (sc_gens s)) eqn:E.
  - unfold SInvX. repeat split; try assumption. intros x Hx. destruct (Hl x Hx) as [A|[A|A]].
    + injection A as <-. apply orb_true_iff in E. destruct E as [E|E].
      * destruct (sc_cache s) as [c|]; [|discriminate]. apply Nat.eqb_eq in E. subst c. right; left; reflexivity.
      * right; right; exact E.
    + right; left; exact A.
    + right; right; exact A.
  - apply orb_false_iff in E. destruct E as [Ec Eh].
    unfold SInvX, set_open. cbn [sc_users sc_gens sc_ctx sc_open sc_cache]. repeat split.
    + exact Hu.
    + apply Forall_forall. intros g Hgin. rewrite Forall_forall in Hg. specialize (Hg g Hgin).
      destruct g as [fr|m' r|]; cbn in *; auto. apply in_remove. split; [exact Hg|]. intros ->.
      rewrite (held_in _ _ _ Hgin) in Eh. discriminate.
    + destruct (sc_cache s) as [c|]; [|exact Hc]. destruct Hc as [Hp Hin]. split; [exact Hp|].
      apply in_remove. split; [exact Hin|]. intros ->. rewrite Nat.eqb_refl in Ec. discriminate.
    + intros x Hx. apply in_remove in Hx. destruct Hx as [Hx Hn]. destruct (Hl x Hx) as [A|[A|A]].
      * congruence.
      * right; left; exact A.
      * right; right; exact A.
Qed.

Lemma done_inv : forall s k g m rest, SInvX k None s -> nth_error (sc_gens s) g = Some (GActive m rest) ->
  SInvX (S k) (Some m) (set_gens s (replace_nth g GDone (sc_gens s))).
Proof.
  intros s k g m rest (Hu & Hg & Hc & Hl) Hn. unfold SInvX, set_gens. cbn [sc_users sc_gens sc_ctx sc_open sc_cache].
  pose proof (count_replace _ g GDone _ Hn) as Hcr. cbn [active] in Hcr. repeat split.
  - lia.
  - apply Forall_replace; [exact Hg|exact I].
  - exact Hc.
  - intros x Hx. destruct (Hl x Hx) as [A|[A|A]]; [discriminate|right; left; exact A|].
    destruct (Nat.eq_dec x m) as [->|Hne]; [left; reflexivity|]. right; right.
    apply (held_replace_keep x _ g GDone _ Hn A). left. cbn. apply Nat.eqb_neq. congruence.
Qed.

Lemma newdone_inv : forall s k ex g fr, SInvX k ex s -> nth_error (sc_gens s) g = Some (GNew fr) ->
  SInvX k ex (set_gens s (replace_nth g GDone (sc_gens s))).
Proof.
  intros s k ex g fr (Hu & Hg & Hc & Hl) Hn. unfold SInvX, set_gens. cbn [sc_users sc_gens sc_ctx sc_open sc_cache].
  pose proof (count_replace _ g GDone _ Hn) as Hcr. cbn [active] in Hcr. repeat split.
  - lia.
  - apply Forall_replace; [exact Hg|exact I].
  - exact Hc.
  - intros x Hx. destruct (Hl x Hx) as [A|[A|A]]; [left; exact A|right; left; exact A|right; right].
    apply (held_replace_keep x _ g GDone _ Hn A). left. reflexivity.
Qed.

Lemma activate_inv : forall s k ex g fr m frames, SInvX (S k) ex s ->
  nth_error (sc_gens s) g = Some (GNew fr) -> In m (sc_open s) ->
  SInvX k ex (set_gens s (replace_nth g (GActive m frames) (sc_gens s))).
Proof.
  intros s k ex g fr m frames (Hu & Hg & Hc & Hl) Hn Hin. unfold SInvX, set_gens. cbn [sc_users sc_gens sc_ctx sc_open sc_cache].
  pose proof (count_replace _ g (GActive m frames) _ Hn) as Hcr. cbn [active] in Hcr. repeat split.
  - lia.
  - apply Forall_replace; [exact Hg|exact Hin].
  - exact Hc.
  - intros x Hx. destruct (Hl x Hx) as [A|[A|A]]; [left; exact A|right; left; exact A|right; right].
    apply (held_replace_keep x _ g (GActive m frames) _ Hn A). left. reflexivity.
Qed.

Lemma chunk_inv : forall s k ex g m r r', SInvX k ex s -> nth_error (sc_gens s) g = Some (GActive m r) ->
  SInvX k ex (set_gens s (replace_nth g (GActive m r') (sc_gens s))).
Proof.
  intros s k ex g m r r' (Hu & Hg & Hc & Hl) Hn. unfold SInvX, set_gens. cbn [sc_users sc_gens sc_ctx sc_open sc_cache].
  pose proof (count_replace _ g (GActive m r') _ Hn) as Hcr. cbn [active] in Hcr. repeat split.
  - lia.
  - apply Forall_replace; [exact Hg|]. rewrite Forall_forall in Hg. exact (Hg _ (nth_error_In _ _ Hn)).
  - exact Hc.
  - intros x Hx. destruct (Hl x Hx) as [A|[A|A]]; [left; exact A|right; left; exact A|right; right].
    destruct (Nat.eq_dec x m) as [->|Hne].
    + apply (held_replace_self m _ g _ r' Hn).
    + apply (held_replace_keep x _ g (GActive m r') _ Hn A). left. cbn. apply Nat.eqb_neq. congruence.
Qed.

Lemma start_inv : forall s k ex fr, SInvX k ex s -> SInvX k ex (set_gens s (sc_gens s ++ [GNew fr])).
Proof.
  intros s k ex fr (Hu & Hg & Hc & Hl). unfold SInvX, set_gens. cbn [sc_users sc_gens sc_ctx sc_open sc_cache].
  rewrite count_app. cbn [count_active active]. repeat split.
  - lia.
  - apply Forall_app. split; [exact Hg|]. constructor; [exact I|constructor].
  - exact Hc.
  - intros x Hx. destruct (Hl x Hx) as [A|[A|A]]; [left; exact A|right; left; exact A|right; right].
    rewrite held_app, A. reflexivity.
Qed.

Lemma data_inv : forall s k ex c, SInvX k ex s -> SInvX k ex (set_data s c).
Proof. intros s k ex c H. exact H. Qed.

Lemma ctx_push : forall s k ex m, SInvX (S k) ex s -> SInvX k ex (set_ctx s (m :: sc_ctx s)).
Proof.
  intros s k ex m (Hu & Hg & Hc & Hl). unfold SInvX, set_ctx. cbn [sc_users sc_gens sc_ctx sc_open sc_cache length].
  repeat split; try assumption. lia.
Qed.
Lemma ctx_pop : forall s k ex m rest, SInvX k ex s -> sc_ctx s = m :: rest -> SInvX (S k) ex (set_ctx s rest).
Proof.
  intros s k ex m rest (Hu & Hg & Hc & Hl) Hx. unfold SInvX, set_ctx. cbn [sc_users sc_gens sc_ctx sc_open sc_cache].
  rewrite Hx in Hu. cbn [length] in Hu. repeat split; try assumption. lia.
Qed.

(* a generator finishes: leave the context, drop the reference *)
Lemma finish_inv : forall s g m rest, SInv s -> nth_error (sc_gens s) g = Some (GActive m rest) ->
  SInv (drop_ref (release (set_gens s (replace_nth g GDone (sc_gens s)))) m).
Proof.
  intros s g m rest HI Hn. apply drop_ref_inv, release_inv. exact (done_inv s 0 g m rest HI Hn).
Qed.

Lemma advance_safe : forall s g m rest, SInv s -> nth_error (sc_gens s) g = Some (GActive m rest) ->
  SInv (snd (advance_active s g m rest)) /\ fst (advance_active s g m rest) <> OCrash.
Proof.
  intros s g m rest HI Hn. unfold advance_active. destruct rest as [|[a b] rest'].
  - cbn [fst snd]. split; [exact (finish_inv s g m [] HI Hn)|discriminate].
  - destruct HI as (Hu & Hg & Hc & Hl). pose proof Hg as Hg'. rewrite Forall_forall in Hg'.
    pose proof (Hg' _ (nth_error_In _ _ Hn)) as Hin. cbn in Hin. rewrite (mem_in _ _ Hin). cbn [fst snd].
    split; [|discriminate]. exact (chunk_inv s 0 None g m _ rest' (conj Hu (conj Hg (conj Hc Hl))) Hn).
Qed.

Lemma nth_replace_same : forall (l : list gstate) g x old, nth_error l g = Some old ->
  nth_error (replace_nth g x l) g = Some x.
Proof.
  induction l as [|y l IH]; intros g x old H; destruct g; cbn in *; try discriminate; [reflexivity|].
  exact (IH _ _ _ H).
Qed.

Theorem sched_step_safe : forall s a, SInv s ->
  SInv (snd (sched_step s a)) /\ fst (sched_step s a) <> OCrash.
Proof.
  intros s a HI.
  destruct a as [c so sto eno fl|g|g| | |i|i v| |n|]; cbn [sched_step].
  - (* start: a new generator object, nothing runs *)
    cbn [fst snd]. split; [|discriminate]. apply start_inv; exact HI.
  - (* advance *)
    destruct (nth_error (sc_gens s) g) as [gs|] eqn:En; [|split; [exact HI|discriminate]].
    destruct gs as [[[[[c so] sto] eno] fl]|m rest|].
    + (* first next(): enter the context, compute the frames for the CURRENT length *)
      destruct (acquire_inv s 0 None HI) as (I1 & C1 & O1 & G1 & X1 & D1 & L1).
      destruct (acquire s) as [m s1]. cbn [fst snd] in *.
      assert (N1: nth_error (sc_gens s1) g = Some (GNew (c, so, sto, eno, fl))) by (rewrite G1; exact En).
      destruct (iterindices (sc_len s1) c so sto eno fl) as [frames|e].
      * apply advance_safe.
        -- exact (activate_inv s1 0 None g _ m frames I1 N1 O1).
        -- cbn [set_gens sc_gens]. exact (nth_replace_same _ _ _ _ N1).
      * cbn [fst snd]. split; [|discriminate]. apply release_inv. exact (newdone_inv s1 1 None g _ I1 N1).
    + exact (advance_safe s g m rest HI En).
    + cbn [fst snd]. split; [exact HI|discriminate].
  - (* close *)
    destruct (nth_error (sc_gens s) g) as [[pr|m rest|]|] eqn:En; cbn [fst snd]; (split; [|discriminate]); try exact HI.
    + exact (newdone_inv s 0 None g pr HI En).
    + exact (finish_inv s g m rest HI En).
  - (* enter a context *)
    destruct (acquire_inv s 0 None HI) as (I1 & C1 & O1 & G1 & X1 & D1 & L1).
    destruct (acquire s) as [m s1]. cbn [fst snd] in *. split; [|discriminate]. exact (ctx_push s1 0 None m I1).
  - (* exit *)
    destruct (sc_ctx s) as [|m rest] eqn:Ectx; cbn [fst snd]; (split; [|discriminate]); [exact HI|].
    apply release_inv. exact (ctx_pop s 0 None m rest HI Ectx).
  - (* read an element *)
    destruct (acquire_inv s 0 None HI) as (I1 & C1 & O1 & G1 & X1 & D1 & L1).
    destruct (acquire s) as [m s1]. cbn [fst snd] in *. rewrite (mem_in _ _ O1). cbn [fst snd]. split; [|discriminate].
    apply release_inv. exact I1.
  - (* write an element *)
    destruct (acquire_inv s 0 None HI) as (I1 & C1 & O1 & G1 & X1 & D1 & L1).
    destruct (acquire s) as [m s1]. cbn [fst snd] in *. rewrite (mem_in _ _ O1). cbn [fst snd]. split; [|discriminate].
    apply release_inv. apply data_inv. exact I1.
  - (* an access for which NumPy raises *)
    destruct (acquire_inv s 0 None HI) as (I1 & C1 & O1 & G1 & X1 & D1 & L1).
    destruct (acquire s) as [m s1]. cbn [fst snd] in *. split; [|discriminate]. apply release_inv. exact I1.
  - (* the length changes: the shared map is renewed *)
    destruct HI as (Hu & Hg & Hc & Hl). destruct (sc_cache s) as [m|] eqn:Ec; cbn [fst snd]; (split; [|discriminate]).
    + destruct Hc as [Hp Hin]. unfold SInv, SInvX. cbn [sc_users sc_gens sc_ctx sc_open sc_cache]. repeat split.
      * exact Hu.
      * apply Forall_forall. intros g Hgin. rewrite Forall_forall in Hg. specialize (Hg g Hgin).
        destruct g as [fr|m' r|]; cbn in *; auto. right.
        destruct (held m (sc_gens s)) eqn:Eh; [exact Hg|]. apply in_remove. split; [exact Hg|]. intros ->.
        rewrite (held_in _ _ _ Hgin) in Eh. discriminate.
      * exact Hp.
      * left. reflexivity.
      * intros x [<-|Hx]; [right; left; reflexivity|]. right; right.
        destruct (held m (sc_gens s)) eqn:Eh.
        -- destruct (Hl x Hx) as [A|[A|A]]; [discriminate|injection A as <-; exact Eh|exact A].
        -- apply in_remove in Hx. destruct Hx as [Hx Hn]. destruct (Hl x Hx) as [A|[A|A]]; [discriminate|congruence|exact A].
    + unfold SInv, SInvX. cbn [sc_users sc_gens sc_ctx sc_open sc_cache]. repeat split; assumption.
  - (* the data file cannot be opened *)
    destruct (sc_cache s) as [c|] eqn:Ec; [|cbn [fst snd]; split; [exact HI|discriminate]].
    destruct (acquire_inv s 0 None HI) as (I1 & C1 & O1 & G1 & X1 & D1 & L1).
    destruct (acquire s) as [m s1]. cbn [fst snd] in *. rewrite (mem_in _ _ O1). cbn [fst snd]. split; [|discriminate].
    apply release_inv. exact I1.
Qed.

Theorem sched_run_safe : forall acts s, SInv s ->
  SInv (snd (sched_run s acts)) /\ ~ In OCrash (fst (sched_run s acts)).
Proof.
  induction acts as [|a acts IH]; intros s HI; cbn [sched_run]; [split; [exact HI|intros []]|].
  destruct (sched_step_safe s a HI) as [H1 H2]. destruct (sched_step s a) as [o s1]. cbn [fst snd] in *.
  destruct (IH s1 H1) as [H3 H4]. destruct (sched_run s1 acts) as [os s2]. cbn [fst snd] in *.
  split; [exact H3|]. intros [E|E]; [congruence|exact (H4 E)].
Qed.

Lemma sinv_init : forall n k, SInv (sched_init n k).
Proof.
  intros. unfold SInv, SInvX, sched_init. cbn.
  split; [reflexivity|split; [constructor|split; [reflexivity|intros m H; destruct H]]].
Qed.

(* when all generators and contexts are finished no map / file handle remains open *)
Theorem no_leak : forall s, SInv s -> count_active (sc_gens s) = 0%nat -> sc_ctx s = [] ->
  sc_cache s = None /\ sc_open s = [] /\ sc_users s = 0%nat.
Proof.
  intros s (Hu & Hg & Hc & Hl) Hcnt Hx. rewrite Hcnt, Hx in Hu. cbn in Hu.
  destruct (sc_cache s) as [m|] eqn:Ec; [destruct Hc; lia|]. repeat split; try assumption.
  destruct (sc_open s) as [|x o]; [reflexivity|]. exfalso.
  destruct (Hl x (or_introl eq_refl)) as [A|[A|A]]; try discriminate.
  pose proof (held_count _ _ A). lia.
Qed.

(* the element / chunk accesses used by the property files *)
Lemma acquire_spec : forall s, SInv s ->
  sc_gens (snd (acquire s)) = sc_gens s /\ sc_ctx (snd (acquire s)) = sc_ctx s /\
  sc_data (snd (acquire s)) = sc_data s /\ mem_nat (fst (acquire s)) (sc_open (snd (acquire s))) = true.
Proof.
  intros s HI. destruct (acquire_inv s 0 None HI) as (I1 & C1 & O1 & G1 & X1 & D1 & L1).
  repeat split; try assumption. apply mem_in. exact O1.
Qed.
