(* EffectOrder.v -- reading of the effect vocabulary for darr.Array, against the
   skeletons GENERATED from darr/array.py (Gen_effects.v).  No proofs here. *)
From Coq Require Import ZArith List Bool String.
From Darr Require Import Base ArrayModel Skel Gen_effects.
Import ListNotations.
Open Scope string_scope.

Definition kind_of (e : eff) : kind :=
  match e with
  | EWriteData _ => KWrite | EAppendData _ => KAppend | ETruncData _ => KTrunc
  | EPokeData _ _ => KPoke | EWriteDescr _ => KDescr | EWriteReadme _ => KReadme
  | EWriteMeta => KMeta | EUnlinkMeta => KUnlinkMeta
  end.

(* vocabulary calls of array.py that are not expanded: array.tofile(path) rewrites the
   data file, Array._append adds to its end through the open descriptor,
   os.truncate / fd.truncate cut it, _write_jsondict rewrites the description,
   _update_readmetxt the README *)
Definition aprim (n : string) : list kind :=
  if String.eqb n "tofile" then [KWrite]
  else if String.eqb n "_append" then [KAppend]
  else if String.eqb n "truncate" then [KTrunc]
  else if String.eqb n "_write_jsondict" then [KDescr]
  else if String.eqb n "_update_readmetxt" then [KReadme]
  else [].

(* vocabulary calls that are expanded to the skeleton generated for them *)
Definition asub (n : string) : option sk :=
  if String.eqb n "_update_len" then Some sk_update_len
  else if String.eqb n "_update_arrayinfo" then Some sk_update_arrayinfo
  else None.

(* inside Array._append the tofile call writes at the end of the open file *)
Definition fdprim (n : string) : list kind := if String.eqb n "tofile" then [KAppend] else [].
Definition nosub (n : string) : option sk := None.

Definition aruns := runs aprim asub.

Definition oc_match {A} (r : res A) (o : outc) : Prop :=
  match r with Ok _ => o = Normal \/ o = Returned | Err _ => o = Raised end.
