(* Sched.v -- the shared memory map of one Array object and its users: iterchunks
   generators, open_array() contexts, element reads and writes.  Follows Array._open_array
   (after the user-counting fix): whoever finds no map opens one; every user increments a
   counter on entry and decrements it on exit; the LAST one closes map and file.  When the
   length changes while the array is open (append / truncate inside a context) the map is
   renewed.
   Touching a closed map is the outcome OCrash.  No proofs. *)
From Coq Require Import ZArith List Bool.
From Darr Require Import Base Gen_frames.
Import ListNotations.
Open Scope Z_scope.

(* contents of the (large) array: element i holds i unless overridden by a write *)
Definition contents := list (Z * Z).
Fixpoint cget (c : contents) (i : Z) : Z :=
  match c with [] => i | (j, v) :: t => if j =? i then v else cget t i end.
Definition cset (c : contents) (i v : Z) : contents := (i, v) :: c.

(* iterchunks parameters: chunklen, stepsize, startindex, endindex, include_remainder *)
Definition gparams := (Z * option Z * option Z * option Z * bool)%type.
Inductive gstate :=
| GNew (p : gparams)                           (* created, not yet advanced: nothing has run *)
| GActive (map : nat) (rest : list (Z * Z))    (* inside `with _open_array()`, holding map *)
| GDone.

Record sched := mkSched {
  sc_cache : option nat;        (* self._memmap: id of the cached map *)
  sc_open : list nat;           (* maps (and their file handles) that are open *)
  sc_next : nat;                (* fresh map id *)
  sc_users : nat;               (* self._memmapusers *)
  sc_gens : list gstate;        (* generators, by index *)
  sc_ctx : list nat;            (* maps held by the open_array() contexts, innermost first *)
  sc_data : contents;
  sc_len : Z
}.

Definition sched_init (n : Z) (ngens : nat) : sched :=
  mkSched None [] 0 0 [] [] [] n.

Inductive action :=
| AStart (chunklen : Z) (stepsize : option Z) (startindex endindex : option Z) (remainder : bool)
| AAdvance (g : nat)
| AClose (g : nat)
| AEnter | AExit
| ARead (i : Z)
| AWrite (i v : Z)
| AAccessErr         (* a[idx] / a[idx] = v for which NumPy raises: enter, raise, leave *)
| AResize (n : Z)    (* a completed append / truncate_array: the length becomes n (Array._update_len) *)
| AOpenFail.         (* an access while the data file cannot be opened (it raises before anyone is counted);
                        with a map already open the access goes through that map and succeeds *)

Inductive outcome :=
| ONothing
| OChunk (a b : Z) (vals : list Z)    (* frame and its (possibly overridden) values at the ends *)
| OStop                                (* StopIteration *)
| OValue (v : Z)
| ORaise                               (* ValueError from iterindices etc. *)
| OCrash.

Fixpoint mem_nat (x : nat) (l : list nat) : bool :=
  match l with [] => false | y :: t => Nat.eqb x y || mem_nat x t end.
Fixpoint remove_nat (x : nat) (l : list nat) : list nat :=
  match l with [] => [] | y :: t => if Nat.eqb x y then remove_nat x t else y :: remove_nat x t end.

(* entering _open_array *)
Definition acquire (s : sched) : nat * sched :=
  match sc_cache s with
  | Some m => (m, mkSched (Some m) (sc_open s) (sc_next s) (S (sc_users s)) (sc_gens s) (sc_ctx s) (sc_data s) (sc_len s))
  | None => let m := sc_next s in
            (m, mkSched (Some m) (m :: sc_open s) (S m) (S (sc_users s)) (sc_gens s) (sc_ctx s) (sc_data s) (sc_len s))
  end.
(* leaving it: the last user closes *)
Definition release (s : sched) : sched :=
  match sc_users s with
  | S O => match sc_cache s with
           | Some m => mkSched None (remove_nat m (sc_open s)) (sc_next s) O (sc_gens s) (sc_ctx s) (sc_data s) (sc_len s)
           | None => mkSched None (sc_open s) (sc_next s) O (sc_gens s) (sc_ctx s) (sc_data s) (sc_len s)
           end
  | S u => mkSched (sc_cache s) (sc_open s) (sc_next s) u (sc_gens s) (sc_ctx s) (sc_data s) (sc_len s)
  | O => s
  end.

Definition set_gens (s : sched) (g : list gstate) : sched :=
  mkSched (sc_cache s) (sc_open s) (sc_next s) (sc_users s) g (sc_ctx s) (sc_data s) (sc_len s).
Definition set_ctx (s : sched) (c : list nat) : sched :=
  mkSched (sc_cache s) (sc_open s) (sc_next s) (sc_users s) (sc_gens s) c (sc_data s) (sc_len s).
Definition set_data (s : sched) (c : contents) : sched :=
  mkSched (sc_cache s) (sc_open s) (sc_next s) (sc_users s) (sc_gens s) (sc_ctx s) c (sc_len s).

Definition set_open (s : sched) (o : list nat) : sched :=
  mkSched (sc_cache s) o (sc_next s) (sc_users s) (sc_gens s) (sc_ctx s) (sc_data s) (sc_len s).

(* which generators still hold (a reference to) map m *)
Definition holds_b (m : nat) (g : gstate) : bool := match g with GActive m' _ => Nat.eqb m' m | _ => false end.
Definition held (m : nat) (gens : list gstate) : bool := existsb (holds_b m) gens.

(* a finished generator drops its reference to map m; a map that is neither the cached one nor
   held by another generator is closed with it (reference counting).  Maps other than the cached
   one exist only after the length changed while the array was open (AResize). *)
Definition drop_ref (s : sched) (m : nat) : sched :=
  if (match sc_cache s with Some c => Nat.eqb c m | None => false end) || held m (sc_gens s) then s
  else set_open s (remove_nat m (sc_open s)).

Fixpoint replace_nth {A} (n : nat) (x : A) (l : list A) : list A :=
  match l, n with
  | [], _ => []
  | _ :: t, O => x :: t
  | y :: t, S n' => y :: replace_nth n' x t
  end.

(* a chunk is reported by its frame and the values at its two ends and in the middle *)
Definition chunk_obs (c : contents) (a b : Z) : list Z :=
  if a <? b then [cget c a; cget c ((a + b) / 2); cget c (b - 1)] else [].

(* advancing an active generator: read the next frame through its map, or finish *)
Definition advance_active (s : sched) (g : nat) (m : nat) (rest : list (Z * Z)) : outcome * sched :=
  match rest with
  | (a, b) :: rest' =>
      if mem_nat m (sc_open s)
      then (OChunk a b (chunk_obs (sc_data s) a b), set_gens s (replace_nth g (GActive m rest') (sc_gens s)))
      else (OCrash, s)
  | [] => (OStop, drop_ref (release (set_gens s (replace_nth g GDone (sc_gens s)))) m)
  end.

Definition sched_step (s : sched) (a : action) : outcome * sched :=
  match a with
  | AStart c so sto eno fl =>
      (* creating the generator object runs nothing; iterindices is evaluated at the first
         next(), with the length the array has THEN; an invalid parameter set shows then *)
      (ONothing, set_gens s (sc_gens s ++ [GNew (c, so, sto, eno, fl)]))
  | AAdvance g =>
      match nth_error (sc_gens s) g with
      | Some (GNew (c, so, sto, eno, fl)) =>
          let '(m, s1) := acquire s in
          match iterindices (sc_len s1) c so sto eno fl with
          | Ok frames => advance_active (set_gens s1 (replace_nth g (GActive m frames) (sc_gens s1))) g m frames
          | Err _ => (* enters _open_array, iterindices raises, the with block is left again *)
              (ORaise, release (set_gens s1 (replace_nth g GDone (sc_gens s1))))
          end
      | Some (GActive m rest) => advance_active s g m rest
      | Some GDone => (OStop, s)
      | None => (ONothing, s)
      end
  | AClose g =>
      match nth_error (sc_gens s) g with
      | Some (GActive m _) => (ONothing, drop_ref (release (set_gens s (replace_nth g GDone (sc_gens s)))) m)
      | Some (GNew _) => (ONothing, set_gens s (replace_nth g GDone (sc_gens s)))
      | _ => (ONothing, s)
      end
  | AEnter => let '(m, s1) := acquire s in (ONothing, set_ctx s1 (m :: sc_ctx s1))
  | AExit =>
      match sc_ctx s with
      | m :: rest => (ONothing, release (set_ctx s rest))
      | [] => (ONothing, s)
      end
  | ARead i =>
      let '(m, s1) := acquire s in
      if mem_nat m (sc_open s1) then (OValue (cget (sc_data s1) i), release s1) else (OCrash, s1)
  | AWrite i v =>
      let '(m, s1) := acquire s in
      if mem_nat m (sc_open s1) then (ONothing, release (set_data s1 (cset (sc_data s1) i v))) else (OCrash, s1)
  | AAccessErr =>
      let '(m, s1) := acquire s in (ORaise, release s1)
  | AOpenFail =>
      match sc_cache s with
      | None => (ORaise, s)
      | Some _ => let '(m, s1) := acquire s in
                  if mem_nat m (sc_open s1) then (OValue (cget (sc_data s1) 0), release s1) else (OCrash, s1)
      end
  | AResize n =>
      (* _update_len: when the array is open its memory map is renewed for the new length; the old
         map is not closed, it lives on while a generator still reads from it *)
      match sc_cache s with
      | None => (ONothing, mkSched None (sc_open s) (sc_next s) (sc_users s) (sc_gens s) (sc_ctx s) (sc_data s) n)
      | Some m =>
          let m' := sc_next s in
          let rest := if held m (sc_gens s) then sc_open s else remove_nat m (sc_open s) in
          (ONothing, mkSched (Some m') (m' :: rest) (S m') (sc_users s) (sc_gens s) (sc_ctx s) (sc_data s) n)
      end
  end.

Fixpoint sched_run (s : sched) (acts : list action) : list outcome * sched :=
  match acts with
  | [] => ([], s)
  | a :: rest => let '(o, s1) := sched_step s a in
                 let '(os, s2) := sched_run s1 rest in (o :: os, s2)
  end.
