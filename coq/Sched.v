(* Sched.v -- the shared memory map of one Array object and its users: iterchunks
   generators, open_array() contexts, element reads and writes.  Follows Array._open_array
   (after the user-counting fix): whoever finds no map opens one; every user increments a
   counter on entry and decrements it on exit; the LAST one closes map and file.  When the
   length changes while the array is open (append / truncate inside a context or while a
   generator runs) the map is renewed, and generators read every chunk through the object's
   CURRENT map (so a chunk is clipped to the current length).
   Every map knows the length it was made for.  Reading through a closed map, or through a map
   beyond the present end of the file (SIGBUS), is the outcome OCrash.  No proofs. *)
From Coq Require Import ZArith List Bool.
From Darr Require Import Base Gen_frames.
Import ListNotations.
Open Scope Z_scope.

(* contents of the (large) array: element i holds i unless overridden by a write *)
Definition contents := list (Z * Z).
Fixpoint cget (c : contents) (i : Z) : Z :=
  match c with [] => i | (j, v) :: t => if j =? i then v else cget t i end.
Definition cset (c : contents) (i v : Z) : contents := (i, v) :: c.
(* the length becomes n: what was written at or beyond n is gone (an element appended later
   holds its index again) *)
Definition ctrunc (c : contents) (n : Z) : contents := filter (fun p => fst p <? n) c.

(* iterchunks parameters: chunklen, stepsize, startindex, endindex, include_remainder *)
Definition gparams := (Z * option Z * option Z * option Z * bool)%type.
Inductive gstate :=
| GNew (p : gparams)                           (* created, not yet advanced: nothing has run *)
| GActive (rest : list (Z * Z))               (* inside `with _open_array()`; reads through self._memmap *)
| GDone.

Record sched := mkSched {
  sc_cache : option nat;        (* self._memmap: id of the cached map *)
  sc_open : list (nat * Z);     (* maps (and their file handles) that are open, with their mapped length *)
  sc_next : nat;                (* fresh map id *)
  sc_users : nat;               (* self._memmapusers *)
  sc_gens : list gstate;        (* generators, by index *)
  sc_ctx : list nat;            (* maps held by the open_array() contexts, innermost first *)
  sc_data : contents;
  sc_len : Z
}.

Definition sched_init (n : Z) (ngens : nat) : sched :=
  mkSched None [] 0 0 [] [] [] n.

Inductive action :=
| AStart (chunklen : Z) (stepsize : option Z) (startindex endindex : option Z) (remainder : bool)
| AAdvance (g : nat)
| AClose (g : nat)
| AEnter | AExit
| ARead (i : Z)
| AWrite (i v : Z)
| AAccessErr         (* a[idx] / a[idx] = v for which NumPy raises: enter, raise, leave *)
| AResize (n : Z)    (* a completed append / truncate_array: the length becomes n (Array._update_len) *)
| AOpenFail.         (* an access while the data file cannot be opened (it raises before anyone is counted);
                        with a map already open the access goes through that map and succeeds *)

Inductive outcome :=
| ONothing
| OChunk (a b : Z) (vals : list Z)    (* frame and its (possibly overridden) values at the ends *)
| OStop                                (* StopIteration *)
| OValue (v : Z)
| ORaise                               (* ValueError from iterindices etc. *)
| OCrash.

Fixpoint map_len (x : nat) (l : list (nat * Z)) : option Z :=
  match l with [] => None | (y, n) :: t => if Nat.eqb x y then Some n else map_len x t end.
Fixpoint remove_nat (x : nat) (l : list (nat * Z)) : list (nat * Z) :=
  match l with [] => [] | (y, n) :: t => if Nat.eqb x y then remove_nat x t else (y, n) :: remove_nat x t end.

(* entering _open_array *)
Definition acquire (s : sched) : nat * sched :=
  match sc_cache s with
  | Some m => (m, mkSched (Some m) (sc_open s) (sc_next s) (S (sc_users s)) (sc_gens s) (sc_ctx s) (sc_data s) (sc_len s))
  | None => let m := sc_next s in
            (m, mkSched (Some m) ((m, sc_len s) :: sc_open s) (S m) (S (sc_users s)) (sc_gens s) (sc_ctx s) (sc_data s) (sc_len s))
  end.
(* leaving it: the last user closes *)
Definition release (s : sched) : sched :=
  match sc_users s with
  | S O => match sc_cache s with
           | Some m => mkSched None (remove_nat m (sc_open s)) (sc_next s) O (sc_gens s) (sc_ctx s) (sc_data s) (sc_len s)
           | None => mkSched None (sc_open s) (sc_next s) O (sc_gens s) (sc_ctx s) (sc_data s) (sc_len s)
           end
  | S u => mkSched (sc_cache s) (sc_open s) (sc_next s) u (sc_gens s) (sc_ctx s) (sc_data s) (sc_len s)
  | O => s
  end.

Definition set_gens (s : sched) (g : list gstate) : sched :=
  mkSched (sc_cache s) (sc_open s) (sc_next s) (sc_users s) g (sc_ctx s) (sc_data s) (sc_len s).
Definition set_ctx (s : sched) (c : list nat) : sched :=
  mkSched (sc_cache s) (sc_open s) (sc_next s) (sc_users s) (sc_gens s) c (sc_data s) (sc_len s).
Definition set_data (s : sched) (c : contents) : sched :=
  mkSched (sc_cache s) (sc_open s) (sc_next s) (sc_users s) (sc_gens s) (sc_ctx s) c (sc_len s).

(* reading elements [.., hi) through the object's current map: the map must be open, and what is
   touched (NumPy clips a slice to the mapped length) must lie within the file as it is NOW *)
Definition cur_maplen (s : sched) : option Z :=
  match sc_cache s with Some m => map_len m (sc_open s) | None => None end.
Definition read_ok (s : sched) (hi : Z) : bool :=
  match cur_maplen s with Some L => Z.min hi L <=? sc_len s | None => false end.

Fixpoint replace_nth {A} (n : nat) (x : A) (l : list A) : list A :=
  match l, n with
  | [], _ => []
  | _ :: t, O => x :: t
  | y :: t, S n' => y :: replace_nth n' x t
  end.

(* a chunk is reported by its frame and the values at its two ends and in the middle *)
Definition chunk_obs (c : contents) (a b : Z) : list Z :=
  if a <? b then [cget c a; cget c ((a + b) / 2); cget c (b - 1)] else [].

(* advancing an active generator: read the next frame through the current map (clipped to its
   length), or finish *)
Definition advance_active (s : sched) (g : nat) (rest : list (Z * Z)) : outcome * sched :=
  match rest with
  | (a, b) :: rest' =>
      if read_ok s b
      then let L := match cur_maplen s with Some L => L | None => 0 end in
           (OChunk (Z.min a L) (Z.min b L) (chunk_obs (sc_data s) (Z.min a L) (Z.min b L)),
            set_gens s (replace_nth g (GActive rest') (sc_gens s)))
      else (OCrash, s)
  | [] => (OStop, release (set_gens s (replace_nth g GDone (sc_gens s))))
  end.

Definition sched_step (s : sched) (a : action) : outcome * sched :=
  match a with
  | AStart c so sto eno fl =>
      (* creating the generator object runs nothing; iterindices is evaluated at the first
         next(), with the length the array has THEN; an invalid parameter set shows then *)
      (ONothing, set_gens s (sc_gens s ++ [GNew (c, so, sto, eno, fl)]))
  | AAdvance g =>
      match nth_error (sc_gens s) g with
      | Some (GNew (c, so, sto, eno, fl)) =>
          let '(m, s1) := acquire s in
          match iterindices (sc_len s1) c so sto eno fl with
          | Ok frames => advance_active (set_gens s1 (replace_nth g (GActive frames) (sc_gens s1))) g frames
          | Err _ => (* enters _open_array, iterindices raises, the with block is left again *)
              (ORaise, release (set_gens s1 (replace_nth g GDone (sc_gens s1))))
          end
      | Some (GActive rest) => advance_active s g rest
      | Some GDone => (OStop, s)
      | None => (ONothing, s)
      end
  | AClose g =>
      match nth_error (sc_gens s) g with
      | Some (GActive _) => (ONothing, release (set_gens s (replace_nth g GDone (sc_gens s))))
      | Some (GNew _) => (ONothing, set_gens s (replace_nth g GDone (sc_gens s)))
      | _ => (ONothing, s)
      end
  | AEnter => let '(m, s1) := acquire s in (ONothing, set_ctx s1 (m :: sc_ctx s1))
  | AExit =>
      match sc_ctx s with
      | m :: rest => (ONothing, release (set_ctx s rest))
      | [] => (ONothing, s)
      end
  | ARead i =>
      let '(m, s1) := acquire s in
      if read_ok s1 (i + 1) then (OValue (cget (sc_data s1) i), release s1) else (OCrash, s1)
  | AWrite i v =>
      let '(m, s1) := acquire s in
      if read_ok s1 (i + 1) then (ONothing, release (set_data s1 (cset (sc_data s1) i v))) else (OCrash, s1)
  | AAccessErr =>
      let '(m, s1) := acquire s in (ORaise, release s1)
  | AOpenFail =>
      match sc_cache s with
      | None => (ORaise, s)
      | Some _ => let '(m, s1) := acquire s in
                  if read_ok s1 1 then (OValue (cget (sc_data s1) 0), release s1) else (OCrash, s1)
      end
  | AResize n =>
      (* _update_len: when the array is open its memory map is renewed for the new length; nobody
         keeps the old one (generators look the map up at every step), so it is closed *)
      match sc_cache s with
      | None => (ONothing, mkSched None (sc_open s) (sc_next s) (sc_users s) (sc_gens s) (sc_ctx s)
                                   (ctrunc (sc_data s) n) n)
      | Some m =>
          let m' := sc_next s in
          (ONothing, mkSched (Some m') ((m', n) :: remove_nat m (sc_open s)) (S m') (sc_users s) (sc_gens s)
                             (sc_ctx s) (ctrunc (sc_data s) n) n)
      end
  end.

Fixpoint sched_run (s : sched) (acts : list action) : list outcome * sched :=
  match acts with
  | [] => ([], s)
  | a :: rest => let '(o, s1) := sched_step s a in
                 let '(os, s2) := sched_run s1 rest in (o :: os, s2)
  end.
