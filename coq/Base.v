(* Base.v -- shared vocabulary of the Darr model (hand-written). *)
From Coq Require Import ZArith List Bool String Lia.
Import ListNotations.
Open Scope Z_scope.

(* Python exception classes the properties distinguish *)
Inductive exc := ValueError | TypeError | OSError | IndexError | KeyError
               | AppendDataError | OtherError.
Inductive res (A : Type) := Ok (a : A) | Err (e : exc).
Arguments Ok {A} a. Arguments Err {A} e.

Definition exc_code (e : exc) : Z :=
  match e with ValueError => 1 | TypeError => 2 | OSError => 3 | IndexError => 4
             | KeyError => 5 | AppendDataError => 6 | OtherError => 7 end.

(* `for _ in range(n)` : n-fold iteration of a loop body over the loop state *)
Fixpoint loop {S : Type} (n : nat) (body : S -> S) (s : S) : S :=
  match n with O => s | S n' => loop n' body (body s) end.

(* the 13 numeric types *)
Inductive numtype := Int8 | Int16 | Int32 | Int64 | UInt8 | UInt16 | UInt32 | UInt64
                   | Float16 | Float32 | Float64 | Complex64 | Complex128.
Definition all_numtypes : list numtype :=
  [Int8; Int16; Int32; Int64; UInt8; UInt16; UInt32; UInt64;
   Float16; Float32; Float64; Complex64; Complex128].
Definition itemsize (t : numtype) : Z :=
  match t with
  | Int8 | UInt8 => 1 | Int16 | UInt16 | Float16 => 2
  | Int32 | UInt32 | Float32 => 4 | Int64 | UInt64 | Float64 | Complex64 => 8
  | Complex128 => 16 end.
(* unit that is byte-swapped as a whole: complex numbers are two floats *)
Definition swapunit (t : numtype) : Z :=
  match t with Complex64 => 4 | Complex128 => 8 | _ => itemsize t end.
Definition numtype_code (t : numtype) : Z :=
  match t with Int8 => 0 | Int16 => 1 | Int32 => 2 | Int64 => 3 | UInt8 => 4
  | UInt16 => 5 | UInt32 => 6 | UInt64 => 7 | Float16 => 8 | Float32 => 9
  | Float64 => 10 | Complex64 => 11 | Complex128 => 12 end.
Definition numtype_of_code (c : Z) : option numtype :=
  nth_error all_numtypes (Z.to_nat c).
Definition numtype_eqb (a b : numtype) : bool := numtype_code a =? numtype_code b.
Definition numtype_name (t : numtype) : string :=
  match t with Int8 => "int8" | Int16 => "int16" | Int32 => "int32" | Int64 => "int64"
  | UInt8 => "uint8" | UInt16 => "uint16" | UInt32 => "uint32" | UInt64 => "uint64"
  | Float16 => "float16" | Float32 => "float32" | Float64 => "float64"
  | Complex64 => "complex64" | Complex128 => "complex128" end%string.

Inductive byteorder := Little | Big.
Definition byteorder_eqb (a b : byteorder) : bool :=
  match a, b with Little, Little | Big, Big => true | _, _ => false end.
Definition byteorder_code (b : byteorder) : Z := match b with Little => 0 | Big => 1 end.
Inductive arrayorder := OrdC | OrdF.
Inductive mode := R | RW.
Definition mode_eqb (a b : mode) := match a, b with R, R | RW, RW => true | _, _ => false end.

Definition prodZ (l : list Z) : Z := fold_right Z.mul 1 l.

Fixpoint list_eqb {A} (eqb : A -> A -> bool) (a b : list A) : bool :=
  match a, b with
  | [], [] => true
  | x :: a', y :: b' => eqb x y && list_eqb eqb a' b'
  | _, _ => false
  end.
Definition zlist_eqb := list_eqb Z.eqb.

(* Python: len(a[:idx]) for a of length n (n >= 0) *)
Definition slice_len (idx n : Z) : Z :=
  if idx <? 0 then Z.max 0 (n + idx) else Z.min idx n.

(* JSON-ish file states: absent, present but not parseable, present with value *)
Inductive jfile (A : Type) := Absent | Torn | Val (a : A).
Arguments Absent {A}. Arguments Torn {A}. Arguments Val {A} a.
