(* C20 -- DataDir never modifies protected files and round-trips user files. *)
From Coq Require Import ZArith List Bool String.
From Darr Require Import Base Fs Gen_tables Proofs.FsProofs.
Import ListNotations.
Open Scope string_scope.
Open Scope Z_scope.
Open Scope list_scope.

(* whatever name a public mutator (write_txt, write_jsonfile/-dict, update_jsondict,
   delete_files, open_file in a mode other than plain 'r') is given: if that name
   RESOLVES (as the kernel resolves it: '.', '..', separators, symbolic links, absolute
   spellings) on or below a protected entry, the call raises OSError and the file system
   is unchanged *)
Theorem C20_protected : forall f base prot o s,
  mentions o s ->
  under_protected base prot (walk f (if sp_abs s then [] else base) (sp_comps s)) = true ->
  dd_step f base prot o = (Err OSError, f).
Proof. intros f base prot o s Hm Hu. apply (protected_refused f base prot o s Hm). apply guard_complete. exact Hu. Qed.
Print Assumptions C20_protected.

(* the unbounded family of spellings   ./ (n times)  x1/../ ... xk/../  NAME [/ below ...]
   of a protected NAME: all refused, nothing changed *)
Theorem C20_spellings : forall f base prot name n xs below o,
  In name prot ->
  (forall t, fs_get (base ++ [name]) f <> Some (FLink t)) ->
  (forall x t, In x xs -> fs_get (base ++ [x]) f <> Some (FLink t)) ->
  (forall q c, fs_get q f = Some c -> is_prefix (base ++ [name]) q = true -> forall t, c <> FLink t) ->
  let s := mkSp false (repeat CDot n ++ detours xs ++ CName name :: map CName below) in
  mentions o s ->
  dd_step f base prot o = (Err OSError, f).
Proof. exact protected_spellings_refused. Qed.
Print Assumptions C20_spellings.

(* the protected sets are the code's (GENERATED from Array._protectedfiles and
   RaggedArray._protectedfiles): for a ragged array they contain the two directories, so
   everything under values/ and indices/ is covered by C20_protected *)
Theorem C20_protected_sets :
  array_protectedfiles = ["README.txt"; "arraydescription.json"; "arrayvalues.bin"; "metadata.json"] /\
  ragged_protectedfiles = ["README.txt"; "arraydescription.json"; "indices"; "metadata.json"; "values"].
Proof. split; vm_compute; reflexivity. Qed.
Print Assumptions C20_protected_sets.

(* user files: what is written is what is read; an existing file is replaced only with
   overwrite=True; other paths are untouched; delete removes exactly the named file *)
Theorem C20_write_txt : forall f base prot s text ow,
  guard f base prot s false = false ->
  let t := target_of f base s in
  match fs_get t f with
  | None => dd_step f base prot (DWriteTxt s text ow) = (Ok tt, fs_set t (FFile text) f)
  | Some (FFile _) => dd_step f base prot (DWriteTxt s text ow) =
                      if ow then (Ok tt, fs_set t (FFile text) f) else (Err OSError, f)
  | Some _ => dd_step f base prot (DWriteTxt s text ow) = (Err OSError, f)
  end.
Proof. exact write_txt_roundtrip. Qed.
Print Assumptions C20_write_txt.

Theorem C20_fs_laws : forall p q n f,
  fs_get p (fs_set p n f) = Some n /\ fs_get p (fs_del p f) = None /\
  (path_eqb p q = false -> fs_get q (fs_set p n f) = fs_get q f /\ fs_get q (fs_del p f) = fs_get q f).
Proof.
  intros p q n f. split; [apply get_set_same|]. split; [apply get_del_same|].
  intros H. split; [apply get_set_other|apply get_del_other]; exact H.
Qed.
Print Assumptions C20_fs_laws.

(* non-vacuity *)
Example C20_example :
  let base := ["B"] in
  let f := [(base, FDir); (base ++ ["README.txt"], FFile [1]); (base ++ ["values"], FDir);
            (base ++ ["values"; "arrayvalues.bin"], FFile [2]); (base ++ ["lnk"], FLink (base ++ ["README.txt"]))] in
  let prot := ["README.txt"; "values"] in
  dd_step f base prot (DWriteTxt (mkSp false [CDot; CName "x"; CUp; CName "README.txt"]) [9] true) = (Err OSError, f) /\
  dd_step f base prot (DDelete [mkSp false [CName "values"; CName "arrayvalues.bin"]]) = (Err OSError, f) /\
  dd_step f base prot (DWriteTxt (mkSp false [CName "lnk"]) [9] true) = (Err OSError, f) /\
  dd_step f base prot (DWriteTxt (mkSp true [CName "B"; CName "README.txt"]) [9] true) = (Err OSError, f) /\
  fst (dd_step f base prot (DWriteTxt (mkSp false [CName "notes.txt"]) [9] false)) = Ok tt.
Proof. vm_compute. repeat split. Qed.
