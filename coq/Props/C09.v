(* C09 -- a failed Array append leaves exactly the completed chunks. *)
From Coq Require Import ZArith List Bool.
From Darr Require Import Base ArrayModel Spec Proofs.ArrayRefine Proofs.ArrayHist
     Skel Gen_effects EffectOrder Proofs.SkelProofs.
Import ListNotations.
Open Scope Z_scope.

(* For every start state (empty or not), rank, number of chunks, failure position and
   failure kind -- the iterable raises (CRaise), an item cannot be converted (CUnconv),
   has another trailing shape or rank (CGood with another tail), or the file system
   stops the write after any number k of bytes (CWriteFail .. k) -- the call fails,
   the directory is again related to the NumPy model holding the original rows
   followed by the rows of the chunks before the failure (so it is self-consistent on
   disk, the live handle agrees with it), and it opens normally. *)
Theorem C09_failed_append : forall w s cs g,
  Rel w s -> s_mode s = RW -> wf_op s (OpIterAppend cs) ->
  good_prefix (s_tail s) cs = (g, true) ->
  let w' := snd (step w (OpIterAppend cs)) in
  is_ok (fst (step w (OpIterAppend cs))) = false /\
  Rel w' (with_rows s (s_rows s ++ g)) /\
  (forall m, is_ok (open_dir (snd w') m) = true).
Proof. exact failed_append. Qed.
Print Assumptions C09_failed_append.

(* the live handle agrees with a fresh one afterwards *)
Theorem C09_live_is_fresh : forall w s m, Rel w s ->
  open_dir (snd w) m = Ok (mkHandle m (h_nt (fst w)) (h_bo (fst w)) (h_shape (fst w))) /\
  view_of (snd w) = Some (s_nt s, s_bo s, s_shape s, concat (s_rows s)).
Proof. exact fresh_agrees. Qed.
Print Assumptions C09_live_is_fresh.

(* non-vacuity: write failure in the middle of an element of the second chunk, from a
   non-empty and from an empty start *)
Definition ex_s : sarr := mkSarr Int16 Little OrdC [] [[1;0]] RW false.
Definition ex_w : world :=
  (mkHandle RW Int16 Little [1],
   mkDir (Some [1;0]) (Val (mkDescr Int16 Little [1] OrdC)) (Val (mkDescr Int16 Little [1] OrdC, false)) false).
Example C09_example :
  Rel ex_w ex_s /\
  let cs := [CGood [] [[2;0];[3;0]]; CWriteFail [] [[4;0];[5;0]] 3; CGood [] [[6;0]]] in
  good_prefix (s_tail ex_s) cs = ([[2;0];[3;0]], true) /\
  a_data (snd (snd (step ex_w (OpIterAppend cs)))) = Some [1;0;2;0;3;0] /\
  a_descr (snd (snd (step ex_w (OpIterAppend cs)))) = Val (mkDescr Int16 Little [3] OrdC).
Proof. unfold Rel, ex_w, ex_s; cbn. repeat split; try reflexivity; repeat constructor. Qed.
Definition ex_e : world :=
  (mkHandle RW Int16 Little [0],
   mkDir (Some []) (Val (mkDescr Int16 Little [0] OrdC)) (Val (mkDescr Int16 Little [0] OrdC, false)) false).
Example C09_example_empty_start :
  Rel ex_e (mkSarr Int16 Little OrdC [] [] RW false) /\
  a_data (snd (snd (step ex_e (OpIterAppend [CWriteFail [] [[4;0];[5;0]] 3])))) = Some [] /\
  a_data (snd (snd (step ex_e (OpIterAppend [CGood [] [[4;0]]; CRaise])))) = Some [4;0].
Proof. unfold Rel, ex_e; cbn. repeat split; try reflexivity; repeat constructor. Qed.

(* The recovery path as the present source spells it (tie by translation, see C17):
   Gen_effects.sk_iterappend is the control skeleton of Array.iterappend regenerated from
   darr/array.py on every run; the effect log of every call of the model -- every state,
   every fault plan -- is, kind by kind and in order, a run that skeleton admits: chunks
   appended, then (on failure) description, README, and the data file cut back; for an
   array that starts empty the first chunk is written through the path and cut to 0 when
   that write fails.  A step moved, dropped or added in iterappend / _append / _update_len
   changes Gen_effects.v and this no longer checks. *)
Theorem C09_recovery_order_from_source : forall h d cs r h' es,
  iterappend h d cs = (r, h', es) ->
  exists o, oc_match r o /\ aruns sk_iterappend o (map kind_of es).
Proof. exact iterappend_runs. Qed.
Print Assumptions C09_recovery_order_from_source.
