(* C04 -- RaggedArray histories equal a list-of-arrays model and persist. *)
From Coq Require Import ZArith List Bool.
From Darr Require Import Base ArrayModel RaggedModel Spec Gen_tables
     Proofs.ArrayRefine Proofs.RaggedBase Proofs.RaggedRefine Proofs.RaggedProps.
Import ListNotations.
Open Scope Z_scope.

(* creation (create_raggedarray = no subarrays, asraggedarray = any list of subarrays,
   any atom, dtype, index type, metadata) yields a state related to the model *)
Theorem C04_created : forall g, wf_srag g ->
  exists w, rcreate (g_nt g) (g_bo g) (g_atom g) (g_ity g) (g_subs g) (g_mode g) (g_meta g) = Ok w /\
            RRel w g.
Proof. exact rcreate_rel. Qed.
Print Assumptions C04_created.

(* every history of append / iterappend / truncate / mode change / reopen / metadata:
   the outcome of each step and the resulting state are the model's *)
Theorem C04_refines : forall os w g,
  RRel w g -> wf_rops g os ->
  rrun_outs w os = rspec_outs g os /\ RRel (rrun w os) (rspec_run g os).
Proof. exact rrun_refines. Qed.
Print Assumptions C04_refines.

(* ra[k]: for -len <= k < len exactly subarray k of the model (negative k from the end),
   IndexError outside, TypeError for a non-integer; the same through a fresh handle,
   which is related to the same model state *)
Theorem C04_getitem : forall w g, RRel w g ->
  rgetitem (fst w) (snd w) None = Err TypeError /\
  forall k, rgetitem (fst w) (snd w) (Some k) =
            match g_getitem g k with Some sub => Ok (concat sub) | None => Err IndexError end.
Proof. exact rgetitem_spec. Qed.
Print Assumptions C04_getitem.

Theorem C04_fresh_agrees : forall w g m, RRel w g ->
  exists h', ropen (snd w) m = Ok h' /\ RRel (h', snd w) (g_with_mode g m).
Proof. exact rfresh_agrees. Qed.
Print Assumptions C04_fresh_agrees.

(* iter_arrays(start, end, step) for ANY integers: the subarrays at range(start, end or len, step) in
   that order; IndexError as soon as an index falls outside -len .. len-1; ValueError for step 0 *)
Theorem C04_iter_arrays : forall w g start stop step, RRel w g ->
  riter_arrays (fst w) (snd w) start stop step =
  if step =? 0 then Err ValueError
  else collect (map (fun i => match g_getitem g i with Some sub => Ok (concat sub) | None => Err IndexError end)
                    (py_range start (match stop with Some e => e | None => Z.of_nat (length (g_subs g)) end) step)).
Proof. exact riter_arrays_spec. Qed.
Print Assumptions C04_iter_arrays.
Example C04_py_range : py_range 0 7 3 = [0; 3; 6] /\ py_range 5 (-1) (-2) = [5; 3; 1] /\ py_range 2 2 1 = [] /\
                       py_range (-2) 1 1 = [-2; -1; 0] /\ py_range 0 1 5 = [0].
Proof. vm_compute. repeat split; reflexivity. Qed.

(* the requested index type is the one stored (part of RRel: the indices array is
   related to si_of g whose type is g_ity g), for the 7 documented types -- the list
   the code checks is the GENERATED one *)
Theorem C04_index_types :
  supportedindextypes = map numtype_name [Int8; UInt8; Int16; UInt16; Int32; UInt32; Int64] /\
  forall t, In t [Int8; UInt8; Int16; UInt16; Int32; UInt32; Int64] -> index_type t = true.
Proof. split; [vm_compute; reflexivity|]. intros t H. cbn in H. intuition; subst; reflexivity. Qed.
Print Assumptions C04_index_types.

Theorem C04_indextype_stored : forall w g, RRel w g ->
  h_nt (rh_i (fst w)) = g_ity g /\
  exists sh, a_descr (r_indices (snd w)) = Val (mkDescr (g_ity g) Little sh OrdC).
Proof.
  intros w g (_ & HI & _). destruct HI as (_ & Hds & _ & _ & (_ & Hn & _) & _).
  split; [exact Hn|]. eexists. exact Hds.
Qed.
Print Assumptions C04_indextype_stored.

(* non-vacuity: [[1,2],[]] (int8 values, uint8 indices), truncate to 1 (removes only an
   empty subarray), then appends after truncating to 0 *)
Definition ex_g : srag := mkSrag Int8 Little [] UInt8 [[[1];[2]]; []] RW false.
Example C04_example :
  wf_srag ex_g /\
  match rcreate Int8 Little [] UInt8 (g_subs ex_g) RW false with
  | Ok w =>
      let os := [ROpTruncate (Some 1); ROpTruncate (Some 0); ROpIterAppend [RGood [] [[7]]; RGood [] []];
                 ROpIterAppend [RGood [2] [[9;9]]]] in
      wf_rops ex_g os /\ rrun_outs w os = [true; true; true; false] /\
      a_data (r_values (snd (rrun w os))) = Some [7] /\
      a_data (r_indices (snd (rrun w os))) = Some [0;1;1;1] /\
      rgetitem (fst (rrun w os)) (snd (rrun w os)) (Some (-1)) = Ok []
  | Err _ => False
  end.
Proof.
  unfold wf_srag. cbn. repeat split; repeat constructor; try discriminate; try (vm_compute; discriminate).
Qed.
